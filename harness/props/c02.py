"""C02 — fixed-column records never spill: each field parses back to what was written.

model      lean/PyTough/Model/Fixed.lean (preprocess_specification, parse_string, write_values_to_string,
           fit_value, '%' formatting on exact values) over the tables regenerated into lean/PyTough/Gen/Specs.lean
theorems   lean/PyTough/Props/C02.lean
tie        translator harness/translate/specs.py (tables + the real line_spec/spec_width) and the
           correspondence facet `fixed_fields`: for every field of every record kind of the four tables and a
           lattice of values, real write_values_to_string / parse_string vs the compiled model, text for text
oracle     a record of distinct sentinels with one field under test: every other field must parse back to its
           sentinel, the tested field to the value written (reals: to some precision <= the field's), or the
           write must raise
"""
import math, struct, itertools, contextlib, io
from fractions import Fraction
import core
from core import Result, hexs

ID = 'C02'
MODULE = 'PyTough.Props.C02'
TARGETS = ['PyTough.Props.C02', 'drv_c02']
THEOREMS = ['Props.C02.' + t for t in [
    'decLen_le_iff', 'fmtE_length', 'fmtE_mantissa_normalised', 'fmtE_nearest', 'fmtF_length', 'fmtD_length', 'fmtS_length',
    'written_field_exact_width', 'reduced_precision_is_maximal', 'fails_only_when_too_wide', 'fails_only_when_unrepresentable',
    'no_silent_spill', 'full_record_length', 'columns_of_field', 'written_field_in_own_columns',
    'parse_depends_only_on_own_columns', 'write_then_parse_field', 'parse_written_record',
    'roundtrip_real_e', 'roundtrip_int_in_real_field', 'roundtrip_real_f', 'roundtrip_int', 'roundtrip_name',
    'roundtrip_name_full_width', 'roundtrip_absent', 'parse_short_line', 'read_missing', 'all_tables_wf']]
LEVEL_TEXT = ('Proof: 28 Lean theorems (no sorry, axioms <= propext/Classical.choice/Quot.sound) about the executable model of '
              'preprocess_specification / parse_string / write_values_to_string / fit_value and of Python %-formatting on exact values: '
              'for EVERY spec list and EVERY value list the write raises or yields exactly one text per field, each exactly as wide as its '
              'columns and equal to blanks, the formatted value, or the value at the largest smaller precision that fits (no_silent_spill, '
              'reduced_precision_is_maximal, fails_only_when_unrepresentable); each field of the written line sits in its own columns and '
              'parse_string reads a field from those columns only (write_then_parse_field); integers and names read back exactly, reals as '
              'the printed (correctly rounded, normalised) digits, None as None, for both conversion dictionaries (roundtrip_*); exact width '
              'formulas for %e %f %d %s (the fits lattice); short lines (parse_short_line); and by decide over the four tables regenerated '
              'from /repo every run (73 record kinds, 444 fields) that the model computes the real line_spec/spec_width and every field is '
              'well formed (all_tables_wf). Nothing is _partial.')
LEVEL_NOTE = ('Tie: Gen/Specs.lean is regenerated from the imported modules on every run; the compiled model is diffed against the real '
              'write_values_to_string / parse_string (both read-function dictionaries) on every (table, record, field) x value lattice, text '
              'for text, plus a model-independent oracle with sentinel neighbours. Trusted: Lean kernel; the model of % formatting '
              '(Model/Fixed.lean fmtE/fmtF on the exact rational of the double, diffed against CPython on every run); Py/Num.lean '
              'float()/int() grammar (diffed in C16); A-float for decimal->double; str(float) in %s fields and %g are outside the model.')
TECHNIQUE = 'Lean 4 proof over an executable model of the record layer + translator for the four format tables + differential correspondence and sentinel oracle'
ASSUMPTIONS = ['A-float: CPython float()/% conversions are correctly rounded; the model formats the exact rational value of the double',
               "values handed to 's' fields are strings or ints (str(float) = shortest repr is outside the model)",
               'ASCII text only']
TRUSTED_EXTRA = ['harness/translate/specs.py dumps the tables from the imported modules of the current tree',
                 "Model/Fixed.lean fmtEBody/fmtFBody as a model of CPython's '%e'/'%f' (diffed against CPython on every run, facet fixed_fields)"]


def translate(ctx):
    from translate import specs
    specs.translate(ctx)


def bits(x):
    return struct.pack('>d', x).hex()


# ------------------------------------------------------------------ values

def val_token(v):
    if v is None: return 'n'
    if isinstance(v, bool): raise TypeError
    if isinstance(v, int): return 'i%d' % v
    if isinstance(v, float):
        if math.isnan(v): return 'nan'
        if math.isinf(v): return 'inf1' if v < 0 else 'inf0'
        if v == 0 and math.copysign(1, v) < 0: return 'z'
        n, d = v.as_integer_ratio()
        return 'r%d/%d' % (n, d)
    if isinstance(v, str): return 's' + hexs(v)
    raise TypeError(type(v))


def canon_parsed_real(vals):
    out = []
    for v in vals:
        if v is None: out.append('n')
        elif isinstance(v, int): out.append('i%d' % v)
        elif isinstance(v, float): out.append('nan' if math.isnan(v) else 'f' + bits(v))
        elif isinstance(v, str): out.append('s' + hexs(v))
        else: out.append('?' + repr(v))
    return out


def canon_parsed_model(reply):
    w = reply.split()
    if w[0] == 'exc': return ['exc ' + w[1]]
    out = []
    for t in w[1:]:
        if t == 'n' or t == 'nan': out.append(t)
        elif t.startswith('inf'): out.append('f' + bits(-math.inf if t[3] == '1' else math.inf))
        elif t[0] == 'i': out.append(t)
        elif t[0] == 's': out.append(t)
        elif t[0] == 'f':
            neg, m, e = t[1:].split(',')
            out.append('f' + bits(float('%s%se%s' % ('-' if neg == '1' else '', m, e))))
        else: out.append('?' + t)
    return out


def sentinel(spec, j):
    """a value for field j that fits comfortably and is distinct per position"""
    typ = spec[-1]
    w = abs(int(spec[:-1].partition('.')[0]))
    if typ == 'x': return None
    if typ == 's': return ('abcdefghijklmnopqrstuvwxyz'[j % 26] * 3)[:max(1, min(w, 3))] if w > 0 else ''
    if typ == 'd': return (j % 9) + 1 if w < 2 else (j % 90 + 10 if w == 2 else j % 90 + 10)
    return (j % 9 + 1) * 1.25                      # reals: 1.25 .. 11.25, exact in binary and in 2 decimals


def real_lattice(rng, ctx):
    mant = [1.0, 1.5, 9.9995, 9.99995, 1.2345678901234567, 5.0e-1, 9.5]
    if ctx.quick:
        exps = sorted(set([0, 1, -1, 2, 3, 4, -4, 9, 10, -9, -10, 98, 99, 100, 101, -98, -99, -100, -101, 120, -120] +
                          [rng.randint(-120, 120) for _ in range(6)]))
    else:
        exps = list(range(-120, 121))
    vals = [0.0, -0.0]
    for e in exps:
        for m in mant:
            x = float('%re%d' % (m, e))
            vals += [x, -x]
    return vals


def int_lattice(w):
    vs = {0, 1, -1, 7}
    for k in (w - 2, w - 1, w, w + 1):
        if k >= 0:
            vs |= {10 ** k - 1, 10 ** k, -(10 ** k - 1), -(10 ** k)}
    return sorted(vs)


def name_lattice(w):
    alpha = 'abcXYZ019 '
    out = ['']
    for n in range(1, w + 2):
        out.append(''.join(alpha[(i * 7 + n) % len(alpha)] for i in range(n)))
        if n <= w:
            out.append(('Q' * n))
            out.append((' ' + 'q' * (n - 1)) if n > 1 else ' ')
    return out[:40]


# ------------------------------------------------------------------ oracle

def acceptable_texts(spec, v):
    """texts that the property allows in the field for value v: the correctly formatted value,
    or (reals) the same at any lower precision; None = 'must not be written silently' handled by caller"""
    typ, fmt = spec[-1], spec[:-1]
    w = abs(int(fmt.partition('.')[0]))
    if v is None or typ == 'x':
        return {' ' * w}
    full = ('%' + spec) % v
    if len(full) <= w:
        return {full}
    out = set()
    if typ in 'ef' and '.' in fmt and isinstance(v, (int, float)):
        for p in range(int(fmt.partition('.')[2]) - 1, -1, -1):
            t = ('%%%d.%d%s' % (w, p, typ)) % v
            if len(t) <= w:
                out.add(t)
    return out


def oracle_case(f, fdef, fort, table, sec, names_specs, i, v, res):
    """returns (line or 'exc X', violations)"""
    names, specs = names_specs
    vals = [sentinel(s, j) for j, s in enumerate(specs)]
    vals[i] = v
    case = {'table': table, 'section': sec, 'field': i, 'spec': specs[i], 'value': repr(v)}
    try:
        line = f.write_values_to_string(vals, sec)
    except Exception as e:
        # failing loudly is allowed only if the value cannot be represented in its columns
        ok_texts = acceptable_texts(specs[i], v) if not (isinstance(v, str) and specs[i][-1] in 'defg') else set()
        name = type(e).__name__
        viol = []
        if ok_texts and not (specs[i][-1] == 'd' and isinstance(v, float)):
            viol.append(dict(key='raises-though-fits:%s' % specs[i], what='%s[%s] field %d (%s): writing %r raises %s although it fits its columns'
                             % (table, sec, i, specs[i], v, name), case=case))
        return 'exc ' + name, viol
    viol = []
    widths = [abs(int(s[:-1].partition('.')[0])) for s in specs]
    if len(line) != sum(widths):
        viol.append(dict(key='line-length:%s' % specs[i][-1], what='%s[%s] field %d (%s): writing %r gives a line of %d columns instead of %d (fields displaced)'
                         % (table, sec, i, specs[i], v, len(line), sum(widths)), case=case))
    pos = 0
    parsed = fdef.parse_string(line, sec)
    for j, (s, wj) in enumerate(zip(specs, widths)):
        text = line[pos:pos + wj]
        pos += wj
        ok = acceptable_texts(s, vals[j])
        if text not in ok:
            key = 'field-text:%s' % ('tested' if j == i else 'neighbour')
            viol.append(dict(key=key, what='%s[%s]: writing %r in field %d (%s) leaves %r in the columns of field %d (%s), expected one of %s'
                             % (table, sec, v, i, specs[i], text, j, s, sorted(ok)[:2]), case=case))
            break
        # the parsed value must be the value of the text in its own columns
        want = None
        typ = s[-1]
        if typ == 's': want = text.rstrip('\n')
        elif typ == 'x' or text.strip() == '': want = None if typ != 's' else text
        elif typ == 'd': want = int(text)
        else: want = float(text)
        got = parsed[j]
        same = (got == want) or (isinstance(got, float) and isinstance(want, float) and math.isnan(got) and math.isnan(want))
        if not same:
            viol.append(dict(key='parse-mismatch', what='%s[%s] field %d (%s): columns hold %r but parse_string returns %r'
                             % (table, sec, j, s, text, got), case=case))
            break
    return line, viol


# ------------------------------------------------------------------ run

def make_files():
    import importlib
    import fixed_format_file as fff
    from translate import specs as tspecs
    _, tabs = tspecs.tables()
    out = {}
    for tname, spec in tabs:
        f = object.__new__(fff.fixed_format_file)
        f.specification = spec
        f.read_function = fff.default_read_function
        f.preprocess_specification()
        g = object.__new__(fff.fixed_format_file)
        g.specification = spec
        g.read_function = fff.fortran_read_function
        g.preprocess_specification()
        out[tname] = (spec, f, g)
    return out


def cases_for(ctx, rng, files):
    """yield (table, section, field index, value)"""
    reals = real_lattice(rng, ctx)
    frac = ctx.n(0.08, 1.0)
    for tname, (spec, f, g) in files.items():
        for sec, (names, specs) in spec.items():
            for i, s in enumerate(specs):
                typ = s[-1]
                w = abs(int(s[:-1].partition('.')[0]))
                yield tname, sec, i, None
                if typ == 'x':
                    yield tname, sec, i, 5
                    continue
                if typ in 'ef':
                    for x in reals:
                        if frac >= 1 or rng.random() < frac:
                            yield tname, sec, i, x
                    for x in (math.inf, -math.inf, math.nan, 3, -12, 'ab'):
                        yield tname, sec, i, x
                elif typ == 'd':
                    for n in int_lattice(w):
                        yield tname, sec, i, n
                    for x in (2.7, -0.5, -3.2, 1e30, 'ab'):
                        yield tname, sec, i, x
                elif typ == 's':
                    for nm in name_lattice(min(w, 12)):
                        yield tname, sec, i, nm
                    if w > 12:
                        yield tname, sec, i, 'x' * w
                        yield tname, sec, i, 'x' * (w + 1)
                    yield tname, sec, i, 12


def run(ctx, only_oracle=False):
    res = Result()
    res.rule = ('one case = (table, record kind, field, value) with distinct sentinels in all other fields; values from the lattice '
                'sign x exponent -120..120 x 7 mantissa patterns (reals), integers around 10^(w-1), 10^w (ints), names of length 0..w+1, None; '
                'non-trivial = distinct case whose value is not None (a real formatting/parsing path is exercised)')
    rng = ctx.rng('fixed_fields')
    with contextlib.redirect_stdout(io.StringIO()):
        files = make_files()
    fac = res.facet('fixed_fields')
    fac2 = res.facet('preprocess')
    cases = list(cases_for(ctx, rng, files))
    lines, meta = [], []

    def flush():
        if not (ctx.model_ok and not only_oracle) or not lines:
            del lines[:], meta[:]
            return
        out = core.run_driver('drv_c02', lines)
        for reply, (kind, tname, sec, i, v, real) in zip(out, meta):
            if kind == 'wv':
                fac['cases'] += 1
                if reply.startswith('ok s'):
                    m = bytes.fromhex(reply[4:]).decode('latin-1')
                elif reply == 'ok s':
                    m = ''
                else:
                    m = reply
                    # the model's exception enum is coarser than Python's: OverflowError ~ Exception
                    if m == 'exc Exception' and real == 'exc OverflowError': m = real
                if m != real:
                    fac['disagreements'] += 1
                    res.disagreements.append(dict(facet='fixed_fields', case={'op': 'write', 'table': tname, 'section': sec, 'field': i, 'value': repr(v)}, model=m, impl=real))
            elif kind == 'ps':
                fac['cases'] += 1
                m = canon_parsed_model(reply)
                if m != real:
                    fac['disagreements'] += 1
                    res.disagreements.append(dict(facet='fixed_fields', case={'op': 'parse', 'table': tname, 'section': sec, 'line': repr(v)}, model=m, impl=real))
            else:
                fac2['cases'] += 1
                m = reply[3:] if reply.startswith('ok ') else reply
                if m != real:
                    fac2['disagreements'] += 1
                    res.disagreements.append(dict(facet='preprocess', case={'table': tname, 'section': sec}, model=m, impl=real))
        del lines[:], meta[:]

    for (tname, sec, i, v) in cases:
        if len(lines) > 250000:
            flush()          # bounded memory in the exhaustive tier
        spec, f, g = files[tname]
        names_specs = spec[sec]
        line, viol = oracle_case(f, f, g, tname, sec, names_specs, i, v, res)
        res.violations += viol
        res.evaluations += 1
        res.count('type:' + names_specs[1][i][-1])
        res.count('outcome:' + ('raised' if line.startswith('exc ') and len(line) < 40 and not viol and line[4:] in ('ValueError', 'TypeError', 'OverflowError') else 'written'))
        if v is not None:
            res.distinct.add((tname, sec, i, repr(v)))
        sp_i = names_specs[1][i]
        if sp_i[-1] in 'ef' and isinstance(v, float) and not (math.isinf(v) or math.isnan(v)):
            h = res.hyp.setdefault('real written at the field\'s own precision (Written.full) vs reduced/raised', [0, 0])
            h[1] += 1
            if len(('%' + sp_i) % v) <= abs(int(sp_i[:-1].partition('.')[0])): h[0] += 1
        vals = [sentinel(s, j) for j, s in enumerate(names_specs[1])]
        vals[i] = v
        try:
            toks = [val_token(x) for x in vals]
        except TypeError:
            continue
        if isinstance(v, float) and names_specs[1][i][-1] == 's':
            continue
        written = not (line.startswith('exc ') and line[4:] in ('ValueError', 'TypeError', 'OverflowError', 'IndexError', 'KeyError'))
        lines.append('wv %s %s %s' % (tname, sec, ' '.join(toks)))
        meta.append(('wv', tname, sec, i, v, line if written else line))
        if written:
            for rf, fobj in (('d', f), ('f', g)):
                try:
                    p = canon_parsed_real(fobj.parse_string(line, sec))
                except Exception as e:
                    p = ['exc ' + type(e).__name__]
                lines.append('ps %s %s %s %s' % (tname, sec, rf, hexs(line)))
                meta.append(('ps', tname, sec, i, v, p))
    # short / over-long lines through parse_string
    for tname, (spec, f, g) in files.items():
        for sec, (names, specs) in spec.items():
            full = ''.join((('%' + s) % sentinel(s, j)) if s[-1] != 'x' else ' ' * int(s[:-1]) for j, s in enumerate(specs))
            for cut in sorted({0, 1, len(full) // 2, max(0, len(full) - 1), len(full)}):
                for tail in ('', '\n'):
                    ln = full[:cut] + tail
                    for rf, fobj in (('d', f), ('f', g)):
                        try:
                            p = canon_parsed_real(fobj.parse_string(ln, sec))
                        except Exception as e:
                            p = ['exc ' + type(e).__name__]
                        lines.append('ps %s %s %s %s' % (tname, sec, rf, hexs(ln)))
                        meta.append(('ps', tname, sec, -1, ln, p))
            lines.append('spec %s %s' % (tname, sec))
            meta.append(('spec', tname, sec, -1, None, ' '.join('%d,%d,%s' % (a, b, t) for (a, b), t in f.line_spec[sec])))
    flush()
    k = max(1, len(cases) // 6)
    for (tname, sec, i, v) in cases[::k]:
        res.sample({'table': tname, 'section': sec, 'field': i, 'value': repr(v)})
    res.exhaustive = not ctx.quick
    return res


def search(ctx, seconds, res):
    found = list(res.violations)
    if found:
        return found
    c2 = core.Ctx(ctx.prop, 'thorough', ctx.seed)
    c2.model_ok = False
    try:
        r = run(c2, only_oracle=True)
    finally:
        c2.cleanup()
    return r.violations


def replay(ctx, payload):
    c = payload.get('case') or {}
    if 'table' not in c or 'field' not in c:
        return False, 'replay file names what no longer checks: %s' % payload.get('broken')
    with contextlib.redirect_stdout(io.StringIO()):
        files = make_files()
    spec, f, g = files[c['table']]
    v = eval(c['value'], {'inf': math.inf, 'nan': math.nan})
    line, viol = oracle_case(f, f, g, c['table'], c['section'], spec[c['section']], c['field'], v, None)
    return bool(viol), '%s[%s] field %d <- %r : %r%s' % (c['table'], c['section'], c['field'], v, line, ''.join('\n  ' + x['what'] for x in viol))
