"""C01 — TOUGH2 data file write/read round trip preserves the whole model.

model      lean/PyTough/Model/T2Sections.lean (the 23 section readers/writers over three loop combinators: untilBlank,
           read/writeChunks, untilKeyword), lean/PyTough/Model/T2Data.lean (object, _sections bookkeeping, read()/write(),
           ASCII MESH file, extra-precision companion file), over the shared record layer Model/Fixed.lean, the block-name
           functions of Model/Names.lean and the tables regenerated into Gen/Sections.lean (+ Gen/Specs.lean)
theorems   lean/PyTough/Props/C01.lean (30; proofs in Proofs/T2Data*.lean)
tie        translators harness/translate/sections.py, specs.py, and correspondence facets run on the cases of the oracle:
             t2data_write   real write() vs model write: every text file produced (main, MESH, .pdat) byte for byte, and
                            _sections / extra_precision / echo flag after the call
             t2data_read    real t2data(file, meshfile) vs model read: dump of every attribute (reals = the double nearest
                            the model's decimal), on generated files, permuted files, the six shipped files (the two
                            multi-megabyte ones in the thorough tier) and Fortran-written files
             record_tables  Gen/Sections record tables = preprocess_specification of Gen/Specs (driver self-check)
oracle     props/c01_cycle.py: write -> read -> compare with an independently computed canonical form (c01_objs.canon:
           decimal rounding, (A3,I2) names, blank = None) -> write again (equal up to trailing blanks) -> two more cycles
           byte-identical; on objects generated through the public constructors (c01_gen: all 23 section kinds, both
           flavours, mesh in file / MESH / MESHA+MESHB, extra precision off / on / echoed, legal section permutations),
           on a fixed corpus of minimised past findings, on the six shipped data files, and on files written by an
           independent Fortran-style writer (c01_fortran) whose text fixes what must be read.
not modelled in Lean: the binary MESHA/MESHB pair (oracle only).
"""
import os, sys, json, time, shutil, contextlib, io
from pathlib import Path
import core
from core import Result
from props import c01_objs as O, c01_gen as G, c01_cycle as C, c01_wire as W, c01_fortran as FW

ID = 'C01'
MODULE = 'PyTough.Props.C01'
TARGETS = ['PyTough.Props.C01', 'drv_c01']
THEOREMS = []
LEVEL_TEXT = 'see Props/C01.lean'
LEVEL_NOTE = ''
TECHNIQUE = 'Lean 4 proof over an executable model of the section readers/writers + differential correspondence + round-trip oracle'
ASSUMPTIONS = [
    'A-float: CPython float()/% conversions are correctly rounded; the model carries the exact decimal written',
    'ASCII text; struct packing of the binary MESHA/MESHB pair is not modelled (oracle only)',
    'quantifier "values fit their fields": generated names have the width of their field, primary-variable lists hold no None, '
    'optional integers are None or >= 1 (0 reads back as None), extra precision is requested only for sections that have content '
    'and (for subsets) closed under ROCKS <- ELEME <- CONNE; cases whose echoed extra-precision values would be rounded twice '
    'differently are discarded and counted (unstable)',
]
TRUSTED_EXTRA = ['harness/translate/sections.py dumps section lists, dispatch and record tables from the imported t2data module']

try:
    from props.c01_theorems import THEOREMS, LEVEL_TEXT, LEVEL_NOTE
except ImportError:
    pass

DATA = 'tests/data'
SHIPPED = [('AUTOUGH2/1/case1.dat', '', True), ('AUTOUGH2/2/case2.dat', '', True), ('AUTOUGH2/3/a1.dat', '', False),
           ('TOUGH2/1/r1q', 'TOUGH2/1/MESH', False), ('TOUGH2/2/eos7c.dat', '', False),
           ('TOUGH2-MP/1/rfp_nomesh', ('TOUGH2-MP/1/MESHA', 'TOUGH2-MP/1/MESHB'), False)]


def _rock(name):
    return {'name': name, 'nad': 0, 'density': 2600.0, 'porosity': 0.1, 'permeability': [1e-15, 1e-15, 1e-15],
            'conductivity': 1.5, 'specific_heat': 900.0, 'rp': {}, 'cp': {}}


def _block(name, rock, z):
    return {'name': name, 'volume': 1.0, 'rocktype': rock, 'centre': [0.0, 0.0, z], 'ahtx': None, 'pmx': None, 'nseq': None, 'nadd': None}


# minimised past findings (both repaired in /repo); they run first on every check
CORPUS = [
    # PARAM as the last section of a file ending with ENDFI lost the end keyword (fixed: 4e4e15d)
    ({'title': 'x', 'simulator': '', 'end_keyword': 'ENDFI', 'rocks': [], 'parameter': {'option': [0] * 25}, 'more_option': [0] * 22,
      'blocks': [], 'connections': [], 'generators': []},
     {'flavour': 'TOUGH2', 'mesh': 'in', 'xp': None, 'echo': None, 'order': ['ELEME', 'CONNE', 'PARAM']}),
    # a MESHA/MESHB pair was written without unfix_blockname: INCON entries lost on the second cycle (fixed: 25593a7)
    ({'title': 'x', 'simulator': '', 'end_keyword': 'ENDCY', 'rocks': [_rock('rock1')], 'parameter': {'option': [0] * 25},
      'more_option': [0] * 22, 'blocks': [_block('abc05', 'rock1', 0.0), _block('ab1 6', 'rock1', 1.0)],
      'connections': [{'block': ['abc05', 'ab1 6'], 'direction': 3, 'distance': [0.5, 0.5], 'area': 1.0, 'dircos': -1.0,
                       'sigma': None, 'nseq': None, 'nad1': None, 'nad2': None}],
      'generators': [], 'incon': [['abc05', None, [1.0e5, 20.0], None, None, 2], ['ab1 6', None, [2.0e5, 30.0], None, None, 2]]},
     {'flavour': 'TOUGH2', 'mesh': 'binary', 'xp': None, 'echo': None}),
]


ENOUGH = 12   # concrete failing inputs in hand: stop exploring (a breaking change can make every further case
              # slower or larger, e.g. state leaking from one read into the next and doubling each time)


def enough(res):
    return len(res.violations) >= ENOUGH


def run_corpus(ctx, res, batches):
    for i, (spec, cfg) in enumerate(CORPUS):
        viol, info = C.cycle(spec, cfg, ctx.tmp / ('c%d' % i), record=ctx.model_ok)
        res.evaluations += 1
        res.violations += viol
        res.count('corpus')
        res.distinct.add('corpus:%d' % i)
        if ctx.model_ok and info.get('events'):
            batches.append(({'corpus': i}, info['events']))
    flush(res, batches, ctx)


def translate(ctx):
    from translate import specs, sections
    specs.translate(ctx)
    sections.translate(ctx)


def reload_real():
    import importlib
    import fixed_format_file, mulgrids, t2incons, t2grids, t2data
    for m in (fixed_format_file, mulgrids, t2incons, t2grids, t2data):
        importlib.reload(m)


# ------------------------------------------------------------------ correspondence

def xp_token(v):
    if v is True: v = list(O.XP_SECTIONS)
    elif v is False: v = []
    elif isinstance(v, str): v = [v]
    return ','.join(W.flat(W.ss(v), []))


def requests_for(events):
    """driver request lines for the recorded write/read events of one case"""
    lines, meta = [], []
    for ev in events:
        if ev['op'] == 'write':
            wkw = ev['wkw']
            xp = xp_token(wkw['extra_precision']) if wkw.get('extra_precision') is not None else '-'
            echo = '-' if wkw.get('echo_extra_precision') is None else ('1' if wkw['echo_extra_precision'] else '0')
            toks = W.to_tokens(ev['obj'], ev['obj']['extra_precision'], ev['obj']['echo'])
            lines.append('write %s %s %s %s' % (ev['mesh'], xp, echo, ' '.join(toks)))
            meta.append(ev)
        elif ev['op'] == 'read' and ev['mesh'] != 'binary':
            main = Path(ev['dir']) / ev.get('main', C.MAIN)
            pd = Path(os.path.splitext(str(main))[0] + '.pdat')
            lines.append('read %s %s %s %s' % ('f' if ev['fortran'] else 'd', core.hexs(str(main)),
                                               core.hexs(str(main.parent / 'MESH')) if ev['mesh'] == 'ascii' else '-',
                                               core.hexs(str(pd)) if pd.exists() else '-'))
            meta.append(ev)
    return lines, meta


def compare_reply(ev, reply):
    """None if model and implementation agree, else (model, impl) summaries"""
    if ev['op'] == 'write':
        if not reply.startswith('ok '):
            return reply, 'files written'
        w = reply.split(' ')
        m, e, p = w[1], w[2], w[3]
        files = ev['files']
        got = {C.MAIN: bytes.fromhex(m[1:])}
        if e[1:] != '-': got['MESH'] = bytes.fromhex(e[1:])
        if p[1:] != '-': got['model.pdat'] = bytes.fromhex(p[1:])
        want = dict((k, v) for k, v in files.items() if k not in ('MESHA', 'MESHB'))
        if sorted(got) != sorted(want):
            return 'files %s' % sorted(got), 'files %s' % sorted(want)
        for name in want:
            if got[name] != want[name]:
                a, b = got[name].split(b'\n'), want[name].split(b'\n')
                k = next((j for j in range(min(len(a), len(b))) if a[j] != b[j]), min(len(a), len(b)))
                return '%s line %d: %r' % (name, k + 1, a[k][:100] if k < len(a) else None), \
                       '%s line %d: %r' % (name, k + 1, b[k][:100] if k < len(b) else None)
        t, _ = W.parse_tree([x for x in w[4:] if x])
        after = (t[0], t[1], bool(t[2]))
        if after != tuple(ev['after']):
            return 'after write %r' % (after,), 'after write %r' % (tuple(ev['after']),)
        return None
    # read
    if not reply.startswith('ok '):
        return reply, 'object read'
    s, xp, echo = W.from_tokens([x for x in reply[3:].split(' ') if x])
    s['extra_precision'], s['echo'] = xp, echo
    want = dict((k, v) for k, v in ev['obj'].items() if k != 'registry')
    want['parameter'] = dict((k, v) for k, v in want['parameter'].items() if k != '_option_str')
    d = O.diff(want, s)
    if d:
        path, wv, gv = d[0]
        return '%s = %r' % (path, gv), '%s = %r' % (path, wv)
    return None


def correspond(res, batches, ctx):
    """batches: list of (case id, events)"""
    fw, fr = res.facet('t2data_write'), res.facet('t2data_read')
    lines, owners = [], []
    for cid, events in batches:
        ls, meta = requests_for(events)
        lines += ls
        owners += [(cid, ev) for ev in meta]
        first = next((ev for ev in events if ev['op'] == 'write'), None)
        if first is not None:      # hypotheses of the section theorems, evaluated by the model on the object written first
            lines.append('hyp ' + ' '.join(W.to_tokens(first['obj'], first['obj']['extra_precision'], first['obj']['echo'])))
            owners.append((cid, {'op': 'hyp'}))
    if not lines:
        return
    lines.insert(0, 'chk')
    replies = core.run_driver('drv_c01', lines)
    fc = res.facet('record_tables')
    fc['cases'] += 1
    if replies[0] != 'ok':
        fc['disagreements'] += 1
        res.disagreements.append(dict(facet='record_tables', case={}, model=replies[0], impl='preprocess_specification of Gen/Specs'))
    for (cid, ev), reply in zip(owners, replies[1:]):
        if ev['op'] == 'hyp':
            w = reply.split(' ')
            if w[0] != 'ok':
                raise RuntimeError('driver hyp reply: %s' % reply[:100])
            for name, frac in zip(w[1::2], w[2::2]):
                a, b = frac.split('/')
                h = res.hyp.setdefault(name + ' (objects of the kind satisfying the theorem hypothesis / explored)', [0, 0])
                h[0] += int(a); h[1] += int(b)
            continue
        f = fw if ev['op'] == 'write' else fr
        f['cases'] += 1
        bad = compare_reply(ev, reply)
        if bad:
            f['disagreements'] += 1
            if len(res.disagreements) < 40:
                res.disagreements.append(dict(facet='t2data_' + ev['op'], case=cid, model=bad[0], impl=bad[1]))


# ------------------------------------------------------------------ run

def unstable_case(spec, cfg):
    """echoed extra precision: the main file's echo of a value is written from the full double the first time and
    from the 9-digit companion value afterwards; a value for which the two roundings differ is decided by
    less than the tolerance (double rounding) -> the case is discarded and counted"""
    if not (spec.get('simulator') and cfg.get('xp') and cfg.get('echo')):
        return False
    xp = C.xp_list(cfg)
    F, Fx = O.Fields([]), O.Fields(xp)
    def bad(rec, i, x, sec):
        if x is None or sec not in xp: return False
        w, p, t, _ = F.get(rec, i)
        if t not in 'ef': return False
        wx, px, tx, _ = Fx.get(rec, i, sec)
        try:
            return O.canon_real(O.canon_real(x, wx, px, tx), w, p, t) != O.canon_real(x, w, p, t)
        except OverflowError:
            return True
    for r in spec.get('rocks', []):
        vals = [r['density'], r['porosity']] + list(r['permeability']) + [r['conductivity'], r['specific_heat']]
        if any(bad('rocks1', 2 + i, v, 'ROCKS') for i, v in enumerate(vals)): return True
        if any(bad('rocks1.1', i, r.get(k), 'ROCKS') for i, k in enumerate(O.ROCK_EXTRA)): return True
        for key in ('rp', 'cp'):
            if any(bad('rocks1.2', 2 + i, v, 'ROCKS') for i, v in enumerate(r.get(key, {}).get('parameters', []))): return True
    for key in ('relative_permeability', 'capillarity'):
        if any(bad(key, 2 + i, v, 'RPCAP') for i, v in enumerate(spec.get(key, {}).get('parameters', []))): return True
    for b in spec.get('blocks', []):
        vals = [b['volume'], b.get('ahtx'), b.get('pmx')] + list(b.get('centre') or [])
        if any(bad('blocks', 4 + i, v, 'ELEME') for i, v in enumerate(vals)): return True
    for c in spec.get('connections', []):
        vals = list(c['distance']) + [c['area'], c['dircos'], c.get('sigma')]
        if any(bad('connections', 6 + i, v, 'CONNE') for i, v in enumerate(vals)): return True
    for g in spec.get('generators', []):
        if any(bad('generator', 9 + i, g.get(k), 'GENER') for i, k in enumerate(('gx', 'ex', 'hg', 'fg'))): return True
        for rec, key in (('generation_times', 'time'), ('generation_rates', 'rate'), ('generation_enthalpy', 'enthalpy')):
            if any(bad(rec, 0, v, 'GENER') for v in g.get(key, [])): return True
    return False


def case_key(spec, cfg):
    secs = C.expected_sections(spec, cfg)
    return json.dumps([cfg['flavour'], cfg['mesh'], str(cfg.get('xp')), cfg.get('echo'), bool(cfg.get('permute')), secs,
                       len(spec.get('rocks', [])), len(spec.get('blocks', [])), len(spec.get('connections', [])),
                       [abs(g['ltab'] or 0) for g in spec.get('generators', [])], len(spec['parameter'].get('default_incons', [])),
                       spec['title'][:8]])


def flush(res, batches, ctx):
    if batches and ctx.model_ok:
        correspond(res, batches, ctx)
    del batches[:]
    for p in ctx.tmp.iterdir():
        shutil.rmtree(p, ignore_errors=True)


def run_generated(ctx, res, n, facet, batches, record=True):
    rng = ctx.rng(facet)
    for i in range(n):
        if enough(res): break
        cfg = G.gen_cfg(rng)
        spec = G.gen_spec(rng, cfg)
        cfg = G.fix_cfg(cfg, spec)
        if cfg.pop('edit', False):
            cfg['edits'] = G.gen_edits(rng, spec)
            for e in cfg['edits']: res.count('edit:' + e[0])
        if unstable_case(spec, cfg):
            res.unstable += 1
            continue
        tmp = ctx.tmp / ('g%d' % i)
        viol, info = C.cycle(spec, cfg, tmp, record=record and ctx.model_ok)
        res.evaluations += 1
        res.violations += viol
        res.distinct.add(case_key(spec, cfg))
        res.count('flavour:' + cfg['flavour'])
        res.count('mesh:' + cfg['mesh'])
        res.count('xp:' + ('off' if not cfg.get('xp') else 'echoed' if cfg.get('echo') else 'on'))
        if info.get('permuted'): res.count('order:permuted')
        for k in info.get('sections', []): res.count('section:' + k)
        for g in spec.get('generators', []):
            n_t = abs(g['ltab'] or 0)
            if n_t > 1 and g['type'] != 'DELV': res.count('table:%d%s' % (n_t, '+enthalpy' if g['enthalpy'] else ''))
        res.count('default_incons:%d' % len(spec['parameter'].get('default_incons', [])))
        if i % max(1, n // 4) == 0:
            res.sample({'cfg': cfg, 'sections': info.get('sections'), 'bytes': info.get('bytes'),
                        'rocks': len(spec.get('rocks', [])), 'blocks': len(spec.get('blocks', []))})
        if record and ctx.model_ok and 'events' in info:
            batches.append(({'seed': ctx.seed, 'facet': facet, 'index': i, 'cfg': cfg}, info['events']))
        if len(batches) >= 40 or not ctx.model_ok:
            flush(res, batches, ctx)


def run_shipped(ctx, res, batches, big=True):
    from fixed_format_file import fortran_read_function
    base = core.REPO / DATA
    for f, m, fort in SHIPPED:
        if enough(res): break
        size = (base / f).stat().st_size
        if size > 1000000 and not big:
            continue
        mm = (str(base / m) if isinstance(m, str) and m else tuple(str(base / x) for x in m) if m else '')
        cfg = {'flavour': 'file', 'mesh': 'in' if not m else 'ascii' if isinstance(m, str) else 'binary'}
        tmp = ctx.tmp / ('s_' + f.replace('/', '_'))
        huge = size > 1000000
        # the two multi-megabyte files: quick tier = one full write/read/rewrite cycle, oracle only
        viol, info = C.cycle(None, cfg, tmp, ncycles=((2 if ctx.quick else 4) if huge else 4), origin=(str(base / f), mm),
                             read_function=fortran_read_function if fort else None, record=ctx.model_ok and not (huge and ctx.quick))
        res.evaluations += 1
        res.violations += viol
        res.distinct.add('file:' + f)
        res.count('shipped-file')
        for k in info.get('sections', []): res.count('section:' + k)
        res.sample({'file': f, 'sections': info.get('sections'), 'bytes': info.get('bytes')})
        if ctx.model_ok and info.get('events'):
            ev = list(info['events'])
            # the shipped file itself is read by the model too (the object it gives is the first one written)
            ev.insert(0, dict(op='read', dir=str((base / f).parent), main=(base / f).name, mesh=cfg['mesh'], obj=ev[0]['obj'], fortran=fort))
            batches.append(({'file': f}, ev))
        flush(res, batches, ctx)


def run_fortran(ctx, res, n, batches):
    """files produced by the independent Fortran-style writer: what is read must be what the text denotes"""
    import t2data as T
    rng = ctx.rng('fortran_writer')
    for i in range(n):
        if enough(res): break
        cfg = {'flavour': 'TOUGH2', 'mesh': 'in', 'xp': None, 'echo': None}
        spec = FW.fortranise(G.gen_spec(rng, cfg))
        if rng.random() < 0.3: spec['plusplus'] = True
        tmp = ctx.tmp / ('f%d' % i)
        tmp.mkdir(parents=True, exist_ok=True)
        path = tmp / 'fortran.dat'
        path.write_text(FW.fortran_file(spec))
        case = {'fortran_spec': spec}
        res.evaluations += 1
        res.count('fortran-written-file')
        res.distinct.add('fortran:' + case_key(dict(spec, parameter=dict(spec['parameter'])), cfg))
        try:
            with O.quiet():
                B = T.t2data(str(path))
        except Exception as e:
            res.violations.append(dict(key='raises:read-fortran:%s' % type(e).__name__,
                                       what='reading a Fortran-written file raises %s: %s' % (type(e).__name__, str(e)[:200]), case=case))
            continue
        want = O.canon(spec, cfg)
        got = O.normalise_dump(O.dump(B))
        for pth, w, g in O.diff(want, got)[:4]:
            res.violations.append(dict(key='fortran-content:' + C.key_of(pth),
                                       what='a Fortran-written file gives %s = %r, the text denotes %r' % (pth, g, w), case=case))
        viol, info = C.cycle(None, cfg, tmp / 'cyc', origin=(str(path), ''), record=ctx.model_ok)
        for v in viol: v['case'] = case
        res.violations += viol
        if ctx.model_ok and info.get('events'):
            ev = list(info['events'])
            ev.insert(0, dict(op='read', dir=str(tmp), main='fortran.dat', mesh='in', obj=ev[0]['obj'], fortran=False))
            batches.append(({'fortran': i, 'seed': ctx.seed}, ev))
        if len(batches) >= 30 or not ctx.model_ok:
            flush(res, batches, ctx)
    flush(res, batches, ctx)


def run(ctx, only_oracle=False):
    reload_real()
    res = Result()
    res.rule = ('one case = (data object, configuration): object generated through the public constructors over all 23 section kinds, '
                'flavour TOUGH2/AUTOUGH2, mesh in file / MESH / MESHA+MESHB, extra precision off/on/echoed, section order standard or a '
                'legal permutation; plus each shipped data file. distinct = distinct (configuration, section list, list sizes, table '
                'lengths); every case writes at least PARAM, ELEME, CONNE and goes through 3-4 write/read cycles')
    if only_oracle:
        ctx.model_ok = False
    batches = []
    run_corpus(ctx, res, batches)
    run_shipped(ctx, res, batches, big=True)
    run_generated(ctx, res, ctx.n(220, 9000), 't2data_rw', batches)
    run_fortran(ctx, res, ctx.n(40, 1500), batches)
    flush(res, batches, ctx)
    res.exhaustive = False
    return res


def search(ctx, seconds, res):
    found = list(res.violations)
    t0 = time.time()
    k = 0
    while not found and time.time() - t0 < seconds:
        k += 1
        c2 = core.Ctx(ctx.prop, ctx.tier, ctx.seed + 7919 * k)
        c2.model_ok = False
        try:
            r = Result()
            run_generated(c2, r, 150, 't2data_rw', [], record=False)
            found = r.violations
        finally:
            c2.cleanup()
    return found


def replay(ctx, payload):
    reload_real()
    c = payload.get('case') or {}
    if 'fortran_spec' in c:
        import t2data as T
        spec = c['fortran_spec']
        cfg = {'flavour': 'TOUGH2', 'mesh': 'in', 'xp': None, 'echo': None}
        d = ctx.tmp / 'replay'
        d.mkdir(parents=True, exist_ok=True)
        (d / 'fortran.dat').write_text(FW.fortran_file(spec))
        viol = []
        try:
            with O.quiet():
                B = T.t2data(str(d / 'fortran.dat'))
            for pth, w, g in O.diff(O.canon(spec, cfg), O.normalise_dump(O.dump(B)))[:4]:
                viol.append(dict(what='a Fortran-written file gives %s = %r, the text denotes %r' % (pth, g, w)))
            viol += C.cycle(None, cfg, d / 'cyc', origin=(str(d / 'fortran.dat'), ''))[0]
        except Exception as e:
            viol.append(dict(what='reading a Fortran-written file raises %s' % type(e).__name__))
    elif 'spec' in c:
        viol, info = C.cycle(c['spec'], c['cfg'], ctx.tmp / 'replay')
    elif 'file' in c:
        from fixed_format_file import fortran_read_function
        fort = any(f == os.path.relpath(c['file'], str(core.REPO / DATA)) and ft for f, m, ft in SHIPPED)
        mesh = c['mesh']
        if isinstance(mesh, list): mesh = tuple(mesh)
        viol, info = C.cycle(None, c['cfg'], ctx.tmp / 'replay', origin=(c['file'], mesh),
                             read_function=fortran_read_function if fort else None)
    else:
        return False, 'replay file names what no longer checks: %s' % payload.get('broken')
    return bool(viol), '\n'.join(v['what'] for v in viol[:5]) or 'write/read/rewrite cycle clean'
