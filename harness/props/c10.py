"""C10 — Geometry stays internally consistent under any sequence of edits.

model      lean/PyTough/Model/Geo.lean (heap of nodes / columns / connections / layers / wells with explicit
           ids and hand-maintained back-references), Model/GeoOps.lean (the editing operations as written)
theorems   lean/PyTough/Props/C10.lean
tie        translator harness/translate/refine_tables.py -> Gen/RefineTables.lean (tables of refine / decompose /
           split); correspondence facet `geo_ops`: the same edit sequences applied to the real mulgrid and to the
           compiled model, compared after every operation up to renaming of generated names
oracle     GeoInv (props/geolib.py): the property statement clause by clause on public attributes, evaluated
           after every operation of every sequence; a clause that turns false is blamed on that operation
"""
import json, time, itertools, copy
import core
from core import Result
from props import geolib as G
from props import geomodel as M

ID = 'C10'
MODULE = 'PyTough.Props.C10'
TARGETS = ['PyTough.Props.C10', 'drv_c10']
THEOREMS = ['Props.C10.' + t for t in [
    'setup_names_fresh', 'split_column_names_fresh', 'rename_column_names_fresh', 'rename_layer_names_fresh',
    'copy_layers_from_names_fresh', 'snap_columns_to_layers_names_fresh', 'snap_columns_to_nearest_layers_names_fresh',
    'refine_layers_names_fresh', 'decompose_columns_names_fresh', 'reduce_names_fresh', 'refine_names_fresh',
    'strip2_satisfies_invariant', 'raw_edits_leave_indices_stale', 'translate_preserves', 'rotate_preserves',
    'add_node_preserves', 'delete_node_preserves', 'add_well_preserves', 'delete_well_preserves',
    'add_layer_preserves_structure', 'delete_layer_preserves_structure',
    'add_connection_preserves_structure', 'delete_connection_preserves_structure',
    'add_column_preserves_structure', 'delete_column_preserves_structure',
    'edit_histories_preserve_structure', 'edit_history_then_setup_names',
    'rename_column_preserves', 'rename_layer_preserves', 'copy_layers_from_establishes_invariant',
    'refine_layers_establishes_invariant_partial', 'snap_columns_to_layers_preserves_structure',
    'snap_columns_to_nearest_layers_preserves_structure', 'identify_neighbours_identity', 'delete_orphans_preserves']]
LEVEL_TEXT = ('Partial proof. Lean 4 state-machine model of mulgrid (heap of nodes/columns/connections/layers/wells with explicit ids and '
              'hand-maintained back-references; add_/delete_ node/column/connection/layer/well, split_column, rename_column/layer, '
              'subdivide/triangulate/decompose_column(s), refine incl. the boundary walker and bisection, refine_layers, reduce, check(fix), '
              'snap_*, copy_layers_from, translate, rotate) and the C10 invariant GeoInv as executable predicates. Proved (no sorry): the '
              'name lists are fresh after every operation that recomputes them (11 theorems); translate and rotate (any angle, any centre) '
              'preserve the whole invariant, so do rename_column and rename_layer (to an unused name) and copy_layers_from even re-establishes it from the structural part, refine_layers too except when the atmosphere layer name clashes with a generated name (the known finding, stated as the hypothesis of a _partial theorem with a proved counter-witness); add_node / delete_node / add_well / delete_well preserve it, add_layer / delete_layer / add_connection / delete_connection / add_column / delete_column (cascade included) its structural part, and so does EVERY history of these edits (plus translate and setup_*) each of which is '
              'a sensible request when applied (induction over the history); the bare add_/delete_ operations leave the name lists stale (kernel-evaluated witness). NOT '
              'proved: preservation of the back-reference clauses by split_column, subdivide/decompose, refine, reduce, check(fix) (snap_* : structure proved, layer count after snapping not) - these '
              'are covered by the correspondence (every state of every explored history: model state == real state up to renaming of '
              'generated names, and Lean GeoInv verdict == Python oracle verdict clause by clause) and by the oracle on the real code.')
LEVEL_NOTE = ('Trusted: Lean kernel (+propext, Classical.choice, Quot.sound); the hand-written model, tied to /repo on every run by the '
              'geo_ops / geo_inv facets and the refine-table translator; exact rational arithmetic in the model vs doubles in the code '
              '(near-tie decisions are discarded as unstable, never reported); set iteration order is a parameter of the model (results '
              'compared up to renaming/reordering of generated objects); fit_surface (scipy solve) is exercised by the oracle only.')
TECHNIQUE = 'Lean 4 state-machine model of the mulgrid editing operations + invariant theorems + differential correspondence + GeoInv oracle'
ASSUMPTIONS = []
TRUSTED_EXTRA = []


_known = None


def KNOWN():
    global _known
    if _known is None:
        import os
        _known = set(core.known_keys(ID))
        extra = os.environ.get('C10_ASSUME_KNOWN')          # development aid only
        if extra:
            _known |= set(json.load(open(extra)))
    return _known


def translate(ctx):
    from translate import refine_tables
    refine_tables.run()


# ----------------------------------------------------------------------------- start geometries

def H(x):
    return G.hx(x)


def small_recipes():
    """2x2, 3x2 and small mixed triangle / quad / pentagon geometries"""
    mixed1 = {'kind': 'mixed', 'atmos': 0,     # quad + two triangles + pentagon, conforming
              'nodes': [['  a', 0, 0], ['  b', 8, 0], ['  c', 16, 0], ['  d', 0, 8], ['  e', 8, 8], ['  f', 16, 8],
                        ['  g', 4, 16], ['  h', 12, 16], ['  i', 20, 16]],
              'columns': [['  a', ['  a', '  b', '  e', '  d']], ['  b', ['  b', '  c', '  e']],
                          ['  c', ['  c', '  f', '  e']], ['  d', ['  d', '  e', '  h', '  g']],
                          ['  e', ['  e', '  f', '  i', '  h']]],
              'dz': [2., 2., 4.]}
    mixed2 = {'kind': 'mixed', 'atmos': 1,     # a pentagon with a straight node, a hexagon, triangles and quads
              'nodes': [['  a', 0, 0], ['  b', 8, 0], ['  c', 16, 0], ['  d', 24, 0],
                        ['  e', 0, 8], ['  f', 8, 8], ['  g', 16, 8], ['  h', 24, 8],
                        ['  i', 0, 16], ['  j', 12, 20], ['  k', 24, 16]],
              'columns': [['  a', ['  a', '  b', '  f', '  e']],
                          ['  b', ['  b', '  c', '  g', '  f']],
                          ['  c', ['  c', '  d', '  h', '  g']],
                          ['  d', ['  e', '  f', '  g', '  j', '  i']],       # pentagon, f is a straight node
                          ['  e', ['  g', '  h', '  k', '  j']]],
              'dz': [4., 4.]}
    return [
        ('2x2', {'kind': 'rect', 'dx': [4., 8.], 'dy': [4., 8.], 'dz': [2., 2., 4.], 'atmos': 0}),
        ('3x2', {'kind': 'rect', 'dx': [4., 8., 4.], 'dy': [8., 4.], 'dz': [2., 6.], 'atmos': 1,
                 'surfaces': []}),
        ('mixed1', mixed1),
        ('mixed2', mixed2),
    ]


def with_surfaces(mg, recipe, rng):
    """recipe + surfaces on some columns (dyadic elevations anywhere from below the bottom to above the top)"""
    g = G.build(mg, recipe)
    zs = [l.bottom for l in g.layerlist]
    lo, hi = min(zs), max(zs)
    r = dict(recipe)
    surf = []
    for c in g.columnlist:
        if rng.random() < 0.5:
            z = rng.choice([lo - 1, lo, lo + 0.5, hi, hi + 1.5] + [b for b in zs] + [b + 0.25 for b in zs]
                           + [rng.randint(int(lo * 4) - 4, int(hi * 4) + 8) / 4.0])
            surf.append([G.col_loc(c), z])
    r['surfaces'] = surf
    return r


# ----------------------------------------------------------------------------- operation generators

def subsets(items, maxn=None):
    n = len(items)
    out = []
    for k in range(1, n + 1):
        for s in itertools.combinations(range(n), k):
            out.append([items[i] for i in s])
    return out


def fresh_name(g, kind, rng, length=3):
    """a name for a new / renamed object.  UPPER CASE only: the library generates lower-case (or numeric) names, and
    which of those are in use after two refinements depends on set iteration order — an upper-case name is new in
    every run, so a recorded history replays identically"""
    d = getattr(g, kind)
    for c in 'ZYXWVUTSRQ':
        nm = c.rjust(length)
        if nm not in d:
            return nm
    while True:
        nm = ''.join(rng.choice('ABCDEFGHIJKLMNOPQRSTUVWXYZ') for _ in range(length))
        if nm not in d:
            return nm


MAX_LAYERS = 60      # refine_layers regenerates every layer name; conventions 0/3 have 2-character layer names


def column_layer_ops(mg, g, rng, subset_cap):
    """every column/layer editing operation applicable to g, with every column subset as argument
    (subset enumeration capped at `subset_cap` subsets per operation: all when 2^n - 1 <= cap, else all
    singletons, all adjacent pairs, all, and a seeded sample)"""
    cols = sorted(g.columnlist, key=G.ckey)
    locs = [G.col_loc(c) for c in cols]
    n = len(cols)
    if 2 ** n - 1 <= subset_cap:
        subs = subsets(list(range(n)))
    else:
        subs = [[i] for i in range(n)]
        idx = {id(c): i for i, c in enumerate(cols)}
        for con in g.connectionlist:
            if id(con.column[0]) in idx and id(con.column[1]) in idx:
                subs.append(sorted([idx[id(con.column[0])], idx[id(con.column[1])]]))
        subs.append(list(range(n)))
        while len(subs) < subset_cap:
            k = rng.randint(2, max(2, n - 1))
            subs.append(sorted(rng.sample(range(n), k)))
        subs = subs[:subset_cap]
    ops = []
    small = all(c.num_nodes in (3, 4) for c in cols)
    for s in subs:
        sl = [locs[i] for i in s]
        for bisect in (False, True, 'x', 'y'):
            ops.append(['refine', {'cols': sl, 'bisect': bisect}])
        ops.append(['reduce', {'cols': sl}])
        if all(cols[i].num_layers >= 1 for i in s):        # a column with no layer has no surface layer to snap to
            ops.append(['snap_columns_to_nearest_layers', {'cols': sl}])
            ops.append(['snap_columns_to_layers', {'cols': sl, 'min_thickness': H(1.0)}])
        if any(cols[i].num_nodes > 4 for i in s):
            ops.append(['decompose_columns', {'cols': sl}])
    # refine with bisected edge columns: region = one column, edge = a subset of its neighbours
    for i, c in enumerate(cols):
        nb = [G.col_loc(k) for k in sorted(c.neighbour, key=G.ckey)]
        for e in subsets(nb)[:7]:
            for bisect in (False, True):
                ops.append(['refine', {'cols': [locs[i]], 'bisect': bisect, 'edge': e}])
    ops.append(['refine', {}])
    ops.append(['decompose_columns', {}])
    ops.append(['reduce', {'cols': locs}])
    ops.append(['snap_columns_to_layers', {'cols': [], 'min_thickness': H(1.0)}] if all(c.num_layers >= 1 for c in cols) else ['setup_names'])
    ops.append(['check_fix'])
    b = g.bounds
    ops.append(['add_node', {'name': fresh_name(g, 'node', rng, g.colname_length), 'pos': [H(b[1][0] + 4), H(b[0][1])]}])
    for con in sorted(g.connectionlist, key=lambda k: sorted([G.ckey(k.column[0]), G.ckey(k.column[1])]))[:6]:
        ops.append(['delete_connection', {'cols': [G.col_loc(c) for c in sorted(con.column, key=G.ckey)]}])
    for i, c in enumerate(cols):
        ops.append(['delete_column', {'col': locs[i]}])
        ops.append(['rename_column', {'cols': [locs[i]], 'new': [fresh_name(g, 'column', rng, g.colname_length)],
                                      'as_list': bool(i % 2)}])
        if c.num_nodes > 4:
            ops.append(['triangulate_column', {'col': locs[i]}])
        for nd in (c.node if c.num_nodes == 4 else c.node[:1]):
            ops.append(['split_column', {'col': locs[i], 'node': G.node_loc(nd)}])
    if n >= 2:
        ops.append(['rename_column', {'cols': locs[:2], 'new': [' ZZ'[-g.colname_length:], ' YY'[-g.colname_length:]]}])
    lays = [l.name for l in g.layerlist[1:]]
    for s in subsets(lays)[:15]:
        for f in (2, 3, 4):
            if len(lays) + len(s) * (f - 1) <= MAX_LAYERS:
                ops.append(['refine_layers', {'layers': s, 'factor': f}])
    ops.append(['refine_layers', {'factor': 2}])
    for l in lays:
        ops.append(['rename_layer', {'old': l, 'new': fresh_name(g, 'layer', rng, g.layername_length)}])
        ops.append(['delete_layer', {'name': l}])
    if g.layerlist:
        low = min(l.bottom for l in g.layerlist)
        ops.append(['add_layer', {'name': fresh_name(g, 'layer', rng, g.layername_length),
                                  'bottom': H(low - 4), 'centre': H(low - 2), 'top': H(low)}])
    ops.append(['copy_layers_from', {'dz': [H(1.), H(3.), H(2.)], 'top': H(g.layerlist[0].bottom if g.layerlist else 0.)}])
    ops.append(['rotate', {'angle': H(90.)}])
    ops.append(['rotate', {'angle': H(30.), 'centre': [H(1.), H(-2.)]}])
    ops.append(['translate', {'shift': [H(3.5), H(-2.25), H(1.5)]}])
    return ops


def repair_ops(mg, g, rng):
    """operations that promise something whatever state they start from: the selections `all columns` and `empty`
    (= all) for everything that takes a selection, the recomputing operations, the mesh repairs"""
    cols = sorted(g.columnlist, key=G.ckey)
    everything = [G.col_loc(c) for c in cols]
    ops = [['reduce', {'cols': everything}], ['check_fix'], ['setup_names'], ['roundtrip'], ['identify_neighbours'],
           ['copy_layers_from', {'dz': [H(1.), H(3.), H(2.)], 'top': H(g.layerlist[0].bottom if g.layerlist else 0.)}],
           ['refine', {}], ['refine', {'cols': everything}], ['decompose_columns', {}],
           ['decompose_columns', {'cols': everything}]]
    if len(cols) > 1:
        ops.append(['reduce', {'cols': everything[:-1]}])
        ops.append(['reduce', {'cols': everything[1:]}])
    if 1 < len(g.layerlist) <= MAX_LAYERS // 2:
        ops.append(['refine_layers', {'factor': 2}])
        ops.append(['refine_layers', {'layers': [l.name for l in g.layerlist[1:]], 'factor': 3}])
    if cols and all(c.num_layers >= 1 for c in cols):
        ops.append(['snap_columns_to_layers', {'cols': [], 'min_thickness': H(1.0)}])
        ops.append(['snap_columns_to_nearest_layers', {'cols': everything}])
    return ops


def random_op(mg, g, rng, inv):
    """one applicable operation, any kind (random long sequences).  `inv` = GeoInv of the current state:
    from a state outside the invariant (a bare edit left something stale) the generator mostly picks one of
    the repairing operations, and it never refines / decomposes / splits an invalid mesh."""
    cols = sorted(g.columnlist, key=G.ckey)
    everything = [G.col_loc(c) for c in cols]
    if not G.consistent(inv) and rng.random() < 0.8:
        pick = rng.choice(['roundtrip', 'setup_names', 'setup_names', 'identify_neighbours', 'reduce_all', 'reduce_all', 'check_fix',
                           'snap_all', 'copy_layers']
                          + (['refine_layers'] if inv['num_layers'] and 1 < len(g.layerlist) <= MAX_LAYERS // 2 else []))
        if pick == 'reduce_all' and cols:
            return ['reduce', {'cols': everything}]
        if pick == 'snap_all' and cols and all(c.num_layers >= 1 for c in cols) and not inv['num_layers']:
            return ['snap_columns_to_layers', {'cols': [], 'min_thickness': H(1.0)}]
        if pick == 'copy_layers':
            return ['copy_layers_from', {'dz': [H(rng.choice([1., 2., 3.])) for _ in range(rng.randint(1, 4))],
                                         'top': H(g.layerlist[0].bottom if g.layerlist else 0.)}]
        if pick == 'roundtrip' and not G.roundtrip_safe(g):
            pick = 'setup_names'
        if pick not in ('reduce_all', 'snap_all'):
            return [pick]
    if not G.mesh_valid(inv) and rng.random() < 0.6:
        return ['reduce', {'cols': everything}] if cols and rng.random() < 0.5 else ['check_fix']
    healthy = G.consistent(inv) and G.mesh_valid(inv)
    r = rng.random()
    if not healthy and r < 0.26:
        r = 0.26 + rng.random() * 0.74
    used = {id(n) for c in cols for n in c.node}

    def some_cols(kmax=None):
        k = rng.randint(1, max(1, min(len(cols), kmax or max(1, len(cols) // 3))))
        mode = rng.random()
        if mode < 0.5:
            # a connected patch
            c0 = rng.choice(cols)
            patch, seen = [c0], {id(c0)}
            frontier = [c0]
            while frontier and len(patch) < k:
                c = frontier.pop(rng.randrange(len(frontier)))
                for nb in sorted(c.neighbour, key=G.ckey):
                    if id(nb) not in seen and any(nb is x for x in cols) and len(patch) < k:
                        seen.add(id(nb)); patch.append(nb); frontier.append(nb)
            return patch
        if mode < 0.7:
            # a strip: columns whose centre lies in a band
            axis = rng.randrange(2)
            v = rng.choice(cols).centre[axis]
            band = [c for c in cols if abs(c.centre[axis] - v) < 1e-9]
            return band or [rng.choice(cols)]
        return rng.sample(cols, k)

    L = lambda cs: [G.col_loc(c) for c in cs]
    if not cols:
        return ['setup_names']
    if r < 0.16 and len(cols) < 300:
        m = rng.random()
        sel = [] if (m < 0.08 and len(cols) <= 40) else (cols if (m < 0.16 and len(cols) <= 40) else some_cols(8))
        a = {'cols': L(sel), 'bisect': rng.choice([False, False, True, 'x', 'y'])}
        sel = sel or cols
        if rng.random() < 0.3:
            selids = {id(c) for c in sel}
            nb = sorted({id(k): k for c in sel for k in c.neighbour if id(k) not in selids}.values(), key=G.ckey)
            if nb:
                e = rng.sample(nb, min(len(nb), rng.randint(1, 3)))
                a['edge'] = L(list({id(c): c for c in e}.values()))
        return ['refine', a]
    if r < 0.20:
        big = [c for c in cols if c.num_nodes > 4]
        return ['decompose_columns', {'cols': L(rng.sample(big, rng.randint(1, len(big))))} if big and rng.random() < 0.7 else {}]
    if r < 0.26:
        quads = [c for c in cols if c.num_nodes == 4]
        if quads:
            c = rng.choice(quads)
            return ['split_column', {'col': G.col_loc(c), 'node': G.node_loc(rng.choice(c.node))}]
    if r < 0.32:
        k = rng.randint(1, min(3, len(cols)))
        sel = rng.sample(cols, k)
        names, taken = [], set(g.column)
        while len(names) < k:
            nm = ''.join(rng.choice('ABCDEFGHIJKLMNOPQRSTUVWXYZ') for _ in range(rng.randint(1, g.colname_length))).rjust(g.colname_length)
            if nm not in taken:
                taken.add(nm); names.append(nm)
        return ['rename_column', {'cols': L(sel), 'new': names, 'as_list': k > 1 or rng.random() < 0.5}]
    if r < 0.36 and len(g.layerlist) > 1:
        l = rng.choice(g.layerlist[1:])
        return ['rename_layer', {'old': l.name, 'new': fresh_name(g, 'layer', rng, g.layername_length)}]
    if r < 0.42 and len(g.layerlist) > 1:
        lays = [l.name for l in g.layerlist[1:]]
        f = rng.choice([2, 2, 3, 4])
        sel = rng.sample(lays, rng.randint(1, len(lays))) if rng.random() < 0.8 else []
        if len(lays) + len(sel or lays) * (f - 1) <= MAX_LAYERS:      # more layers than the convention can name: not an edit
            return ['refine_layers', {'layers': sel, 'factor': f}]
    if r < 0.47 and len(cols) > 2:
        keep = cols if rng.random() < 0.2 else some_cols(max(2, len(cols) - 1))
        return ['reduce', {'cols': L(keep)}]
    if r < 0.52:
        sel = [c for c in (some_cols() if rng.random() < 0.7 else cols) if c.num_layers >= 1]
        if sel:
            return [rng.choice(['snap_columns_to_nearest_layers', 'snap_columns_to_layers']),
                    {'cols': L(sel), 'min_thickness': H(rng.choice([0.5, 1.0, 2.0]))}]
    if r < 0.56:
        return ['translate', {'shift': [H(rng.randint(-64, 64) / 4.), H(rng.randint(-64, 64) / 4.), H(rng.randint(-16, 16) / 4.)],
                              'wells': rng.random() < 0.5}]
    if r < 0.60:
        return ['rotate', {'angle': H(rng.choice([90., -90., 180., 30., 37.6, 360., 45.])),
                           # (the default centre is a float sum over columnlist, whose order after a refine depends on
                           #  set iteration order: the last bits of every position would differ from run to run)
                           'centre': [H(rng.randint(-8, 8) * 1.), H(rng.randint(-8, 8) * 1.)],
                           'wells': rng.random() < 0.5}]
    if r < 0.64 and len(cols) > 1:
        return ['delete_column', {'col': G.col_loc(rng.choice(cols))}]
    if r < 0.68 and g.connectionlist:
        con = rng.choice(sorted(g.connectionlist, key=lambda k: sorted([G.ckey(k.column[0]), G.ckey(k.column[1])])))
        return ['delete_connection', {'cols': L(sorted(con.column, key=G.ckey))}]
    if r < 0.73:
        # add a connection between two columns that share a side and have none
        inv = G.geoinv(g)
        byid = {id(c): c for c in cols}
        miss = sorted(inv['missing-connections'], key=lambda k: sorted([G.ckey(byid[k[1]]), G.ckey(byid[k[2]])]))
        if miss:
            k = rng.choice(miss)
            pair = sorted([byid[k[1]], byid[k[2]]], key=G.ckey)
            rng.shuffle(pair)
            return ['add_connection', {'cols': L(pair)}]
    if r < 0.77:
        orphans = sorted([n for n in g.nodelist if id(n) not in used], key=G.nkey)
        if orphans and rng.random() < 0.6:
            return ['delete_node', {'node': G.node_loc(rng.choice(orphans))}]
        b = g.bounds
        return ['add_node', {'name': fresh_name(g, 'node', rng, g.colname_length),
                             'pos': [H(b[1][0] + rng.randint(1, 8)), H(b[0][1] + rng.randint(0, 8))]}]
    if r < 0.81:
        # a new triangle on a boundary side, using an orphan node if there is one lying outside
        orphans = sorted([n for n in g.nodelist if id(n) not in used], key=G.nkey)
        if orphans:
            nd = rng.choice(orphans)
            sides = G.boundary_sides(g)
            rng.shuffle(sides)
            for c, k in sides[:12]:
                nodes = [c.node[(k + 1) % c.num_nodes], c.node[k], nd]
                p = [(G.fx(n.pos[0]), G.fx(n.pos[1])) for n in nodes]
                side2 = max((p[i][0] - p[(i + 1) % 3][0]) ** 2 + (p[i][1] - p[(i + 1) % 3][1]) ** 2 for i in range(3))
                # (a sliver that is degenerate in exact arithmetic and only exists through rounding is not an edit)
                if G.shoelace2(p) * 1000 > side2 and not G.overlaps_mesh(g, p):
                    return ['add_column', {'name': fresh_name(g, 'column', rng, g.colname_length),
                                           'nodes': [G.node_loc(n) for n in nodes],
                                           'surface': H(c.surface) if c.surface is not None else None}]
    if r < 0.84 and len(g.layerlist) > 2:
        return ['delete_layer', {'name': g.layerlist[-1].name if rng.random() < 0.6 else rng.choice(g.layerlist[1:]).name}]
    if r < 0.87 and g.layerlist:
        low = min(l.bottom for l in g.layerlist)
        t = rng.choice([1., 2., 4.])
        return ['add_layer', {'name': fresh_name(g, 'layer', rng, g.layername_length),
                              'bottom': H(low - t), 'centre': H(low - t / 2), 'top': H(low)}]
    if r < 0.89:
        if g.welllist and rng.random() < 0.5:
            return ['delete_well', {'name': rng.choice(g.welllist).name}]
        c = rng.choice(cols)
        return ['add_well', {'name': fresh_name(g, 'well', rng, 5),
                             'pos': [[H(c.centre[0]), H(c.centre[1]), H(0.)], [H(c.centre[0]), H(c.centre[1]), H(-5.)]]}]
    if r < 0.91:
        return ['copy_layers_from', {'dz': [H(rng.choice([1., 2., 3.])) for _ in range(rng.randint(1, 4))],
                                     'top': H(g.layerlist[0].bottom if g.layerlist else 0.)}]
    if r < 0.925 and healthy and len(cols) <= 60 and g.layerlist:
        # fit_surface: scattered elevations over the grid (least-squares fit by scipy; oracle only, not modelled)
        b = g.bounds
        zs = [l.bottom for l in g.layerlist]
        pts = [[H(b[0][0] + (b[1][0] - b[0][0]) * rng.randint(1, 31) / 32.), H(b[0][1] + (b[1][1] - b[0][1]) * rng.randint(1, 31) / 32.),
                H(rng.uniform(min(zs) + 1.0, max(zs) + 1.0))] for _ in range(rng.randint(6, 20))]
        sel = some_cols() if rng.random() < 0.5 else []
        # (layer_snap > 0 snaps to the surface layer, which a column fitted below the lowest layer does not have:
        #  only used when all data lie at least 3 above the bottom of the stack)
        high = all(G.unhx(p[2]) >= min(zs) + 3.0 for p in pts)
        return ['fit_surface', {'data': pts, 'cols': L(sel), 'layer_snap': H(rng.choice([0.0, 0.5]) if high else 0.0)}]
    if r < 0.93:
        return ['identify_neighbours']
    if r < 0.95:
        return ['setup_names']
    if r < 0.97:
        return ['check_fix']
    return ['roundtrip'] if G.roundtrip_safe(g) else ['setup_names']


# ----------------------------------------------------------------------------- run

def opsig(op):
    a = op[1] if len(op) > 1 else {}
    return '%s%s' % (op[0], '[bisect=%s%s]' % (a.get('bisect'), ',edge' if a.get('edge') else '') if op[0] == 'refine' else '')


class Ties:
    """budgeted use of the compiled model: at most `cap` histories are driven through drv_c10"""

    def __init__(self, ctx, mg, res, cap):
        self.ctx, self.mg, self.res, self.cap = ctx, mg, res, cap
        self.used = 0
        self.fac_ops = res.facet('geo_ops')
        self.fac_inv = res.facet('geo_inv')

    def make(self):
        if not self.ctx.model_ok or self.used >= self.cap:
            return None
        self.used += 1
        return M.ModelTie(self.mg)

    def done(self, tie, recipe, ops):
        if tie is None:
            return
        tie.close()
        self.fac_ops['cases'] += tie.steps + tie.loaded
        self.fac_inv['cases'] += tie.inv_checked
        self.res.unstable += tie.unstable
        for k, v in tie.stats.items():
            self.res.count('model:' + k, v)
        for c, (a, b) in tie.hyp.items():
            h = self.res.hyp.setdefault('GeoInv clause %s holds (model state)' % c, [0, 0])
            h[0] += a
            h[1] += b
        for d in tie.disagreements:
            step = d['case'].get('step', -1)
            if d['facet'] == 'geo_ops' and step >= 0 and M.order_dependent(self.mg, recipe, ops, step, self.ctx.tmp):
                # the real code gives different results for this very history from one run to the next (iteration
                # order of a Python set): nothing to compare against
                self.res.unstable += 1
                self.res.count('model:discarded-order-dependent')
                continue
            d['case'] = {'recipe': recipe, 'ops': ops, 'at': d['case']}
            self.res.disagreements.append(d)
            (self.fac_inv if d['facet'] == 'geo_inv' else self.fac_ops)['disagreements'] += 1


def record(res, viols, recipe, ops, label):
    for v in viols:
        res.violations.append(dict(key=v['key'], what='%s: %s' % (label, v['what']),
                                   case={'recipe': recipe, 'ops': ops[:v['step'] + 1] if v['step'] >= 0 else []}))


def exhaustive(ctx, mg, res, deadline, ties):
    """every sequence of length <= depth of column/layer editing operations on the small geometries"""
    rng = ctx.rng('exhaustive')
    depth = ctx.n(2, 3)
    cap1, cap2 = ctx.n(15, 63), ctx.n(6, 12)
    budget2 = ctx.n(14, 60)          # second-level operations tried per first-level state (seeded sample beyond that)
    nseq = 0
    for label, recipe in small_recipes():
        if label == '3x2':
            recipe = with_surfaces(mg, recipe, rng)
        g0 = G.build(mg, recipe)
        ops1 = column_layer_ops(mg, g0, rng, cap1)
        for op1 in ops1:
            tie = ties.make() if nseq % 2 == 0 or not ctx.quick else None
            v, t, g1 = G.run_sequence(mg, recipe, [op1], ctx.tmp, KNOWN(), observer=tie)
            ties.done(tie, recipe, [op1])
            nseq += 1
            res.evaluations += 1
            res.count('len1:' + opsig(op1))
            record(res, v, recipe, [op1], label)
            res.distinct.add(json.dumps([label, op1], sort_keys=True))
            if depth < 2 or not t or t[-1]['exc'] is not None or t[-1]['hard'] or time.time() > deadline:
                continue
            if not t[-1]['consistent'] or not t[-1]['mesh_valid']:
                # a bare edit left (known, soft) damage or an invalid mesh: what do the repairing operations leave?
                ops2 = repair_ops(mg, g1, rng)
            else:
                ops2 = column_layer_ops(mg, g1, rng, cap2)
                if len(ops2) > budget2:
                    ops2 = rng.sample(ops2, budget2)
            for op2 in ops2:
                seqs = [[op1, op2]]
                if rng.random() < 0.15:
                    seqs.append([op1, ['roundtrip'], op2])
                if depth >= 3 and rng.random() < 0.25:
                    g2 = G.run_sequence(mg, recipe, [op1, op2], ctx.tmp, KNOWN())[2]
                    ops3 = column_layer_ops(mg, g2, rng, cap2)
                    seqs += [[op1, op2, o3] for o3 in rng.sample(ops3, min(len(ops3), 6))]
                for seq in seqs:
                    tie = ties.make() if rng.random() < ctx.n(0.05, 0.5) else None
                    v, t, _ = G.run_sequence(mg, recipe, seq, ctx.tmp, KNOWN(), observer=tie)
                    ties.done(tie, recipe, seq)
                    nseq += 1
                    res.evaluations += 1
                    res.count('len%d' % len(seq))
                    for o in seq[1:]:
                        res.count('op:' + opsig(o))
                    record(res, v, recipe, seq, label)
                    res.distinct.add(json.dumps([label, seq], sort_keys=True))
    return nseq


def big_recipes(mg, rng):
    out = []
    conv = rng.choice([0, 0, 1, 2])
    nx, ny = (rng.randint(2, 5), rng.randint(2, 5)) if conv == 1 else (rng.randint(3, 14), rng.randint(3, 14))
    out.append(('rect%dx%d' % (nx, ny), {'kind': 'rect', 'dx': [rng.choice([4., 8., 12., 16.]) for _ in range(nx)],
                                          'dy': [rng.choice([4., 8., 12.]) for _ in range(ny)],
                                          'dz': [rng.choice([1., 2., 4.]) for _ in range(rng.randint(1, 5))],
                                          'atmos': rng.choice([0, 1, 2]), 'convention': conv,
                                          'origin': [rng.randint(-8, 8) * 4., rng.randint(-8, 8) * 4., rng.randint(-4, 4) * 1.]}))
    out.append(('strip', {'kind': 'rect', 'dx': [8.] * rng.randint(2, 6), 'dy': [8.], 'dz': [2., 2.], 'atmos': rng.choice([0, 1, 2])}))
    f = rng.choice(['g1', 'g2', 'g3', 'g4', 'g5', 'g6', 'g7'])
    out.append((f, {'kind': 'file', 'path': 'tests/mulgrid/%s.dat' % f,
                    'patch': [rng.uniform(0, 1), rng.uniform(0, 1), rng.randint(20, 120)]}))
    return out


def random_sequences(ctx, mg, res, deadline, ties=None):
    rng = ctx.rng('random')
    nseq = ctx.n(40, 600)
    done = 0
    while done < nseq and time.time() < deadline:
        for label, recipe in big_recipes(mg, rng) + [(l, r) for l, r in small_recipes() if rng.random() < 0.5]:
            if rng.random() < 0.5 and recipe['kind'] != 'file':
                recipe = with_surfaces(mg, recipe, rng)
            patch = recipe.pop('patch', None)
            g = G.build(mg, recipe)
            first = None
            if patch is not None:
                b = g.bounds
                first = G.patch_op(g, float(b[0][0] + patch[0] * (b[1][0] - b[0][0])),
                                   float(b[0][1] + patch[1] * (b[1][1] - b[0][1])), patch[2])
            elif len(g.columnlist) > 300:
                continue
            ops = []
            prev = G.geoinv(g)
            v = G.judge_start(prev)
            length = rng.randint(3, 25) if not any(x['key'] not in KNOWN() for x in v) else 0
            tie = ties.make() if ties is not None and len(g.columnlist) <= 120 else None
            if tie is not None:
                tie.start(g, prev, {'step': -1})
            for step in range(length):
                if len(g.columnlist) > 300 and first is None:
                    break
                op = first if first is not None else random_op(mg, g, rng, prev)
                first = None
                ops.append(op)
                info = {}
                cmd = tie.before(step, op, g) if tie is not None else None
                g, exc = G.apply_op(mg, g, op, ctx.tmp, info)
                cur = G.geoinv(g)
                if tie is not None:
                    tie.after(step, op, g, exc, cmd, prev, cur, info)
                vs = G.judge(op[0], exc, prev, cur, info.get('suffix', ''))
                for x in vs:
                    x['step'] = step
                v += vs
                prev = cur
                res.count('op:' + opsig(op))
                if exc is not None:
                    res.count('exc:%s@%s' % (exc, op[0]))
                if exc is not None or any(x['key'] not in KNOWN() for x in vs):
                    break
            if ties is not None:
                ties.done(tie, recipe, ops)
            res.evaluations += 1
            res.count('random-len', len(ops))
            res.count('start:' + label.rstrip('0123456789x'))
            record(res, v, recipe, ops, label)
            res.distinct.add(json.dumps([label, ops], sort_keys=True))
            done += 1
            if done % 25 == 1:
                res.sample({'start': label, 'ops': [opsig(o) for o in ops], 'violations': sorted({x['key'] for x in v})})
    return done


# ----------------------------------------------------------------------------- layer histories on ONE object
#
# Hidden-state facet.  Every history above starts from a freshly built geometry and mostly changes the layer *count*
# between two operations that recount the column layers.  Here the same object goes through
#     (something that recounts column layers)  ->  (layer elevations change, layer count does not)  ->  (recount)
# in many orders, and after EVERY step (a) GeoInv is evaluated as everywhere else (layer count matching the surface,
# recounted from layerlist, name lists fresh, ...) and (b) the state is compared with what a fresh object read from the
# written file holds.  Anything the object remembers from an earlier call shows as a difference in (a) or (b).

RT_TOL = 0.011        # the file keeps two decimals: a surface this close to a layer bottom may legitimately recount


def roundtrip_state_diff(mg, g, tmpdir):
    """differences between g and a fresh geometry read from g's own file, as [(subkind, message)].
    Only what the file format keeps exactly is compared: number of columns / layers, the layer count of every column
    whose surface is not within RT_TOL of a layer bottom, and (when there is no such column) the block name list.
    returns None when the file cannot be written / read back (nothing to compare against)."""
    import os
    path = os.path.join(str(tmpdir), 'ls_%d.dat' % os.getpid())
    try:
        with G.quiet():
            g.write(path)
            g2 = mg.mulgrid(path)
    except Exception:
        return None
    finally:
        if os.path.exists(path):
            os.remove(path)
    out = []
    if len(g2.columnlist) != len(g.columnlist) or len(g2.layerlist) != len(g.layerlist):
        return [('shape', 'the geometry has %d columns / %d layers, the geometry read back from its file %d / %d'
                 % (len(g.columnlist), len(g.layerlist), len(g2.columnlist), len(g2.layerlist)))]
    bottoms = [float(l.bottom) for l in g.layerlist[1:]]
    unstable, bad = 0, []
    for c in g.columnlist:
        c2 = g2.column.get(c.name)
        if c2 is None:
            return [('shape', 'column %r is not in the geometry read back from the file' % c.name)]
        if c.surface is None or any(abs(float(c.surface) - b) <= RT_TOL for b in bottoms):
            unstable += 1
            continue
        if c.num_layers != c2.num_layers:
            bad.append('column %r (surface %r) has num_layers %r, the same column read back from the file has %r'
                       % (c.name, float(c.surface), c.num_layers, c2.num_layers))
    if bad:
        out.append(('num_layers', bad[0] + (' (+%d more)' % (len(bad) - 1) if len(bad) > 1 else '')))
    elif not unstable and list(g.block_name_list) != list(g2.block_name_list):
        out.append(('blocks', 'block_name_list (%d names) differs from that of the geometry read back from the file (%d names)'
                    % (len(g.block_name_list), len(g2.block_name_list))))
    return out


def near_tie(g):
    """is some column surface within rounding distance of a layer bottom without being equal to it?  (thirds from
    refine_layers(factor=3), re-accumulated thicknesses: the next shift can round the two onto each other, which
    changes the count for a reason that is the arithmetic's, not the editing code's)"""
    bottoms = [float(l.bottom) for l in g.layerlist[1:]]
    for c in g.columnlist:
        if c.surface is None:
            continue
        s = float(c.surface)
        if any(0 < abs(s - b) <= 1e-9 * (1 + abs(s)) for b in bottoms):
            return True
    return False


class LayerHistory:
    """one geometry object taken through a history, judged after every step (used by the facet and by replay).
    A state with a near tie between a surface and a layer bottom is still judged (GeoInv is exact on the doubles
    in memory) but the history ends there (`unstable`): nothing is decided from a state that rounding could flip."""

    def __init__(self, mg, recipe, tmpdir):
        self.mg, self.tmp = mg, tmpdir
        self.g = G.build(mg, recipe)
        self.prev = G.geoinv(self.g)
        self.viol = G.judge_start(self.prev)
        self.trace, self.step, self.compared, self.unstable = [], -1, 0, False
        self.alive = not any(v['key'] not in KNOWN() for v in self.viol)
        if self.alive:
            self._compare('build', None, self.prev)
            self._tie()

    def _tie(self):
        if near_tie(self.g):
            self.unstable, self.alive = True, False

    def _compare(self, name, exc, cur):
        if exc is not None or not G.consistent(cur) or not G.roundtrip_safe(self.g):
            return []
        d = roundtrip_state_diff(self.mg, self.g, self.tmp)
        if d is None:
            return []
        self.compared += 1
        vs = [{'key': 'roundtrip-state:%s@%s' % (sub, name), 'step': self.step,
               'what': 'after %s: %s' % (name, msg)} for sub, msg in d]
        self.viol += vs
        return vs

    def apply(self, op):
        """returns the exception class name (or None); self.alive turns False when the history must end"""
        self.step += 1
        info = {}
        try:
            self.g, exc = G.apply_op(self.mg, self.g, op, self.tmp, info)
        except G.Unresolved as e:
            self.trace.append({'op': op[0], 'exc': 'unresolved: %s' % e})
            self.alive = False
            return 'Unresolved'
        cur = G.geoinv(self.g)
        vs = G.judge(op[0], exc, self.prev, cur, info.get('suffix', ''))
        for v in vs:
            v['step'] = self.step
        self.viol += vs
        vs = vs + self._compare(op[0], exc, cur)
        self.trace.append({'op': op[0], 'exc': exc})
        self.prev = cur
        if exc is not None or vs or not G.consistent(cur) or not G.mesh_valid(cur):
            self.alive = False
        self._tie()
        return exc


def layer_recipes(mg, rng):
    """small start geometries; most of them with explicit column surfaces (set through set_column_num_layers, as the
    file reader does) so that layer counts differ from column to column"""
    nx, ny = rng.randint(2, 4), rng.randint(1, 3)
    rect = {'kind': 'rect', 'dx': [rng.choice([4., 8., 12.]) for _ in range(nx)], 'dy': [rng.choice([4., 8.]) for _ in range(ny)],
            'dz': [rng.choice([1., 2., 2., 4., 8.]) for _ in range(rng.randint(2, 6))],
            'atmos': rng.choice([0, 1, 2]), 'convention': rng.choice([0, 0, 1, 2]),
            'origin': [rng.randint(-4, 4) * 4., rng.randint(-4, 4) * 4., rng.randint(-8, 8) * 0.5]}
    label, recipe = rng.choice([('rect%dx%d' % (nx, ny), rect)] * 3 + small_recipes())
    recipe = dict(recipe)
    if rng.random() < 0.6:
        recipe = with_surfaces(mg, recipe, rng)
    return label, recipe


def layer_step(g, rng, phase):
    """one operation of the given phase on the current geometry:
       'count'  something that recounts the layers of (all or some) columns,
       'move'   layer elevations change while the number of layers stays the same,
       'other'  an edit that touches neither (kept in to vary what lies between the two)"""
    cols = sorted(g.columnlist, key=G.ckey)
    L = lambda cs: [G.col_loc(c) for c in cs]
    nlay = len(g.layerlist) - 1
    top = g.layerlist[0].bottom
    zs = [l.bottom for l in g.layerlist]
    thick = [float(l.top - l.bottom) for l in g.layerlist[1:]]
    some = lambda: rng.sample(cols, rng.randint(1, len(cols))) if rng.random() < 0.35 else []
    if phase == 'count':
        pick = rng.choice(['fit_surface', 'fit_surface', 'copy_same', 'copy_self', 'copy_any', 'refine1', 'refine1',
                           'refine_layers', 'recount', 'recount', 'roundtrip', 'snap'])
        if pick == 'fit_surface':
            b = g.bounds
            lo, hi = min(zs), max(zs)
            slope = [rng.uniform(-1., 1.) * (hi - lo) / max(1., b[1][k] - b[0][k]) for k in (0, 1)]
            z0 = rng.uniform(lo, hi)
            # (layer_snap > 0 snaps to the surface layer, which a column fitted below the lowest layer does not have, and
            #  a fit to sloping data extrapolates: only used with scattered data all at least 3 above the bottom of the stack)
            snap = hi - lo > 3.0 and rng.random() < 0.3
            pts = []
            for _ in range(rng.randint(6, 16)):
                x = b[0][0] + (b[1][0] - b[0][0]) * rng.randint(1, 31) / 32.
                y = b[0][1] + (b[1][1] - b[0][1]) * rng.randint(1, 31) / 32.
                if snap:
                    z = rng.uniform(lo + 3.0, hi + 1.0)
                else:
                    z = min(hi + 1.0, max(lo + 0.5, z0 + slope[0] * (x - b[0][0]) + slope[1] * (y - b[0][1]) + rng.uniform(-0.5, 0.5)))
                pts.append([H(x), H(y), H(z)])
            if snap:     # ... and every column holds a data point (a column without data is fitted to elevation 0)
                pts += [[H(c.centre[0]), H(c.centre[1]), H(rng.uniform(lo + 3.0, hi + 1.0))] for c in cols]
            return ['fit_surface', {'data': pts, 'cols': [] if snap else L(some()), 'layer_snap': H(0.5 if snap else 0.0)}]
        if pick == 'copy_self':          # the same layers again (copy_layers_from a copy of itself)
            return ['copy_layers_from', {'dz': [H(t) for t in thick], 'top': H(top)}]
        if pick == 'copy_same':          # the same number of layers, other thicknesses
            for _ in range(8):
                dz = [rng.choice([0.5, 1., 2., 3., 4., 6.]) for _ in range(nlay)]
                if dz != thick:
                    return ['copy_layers_from', {'dz': [H(t) for t in dz], 'top': H(top)}]
        if pick == 'copy_any':
            return ['copy_layers_from', {'dz': [H(rng.choice([1., 2., 3.])) for _ in range(rng.randint(1, 5))], 'top': H(top)}]
        if pick == 'refine1':            # clear and re-add the same layers
            return ['refine_layers', {'layers': [], 'factor': 1}]
        if pick == 'refine_layers' and nlay * 2 <= MAX_LAYERS // 2:
            lays = [l.name for l in g.layerlist[1:]]
            return ['refine_layers', {'layers': rng.sample(lays, rng.randint(1, nlay)) if rng.random() < 0.6 else [],
                                      'factor': rng.choice([2, 2, 3])}]
        if pick == 'roundtrip' and G.roundtrip_safe(g):
            return ['roundtrip']
        if pick == 'snap':
            sel = [c for c in (some() or cols) if c.num_layers >= 1]
            if sel:
                return [rng.choice(['snap_columns_to_nearest_layers', 'snap_columns_to_layers']),
                        {'cols': L(sel), 'min_thickness': H(rng.choice([0.5, 1.0]))}]
        return ['set_column_num_layers', {'cols': L(some())}]
    if phase == 'move':
        pick = rng.choice(['translate', 'translate', 'translate', 'copy_same'])
        if pick == 'copy_same':
            for _ in range(8):
                dz = [rng.choice([0.5, 1., 2., 3., 4., 6.]) for _ in range(nlay)]
                if dz != thick:
                    return ['copy_layers_from', {'dz': [H(t) for t in dz], 'top': H(top)}]
        span = max(1, int(4 * (max(zs) - min(zs))))
        dzq = rng.choice([-1, 1]) * rng.randint(1, span)           # a non-zero multiple of 1/4, up to the stack height
        flat = rng.random() < 0.5
        return ['translate', {'shift': [H(0. if flat else rng.randint(-16, 16) / 4.), H(0. if flat else rng.randint(-16, 16) / 4.),
                                        H(dzq / 4.)], 'wells': rng.random() < 0.5}]
    pick = rng.choice(['rotate', 'rename_layer', 'setup_names', 'translate_h', 'identify_neighbours'])
    if pick == 'rotate':
        return ['rotate', {'angle': H(rng.choice([90., -90., 180.])), 'centre': [H(rng.randint(-4, 4) * 1.), H(rng.randint(-4, 4) * 1.)]}]
    if pick == 'rename_layer' and nlay >= 1:
        return ['rename_layer', {'old': rng.choice(g.layerlist[1:]).name, 'new': fresh_name(g, 'layer', rng, g.layername_length)}]
    if pick == 'translate_h':
        return ['translate', {'shift': [H(rng.randint(-16, 16) / 4.), H(rng.randint(-16, 16) / 4.), H(0.)]}]
    return [pick if pick in ('setup_names', 'identify_neighbours') else 'setup_names']


def layer_sequences(ctx, mg, res, deadline):
    """histories count -> (move -> count)+ on one object, judged after every step"""
    rng = ctx.rng('layer_sequences')
    fac = res.facet('layer_sequences')
    nseq = ctx.n(300, 6000)
    done = 0
    while done < nseq and time.time() < deadline:
        label, recipe = layer_recipes(mg, rng)
        h = LayerHistory(mg, recipe, ctx.tmp)
        ops = []
        plan = ['count'] * rng.randint(0 if recipe.get('surfaces') else 1, 2)
        for _ in range(rng.randint(1, 3)):
            plan += ['move'] * rng.randint(1, 2) + ['count'] * rng.randint(1, 2)
        plan = [p for q in plan for p in ([q, 'other'] if rng.random() < 0.15 else [q])]
        for phase in plan:
            if not h.alive or len(h.g.layerlist) < 2 or not h.g.columnlist:
                break
            op = layer_step(h.g, rng, phase)
            ops.append(op)
            exc = h.apply(op)
            res.count('layer-seq-op:' + opsig(op) + ('[factor=1]' if op[0] == 'refine_layers' and op[1].get('factor') == 1 else ''))
            if exc is not None:
                res.count('exc:%s@%s' % (exc, op[0]))
        for v in h.viol:
            res.violations.append(dict(key=v['key'], what='%s (one object, %d steps): %s' % (label, len(ops), v['what']),
                                       case={'kind': 'layer_sequence', 'recipe': recipe,
                                             'ops': ops[:v['step'] + 1] if v['step'] >= 0 else []}))
        done += 1
        if h.unstable:
            res.unstable += 1
            res.count('layer-seq-ended-at-near-tie')
        fac['cases'] += 1
        res.evaluations += 1
        res.count('layer-seq-len', len(ops))
        res.count('layer-seq-states-compared-with-file', h.compared)
        res.count('start:layer-seq:' + ('rect' if label.startswith('rect') else label))
        res.distinct.add(json.dumps(['layer_sequence', label, recipe.get('surfaces', []), ops], sort_keys=True))
        if done % 40 == 1:
            res.sample({'start': label, 'facet': 'layer_sequences', 'ops': [opsig(o) for o in ops],
                        'violations': sorted({x['key'] for x in h.viol})})
    return done


def run(ctx):
    mg = G.load()
    res = Result()
    res.rule = ('edit sequences on connected geometries: (a) every sequence of length <= 2 (quick) / 3 (thorough) of column/layer '
                'editing operations with column subsets as arguments on 2x2, 3x2 and two mixed tri/quad/pentagon geometries '
                '(subset enumeration complete at depth 1 when 2^n-1 <= cap, seeded sample below); (b) seeded random sequences of length '
                '3..25 over all operations on rectangular grids, strips and patches of the shipped geometries (<= 300 columns), with file '
                'round trips interleaved; (c) seeded histories on ONE object of the form recount-layers -> (layer elevations change, '
                'count unchanged -> recount-layers)+ (fit_surface / copy_layers_from / refine_layers incl. factor 1 / set_column_num_layers / '
                'read, vertical translate / same-count copy_layers_from), each state also compared with the fresh object read from its '
                'own file; distinct = distinct (start geometry, operation list); every one is non-trivial (>= 1 edit)')
    t0 = time.time()
    if ctx.model_ok:
        M.private_driver('drv_c10', ctx.tmp)
    ties = Ties(ctx, mg, res, ctx.n(900, 100000))
    exhaustive(ctx, mg, res, t0 + ctx.n(40, 600), ties)
    random_sequences(ctx, mg, res, t0 + ctx.n(70, 1000), ties)
    layer_sequences(ctx, mg, res, time.time() + ctx.n(15, 300))
    res.count('model:histories-tied', ties.used)
    return res


def search(ctx, seconds, res):
    mg = G.load()
    out = list(res.violations)
    t0 = time.time()
    k = 0
    while not out and time.time() - t0 < seconds:
        k += 1
        c2 = core.Ctx(ctx.prop, ctx.tier, ctx.seed + 7919 * k)
        r = Result()
        random_sequences(c2, mg, r, t0 + seconds)
        c2.cleanup()
        out = r.violations
    return out


def replay(ctx, payload):
    mg = G.load()
    c = payload.get('case') or {}
    if 'ops' not in c:
        return False, 'replay file names what no longer checks: %s' % payload.get('broken')
    if c.get('kind') == 'layer_sequence':
        h = LayerHistory(mg, c['recipe'], ctx.tmp)
        for op in c['ops']:
            if not h.alive:
                break
            h.apply(op)
        v, t = h.viol, h.trace
    else:
        v, t, g = G.run_sequence(mg, c['recipe'], c['ops'], ctx.tmp, KNOWN())
    lines = ['%d operations applied: %s' % (len(t), ', '.join('%s%s' % (x['op'], '!' + x['exc'] if x['exc'] else '') for x in t))]
    want = payload.get('key')
    hit = [x for x in v if want is None or x['key'] == want]
    for x in v:
        lines.append('  %s: %s' % (x['key'], x['what']))
    known = core.known_keys(ID)
    bad = [x for x in hit if x['key'] not in known]
    return bool(bad), '\n'.join(lines)
