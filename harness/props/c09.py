"""C09 - Reordering, renaming and MINC do not change the physics the grid describes.

model      the same heap model as C08 (lean/PyTough/Model/Grid.lean) with the physical payload over Q;
           the physical reading blkPhys / conPhys / PhysEq in Model/GridPhys.lean
theorems   lean/PyTough/Props/C09.lean
tie        correspondence (driver drv_c09, same protocol as C08): grids from the real fromgeo on rectangular
           and irregular geometries, all atmosphere types; compositions of reorder (block permutations,
           connection permutations with reversal subsets) and rename_blocks (one-to-one maps: permutations,
           fresh names, chains); MINC with 2..6 fractions, 1..3 plane sets, full / partial selection; embed.
           Dumps (incl. every distance, area, cosine, nad, volume, centre as exact rationals) are compared
           after every operation: exactly for reorder / rename, to 1e-12 relative once MINC or embed has
           done floating-point arithmetic.
oracle     independent of the model: the physical signature of the real grid - per block object (volume,
           rock type name, centre), per connected pair {block: its own distance}, area, permeability direction,
           gravity cosine oriented from one fixed block of the pair to the other - computed in exact
           rationals before and after each reorder / rename and required to be identical; the same after
           an optional data-file write/read (by name, to the precision of the file format); MINC: per
           original block the continua volumes are V*f_k/sum(f), add up to V, are chained
           fracture -> matrix 1 -> ... with the returned indices; embed: total volume conserved.
sequence   (oracle only, hidden state) families of models handled one after another in one process with arguments
           left to their defaults (minc() without blocks, reorder() / rename_blocks() with no or leading arguments
           only): small model first, then larger ones with the same naming, atmosphere types changing; every grid
           judged on its own (physical signature; MINC chains walked through the connections, V*f_k/sum(f), counts);
           an exception counts only if the same model alone in a fresh process does not raise it.
"""
import json, time, itertools, hashlib, io, contextlib, os
from fractions import Fraction
import core
from core import Result
from props import gridlib as G
from props import c08

ID = 'C09'
MODULE = 'PyTough.Props.C09'
TARGETS = ['PyTough.Props.C09', 'drv_c09']
THEOREMS = ['Props.C09.' + t for t in [
    'reversed_connection_same_phys', 'reorder_preserves_phys', 'rename_preserves_phys', 'compose_preserves_phys',
    'minc_volume_split', 'minc_levels_spec', 'minc_spec', 'minc_spec_default_selection', 'minc_keeps_total_volume',
    'minc_keeps_inv', 'embed_conserves_volume',
    'reorder_any_permutation_any_reversal_partial', 'history_of_explicit_steps_preserves_phys',
    'rename_then_file_names_preserves_phys', 'canonical_names_survive_file',
    'minc_counts', 'minc_leaves_other_connections', 'minc_group_volumes_normalised']]
LEVEL_TEXT = ('Proof: for the executable heap model of t2grid, reorder (any block permutation, any connection permutation with any subset written '
              'reversed) and rename_blocks (any map keeping names distinct) and all their compositions leave the physical network PhysEq-unchanged '
              '(per block object: volume, rock type, centre; per connection: each block with its own distance, area, permeability direction, gravity cosine '
              'oriented between the same two blocks) and the grid consistent; the MINC level loop creates exactly one block per level with volume V*f_k and the '
              'chain block -> matrix 1 -> ... with area V*a and distances (d[m-1], d[m]); V*f_0 + sum V*f_k = V for fractions normalised by a non-zero sum; '
              'embed conserves total volume. '
              'reorder_any_permutation_any_reversal_partial: every explicit permutation of the block objects and of the connection objects with every reversal subset is within the '
              'precondition of reorder and keeps the network (partial: a reversed connection must not also exist as a second object under the swapped names). '
              'history_of_explicit_steps_preserves_phys: a history of reorder/rename steps (any length, compose_preserves_phys is by induction over the list) extended by such an explicit step stays within the precondition and keeps the network. '
              'rename_then_file_names_preserves_phys: after a rename, the trip of the block names through a data file (unfix_blockname then fix_blockname, as a rename map) keeps the network whenever the names that come back are distinct. '
              'canonical_names_survive_file: names of the canonical five-character form come back unchanged, so that trip is always legal for them. '
              'minc_counts: minc keeps the original blocks and connections at the front of the lists and appends exactly P*(L-1) blocks and P*(L-1) connections (P processed selected blocks, L fractions). '
              'minc_leaves_other_connections: every existing connection object keeps all its data, every new connection ends in a new matrix block (so connections between original blocks are the old ones, not rescaled), and no new connection touches an unprocessed block. '
              'minc_group_volumes_normalised: the continua of a processed block have volumes V*f_k/sum(f) for any requested fractions, summing to 1 or not. '
              'Not proved: the numeric rounding of the ELEME/CONNE fields in the file leg (oracle only); rock type and centre of the blocks after minc (model/correspondence only); the minc() geometry numbers a, d (parameters). '
              'Tied to /repo by correspondence after every operation and an independent physical-signature oracle incl. a data-file write/read leg.')
LEVEL_NOTE = ('minc_spec is a theorem about the operation itself (selected blocks split V*f_k and chained, unselected and boundary blocks untouched, position indices returned); '
              'The proximity inversion (a, d) is a parameter. Data-file leg: oracle only. Doubles vs Q: 1e-12 relative for MINC/embed.')
TECHNIQUE = 'Lean 4 proof (physical signature invariant under reorder/rename, by induction over the connection-name loop and over compositions) about the executable heap model + differential correspondence with the real t2grid'
ASSUMPTIONS = [
    'MINC geometry numbers (a, d from scipy.optimize.bisect on the proximity function) are parameters of the model',
    'volumes / areas over Q in the model vs doubles in the code: MINC and embed compared to 1e-12 relative; reorder / rename exact',
    'the data-file write/read leg is evaluated by the oracle only (the file layer is modelled under C01/C02), to the precision of the fixed-format fields',
]
TRUSTED_EXTRA = ['blocks and connections are identified by Python object identity (model: heap id); "the same network" is PhysEq of Model/GridPhys.lean']

REL_FILE = Fraction(1, 2000)      # 10.3e / 10.4e fields
REL_ARITH = Fraction(1, 10 ** 12)


# ------------------------------------------------------------------ the physical signature (oracle)

def con_sig(k0, d0, k1, d1, area, direction, dircos):
    """orientation-free signature of a connection; k0/k1 are comparable block keys"""
    if k0 <= k1:
        return ((k0, d0), (k1, d1), area, direction, dircos)
    return ((k1, d1), (k0, d0), area, direction, None if dircos is None else -dircos)


def phys(g, by_name=False):
    key = (lambda b: b.name) if by_name else id
    blocks = {}
    for b in g.blocklist:
        blocks[key(b)] = (G.frac(b.volume), b.rocktype.name, None if b.centre is None else tuple(G.frac(v) for v in b.centre))
    cons = []
    for c in g.connectionlist:
        b0, b1 = c.block
        cons.append(con_sig(key(b0), G.frac(c.distance[0]), key(b1), G.frac(c.distance[1]), G.frac(c.area), int(c.direction),
                            None if c.dircos is None else G.frac(c.dircos)))
    return blocks, sorted(cons, key=repr)


def near(a, b, rel, abs_tol=Fraction(0)):
    if a is None or b is None:
        return a is b
    return abs(a - b) <= max(rel * max(abs(a), abs(b)), abs_tol)


def phys_diff(p, q, rel=None, names=None):
    """first difference between two signatures, None if they are the same"""
    (pb, pc), (qb, qc) = p, q
    if set(pb) != set(qb):
        return 'blocks', 'the set of blocks changed'
    for k in pb:
        (v0, r0, c0), (v1, r1, c1) = pb[k], qb[k]
        nm = names.get(k, k) if names else k
        if (v0 != v1) if rel is None else not near(v0, v1, rel):
            return 'volume', 'block %r volume %s -> %s' % (nm, float(v0), float(v1))
        if r0 != r1:
            return 'rocktype', 'block %r rock type %r -> %r' % (nm, r0, r1)
        if (c0 is None) != (c1 is None) or (c0 is not None and ((c0 != c1) if rel is None else not all(near(a, b, rel * 2, Fraction(1, 10 ** 6)) for a, b in zip(c0, c1)))):
            return 'centre', 'block %r centre changed' % (nm,)
    if len(pc) != len(qc):
        return 'connections', 'number of connections %d -> %d' % (len(pc), len(qc))
    if rel is None:
        from collections import Counter
        missing = Counter(pc) - Counter(qc)
        if not missing:
            return None
        a = next(iter(missing))
        extra = Counter(qc) - Counter(pc)
        cand = [b for b in extra if (b[0][0], b[1][0]) == (a[0][0], a[1][0])]
        n = lambda k: names.get(k, k) if names else k
        fmt = lambda s: '{%r: %s, %r: %s} area %s direction %s cosine(%r->%r) %s' % (
            n(s[0][0]), float(s[0][1]), n(s[1][0]), float(s[1][1]), float(s[2]), s[3], n(s[0][0]), n(s[1][0]), None if s[4] is None else float(s[4]))
        if not cand:
            return 'pair', 'connection %s has no counterpart afterwards' % fmt(a)
        b = cand[0]
        what = 'distance' if (a[0][1], a[1][1]) != (b[0][1], b[1][1]) else 'dircos' if a[4] != b[4] else 'area' if a[2] != b[2] else 'direction'
        return what, 'connection {block: its distance} %s  became  %s' % (fmt(a), fmt(b))
    # tolerant comparison: match by the pair of block keys
    qa = {}
    for b in qc:
        qa.setdefault((b[0][0], b[1][0]), []).append(b)
    for a in pc:
        cands = qa.get((a[0][0], a[1][0]), [])
        hit = None
        for b in cands:
            if (near(a[0][1], b[0][1], rel) and near(a[1][1], b[1][1], rel) and near(a[2], b[2], rel) and a[3] == b[3] and
                    near(a[4], b[4], rel, Fraction(1, 10 ** 6))):
                hit = b
                break
        if hit is None:
            return 'connection', 'connection %r-%r (distances %s/%s, area %s, direction %s, cosine %s) has no counterpart; candidates %r' % (
                a[0][0], a[1][0], float(a[0][1]), float(a[1][1]), float(a[2]), a[3], None if a[4] is None else float(a[4]),
                [(float(b[0][1]), float(b[1][1]), float(b[2]), b[3], None if b[4] is None else float(b[4])) for b in cands][:3])
        cands.remove(hit)
    return None


def survives_file(name):
    """block names that the data file returns unchanged (naming is C01's subject)"""
    import mulgrids
    try:
        return len(name) == 5 and mulgrids.fix_blockname(mulgrids.unfix_blockname(name)) == name and name == name.rstrip('\n') and name.strip() != ''
    except Exception:
        return False


def file_roundtrip(ctx, g, tag):
    """write the grid in a data file and read it back (real t2data)"""
    import t2data
    path = str(ctx.tmp / ('c09_%s.dat' % tag))
    with contextlib.redirect_stdout(io.StringIO()):
        dat = t2data.t2data()
        dat.grid = g
        dat.write(path)
        dat2 = t2data.t2data(path)
    os.remove(path)
    return dat2.grid


# ------------------------------------------------------------------ oracle for MINC and embed

def minc_oracle(before, g, op, ret):
    """before: {id(block): (name, volume)} of the grid before minc; ret: returned index rows"""
    fr = [Fraction(float(v)) for v in op[1]]
    S = sum(fr)
    L = len(fr)
    sel = op[4] if op[4] else [nm for (nm, v) in before.values()]
    byname = dict((nm, (i, v)) for i, (nm, v) in before.items())
    pos = dict((id(b), i) for i, b in enumerate(g.blocklist))
    conkeys = {}
    for c in g.connectionlist:
        conkeys.setdefault(id(c.block[0]), []).append(c)
    for j, nm in enumerate(sel):
        i, V = byname[nm]
        V = G.frac(V)
        row = ret[j]
        if not (0 < V < G.frac(G.ATMOS_VOLUME)):
            if any(row):
                return 'minc-boundary-block-touched', 'block %r (volume %s) is a boundary block but has MINC indices %r' % (nm, float(V), row)
            continue
        blks = [g.blocklist[k] for k in row]
        if id(blks[0]) != i:
            return 'minc-index', 'blockindex[0] for %r does not point at the original block' % nm
        # the continua add up to the original volume ...
        tot = sum(G.frac(b.volume) for b in blks)
        if not near(tot, V, REL_ARITH):
            return 'minc-total-volume', 'continua of %r add up to %r, original volume %r (fractions %r, sum %r)' % (nm, float(tot), float(V), [float(f) for f in fr], float(S))
        # ... in the requested proportions f_k / sum(f)
        for k, b in enumerate(blks):
            want = V * fr[k] / S
            if not near(G.frac(b.volume), want, REL_ARITH):
                return 'minc-volume-fraction', 'block %r continuum %d has volume %r, expected V*f_k/sum(f) = %r (fractions %r)' % (nm, k, float(b.volume), float(want), [float(f) for f in fr])
        # chain fracture -> matrix 1 -> ... -> innermost
        for k in range(L - 1):
            cs = [c for c in conkeys.get(id(blks[k]), []) if c.block[1] is blks[k + 1]]
            if len(cs) != 1:
                return 'minc-chain', 'block %r: no single connection from continuum %d to %d' % (nm, k, k + 1)
        for k in range(1, L):
            ncon = sum(1 for c in g.connectionlist if any(x is blks[k] for x in c.block))
            if ncon != (2 if k < L - 1 else 1):
                return 'minc-chain', 'block %r: matrix continuum %d has %d connections' % (nm, k, ncon)
    # untouched blocks keep their volume
    seln = set(sel)
    for b in g.blocklist:
        if id(b) in before and before[id(b)][0] not in seln and G.frac(b.volume) != G.frac(before[id(b)][1]):
            return 'minc-unselected-changed', 'unselected block %r changed volume' % b.name
    return None


# ------------------------------------------------------------------ histories

def small_recipes():
    return [
        {'dx': [10., 20.], 'dy': [10.], 'dz': [5., 5.], 'atmos': 0},
        {'dx': [10., 20.], 'dy': [10.], 'dz': [5.], 'atmos': 1},
        {'dx': [10., 20., 5.], 'dy': [10.], 'dz': [5.], 'atmos': 2},
        {'dx': [10., 20.], 'dy': [10., 2.5], 'dz': [5.], 'atmos': 2, 'surface': [0., -1.25, -2.5]},
    ]


def perm_histories(ctx, res, nmax):
    """every block permutation x every reversal subset (x a rotation of the connection order) on small grids"""
    rng = ctx.rng('perm')
    out = []
    for rec in small_recipes():
        g = G.start_grid({'geo': rec})
        names = [b.name for b in g.blocklist]
        keys = [[b.name for b in c.block] for c in g.connectionlist]
        perms = list(itertools.permutations(names)) if len(names) <= 5 else [tuple(rng.sample(names, len(names))) for _ in range(60)]
        masks = list(range(2 ** len(keys))) if len(keys) <= 6 else [rng.getrandbits(len(keys)) for _ in range(64)]
        combos = [(p, m) for p in perms for m in masks]
        if len(combos) > nmax:
            combos = rng.sample(combos, nmax)
        for p, m in combos:
            rot = rng.randrange(len(keys)) if keys else 0
            cs = [(k[::-1] if (m >> i) & 1 else k) for i, k in enumerate(keys)]
            cs = cs[rot:] + cs[:rot]
            out.append(G.History([['reorder', list(p), cs]], {'geo': rec}))
    return out


def rr_op(g, rng):
    """a valid reorder or rename drawn from the live grid"""
    state = {'minc': 9}
    for _ in range(100):
        names = [b.name for b in g.blocklist]
        keys = [[b.name for b in c.block] for c in g.connectionlist]
        if rng.random() < 0.5:
            bs = list(names); rng.shuffle(bs)
            cs = [list(k) for k in keys]; rng.shuffle(cs)
            cs = [k[::-1] if rng.random() < 0.5 else k for k in cs]
            op = ['reorder', bs if rng.random() < 0.8 else None, cs if rng.random() < 0.9 else None]
        else:
            op = c08.random_op(g, rng, True, state)
            if op[0] != 'rename_blocks':
                continue
        if G.classify(g, op) == 'ok':
            return op
    return ['reorder', None, None]


def run_phys_history(ctx, hist, res, gen=None, nmax=0, file_leg=False, tag=''):
    """run on the real code with the physical oracle; returns steps for the correspondence"""
    g = G.start_grid(hist.start)
    start_ops = G.grid_as_ops(g) if hist.start is not None else []
    steps, ops = [], list(hist.ops)
    inexact = False
    i = 0
    viol = []
    while True:
        if gen is not None:
            if i >= nmax: break
            ops.append(gen(g, i))
        elif i >= len(ops):
            break
        op = ops[i]
        st = G.Step()
        st.op, st.cls = op, G.classify(g, op)
        before = phys(g)
        names = dict((id(b), b.name) for b in g.blocklist)
        bvol = dict((id(b), (b.name, b.volume)) for b in g.blocklist)
        bvol_by_name = dict((b.name, b.volume) for b in g.blocklist)
        tot_before = sum(G.frac(b.volume) for b in g.blocklist)
        if op[0] in ('minc', 'embed', 'embed_standalone'):
            inexact = True
        a = G.apply_op(g, op)
        g = a.grid
        st.applied, st.inexact = a, inexact
        st.head, st.dump = G.dump_applied(a), G.dump_grid(g)
        st.weak, st.strong = G.oracle(g, False), G.oracle(g, True)
        st.inv_expected = (not st.strong) and all(c.block[0] is not c.block[1] for c in g.connectionlist)
        case = {'start': hist.start, 'ops': ops[:i + 1]}
        if st.cls == 'ok' and a.exc is None:
            if op[0] in ('reorder', 'rename_blocks'):
                d = phys_diff(before, phys(g), None, names)
                if d:
                    key = 'reorder-reversed-payload' if (op[0] == 'reorder' and d[0] in ('distance', 'dircos')) else 'phys:%s:%s' % (op[0], d[0])
                    viol.append(dict(key=key, what='%s changed the physical network: %s' % (op[0], d[1]), case=case))
            elif op[0] == 'minc':
                m = minc_oracle(bvol, g, op, a.ret)
                if m:
                    viol.append(dict(key=m[0], what='minc(%s): %s' % (json.dumps(op[1:])[:100], m[1]), case=case))
            elif op[0] in ('embed', 'embed_standalone') and a.flag:
                tot = sum(G.frac(b.volume) for b in g.blocklist)
                sub = sum(G.frac(b[2]) for b in op[1]['blocks'])
                hostv = G.frac(bvol_by_name[op[2]])
                if not near(tot, tot_before, REL_ARITH):
                    viol.append(dict(key='embed-volume', what='embed: total volume %r -> %r (sub-grid volume %r)' % (float(tot_before), float(tot), float(sub)), case=case))
                elif op[2] not in g.block or not near(G.frac(g.block[op[2]].volume), hostv - sub, REL_ARITH):
                    viol.append(dict(key='embed-host-volume', what='embed: host block %r has volume %r, expected %r - %r' % (op[2], float(g.block[op[2]].volume), float(hostv), float(sub)), case=case))
        if st.weak and st.strong and st.cls == 'ok':
            viol.append(dict(key='inv:%s:%s' % (op[0], st.weak[0]), what='after %s the grid is inconsistent: %s' % (json.dumps(op)[:120], st.weak), case=case))
        steps.append(st)
        i += 1
    if file_leg and all(survives_file(b.name) for b in g.blocklist) and not any(v for v in viol):
        res.count('file-roundtrip')
        p0 = phys(g, by_name=True)
        g2 = file_roundtrip(ctx, g, tag)
        d = phys_diff(p0, phys(g2, by_name=True), REL_FILE)
        if d:
            viol.append(dict(key='phys:file-roundtrip:%s' % d[0], what='data file write/read changed the physical network: %s' % d[1],
                             case={'start': hist.start, 'ops': ops, 'file': True}))
    hist.ops = ops
    hist._real = (start_ops, steps, g, False)
    return viol


def minc_histories(ctx, n):
    out = []
    for j in range(n):
        rng = ctx.rng('minc/%d' % j)
        rec = c08.random_recipe(rng, big=(j % 5 == 4))
        g = G.start_grid({'geo': rec})
        names = [b.name for b in g.blocklist]
        nlev = rng.randint(2, 6)
        style = j % 6
        if style == 0:      # integer ratios / percentages
            fr = [float(rng.choice([1, 2, 5, 10, 20, 30, 50])) for _ in range(nlev)]
        elif style == 1:    # weights adding up to strictly less than 1 (the documentation says they are rescaled)
            fr = [rng.choice([0.05, 0.15, 0.3, 0.02, 0.1, 0.125, 0.0625]) for _ in range(nlev)]
            while sum(fr) >= 1.0:
                fr = [v / 2 for v in fr]
        elif style == 2:    # exactly 1
            cuts = sorted(rng.sample(range(1, 64), nlev - 1))
            fr = [(b - a) / 64.0 for a, b in zip([0] + cuts, cuts + [64])]
        elif style == 3:    # tiny totals
            fr = [rng.choice([1e-6, 3e-6, 2.5e-7, 1e-9]) for _ in range(nlev)]
        elif style == 4:    # huge totals
            fr = [rng.choice([1e6, 2.5e7, 3e5, 1e9]) for _ in range(nlev)]
        else:
            fr = [rng.choice([1.0, 2.0, 5.0, 0.5, 10.0, 0.125, 3.0]) for _ in range(nlev)]
        blocks = None if rng.random() < 0.4 else rng.sample(names, rng.randint(1, max(1, min(8, len(names)))))
        ops = []
        if rng.random() < 0.5:
            ops.append(rr_op(g, rng) if False else ['sort_rocktypes'])
        ops.append(['minc', fr, rng.choice([50., 10., 37.5, 200., 1.5]), rng.randint(1, 3), blocks])
        out.append(G.History(ops, {'geo': rec}))
    return out


def embed_histories(ctx, n):
    out = []
    for j in range(n):
        rng = ctx.rng('embed/%d' % j)
        rec = c08.random_recipe(rng, big=False)
        g = G.start_grid({'geo': rec})
        small = [b.name for b in g.blocklist if 0 < b.volume < 1e9]
        if not small:
            continue
        spec = c08.random_spec(rng, g)
        host = rng.choice(small)
        if j % 2:
            # the connection names the host through a standalone block of the same name: same volume as the
            # grid's block (a copy), or another one (the block of an older version of the grid)
            hv = float(g.block[host].volume)
            out.append(G.History([['embed_standalone', spec, host, spec['blocks'][0][0], c08.random_pay(rng), rng.choice([hv, hv, 2 * hv, hv / 2])]], {'geo': rec}))
        else:
            out.append(G.History([['embed', spec, host, spec['blocks'][0][0], c08.random_pay(rng)]], {'geo': rec}))
    return out


# ------------------------------------------------------------------ sequences (hidden state)
#
# A sequence is a family of models handled one after another in ONE process, the way a script preparing several
# dual-porosity models does: for each model a fresh geometry + fromgeo grid, then a few public calls written the way
# users write them - arguments left to their defaults (minc() without `blocks`, reorder() / rename_blocks() without or
# with only the leading arguments).  Every call is judged on its own grid with the independent oracle (physical
# signature for reorder / rename; per-block continuum chains, normalised fractions and counts for MINC), so the
# expected result never depends on what was done to another object earlier in the process.
#
#   case = {'seq': [{'geo': recipe, 'calls': [call, ...]}, ...]}
#   call = ['minc', fractions, spacing | None, planes | None, 'omit' | 'empty' | 'none' | [names]]
#              spacing None: minc(fractions) only; 'omit': no blocks argument; 'empty': blocks=[]; 'none': blocks=None
#        | ['reorder', block_names | None, connection_names | None]    (None: argument not passed)
#        | ['reorder_geo']                                             reorder(geo=geo)
#        | ['rename_blocks', pairs | None, fix | None]                 (None: argument not passed)

def seq_apply(g, geo, call):
    """one call on the real grid, arguments passed exactly as recorded; returns (exception class or None, return value)"""
    k = call[0]
    try:
        with contextlib.redirect_stdout(io.StringIO()):
            if k == 'minc':
                args = [list(call[1])]
                if call[2] is not None:
                    args.append(call[2])
                    if call[3] is not None:
                        args.append(call[3])
                kw = {}
                if call[4] == 'empty': kw['blocks'] = []
                elif call[4] == 'none': kw['blocks'] = None
                elif call[4] != 'omit': kw['blocks'] = list(call[4])
                idx = g.minc(*args, **kw)
                return None, [[int(v) for v in idx[:, j]] for j in range(idx.shape[1])]
            if k == 'reorder':
                bs = list(call[1]) if call[1] is not None else None
                cs = [tuple(c) for c in call[2]] if call[2] is not None else None
                if bs is None and cs is None: g.reorder()
                elif cs is None: g.reorder(bs)
                elif bs is None: g.reorder(connection_names=cs)
                else: g.reorder(bs, cs)
                return None, None
            if k == 'reorder_geo':
                g.reorder(geo=geo)
                return None, None
            if k == 'rename_blocks':
                if call[1] is None: g.rename_blocks()
                elif call[2] is None: g.rename_blocks(dict((a, b) for a, b in call[1]))
                else: g.rename_blocks(dict((a, b) for a, b in call[1]), bool(call[2]))
                return None, None
    except (KeyError, ValueError, IndexError, TypeError, ZeroDivisionError, AttributeError) as e:
        return type(e).__name__, None
    except Exception as e:
        if type(e) is not Exception:
            raise
        return 'Exception', None
    raise RuntimeError('unknown sequence call %r' % (call,))


def minc_chain_oracle(orig, ncon0, g, fractions, selected):
    """MINC judged from the grid alone (no use of the returned indices).  orig: [(block object, name, volume)] before
    the call, ncon0: number of connections before, selected: the names MINC was asked for."""
    fr = [Fraction(float(v)) for v in fractions]
    S, L = sum(fr), len(fr)
    orig_ids = set(id(b) for b, nm, v in orig)
    nbrs = {}
    for c in g.connectionlist:
        b0, b1 = c.block
        nbrs.setdefault(id(b0), []).append(b1)
        nbrs.setdefault(id(b1), []).append(b0)
    inlist = set(id(b) for b in g.blocklist)
    seen, processed = set(), 0
    sel = set(selected)
    for b, nm, v in orig:
        if id(b) not in inlist:
            return 'minc-block-lost', 'original block %r is no longer in the grid' % nm
        V = G.frac(v)
        chain, cur = [b], b
        while True:
            nxt = [x for x in nbrs.get(id(cur), []) if id(x) not in orig_ids and all(x is not y for y in chain)]
            if not nxt:
                break
            if len(nxt) > 1:
                return 'minc-chain', 'block %r: continuum %d is connected to %d further new blocks' % (nm, len(chain) - 1, len(nxt))
            cur = nxt[0]
            chain.append(cur)
        seen.update(id(x) for x in chain[1:])
        want_split = nm in sel and 0 < V < G.frac(G.ATMOS_VOLUME)
        processed += want_split
        want = [V * f / S for f in fr] if want_split else [V]
        vols = [G.frac(x.volume) for x in chain]
        if len(vols) != len(want):
            return 'minc-continua-count', 'block %r (volume %r, %s) has %d continua with volumes %r, expected %d: %r (fractions %r)' % (
                nm, float(V), 'selected' if nm in sel else 'not selected', len(vols), [float(x) for x in vols], len(want), [float(x) for x in want], [float(f) for f in fr])
        if not near(sum(vols), V, REL_ARITH):
            return 'minc-total-volume', 'continua of %r add up to %r, original volume %r' % (nm, float(sum(vols)), float(V))
        for k, (a, w) in enumerate(zip(vols, want)):
            if not near(a, w, REL_ARITH):
                return 'minc-volume-fraction', 'block %r continuum %d has volume %r, expected V*f_k/sum(f) = %r (fractions %r)' % (nm, k, float(a), float(w), [float(f) for f in fr])
    extra = [x.name for x in g.blocklist if id(x) not in orig_ids and id(x) not in seen]
    if extra:
        return 'minc-chain', 'new blocks not chained to any original block: %r' % extra[:5]
    if len(g.blocklist) != len(orig) + processed * (L - 1) or len(g.connectionlist) != ncon0 + processed * (L - 1):
        return 'minc-counts', '%d blocks / %d connections after MINC of %d blocks with %d fractions, before %d / %d' % (
            len(g.blocklist), len(g.connectionlist), processed, L, len(orig), ncon0)
    return None


def seq_fresh_replay(ctx, case):
    """re-run a sequence case in a fresh process (check.py --replay): True = violated there, False = holds there"""
    import subprocess, sys
    p = ctx.tmp / ('c09_seq_%d.json' % int(time.time() * 1e6))
    p.write_text(json.dumps({'case': case}))
    env = dict(os.environ, PYTHONWARNINGS='ignore')
    c = subprocess.run([sys.executable, str(os.path.join(os.path.dirname(os.path.abspath(core.__file__)), 'check.py')), ID, '--replay', str(p)],
                       stdout=subprocess.PIPE, stderr=subprocess.STDOUT, text=True, timeout=600, env=env)
    os.remove(str(p))
    if c.returncode not in (0, 1):
        raise RuntimeError('fresh-process replay failed (exit %d): %s' % (c.returncode, c.stdout[-600:]))
    return c.returncode == 1


def seq_run(ctx, models, res=None, draw=None, info=None):
    """run a sequence on the real code in this process and judge every call; with `draw` the calls of model i are
    drawn from the live grid (draw(i, g, geo, k) -> call or None) and recorded in models[i]['calls']"""
    viol = []
    for i, m in enumerate(models):
        geo = G.make_geo(m['geo'])
        with contextlib.redirect_stdout(io.StringIO()):
            g = G.T().t2grid().fromgeo(geo)
        calls = m['calls']
        k = 0
        while True:
            if draw is not None:
                call = draw(i, g, geo, k)
                if call is None: break
                calls.append(call)
            elif k >= len(calls):
                break
            call = calls[k]
            case = {'seq': [dict(x) for x in models[:i]] + [{'geo': m['geo'], 'calls': calls[:k + 1]}]}
            before = phys(g)
            names = dict((id(b), b.name) for b in g.blocklist)
            orig = [(b, b.name, b.volume) for b in g.blocklist]
            ncon0 = len(g.connectionlist)
            valid = True
            if call[0] == 'reorder':
                valid = G.classify(g, ['reorder', call[1], call[2]]) == 'ok'
            elif call[0] == 'rename_blocks' and call[1] is not None:
                valid = G.classify(g, ['rename_blocks', call[1], True if call[2] is None else call[2]]) == 'ok'
            exc, ret = seq_apply(g, geo, call)
            if info is not None: info['last_exc'] = exc
            if res is not None:
                res.evaluations += 1
                res.facet('sequence')['cases'] += 1
                res.count('seq:' + call[0] + (':blocks-' + (call[4] if isinstance(call[4], str) else 'given') if call[0] == 'minc' else ''))
                res.count('seq:position-in-process', i)
                if exc: res.count('seq:exc:' + exc)
                res.distinct.add(hashlib.sha1(('seq' + json.dumps(case)).encode()).hexdigest()[:16])
            if exc is not None:
                # an exception is judged only as hidden state: the same calls on this model alone, in a fresh process
                if valid and i > 0:
                    alone = {'seq': [case['seq'][-1]], 'expect_exc': exc}
                    if seq_fresh_replay(ctx, alone):
                        viol.append(dict(key='seq-exception:%s' % call[0], what='%s raised %s as model %d of a sequence in one process; the same calls on this model alone in a fresh process do not' % (
                            json.dumps(call)[:100], exc, i + 1), case=case))
                break
            if not valid:
                break
            if call[0] in ('reorder', 'reorder_geo', 'rename_blocks'):
                d = phys_diff(before, phys(g), None, names)
                if d:
                    viol.append(dict(key='phys:%s:%s' % (call[0], d[0]), what='model %d of the sequence: %s changed the physical network: %s' % (i + 1, json.dumps(call)[:80], d[1]), case=case))
                    break
            else:
                sel = [nm for b, nm, v in orig] if isinstance(call[4], str) else list(call[4])
                m1 = minc_chain_oracle(orig, ncon0, g, call[1], sel)
                if not m1 and len(ret) == len(sel):
                    sp = 50. if call[2] is None else call[2]
                    m1 = minc_oracle(dict((id(b), (nm, v)) for b, nm, v in orig), g, ['minc', call[1], sp, call[3] or 1, sel], ret)
                elif not m1:
                    m1 = ('minc-index', 'the returned index array has %d columns for %d blocks MINC was applied to' % (len(ret), len(sel)))
                if m1:
                    viol.append(dict(key=m1[0], what='model %d of the sequence, minc(%s): %s' % (i + 1, json.dumps(call[1:])[:100], m1[1]), case=case))
                    break
                w = G.oracle(g, False)
                if w and G.oracle(g, True):
                    viol.append(dict(key='inv:minc:%s' % w[0], what='model %d of the sequence: after minc the grid is inconsistent: %s' % (i + 1, w), case=case))
                    break
            k += 1
        if viol:
            break
    return viol


SEQ_DX, SEQ_DZ = [100., 120., 80., 60., 50., 37.5], [20., 30., 10., 15., 40., 12.5]
SEQ_FRACTIONS = [[0.1, 0.3, 0.6], [5., 15., 30., 50.], [0.05, 0.2, 0.25, 0.5], [1., 2., 3., 4., 5., 6.], [0.25, 0.75], [0.1, 0.2, 0.3], [2., 1., 1.]]


def seq_fixed():
    """two families written by hand: a model and its refinements with the same naming, full MINC through the defaults"""
    r = lambda nx, ny, nz, atmos, conv=0: {'dx': SEQ_DX[:nx], 'dy': [50., 60., 70.][:ny], 'dz': SEQ_DZ[:nz], 'atmos': atmos, 'convention': conv}
    return [
        [{'geo': r(2, 1, 2, 0), 'calls': [['minc', [0.2, 0.8], None, None, 'omit']]},
         {'geo': r(4, 2, 3, 0), 'calls': [['minc', [5., 15., 30., 50.], 35., 2, 'omit']]},
         {'geo': r(4, 3, 2, 2), 'calls': [['minc', [0.05, 0.2, 0.25, 0.5], 50., 3, ['  b 1', '  c 1', '  f 1', '  h 2', '  l 2']]]},
         {'geo': r(3, 2, 4, 0), 'calls': [['reorder', None, None], ['minc', [1., 2., 3.], 45., None, 'omit'], ['rename_blocks', None, None]]}],
        [{'geo': r(2, 1, 1, 2), 'calls': [['rename_blocks', None, None], ['minc', [0.1, 0.9], 40., 1, 'omit']]},
         {'geo': r(3, 2, 2, 1), 'calls': [['reorder_geo'], ['minc', [1., 1., 2.], 25., 3, 'omit']]},
         {'geo': r(5, 2, 2, 0), 'calls': [['minc', [0.1, 0.3, 0.6], 40., 1, 'empty']]},
         {'geo': r(5, 2, 3, 2, 1), 'calls': [['minc', [0.3, 0.3, 0.3], None, None, 'none']]},
         {'geo': r(6, 2, 3, 2, 1), 'calls': [['minc', [0.5, 0.25, 0.125, 0.125], 10., 2, 'omit']]}],
    ]


def seq_random(ctx, j, res):
    """a random family: a small model first, then mostly larger ones with the same naming (their block names are a
    superset), atmosphere type and naming convention sometimes changing; calls drawn from the live grids"""
    rng = ctx.rng('sequence/%d' % j)
    nmod = rng.randint(3, 5)
    nx, ny, nz = rng.choice([(2, 1, 1), (2, 1, 2), (3, 1, 2), (2, 2, 1), (3, 2, 2)])
    atmos, conv = rng.choice([0, 1, 2]), rng.choice([0, 0, 1, 2])
    models = []
    for i in range(nmod):
        if i > 0:
            if rng.random() < 0.75:
                nx, ny, nz = min(nx + rng.randint(0, 2), 6), min(ny + rng.randint(0, 1), 3), min(nz + rng.randint(0, 2), 5)
            else:
                nx, ny, nz = rng.choice([(2, 1, 2), (3, 2, 1), (4, 2, 3), (5, 3, 2)])
            if rng.random() < 0.35: atmos = rng.choice([0, 1, 2])
            if rng.random() < 0.15: conv = rng.choice([0, 1, 2])
        rec = {'dx': [rng.choice(SEQ_DX) for _ in range(nx)], 'dy': [rng.choice([50., 60., 70.]) for _ in range(ny)],
               'dz': [rng.choice(SEQ_DZ) for _ in range(nz)], 'atmos': atmos, 'convention': conv}
        if rng.random() < 0.25:
            tot = sum(rec['dz'])
            rec['surface'] = [-rng.choice([0., 0.25, 0.5]) * tot for _ in range(3)]
        models.append({'geo': rec, 'calls': []})
    plans = []
    for i in range(nmod):
        plan = []
        for _ in range(rng.choice([0, 0, 1, 1, 2])):
            plan.append(rng.choice(['reorder', 'reorder', 'rename', 'reorder_none', 'rename_none', 'reorder_geo']))
        plan.append('minc')
        if rng.random() < 0.3:
            plan.append(rng.choice(['reorder_none', 'rename_none']))
        plans.append(plan)

    def draw(i, g, geo, k):
        if k >= len(plans[i]):
            return None
        kind = plans[i][k]
        if kind == 'reorder_none': return ['reorder', None, None]
        if kind == 'rename_none': return ['rename_blocks', None, None]
        if kind == 'reorder_geo':
            return ['reorder_geo'] if sorted(b.name for b in g.blocklist) == sorted(geo.block_name_list) else ['reorder', None, None]
        if kind in ('reorder', 'rename'):
            for _ in range(20):
                op = rr_op(g, rng)
                if (op[0] == 'reorder') == (kind == 'reorder'):
                    break
            if op[0] == 'reorder':
                return ['reorder', op[1], op[2] if (op[1] is None or rng.random() < 0.5) else None]
            return ['rename_blocks', op[1], None if op[2] else False]
        fr = list(rng.choice(SEQ_FRACTIONS))
        sp = rng.choice([None, 50., 40., 35., 10., 200.])
        nf = None if sp is None else rng.choice([None, 1, 2, 3])
        u = rng.random()
        if u < 0.7: mode = 'omit'
        elif u < 0.8: mode = 'empty'
        elif u < 0.85: mode = 'none'
        else:
            names = [b.name for b in g.blocklist]
            mode = rng.sample(names, rng.randint(1, min(6, len(names))))
        return ['minc', fr, sp, nf, mode]
    return models, seq_run(ctx, models, res, draw)


def run_sequences(ctx, res, scale=1.0):
    done = []       # every model handled by this facet in this process so far, in order
    fams = [(m, None) for m in seq_fixed()] + [(None, j) for j in range(max(1, int(ctx.n(6, 60) * scale)))]
    for fixed, j in fams:
        if fixed is not None:
            models, viol = fixed, seq_run(ctx, fixed, res)
        else:
            models, viol = seq_random(ctx, j, res)
        res.count('seq:families')
        res.count('seq:models', len(models))
        for v in viol:
            # the case must fail when replayed in a fresh process; if this family alone does not, what this process
            # did before it matters: record every model the facet has handled so far as well
            if done and not seq_fresh_replay(ctx, v['case']):
                v['case'] = {'seq': done + v['case']['seq']}
        res.violations += viol
        done += [{'geo': m['geo'], 'calls': list(m['calls'])} for m in models]
        if viol:
            break
    res.facet('sequence')


# ------------------------------------------------------------------ run / search / replay

def run(ctx, scale=1.0, oracle_only=False):
    res = Result()
    res.rule = ('a case = one operation applied to one grid (real code + model, dumps compared, physical signature compared before/after); '
                'distinct non-trivial = distinct (state before, operation) pairs where the operation changed the public state')
    hists, facets = [], []
    # fixed: the repaired reorder on the pinned test's grid shape, and a swap rename
    fixed = [G.History([['reorder', None, [['  a 1', 'ATM 0'], ['  b 1', '  a 1'], ['  b 1', 'ATM 0'], ['  a 2', '  a 1'], ['  b 2', '  a 2'], ['  b 1', '  b 2']]]],
                       {'geo': small_recipes()[0]}),
             G.History([['rename_blocks', [['  a 1', '  b 1'], ['  b 1', '  a 1']], True], ['reorder', ['  b 2', '  a 2', '  b 1', '  a 1', 'ATM 0'], None]],
                       {'geo': small_recipes()[0]})]
    for h in fixed:
        res.violations += run_phys_history(ctx, h, res, file_leg=True, tag='fixed')
        hists.append(h); facets.append('fixed')
    for h in perm_histories(ctx, res, int(ctx.n(150, 4000) * scale)):
        res.violations += run_phys_history(ctx, h, res)
        hists.append(h); facets.append('permutations')
    n_rand = int(ctx.n(60, 1500) * scale)
    for j in range(n_rand):
        rng = ctx.rng('rr/%d' % j)
        rec = c08.random_recipe(rng, big=(j % 6 == 5))
        h = G.History([], {'geo': rec})
        npre = rng.choice([0, 1, 2, 3])     # extra connections carrying nad1/nad2 (fromgeo leaves them None)

        def gen(g, i, rng=rng, npre=npre):
            if i < npre and len(g.blocklist) >= 2:
                a, b = rng.sample([x.name for x in g.blocklist], 2)
                p = c08.random_pay(rng)
                p[5], p[6] = rng.choice([1, 2, 5]), rng.choice([None, 3, 4])
                return ['add_connection', a, b, p]
            return rr_op(g, rng)
        res.violations += run_phys_history(ctx, h, res, gen=gen, nmax=npre + rng.randint(1, 6),
                                           file_leg=(j % 3 == 0 and npre == 0), tag='rr%d' % j)
        hists.append(h); facets.append('compositions')
        res.count('atmos-%d' % rec['atmos'])
        res.count('irregular' if rec.get('refine') else 'rectangular')
        res.count('start-blocks', len([o for o in h._real[0] if o[0] == 'add_block']))
    for h in minc_histories(ctx, int(ctx.n(40, 800) * scale)):
        res.violations += run_phys_history(ctx, h, res)
        hists.append(h); facets.append('minc')
    for h in embed_histories(ctx, int(ctx.n(20, 300) * scale)):
        res.violations += run_phys_history(ctx, h, res)
        hists.append(h); facets.append('embed')
    run_sequences(ctx, res, scale)
    lines = [G.model_line(h._real[0], h._real[1], 0) for h in hists]
    replies = [None] * len(lines)
    if ctx.model_ok and not oracle_only:
        replies = core.run_driver('drv_c09', lines)
    for h, facet, rep in zip(hists, facets, replies):
        steps = h._real[1]
        f = res.facet(facet)
        model = G.parse_reply(rep) if rep is not None else None
        for i, st in enumerate(steps):
            res.evaluations += 1
            res.count('op:' + st.op[0])
            if st.op[0] == 'reorder' and st.op[2]:
                res.count('reorder:connections-reversed', sum(1 for k in st.op[2] if True))
            if st.applied.exc:
                res.count('exc:' + st.applied.exc)
            res.hyp.setdefault('pre (hypothesis of the phys theorems)', [0, 0])
            res.hyp['pre (hypothesis of the phys theorems)'][1] += 1
            res.hyp['pre (hypothesis of the phys theorems)'][0] += st.cls == 'ok'
            before = steps[i - 1].dump if i > 0 else ''
            if st.dump != before or st.applied.exc:
                res.distinct.add(hashlib.sha1((before + json.dumps(st.op)).encode()).hexdigest()[:16])
            if model is not None:
                head, pre, inv, wd = G.split_model_dump(model[i])
                f['cases'] += 1
                if not (head == st.head and G.dumps_equal(st.dump, wd, 1e-12 if st.inexact else None)) or pre != st.cls or inv != st.inv_expected:
                    f['disagreements'] += 1
                    res.disagreements.append(dict(facet=facet, case={'start': h.start, 'ops': [s.op for s in steps[:i + 1]]},
                                                  model=(head + ';P=' + pre + ';' + wd)[:600], impl=(st.head + ';P=' + st.cls + ';' + st.dump)[:600]))
                    break
        if facet in ('compositions', 'minc') and len(res.samples) < 6 and steps:
            res.sample({'start': h.start, 'ops': [json.dumps(s.op)[:200] for s in steps[:2]], 'n_ops': len(steps)})
    for name in ('fixed', 'permutations', 'compositions', 'minc', 'embed', 'sequence'):
        res.facet(name)
    res.exhaustive = False
    return res


def search(ctx, seconds, res):
    found = list(res.violations)
    t0 = time.time()
    k = 0
    while not found and time.time() - t0 < seconds:
        k += 1
        c2 = core.Ctx(ctx.prop, ctx.tier, ctx.seed + 7919 * k)
        c2.model_ok = False
        try:
            r = run(c2, scale=0.5, oracle_only=True)
        finally:
            c2.cleanup()
        found = r.violations
    return found


def replay(ctx, payload):
    c = payload.get('case') or {}
    if 'seq' in c:
        models = [{'geo': m['geo'], 'calls': [list(x) for x in m['calls']]} for m in c['seq']]
        info = {}
        viol = seq_run(ctx, models, None, None, info)
        txt = 'sequence of %d models in one process (%d calls)' % (len(models), sum(len(m['calls']) for m in models))
        if 'expect_exc' in c:
            # helper case of the sequence facet: does the last call raise the same exception in a fresh process?
            same = info.get('last_exc') == c['expect_exc']
            return (not same), txt + '\nlast call raised %r, in the sequence it raised %r' % (info.get('last_exc'), c['expect_exc'])
        if viol:
            txt += '\n' + '\n'.join('%s: %s' % (v['key'], v['what']) for v in viol[:3])
        else:
            txt += '\nevery grid as required (physical signature unchanged / MINC chains, fractions and counts)'
        return bool(viol), txt
    if 'ops' not in c:
        return False, 'replay file names what no longer checks: %s' % payload.get('broken')
    res = Result()
    h = G.History([list(o) for o in c['ops']], c.get('start'))
    viol = run_phys_history(ctx, h, res, file_leg=bool(c.get('file')), tag='replay')
    st = h._real[1][-1] if h._real[1] else None
    txt = 'history of %d operations on %s' % (len(h._real[1]), json.dumps(c.get('start'))[:200])
    if viol:
        txt += '\n' + '\n'.join('%s: %s' % (v['key'], v['what']) for v in viol[:3])
    else:
        txt += '\nphysical signature unchanged / MINC and embed volumes as required'
    return bool(viol), txt
