"""C03 — MULgraph geometry file write/read round trip preserves the geometry.

model      lean/PyTough/Model/GeoFile.lean (mulgrid.read/write and all read_*/write_* section
           routines, set_unit_type/unit_scale, column.__init__ orientation flip and centroid,
           identify_layer_tops, set_default_surface, set_column_num_layers, block/connection name
           lists) over the shared record layer Model/Fixed.lean and the regenerated table Gen/Specs.lean
theorems   lean/PyTough/Props/C03.lean
tie        translator harness/translate/specs.py (header names and all field specs come from the table
           of the current tree) and three correspondence facets:
             geo_write    real mulgrid.write(file) bytes  vs  model write            (byte for byte)
             geo_read     real mulgrid(file) public state  vs  model read           (canonical dump)
             geo_malformed  damaged files: exception class or dump
             geo_canon    (model only) read(write g) evaluated by the driver = canonGeo g whenever WF g: the statement of
                          geo_roundtrip tested on every generated geometry; WF / LayerCentresKept / StableSurfaces are evaluated
                          on every case and counted in the evidence (hypotheses_met)
oracle     the property itself on the real code, without the model: write -> read -> compare with the
           two-decimal values computed with `decimal` -> write again -> compare bytes; FEET: the file text
           is parsed by columns and compared with metres/0.3048
"""
import os, io, sys, json, math, contextlib, copy, time
from decimal import Decimal, ROUND_HALF_EVEN, getcontext
from fractions import Fraction
from string import ascii_lowercase, ascii_uppercase
import core
from core import Result

ID = 'C03'
MODULE = 'PyTough.Props.C03'
TARGETS = ['PyTough.Props.C03', 'drv_c03']
THEOREMS = ['Props.C03.' + t for t in [
    'tables_are_current', 'geo_roundtrip', 'reread_unique', 'header_preserved', 'nodes_preserved', 'columns_preserved',
    'connections_preserved', 'layers_preserved', 'surfaces_preserved', 'wells_preserved', 'well_names_preserved',
    'names_lists_preserved', 'surface_crossing_characterised', 'names_lists_preserved_clear', 'surface_on_boundary_changes_names',
    'geo_write_fixpoint_partial', 'later_generations',
    'rounding_idempotent', 'feet_roundtrip', 'rjust_names_safe', 'left_justified_name_changes',
    'layer_centre_zero_lost', 'second_file_differs']]
LEVEL_TEXT = ('Proof: Lean theorems about an executable model of mulgrid.write / mulgrid(file): for every well-formed geometry (decidable WF = the '
              "property's quantifier: right-justified names, options in range, values within the 10-column limit, >= 1 layer) read(write g) = canonGeo g "
              '(geo_roundtrip, full strength) with corollaries for header options, nodes, columns, connections, layers, surfaces, wells; block and connection '
              'name lists identical when rounding moves no surface across a layer boundary (names_lists_preserved), which for library-consistent geometries is '
              'exactly when no surface lies strictly above a layer bottom and is written as the same decimal (surface_crossing_characterised, monotone '
              'rounding; witness surface_on_boundary_changes_names also run on the real code); wells incl. 10.1f rounding and name justification to 5; FEET files hold '
              'feet and re-read to metres (feet_roundtrip); right-justified names are inverse-safe (rjust_names_safe) and a left-justified one is not. '
              'PARTIAL: the layer-centre clause and the byte-for-byte second write carry the decidable hypothesis LayerCentresKept (KNOWN FINDING '
              'layer-centre-zero-recomputed: proved necessary by the model witnesses layer_centre_zero_lost / second_file_differs, replayed on the real code); '
              'geo_write_fixpoint_partial assumes nothing else (rounding of every %f / %e field is proved idempotent). '
              'Tied to /repo on every run by the regenerated format table (tables_are_current is re-evaluated) and by byte-for-byte write / canonical-dump read '
              'correspondence on generated and shipped geometries.')
LEVEL_NOTE = ('Trusted: Lean kernel (+propext, Classical.choice, Quot.sound); hand-written Model/GeoFile.lean and Model/Fixed.lean (tied by correspondence); '
              'A-float (exact decimals/rationals in the model; double rounding of float(), x*0.3048, x/0.3048 outside). '
              'Not proved: closeness of roundE to its argument (C02 proves it for the record layer).')
TECHNIQUE = ('Lean 4 proof over an executable model of the geometry file reader/writer (exact decimals and rationals) + '
             'byte-for-byte / canonical-dump correspondence with the real mulgrid.write / mulgrid(file) + direct round-trip oracle')
ASSUMPTIONS = [
    'A-float: CPython float()/% conversions are correctly rounded; the model carries the exact rational value of every double '
    'and the exact decimal of every text field',
    'FEET: x/0.3048 and x*0.3048 are computed exactly in the model (0.3048 = 381/1250); cases in which the double quotient is within '
    '1e-6 of a rounding boundary of the written decimal are discarded as unstable (counted)',
    'file text is ASCII, seen after Python universal-newline translation',
    'derived doubles (centroid of an unspecified centre, default layer centre, FEET products) are compared with relative tolerance 1e-9 / 1e-12',
]
TRUSTED_EXTRA = ['harness/translate/specs.py (format table from the imported module), conventions.py and geotables.py (AST of mulgrids.py: name lengths, '
                 'atmosphere column names, block_name parts, unit scales, block orders, keyword dispatch, section order) regenerate Gen/*.lean on every '
                 'run; the model computes through these tables and tables_are_current pins them to the values the proofs use']

KNOWN_CENTRE = 'layer-centre-zero-recomputed'
SHIPPED = ['g1', 'g2', 'g3', 'g4', 'g5', 'g6', 'g7']
getcontext().prec = 60


def translate(ctx):
    from translate import specs, conventions, geotables
    specs.translate(ctx)                        # Gen/Specs.lean      : mulgrid_format_specification (names + specs)
    conventions.translate(core.REPO)            # Gen/Conventions.lean: name lengths, atmosphere column names, block_name parts
    geotables.translate(core.REPO)              # Gen/GeoTables.lean  : unit scales, block orders, read keywords, section order


@contextlib.contextmanager
def quiet():
    import warnings
    import numpy as np
    with contextlib.redirect_stdout(io.StringIO()), warnings.catch_warnings(), np.errstate(all='ignore'):
        warnings.simplefilter('ignore')
        yield


def mg():
    import warnings
    with warnings.catch_warnings():
        warnings.simplefilter('ignore')
        import mulgrids
    return mulgrids


# ------------------------------------------------------------------ encoding for the driver

def hx(s):
    return 's' + s.encode('latin-1').hex()


def flt(v):
    v = float(v)
    if math.isnan(v) or math.isinf(v):
        raise OverflowError('non-finite value')
    if v == 0 and math.copysign(1, v) < 0:
        return 'z'
    n, d = v.as_integer_ratio()
    return '%d/%d' % (n, d)


def opt(f, v):
    return 'n' if v is None else f(v)


BO = {'layer_column': '0', 'dmplex': '1'}


def encode(g):
    """the state of a real mulgrid object as the driver's geometry tokens"""
    import numpy as np
    t = ['H', hx(g.type), str(int(g._convention)), str(int(g._atmosphere_type)), flt(g.atmosphere_volume),
         flt(g.atmosphere_connection), hx(g._unit_type), opt(flt, g.gdcx), opt(flt, g.gdcy),
         opt(lambda c: str(int(c)), g.cntype), flt(g.permeability_angle), opt(lambda c: str(int(c)), g._block_order_int),
         opt(lambda b: BO[b], g._block_order)]
    t += ['N', str(len(g.nodelist))]
    for n in g.nodelist:
        t += [hx(n.name), flt(n.pos[0]), flt(n.pos[1])]
    t += ['C', str(len(g.columnlist))]
    for c in g.columnlist:
        t += [hx(c.name), str(int(c.centre_specified))]
        if c.centre is None: t += ['n']
        elif any(math.isnan(x) for x in c.centre): t += ['nan']
        else: t += ['a', flt(c.centre[0]), flt(c.centre[1])]
        t += [opt(flt, c.surface), '1' if c.default_surface else '0', str(int(c.num_layers)), str(len(c.node))]
        t += [hx(n.name) for n in c.node]
    t += ['K', str(len(g.connectionlist))]
    for k in g.connectionlist:
        t += [hx(k.column[0].name), hx(k.column[1].name)]
    t += ['L', str(len(g.layerlist))]
    for l in g.layerlist:
        t += [hx(l.name), flt(l.bottom), flt(l.centre), flt(l.top)]
    t += ['W', str(len(g.welllist))]
    for w in g.welllist:
        t += [hx(w.name), str(len(w.pos))]
        for p in w.pos:
            t += [flt(p[0]), flt(p[1]), flt(p[2])]
    return ' '.join(t)


# ------------------------------------------------------------------ canonical dumps

def dump_real(g):
    """public state of a real geometry (what the property and the facets observe)"""
    d = {}
    d['hdr'] = dict(type=g.type, convention=g.convention, atmosphere_type=g.atmosphere_type,
                    atmosphere_volume=g.atmosphere_volume, atmosphere_connection=g.atmosphere_connection,
                    unit_type=g.unit_type, gdcx=g.gdcx, gdcy=g.gdcy, cntype=g.cntype,
                    permeability_angle=g.permeability_angle, block_order=g.block_order)
    d['nodes'] = [(n.name, float(n.pos[0]), float(n.pos[1])) for n in g.nodelist]
    cols = []
    for c in g.columnlist:
        if c.centre is None: ctr = None
        else: ctr = (float(c.centre[0]), float(c.centre[1]))
        cols.append(dict(name=c.name, cs=int(c.centre_specified), centre=ctr,
                         surface=None if c.surface is None else float(c.surface),
                         default=bool(c.default_surface), num_layers=int(c.num_layers), nodes=[n.name for n in c.node]))
    d['columns'] = cols
    d['connections'] = [(k.column[0].name, k.column[1].name) for k in g.connectionlist]
    d['layers'] = [(l.name, float(l.bottom), float(l.centre), float(l.top)) for l in g.layerlist]
    d['wells'] = [(w.name, [tuple(float(x) for x in p) for p in w.pos]) for w in g.welllist]
    d['blocks'] = list(g.block_name_list)
    d['bconns'] = [tuple(k) for k in g.block_connection_name_list]
    return d


class Toks:
    def __init__(self, s):
        self.t = s.split(' ')
        self.i = 0

    def next(self):
        x = self.t[self.i]
        self.i += 1
        return x

    def s(self):
        x = self.next()
        assert x[0] == 's', x
        return bytes.fromhex(x[1:]).decode('latin-1')

    def n(self):
        return int(self.next())

    def f(self):
        """a model number: Fraction, or the string 'z' for -0.0"""
        x = self.next()
        if x == 'z': return 'z'
        a, b = x.split('/')
        return Fraction(int(a), int(b))

    def o(self, f):
        if self.t[self.i] == 'n':
            self.i += 1
            return None
        return f()

    def expect(self, x):
        y = self.next()
        assert y == x, (x, y, self.i)


def parse_dump(reply):
    """model dump -> same structure as dump_real (numbers as Fraction / 'z')"""
    if not reply.startswith('ok '):
        return reply
    T = Toks(reply[3:])
    d = {}
    T.expect('H')
    h = dict(type=T.s(), convention=T.n(), atmosphere_type=T.n(), atmosphere_volume=T.f(), atmosphere_connection=T.f(),
             unit_type=T.s(), gdcx=T.o(T.f), gdcy=T.o(T.f), cntype=T.o(T.n), permeability_angle=T.f())
    T.o(T.n)                                  # _block_order_int (private; covered by the write facet)
    bo = T.o(T.n)
    h['block_order'] = None if bo is None else {0: 'layer_column', 1: 'dmplex'}[bo]
    d['hdr'] = h
    T.expect('N')
    d['nodes'] = [(T.s(), T.f(), T.f()) for _ in range(T.n())]
    T.expect('C')
    cols = []
    for _ in range(T.n()):
        name, cs = T.s(), T.n()
        k = T.next()
        ctr = None if k == 'n' else 'nan' if k == 'nan' else (T.f(), T.f())
        sf = T.o(T.f)
        df, nl, nn = T.n(), T.n(), T.n()
        cols.append(dict(name=name, cs=cs, centre=ctr, surface=sf, default=bool(df), num_layers=nl, nodes=[T.s() for _ in range(nn)]))
    d['columns'] = cols
    T.expect('K')
    d['connections'] = [(T.s(), T.s()) for _ in range(T.n())]
    T.expect('L')
    d['layers'] = [(T.s(), T.f(), T.f(), T.f()) for _ in range(T.n())]
    T.expect('W')
    d['wells'] = [(T.s(), [(T.f(), T.f(), T.f()) for _ in range(T.n())]) for _ in range(T.n())]
    T.expect('B')
    if T.next() == 'ok': d['blocks'] = [T.s() for _ in range(T.n())]
    else: d['blocks'] = 'exc ' + T.next()
    T.expect('BC')
    if T.next() == 'ok': d['bconns'] = [(T.s(), T.s()) for _ in range(T.n())]
    else: d['bconns'] = 'exc ' + T.next()
    return d


def num_same(real, model, exact):
    """real: a double (or None); model: Fraction / 'z' / None.
    exact: the double must be the one nearest to the model's rational (A-float); else relative 1e-9"""
    if real is None or model is None:
        return real is None and model is None
    if model == 'nan' or (isinstance(real, float) and math.isnan(real)):
        return model == 'nan' and math.isnan(real)
    if model == 'z':
        return real == 0.0 and (not exact or math.copysign(1, real) < 0)
    if exact:
        try:
            nearest = model.numerator / model.denominator
        except OverflowError:                                  # beyond the double range: float() gives +-inf
            nearest = math.inf if model > 0 else -math.inf
        return real == nearest and not (real == 0 and math.copysign(1, real) < 0)
    if math.isinf(real):
        return abs(model) > Fraction(10) ** 308
    return abs(Fraction(real) - model) <= Fraction(1, 10 ** 9) * max(abs(model), Fraction(1, 100))


def diff_dumps(R, M, scale_one):
    """first difference between the real dump and the model dump, or None"""
    if isinstance(M, str):
        return 'model: ' + M
    ex = scale_one
    for k in ('type', 'convention', 'atmosphere_type', 'unit_type', 'cntype', 'block_order'):
        if R['hdr'][k] != M['hdr'][k]:
            return 'header %s: real %r model %r' % (k, R['hdr'][k], M['hdr'][k])
    for k in ('atmosphere_volume', 'atmosphere_connection', 'gdcx', 'gdcy', 'permeability_angle'):
        if not num_same(R['hdr'][k], M['hdr'][k], True):
            return 'header %s: real %r model %r' % (k, R['hdr'][k], M['hdr'][k])
    if [n[0] for n in R['nodes']] != [n[0] for n in M['nodes']]:
        return 'node names/order differ'
    for a, b in zip(R['nodes'], M['nodes']):
        if not (num_same(a[1], b[1], ex) and num_same(a[2], b[2], ex)):
            return 'node %r: real %r model %r' % (a[0], a[1:], b[1:])
    if [c['name'] for c in R['columns']] != [c['name'] for c in M['columns']]:
        return 'column names/order differ'
    for a, b in zip(R['columns'], M['columns']):
        for k in ('cs', 'default', 'num_layers', 'nodes'):
            if a[k] != b[k]:
                return 'column %r %s: real %r model %r' % (a['name'], k, a[k], b[k])
        if not num_same(a['surface'], b['surface'], ex):
            return 'column %r surface: real %r model %r' % (a['name'], a['surface'], b['surface'])
        ca, cb = a['centre'], b['centre']
        if ca is None or cb is None or cb == 'nan':
            if not ((ca is None and cb is None) or (cb == 'nan' and ca is not None and any(math.isnan(x) or math.isinf(x) for x in ca))):
                return 'column %r centre: real %r model %r' % (a['name'], ca, cb)
        else:
            exc = ex and a['cs'] != 0
            if not (num_same(ca[0], cb[0], exc) and num_same(ca[1], cb[1], exc)):
                return 'column %r centre: real %r model %r' % (a['name'], ca, cb)
    if R['connections'] != M['connections']:
        return 'connections differ'
    if [l[0] for l in R['layers']] != [l[0] for l in M['layers']]:
        return 'layer names/order differ'
    for a, b in zip(R['layers'], M['layers']):
        if not (num_same(a[1], b[1], ex) and num_same(a[2], b[2], False) and num_same(a[3], b[3], ex)):
            return 'layer %r: real %r model %r' % (a[0], a[1:], b[1:])
    if [(w[0], len(w[1])) for w in R['wells']] != [(w[0], len(w[1])) for w in M['wells']]:
        return 'well names/track lengths differ'
    for a, b in zip(R['wells'], M['wells']):
        for p, q in zip(a[1], b[1]):
            if not all(num_same(x, y, ex) for x, y in zip(p, q)):
                return 'well %r: real %r model %r' % (a[0], p, q)
    if R['blocks'] != M['blocks']:
        return 'block_name_list differs (real %d names, model %s)' % (len(R['blocks']), len(M['blocks']) if isinstance(M['blocks'], list) else M['blocks'])
    if R['bconns'] != M['bconns']:
        return 'block_connection_name_list differs'
    return None


# ------------------------------------------------------------------ recipes -> real geometries

def fr(x):
    return float(x)


# zero, negative zero and values that the file's two (one) decimals turn into 0.00 / -0.00 (0.0 / -0.0):
# every optional numeric field of every record gets them, so that a truthiness slip on any field shows up
ZEROISH2 = [0.0, -0.0, 0.004, -0.004, 0.0049, -0.001, 0.005, -0.005]
ZEROISH1 = [0.0, -0.0, 0.04, -0.04, 0.049, -0.01, 0.05]


def gen_spacings(rng, n, style):
    if style == 'dyadic': return [rng.randint(1, 4000) / 16.0 for _ in range(n)]
    if style == 'decimal2': return [rng.randint(1, 300000) / 100.0 for _ in range(n)]
    if style == 'tiny': return [rng.choice([0.004, 0.006, 0.01, 0.013, 0.05]) for _ in range(n)]
    if style == 'equal':
        d = rng.choice([1.0, 10.0, 100.0, 250.0, 0.5])
        return [d] * n
    return [rng.uniform(0.1, 2500.0) for _ in range(n)]


def gen_origin(rng):
    s = rng.random()
    if s < 0.12: xy = [0.0, 0.0]
    elif s < 0.25: xy = [rng.choice(ZEROISH2), rng.choice(ZEROISH2)]
    elif s < 0.45: xy = [rng.uniform(-500, 500), rng.uniform(-500, 500)]
    elif s < 0.65: xy = [2.77e6 + rng.uniform(0, 9000), 6.28e6 + rng.uniform(0, 9000)]
    elif s < 0.8: xy = [rng.choice([9.9e6, 9.97e6, 9.99e6]), rng.choice([-9.5e5, -9.8e5, -9.9e5])]
    else: xy = [rng.randint(-100000, 100000) / 16.0, rng.randint(-100000, 100000) / 100.0]
    t = rng.random()
    if t < 0.2: z = 0.0
    elif t < 0.3: z = rng.choice(ZEROISH2)
    elif t < 0.45: z = rng.choice([1.006, 1.004, -0.001, 0.004, 10.0, -0.004])
    elif t < 0.7: z = rng.randint(-40000, 40000) / 16.0
    else: z = rng.uniform(-3000, 3000)
    return xy + [z]


def gen_recipe(rng, quick, index):
    """a JSON-able description of one geometry (replayable)"""
    rc = {}
    r = rng.random()
    if r < 0.7:
        rc['base'] = 'rect'
        style = rng.choice(['dyadic', 'decimal2', 'arbitrary', 'arbitrary', 'equal', 'tiny'])
        rc['style'] = style
        nx, ny, nz = rng.randint(1, 6), rng.randint(1, 5), rng.randint(1, 6)
        rc['xs'], rc['ys'] = gen_spacings(rng, nx, style), gen_spacings(rng, ny, style)
        zstyle = rng.choice(['dyadic', 'decimal2', 'arbitrary', 'equal'])
        rc['zs'] = gen_spacings(rng, nz, zstyle)
        if rng.random() < 0.15: rc['zs'][0] = rng.choice([2.006, 2.008, 0.008, 1.998])
        rc['origin'] = gen_origin(rng)
        rc['conv'] = rng.randint(0, 3)
        rc['justify'] = 'l' if rng.random() < 0.08 else 'r'
        rc['case'] = rng.choice([None, 'l', 'u'])
        rc['spaces'] = rng.random() < 0.85
        rc['atm'] = rng.randint(0, 2)
        rc['block_order'] = rng.choice([None, 'layer_column', 'dmplex'])
    else:
        rc['base'] = 'shipped'
        if quick: rc['file'] = rng.choice(['g5', 'g6', 'g7', 'g7', 'g1', 'g3'])
        else: rc['file'] = rng.choice(SHIPPED)
        rc['atm'] = rng.choice([None, 0, 1, 2])
        rc['block_order'] = rng.choice([None, None, 'layer_column', 'dmplex'])
        big = rc['file'] in ('g2', 'g4')
        t = rng.random()
        if not big and t < 0.3: rc['derive'] = ['refine', rng.randint(1, 12), rng.randint(0, 10 ** 6)]
        elif not big and t < 0.55: rc['derive'] = ['reduce', rng.randint(2, 40), rng.randint(0, 10 ** 6)]
    rc['unit'] = rng.choice(['', '', 'FEET '])
    t = rng.random()
    if t < 0.25: rc['rotate'] = rng.choice([30.0, 45.0, 90.0, 17.3, -60.0, 180.0])
    if rng.random() < 0.2: rc['translate'] = [rng.uniform(-1000, 1000), rng.randint(-16000, 16000) / 16.0, rng.choice([0.0, 12.5, -3.17])]
    rc['perm_angle'] = rng.choice([None, 0.0, 45.0, 30.0, 12.345, -7.5, -0.0, 0.004, -0.004])
    rc['atm_volume'] = rng.choice([None, None, 1.0e25, 1.234e20, 9.996e29, 5.0e3, 0.0])
    rc['atm_conn'] = rng.choice([None, None, 1.0e-6, 2.5e-3, 9.995e-7, 0.0, -0.0])
    rc['gdc'] = rng.choice([None, None, None, [0.0, 0.0], [0.1, None], [None, -0.004], [-0.0, 0.25], [0.004, 0.5]])
    rc['cntype'] = rng.choice([None, None, 0])
    if rc['base'] == 'rect' and rng.random() < 0.25:
        # a layer bottom exactly at (or within the rounding of) zero
        k = rng.randrange(len(rc['zs']))
        rc['zs'][k] = rc['origin'][2] - sum(rc['zs'][:k]) + rng.choice([0.0, 0.0, 0.004, -0.004])
        if rc['zs'][k] <= 0.02: rc['zs'][k] = 1.0
    # surfaces: fraction of the columns, seed for which and what
    rc['surf'] = [rng.choice([0.0, 0.0, 0.3, 0.6, 1.0]), rng.randint(0, 10 ** 6)]
    rc['centres'] = [rng.choice([0.0, 0.0, 0.5, 1.0]), rng.randint(0, 10 ** 6)]
    nw = rng.choice([0, 0, 1, 2, 3])
    rc['wells'] = [nw, rng.randint(0, 10 ** 6), rng.random() < 0.12]      # (count, seed, short names allowed)
    return rc


def build_custom(rc):
    """the hand-made geometries of the WF-exclusion observations and of the witnesses"""
    import numpy as np
    m = mg()
    kind = rc['custom']
    with quiet():
        if kind == 'nolayers':
            return m.mulgrid()
        if kind == 'wells':
            g = m.mulgrid().rectangular([10.] * 2, [10.], [5.] * 2)
            g.add_well(m.well('W1', [np.array([1., 2., 0.]), np.array([1., 2., -5.])]))
            g.add_well(m.well('EMPTY', []))
            return g
        if kind == 'sliver':
            g = m.mulgrid()
            for nm, p in (('  a', [0., 0.004]), ('  b', [10., 0.0049]), ('  c', [20., 0.0051])):
                g.add_node(m.node(nm, np.array(p)))
            g.add_column(m.column('  a', [g.node['  a'], g.node['  c'], g.node['  b']]))
            g.add_layers([1.])
            g.set_default_surface()
        elif kind == 'cross':
            # Props/C03.lean gCross: a surface 0.004 above the bottom 0.0 of the first layer
            g = m.mulgrid().rectangular([10.], [15.], [10., 10.], origin=[0., 0., 10.], atmos_type=0)
            c = g.columnlist[0]
            c.surface = 0.004
            g.set_column_num_layers(c)
        else:
            raise ValueError(kind)
        g.setup_block_name_index()
        g.setup_block_connection_name_index()
    return g


def observations(ctx):
    """the excluded points of WF (and the surface-crossing witness) run on the real code; notes + replays, no verdict"""
    m = mg()
    out = []
    for kind, expect in (('nolayers', 'WF requires at least one layer'),
                         ('wells', 'WF requires every well to have a track point; names of at most 5 characters come back right-justified (wells_preserved)'),
                         ('sliver', 'WF requires that no rounded column polygon is clockwise'),
                         ('cross', 'names_lists_preserved needs SurfaceClear: witness surface_on_boundary_changes_names')):
        rc = {'custom': kind}
        g = build_custom(rc)
        f = str(ctx.tmp / ('obs_%s.dat' % kind))
        try:
            with quiet():
                g.write(f)
                g2 = m.mulgrid(f)
            if kind == 'wells':
                seen = 'wells %r re-read as %r' % ([(w.name, len(w.pos)) for w in g.welllist], [(w.name, len(w.pos)) for w in g2.welllist])
            elif kind == 'sliver':
                seen = 'column nodes %r (area %.4g) re-read as %r (area %.4g)' % ([n.name for n in g.columnlist[0].node], g.columnlist[0].area,
                                                                                   [n.name for n in g2.columnlist[0].node], g2.columnlist[0].area)
            elif kind == 'cross':
                seen = 'block_name_list %r re-read as %r' % (list(g.block_name_list), list(g2.block_name_list))
            else:
                seen = 're-read without exception'
        except Exception as e:
            seen = 're-reading raises %s: %s' % (type(e).__name__, str(e)[:60])
        p = core.write_replay(ID, {'property': ID, 'kind': 'observation', 'key': 'observation:' + kind, 'what': expect + ' -- real code: ' + seen,
                                   'case': {'recipe': rc}})
        out.append('WF exclusion / witness [%s] %s -- real code: %s (replay %s)' % (kind, expect, seen, p))
    return out


def build(rc):
    """recipe -> real mulgrid object (everything through the public API of the current tree)"""
    import random
    import numpy as np
    if 'custom' in rc:
        return build_custom(rc)
    m = mg()
    with quiet():
        if rc['base'] == 'rect':
            chars = ascii_lowercase
            g = m.mulgrid().rectangular(rc['xs'], rc['ys'], rc['zs'], convention=rc['conv'], atmos_type=rc['atm'],
                                        origin=list(rc['origin']), justify=rc['justify'], case=rc['case'], chars=chars,
                                        spaces=rc['spaces'], block_order=rc['block_order'])
        else:
            g = m.mulgrid(str(core.REPO / 'tests' / 'mulgrid' / (rc['file'] + '.dat')))
            if rc.get('atm') is not None: g.atmosphere_type = rc['atm']
            if rc.get('derive'):
                kind, k, seed = rc['derive']
                r2 = random.Random(seed)
                names = [c.name for c in g.columnlist]
                if kind == 'refine':
                    i0 = r2.randrange(len(names))
                    g.refine([g.column[n] for n in names[i0:i0 + k]])
                else:
                    i0 = r2.randrange(len(names))
                    keep = names[i0:i0 + k]
                    g.reduce([g.column[n] for n in keep])
            if rc.get('block_order') is not None:
                if rc['block_order'] != 'dmplex' or all(c.num_nodes in (3, 4) for c in g.columnlist):
                    g.block_order = rc['block_order']
        if rc.get('rotate') is not None: g.rotate(rc['rotate'], wells=True)
        if rc.get('translate') is not None: g.translate(list(rc['translate']), wells=True)
        if rc['unit']: g.unit_type = rc['unit']
        if rc.get('perm_angle') is not None: g.permeability_angle = rc['perm_angle']
        if rc.get('atm_volume') is not None: g.atmosphere_volume = rc['atm_volume']
        if rc.get('atm_conn') is not None: g.atmosphere_connection = rc['atm_conn']
        if rc.get('gdc') is not None: g.gdcx, g.gdcy = rc['gdc']
        if rc.get('cntype') is not None: g.cntype = rc['cntype']
        # surfaces
        frac, seed = rc['surf']
        r2 = random.Random(seed)
        if frac > 0 and g.layerlist:
            bottoms = [l.bottom for l in g.layerlist]
            lo, hi = min(bottoms), max(bottoms)
            for c in g.columnlist:
                if r2.random() < frac:
                    t = r2.random()
                    if t < 0.12: z = r2.choice(ZEROISH2)
                    elif t < 0.5: z = r2.uniform(lo - 5.0, hi + 5.0)
                    elif t < 0.7: z = r2.choice(bottoms)                                  # exactly on a layer boundary
                    elif t < 0.85: z = r2.choice(bottoms) + r2.choice([-0.004, 0.004, 0.006, -0.006, 0.01, -0.01])
                    else: z = round(r2.uniform(lo, hi), 2)
                    c.surface = z
                    g.set_column_num_layers(c)
        # specified centres
        frac, seed = rc['centres']
        r2 = random.Random(seed)
        if frac > 0:
            for c in g.columnlist:
                if c.num_nodes > 0 and r2.random() < frac:
                    c.centre = np.array(c.centre) + np.array([r2.uniform(-1, 1), r2.choice([0.0, 0.125, -0.004])])
                    t = r2.random()
                    if t < 0.15: c.centre[0] = r2.choice(ZEROISH2)
                    elif t < 0.3: c.centre[1] = r2.choice(ZEROISH2)
                    elif t < 0.4: c.centre = np.array([r2.choice(ZEROISH2), r2.choice(ZEROISH2)])
                    c.centre_specified = 1
        # wells
        nw, seed, short = rc['wells']
        r2 = random.Random(seed)
        if g.nodelist:
            xs = [n.pos[0] for n in g.nodelist]
            ys = [n.pos[1] for n in g.nodelist]
            zs = [l.bottom for l in g.layerlist] or [0.0]
            for k in range(nw):
                nm = r2.choice(['W', 'w', 'AB', 'x y', 'Q']) + str(k + 1)
                name = nm if (short and r2.random() < 0.5) else nm.rjust(5)
                npos = r2.randint(2, 6)
                pos = []
                x, y, z = r2.uniform(min(xs), max(xs)), r2.uniform(min(ys), max(ys)), max(zs) + r2.choice([0.0, 1.5, 20.0])
                for _ in range(npos):
                    p = np.array([x, y, z])
                    if r2.random() < 0.2: p[r2.randrange(3)] = r2.choice(ZEROISH1)
                    pos.append(p)
                    x += r2.uniform(-50, 50); y += r2.choice([0.0, r2.uniform(-50, 50)]); z -= r2.uniform(0.5, 300)
                g.add_well(m.well(name, pos))
        g.setup_block_name_index()
        g.setup_block_connection_name_index()
    return g


# ------------------------------------------------------------------ the direct oracle

def dec_round(x, places):
    """the decimal '%.<places>f' % x carries: exact binary value rounded half-even (computed with `decimal`)"""
    q = Decimal(1).scaleb(-places)
    return Decimal(x).quantize(q, rounding=ROUND_HALF_EVEN)


def unstable_division(x, places):
    """FEET: is the exact quotient x/0.3048 within 1e-6 of a rounding boundary of the written decimal?"""
    t = Fraction(x) / Fraction(381, 1250) * 10 ** places
    f = t - math.floor(t)
    return abs(f - Fraction(1, 2)) < Fraction(1, 10 ** 6)


class Skip(Exception):
    pass


def file_value(x, scale, places, width=10):
    """(decimal held by the file, double expected after re-reading) for the in-memory value x"""
    if scale == 1.0:
        d = dec_round(x, places)
    else:
        if unstable_division(x, places): raise Skip('unstable')
        d = dec_round(x / scale, places)
    txt = '%.*f' % (places, d)
    if len(txt) > width: raise Skip('beyond-10-columns')
    return d, float(d) * scale


def close(a, b, scale):
    if scale == 1.0: return a == b
    return abs(a - b) <= 1e-12 * max(abs(a), abs(b), 1e-3)


def right_justified(name, n):
    return len(name) == n and name.strip() != '' and name == name.strip().rjust(n) and '\n' not in name and '\r' not in name


def in_quantifier(g):
    """names right-justified with the convention's lengths (the property's quantifier)"""
    cl, ll = g.colname_length, g.layername_length
    return (all(right_justified(n.name, cl) for n in g.nodelist) and all(right_justified(c.name, cl) for c in g.columnlist)
            and all(right_justified(l.name, ll) for l in g.layerlist))


def oracle(g, tmp, tag='o'):
    """evaluate the property on the real code for geometry g. returns (violations, info)"""
    m = mg()
    import numpy as np
    V = []
    info = {}

    def bad(key, what):
        V.append(dict(key=key, what=what))

    f1, f2 = str(tmp / (tag + '1.dat')), str(tmp / (tag + '2.dat'))
    scale = g.unit_scale
    feet = g.unit_type == 'FEET '
    try:
        with quiet(): g.write(f1)
    except ValueError as e:
        if 'does not fit format' in str(e):
            info['skip'] = 'beyond-10-columns'
            return V, info
        raise
    t1 = open(f1).read()
    try:
        with quiet(): g2 = m.mulgrid(f1)
    except Exception as e:
        bad('reread-raises:' + type(e).__name__, 'reading back the written geometry raises %s: %s' % (type(e).__name__, str(e)[:80]))
        return V, info
    try:
        with quiet(): g2.write(f2)
    except Exception as e:
        bad('second-write-raises:' + type(e).__name__, 'writing the re-read geometry raises %s: %s' % (type(e).__name__, str(e)[:80]))
        return V, info
    t2 = open(f2).read()
    centre_known = False

    try:
        # ---- header options
        if g2.convention != g.convention: bad('header:convention', 'naming convention %r re-read as %r' % (g.convention, g2.convention))
        if g2.atmosphere_type != g.atmosphere_type: bad('header:atmosphere_type', 'atmosphere type %r re-read as %r' % (g.atmosphere_type, g2.atmosphere_type))
        if g2.unit_type != g.unit_type: bad('feet-unit-type-lost', 'unit type %r re-read as %r' % (g.unit_type, g2.unit_type))
        if g2.block_order != g.block_order: bad('header:block_order', 'block order %r re-read as %r' % (g.block_order, g2.block_order))
        for nm in ('atmosphere_volume', 'atmosphere_connection'):
            want = float('%.2e' % getattr(g, nm))
            if getattr(g2, nm) != want: bad('header:' + nm, '%s %r re-read as %r, the file carries %r' % (nm, getattr(g, nm), getattr(g2, nm), want))
        want = float(dec_round(g.permeability_angle, 2))
        if g2.permeability_angle != want: bad('header:permeability_angle', 'permeability angle %r re-read as %r' % (g.permeability_angle, g2.permeability_angle))
        # ---- nodes
        if [n.name for n in g2.nodelist] != [n.name for n in g.nodelist]:
            bad('node-names', 'node names/order changed: %r -> %r' % ([n.name for n in g.nodelist][:6], [n.name for n in g2.nodelist][:6]))
        else:
            for a, b in zip(g.nodelist, g2.nodelist):
                for i in range(2):
                    d, want = file_value(a.pos[i], scale, 2)
                    if not close(b.pos[i], want, scale):
                        bad('node-pos', 'node %r coordinate %r re-read as %r, the file carries %s (x %r)' % (a.name, a.pos[i], b.pos[i], d, scale))
                        break
        # ---- columns
        if [c.name for c in g2.columnlist] != [c.name for c in g.columnlist]:
            bad('column-names', 'column names/order changed')
        else:
            for a, b in zip(g.columnlist, g2.columnlist):
                if [n.name for n in a.node] != [n.name for n in b.node]:
                    # orientation of the rounded polygon decides; a sliver thinner than the resolution may flip
                    pts = [(Fraction(str(file_value(n.pos[0], scale, 2)[0])), Fraction(str(file_value(n.pos[1], scale, 2)[0]))) for n in a.node]
                    ar = sum(p[0] * q[1] - q[0] * p[1] for p, q in zip(pts, pts[1:] + pts[:1]))
                    if ar > 0:
                        bad('column-nodes', 'column %r nodes %r re-read as %r' % (a.name, [n.name for n in a.node], [n.name for n in b.node]))
                    else: info['degenerate'] = info.get('degenerate', 0) + 1
                if a.centre_specified != b.centre_specified:
                    bad('column-centre-flag', 'column %r centre_specified %r -> %r' % (a.name, a.centre_specified, b.centre_specified))
                elif a.centre_specified:
                    for i in range(2):
                        d, want = file_value(a.centre[i], scale, 2)
                        if not close(b.centre[i], want, scale):
                            bad('column-centre', 'column %r specified centre %r re-read as %r, the file carries %s' % (a.name, a.centre[i], b.centre[i], d))
                            break
        # ---- connections
        ka = [(k.column[0].name, k.column[1].name) for k in g.connectionlist]
        kb = [(k.column[0].name, k.column[1].name) for k in g2.connectionlist]
        if ka != kb: bad('connections', 'connections changed: %d -> %d' % (len(ka), len(kb)))
        # ---- layers
        if [l.name for l in g2.layerlist] != [l.name for l in g.layerlist]:
            bad('layer-names', 'layer names/order changed: %r -> %r' % ([l.name for l in g.layerlist][:6], [l.name for l in g2.layerlist][:6]))
        else:
            for a, b in zip(g.layerlist, g2.layerlist):
                d, want = file_value(a.bottom, scale, 2)
                if not close(b.bottom, want, scale):
                    bad('layer-bottom', 'layer %r bottom %r re-read as %r, the file carries %s' % (a.name, a.bottom, b.bottom, d))
                d, want = file_value(a.centre, scale, 2)
                if not close(b.centre, want, scale):
                    if d == 0:
                        centre_known = True
                        bad(KNOWN_CENTRE, 'layer %r centre %r is written as %s and re-read as %r (a centre of 0.00 is recomputed as the default)'
                            % (a.name, a.centre, '%.2f' % d, b.centre))
                    else:
                        bad('layer-centre', 'layer %r centre %r re-read as %r, the file carries %s' % (a.name, a.centre, b.centre, d))
        # ---- surfaces (exactly the non-default ones)
        sa = [(c.name, c.surface) for c in g.columnlist if not c.default_surface]
        sb = [(c.name, c.surface) for c in g2.columnlist if not c.default_surface]
        if [x[0] for x in sa] != [x[0] for x in sb]:
            bad('surface-set', 'columns with a surface elevation changed: %d -> %d' % (len(sa), len(sb)))
        else:
            for (n, za), (_, zb) in zip(sa, sb):
                d, want = file_value(za, scale, 2)
                if not close(zb, want, scale):
                    bad('surface', 'column %r surface %r re-read as %r, the file carries %s' % (n, za, zb, d))
                    break
        # ---- wells
        wa = [(w.name.rjust(5), len(w.pos)) for w in g.welllist]
        wb = [(w.name, len(w.pos)) for w in g2.welllist]
        if wa != wb: bad('wells', 'well names / track lengths changed: %r -> %r' % (wa[:4], wb[:4]))
        else:
            for a, b in zip(g.welllist, g2.welllist):
                for p, q in zip(a.pos, b.pos):
                    for i in range(3):
                        d, want = file_value(p[i], scale, 1)
                        if not close(q[i], want, scale):
                            bad('well-pos', 'well %r track point %r re-read as %r, the file carries %s' % (a.name, p[i], q[i], d))
                            break
        # ---- FEET: the file text itself holds feet
        if feet and not V:
            lines = t1.split('\n')
            i0 = lines.index('VERTICES') + 1
            for a, ln in zip(g.nodelist, lines[i0:]):
                for i, (c0, c1) in enumerate(((3, 13), (13, 23))):
                    v = float(ln[c0:c1])
                    if abs(v - a.pos[i] / 0.3048) > 0.005 * (1 + 1e-9) + 1e-9 * abs(v):
                        bad('feet-unit-type-lost', 'FEET geometry: node %r coordinate %r m is written as %r (feet would be %r)' % (a.name, a.pos[i], v, a.pos[i] / 0.3048))
                        break
                else: continue
                break
        if (not feet) and t1[27:32] == 'FEET ': bad('feet-unit-type-lost', 'metre geometry written with unit type FEET')
        if feet and t1[27:32] != 'FEET ': bad('feet-unit-type-lost', "unit type 'FEET ' is not in the header of the written file: %r" % t1[:40])
        # ---- derived name lists (when rounding moved no surface across a layer boundary)
        stable = True
        if [c.name for c in g2.columnlist] == [c.name for c in g.columnlist] and [l.name for l in g2.layerlist] == [l.name for l in g.layerlist]:
            for ca, cb in zip(g.columnlist, g2.columnlist):
                for la, lb in zip(g.layerlist[1:], g2.layerlist[1:]):
                    if (ca.surface > la.bottom) != (cb.surface > lb.bottom) or (ca.surface <= la.top) != (cb.surface <= lb.top):
                        stable = False
                        break
                if not stable: break
            info['stable_surfaces'] = stable
            if stable and not centre_known:
                if list(g2.block_name_list) != list(g.block_name_list):
                    bad('block-names', 'block_name_list changed (%d -> %d names)' % (len(g.block_name_list), len(g2.block_name_list)))
                if list(g2.block_connection_name_list) != list(g.block_connection_name_list):
                    bad('connection-names', 'block_connection_name_list changed (%d -> %d)' % (len(g.block_connection_name_list), len(g2.block_connection_name_list)))
        # ---- second generation file
        if t1 != t2:
            l1, l2 = t1.split('\n'), t2.split('\n')
            diffs = [(a, b) for a, b in zip(l1, l2) if a != b]
            only_centre = False
            if len(l1) == len(l2) and 'LAYERS' in l1:
                i0 = l1.index('LAYERS')
                i1 = l1.index('', i0)
                only_centre = all(i0 < i < i1 and l1[i][:13] == l2[i][:13] and float(l1[i][13:23]) == 0 for i in range(len(l1)) if l1[i] != l2[i])
            if only_centre: bad(KNOWN_CENTRE, 'second-generation file differs in a layer centre written as 0.00: %r -> %r' % diffs[0])
            else: bad('second-write-differs', 'writing the re-read geometry does not reproduce the file: %r -> %r' % (diffs[0] if diffs else ('<length>', '<length>')))
    except Skip as s:
        info['skip'] = str(s)
        return [], info
    info['g2'] = g2
    info['t1'] = t1
    return V, info


# ------------------------------------------------------------------ sequence facet (hidden state)
# The oracle above only ever looks at fresh objects.  Here the public API is taken through multi-step orders on the SAME object / in
# the SAME process and every result is judged against what a fresh mulgrid(file) gives for the same file:
#   reuse : g = mulgrid(fA) [or mulgrid().read(fA)]; g.read(fB); (g.read(fC))   -> g must equal mulgrid(fB) (mulgrid(fC))
#   reload: g = build / mulgrid(f0); g.write(f); <edits>; g.read(f)                -> g must equal mulgrid(f)
#   order : several files read in one process in different orders                -> each file gives the same state whatever came before
# "equal" = same canonical dump (dump_real + consistency of the name indexes) and the same bytes when written again.

KEY_CARRY = 'reuse-keeps-blank-header-fields'
# header columns of the MULgraph file (mulgrid_format_specification['header']); a field left blank in the file is "ignored" by
# read_value_line, so an object in use keeps its old value: reported as its own class (see seq_compare)
SEQ_HDR_COLS = {'atmosphere_volume': (7, 17), 'atmosphere_connection': (17, 27), 'gdcx': (32, 42), 'gdcy': (42, 52), 'cntype': (52, 53),
                'permeability_angle': (53, 63), 'block_order': (63, 65)}
SEQ_ORIGINALS = ['g1', 'g3', 'g5', 'g6', 'g7']


def seq_state(g):
    d = dump_real(g)
    idx = {}
    for nm, lst, dct in (('node', g.nodelist, g.node), ('column', g.columnlist, g.column), ('layer', g.layerlist, g.layer), ('well', g.welllist, g.well)):
        idx[nm] = [sorted(dct.keys()), all(dct.get(x.name) is x for x in lst)]
    idx['connection'] = [sorted(list(k) for k in g.connection.keys()),
                         all(g.connection.get(tuple(c.name for c in k.column)) is k for k in g.connectionlist)]
    idx['column_nodes'] = all(g.node.get(n.name) is n for c in g.columnlist for n in c.node)
    idx['connection_columns'] = all(g.column.get(c.name) is c for k in g.connectionlist for c in k.column)
    d['index'] = idx
    return d


def _cj(x):
    return json.dumps(x, sort_keys=True, default=repr)


def _first_diff(a, b):
    if isinstance(a, list) and isinstance(b, list):
        for i, (x, y) in enumerate(zip(a, b)):
            if _cj(x) != _cj(y): return 'entry %d: %s, fresh object has %s' % (i, _cj(x)[:110], _cj(y)[:110])
        return '%d entries, fresh object has %d (first extra: %s)' % (len(a), len(b), _cj((a + b)[min(len(a), len(b))])[:110])
    if isinstance(a, dict) and isinstance(b, dict):
        for k in sorted(set(a) | set(b)):
            if _cj(a.get(k)) != _cj(b.get(k)): return '%s: %s, fresh object has %s' % (k, _cj(a.get(k))[:110], _cj(b.get(k))[:110])
    return '%s, fresh object has %s' % (_cj(a)[:110], _cj(b)[:110])


def seq_compare(g, path, tmp, kind, label):
    """the object g (after the sequence) against a fresh mulgrid(path). -> list of dict(key, what)"""
    m = mg()
    V = []

    def bad(key, what):
        V.append(dict(key=key, what='%s: %s' % (label, what)))
    with quiet(): fresh = m.mulgrid(path)
    F = seq_state(fresh)
    try:
        G = seq_state(g)
    except Exception as e:
        bad('sequence:%s:state-unreadable' % kind, 'the public state of the object cannot be read (%s: %s)' % (type(e).__name__, str(e)[:80]))
        return V
    with open(path) as fh: h = fh.readline().rstrip('\r\n').ljust(80)
    carried = []
    for k in sorted(F['hdr']):
        if _cj(G['hdr'][k]) != _cj(F['hdr'][k]):
            cols = SEQ_HDR_COLS.get(k)
            if cols and not h[cols[0]:cols[1]].strip(): carried.append(k)
            else: bad('sequence:%s:header' % kind, 'header option %s is %r, a fresh mulgrid(file) has %r' % (k, G['hdr'][k], F['hdr'][k]))
    if carried:
        bad(KEY_CARRY, 'header field(s) %s blank in the file keep the value the object had before read(): %s, a fresh mulgrid(file) has %s'
            % (carried, [G['hdr'][k] for k in carried], [F['hdr'][k] for k in carried]))
    for sec in ('nodes', 'columns', 'connections', 'layers', 'wells', 'blocks', 'bconns', 'index'):
        a, b = G[sec], F[sec]
        if sec in ('blocks', 'bconns') and 'block_order' in carried:
            a, b = sorted(_cj(x) for x in a), sorted(_cj(x) for x in b)       # the order of the blocks follows the carried block order
        if _cj(a) != _cj(b):
            bad('sequence:%s:%s' % (kind, sec), '%s differ from a fresh mulgrid(file): %s' % (sec, _first_diff(a, b)))
    # the same bytes when written again
    out = []
    for obj, nm in ((g, 'seq_wg.dat'), (fresh, 'seq_wf.dat')):
        f = str(tmp / nm)
        try:
            with quiet(): obj.write(f)
            with open(f) as fh: out.append(fh.read())
        except Exception as e:
            out.append('exc ' + type(e).__name__)
    tg, tf = out
    if carried and not tg.startswith('exc ') and not tf.startswith('exc '):
        def mask(t):
            l0, _, rest = t.partition('\n')
            l0 = l0.ljust(80)
            for k in carried:
                c0, c1 = SEQ_HDR_COLS[k]
                l0 = l0[:c0] + ' ' * (c1 - c0) + l0[c1:]
            return l0.rstrip() + '\n' + rest
        tg, tf = mask(tg), mask(tf)
    if tg != tf:
        la, lb = tg.split('\n'), tf.split('\n')
        d = next(((x, y) for x, y in zip(la, lb) if x != y), ('<%d lines>' % len(la), '<%d lines>' % len(lb)))
        bad('sequence:%s:rewrite' % kind, 'written again it gives %r where a fresh mulgrid(file) written again gives %r' % (d[0][:90], d[1][:90]))
    return V


def seq_read_raises(g_order, path, e, kind, label):
    """read(path) raised on an object in use although a fresh mulgrid(path) reads the file. Attributed to the carried block order when
    the file leaves that field blank and a fresh mulgrid(path) given the same block order raises the same exception class."""
    m = mg()
    with quiet(): fresh = m.mulgrid(path)                         # a file a fresh object cannot read either raises here: machinery
    with open(path) as fh: h = fh.readline().rstrip('\r\n').ljust(80)
    c0, c1 = SEQ_HDR_COLS['block_order']
    if g_order is not None and not h[c0:c1].strip():
        try:
            with quiet(): fresh.block_order = g_order
        except Exception as e2:
            if type(e2) is type(e) and str(e2) == str(e):
                return dict(key=KEY_CARRY, what='%s: block order blank in the file keeps the value %r the object had before read(), with which the '
                            'file cannot be read (%s: %s)' % (label, g_order, type(e).__name__, str(e)[:80]))
    return dict(key='sequence:%s:read-raises:%s' % (kind, type(e).__name__),
                what='%s raises %s: %s (a fresh mulgrid(file) reads it)' % (label, type(e).__name__, str(e)[:80]))


def seq_path(spec, tmp, cache):
    """file spec ({'original': shipped name} or a geometry recipe) -> path of the file (recipes: built and written once)"""
    if 'original' in spec:
        return str(core.REPO / 'tests' / 'mulgrid' / (spec['original'] + '.dat'))
    k = recipe_key(spec)
    if k not in cache:
        try:
            g = build(spec)
        except Exception as e:
            cache[k] = Skip('unbuildable:' + type(e).__name__)
            raise cache[k]
        f = str(tmp / ('seq_f%d.dat' % len(cache)))
        try:
            with quiet(): g.write(f)
            cache[k] = f
        except ValueError as e:
            if 'does not fit format' not in str(e): raise
            cache[k] = Skip('beyond-10-columns')
    if isinstance(cache[k], Skip): raise cache[k]
    return cache[k]


def seq_edit(g, ed):
    """one edit of a geometry in use (public API only); ed is JSON-able"""
    import random
    import numpy as np
    m = mg()
    op = ed[0]
    r2 = random.Random(ed[-1])
    cl, ll = g.colname_length, g.layername_length

    def newname(used, n):
        return next(c[-n:] for c in ('zzz', 'zzy', 'qqx', 'QQW', 'y9z') if c[-n:] not in used)
    if op == 'translate': g.translate(list(ed[1]), wells=bool(ed[2]))
    elif op == 'rotate': g.rotate(ed[1], wells=bool(ed[2]))
    elif op == 'refine':
        names = [c.name for c in g.columnlist]
        i0 = r2.randrange(len(names))
        g.refine([g.column[n] for n in names[i0:i0 + ed[1]]])
    elif op == 'rename_column':
        g.rename_column(r2.choice([c.name for c in g.columnlist]), newname(g.column, cl))
    elif op == 'rename_layer':
        g.rename_layer(r2.choice([l.name for l in g.layerlist]), newname(g.layer, ll))
    elif op == 'delete_column':
        if len(g.columnlist) > 1: g.delete_column(r2.choice([c.name for c in g.columnlist]))
    elif op == 'delete_layer':
        if len(g.layerlist) > 2: g.delete_layer(g.layerlist[-1].name)
    elif op == 'move_node':
        nd = r2.choice(g.nodelist)
        nd.pos = np.array(nd.pos) + np.array([r2.uniform(-3, 3), r2.choice([0.0, 0.25, -1.5])])
    elif op == 'surface':
        c = r2.choice(g.columnlist)
        c.surface = g.layerlist[-1].bottom + r2.random() * (g.layerlist[0].bottom - g.layerlist[-1].bottom)
        g.set_column_num_layers(c)
    elif op == 'wells':
        if g.welllist and r2.random() < 0.7:
            w = r2.choice(g.welllist)
            if r2.random() < 0.5: w.pos.append(np.array(w.pos[-1]) - np.array([0.5, 0.0, 12.5]))
            else: g.delete_well(w.name)
        else:
            x, y = g.nodelist[0].pos
            g.add_well(m.well('NEW 9', [np.array([x, y, 0.0]), np.array([x, y, -10.0])]))
    elif op == 'header':
        what = ed[1]
        if what == 'atmosphere_type': g.atmosphere_type = (g.atmosphere_type + 1) % 3
        elif what == 'permeability_angle': g.permeability_angle = g.permeability_angle + 15.0
        elif what == 'atmosphere_volume': g.atmosphere_volume = 3.5e22
        elif what == 'gdcx': g.gdcx = 0.75                      # blank in the file unless the recipe set it: KEY_CARRY class
        else: raise ValueError(what)
    else:
        raise ValueError(op)


def gen_seq_edits(rng):
    out = []
    for _ in range(rng.choice([1, 1, 2, 3])):
        op = rng.choice(['translate', 'translate', 'rotate', 'refine', 'rename_column', 'rename_layer', 'delete_column', 'delete_layer',
                         'move_node', 'surface', 'wells', 'wells', 'header'])
        if op == 'translate': ed = [op, [rng.randint(-8000, 8000) / 16.0, rng.uniform(-300, 300), rng.choice([0.0, 3.0, -12.5])], rng.random() < 0.6]
        elif op == 'rotate': ed = [op, rng.choice([30.0, 45.0, 90.0, -17.5]), rng.random() < 0.6]
        elif op == 'refine': ed = [op, rng.randint(1, 4)]
        elif op == 'header': ed = [op, rng.choice(['atmosphere_type', 'permeability_angle', 'atmosphere_volume', 'gdcx'])]
        else: ed = [op]
        out.append(ed + [rng.randint(0, 10 ** 6)])
    return out


def gen_seq_spec(rng, pool):
    """a file: mostly one of a small pool of generated geometries (so that the same names meet again), sometimes a shipped original"""
    if rng.random() < 0.2: return {'original': rng.choice(SEQ_ORIGINALS)}
    return rng.choice(pool)


def gen_seq_cases(rng, n_reuse, n_reload, n_order):
    pool = [gen_recipe(rng, True, i) for i in range(max(6, (n_reuse + n_order) // 2))]
    cases = []
    for _ in range(n_reuse):
        k = rng.choice([2, 2, 2, 3])
        cases.append({'seq': 'reuse', 'files': [gen_seq_spec(rng, pool) for _ in range(k)], 'first': rng.choice(['ctor', 'read'])})
    for i in range(n_reload):
        rc = rng.choice(pool) if rng.random() < 0.5 else gen_recipe(rng, True, i)
        cases.append({'seq': 'reload', 'recipe': rc, 'start': rng.choice(['built', 'file']), 'edits': gen_seq_edits(rng)})
    for _ in range(n_order):
        k = rng.randint(3, 4)
        files = [gen_seq_spec(rng, pool) for _ in range(k)]
        perm = list(range(k))
        rng.shuffle(perm)
        if perm == list(range(k)): perm.reverse()
        cases.append({'seq': 'order', 'files': files, 'perm': perm})
    return cases


def seq_case(case, tmp, cache=None):
    """run one sequence on the real code. -> (violations, info); Skip is reported in info['skip']"""
    m = mg()
    cache = {} if cache is None else cache
    kind = case['seq']
    V, info = [], {}
    try:
        if kind == 'reuse':
            paths = [seq_path(s, tmp, cache) for s in case['files']]
            with quiet():
                g = m.mulgrid(paths[0]) if case['first'] == 'ctor' else m.mulgrid().read(paths[0])
            for i, p in enumerate(paths[1:], 1):
                before = g.block_order
                try:
                    with quiet(): g.read(p)
                except Exception as e:
                    V.append(seq_read_raises(before, p, e, kind, 'read() of file %d on the object that holds file %d' % (i, i - 1)))
                    break
                V += seq_compare(g, p, tmp, kind, 'g = mulgrid(file 0)%s; g.read(file %d)' % (''.join('; g.read(file %d)' % j for j in range(1, i)), i))
        elif kind == 'reload':
            f0 = seq_path(case['recipe'], tmp, cache)
            with quiet():
                g = build(case['recipe']) if case['start'] == 'built' else m.mulgrid(f0)
            f = str(tmp / 'seq_saved.dat')
            with quiet(): g.write(f)
            try:
                with quiet():
                    for ed in case['edits']: seq_edit(g, ed)
            except Exception as e:
                raise Skip('edit-raises:%s:%s' % (ed[0], type(e).__name__))
            before = g.block_order
            try:
                with quiet(): g.read(f)
            except Exception as e:
                V.append(seq_read_raises(before, f, e, kind, 'g.write(f); %s; g.read(f)' % '; '.join(e2[0] for e2 in case['edits'])))
            else:
                V += seq_compare(g, f, tmp, kind, 'g.write(f); %s; g.read(f)' % '; '.join(e2[0] for e2 in case['edits']))
        elif kind == 'order':
            paths = [seq_path(s, tmp, cache) for s in case['files']]
            first = []
            with quiet():
                for p in paths: first.append(seq_state(m.mulgrid(p)))
                for i in case['perm']:
                    again = seq_state(m.mulgrid(paths[i]))
                    for sec in sorted(again):
                        if _cj(again[sec]) != _cj(first[i][sec]):
                            V.append(dict(key='sequence:order:' + sec,
                                          what='file %d read after files %s gives other %s than when it was read in the order 0..%d: %s'
                                          % (i, case['perm'][:case['perm'].index(i)], sec, len(paths) - 1, _first_diff(again[sec], first[i][sec]))))
        else:
            raise ValueError(kind)
    except Skip as s:
        return [], {'skip': str(s)}
    return V, info


def seq_facet(ctx, res, rng, n_reuse, n_reload, n_order):
    fs = res.facet('geo_sequence')
    known = core.known_keys(ID)
    cache = {}
    noted = set()
    for case in gen_seq_cases(rng, n_reuse, n_reload, n_order):
        V, info = seq_case(case, ctx.tmp, cache)
        kind = case['seq']
        if info.get('skip'):
            res.count('sequence:skipped:' + info['skip'].split(':')[0])
            continue
        fs['cases'] += 1
        res.evaluations += 1
        res.count('sequence:' + kind)
        if kind == 'reload':
            for ed in case['edits']: res.count('sequence:edit:' + ed[0])
        res.distinct.add('seq ' + _cj(case))
        for v in V:
            v['case'] = case
            if v['key'] == KEY_CARRY and KEY_CARRY not in known:
                # documented behaviour of fixed_format_file.read_value_line ("Null values are ignored") meeting an object in use; no
                # clause of the property names blank header fields: recorded with a replay for the lead, no verdict
                res.count('sequence:blank header field keeps the old value (noted, no verdict)')
                if kind not in noted:
                    noted.add(kind)
                    p = core.write_replay(ID, {'property': ID, 'kind': 'sequence-note', 'key': v['key'], 'what': v['what'], 'case': case})
                    ctx.notes.append('sequence [%s] %s (replay %s)' % (kind, v['what'][:260], p))
                continue
            res.violations.append(v)


# ------------------------------------------------------------------ malformed files (model fidelity on error paths)

def damage(rng, text):
    lines = text.split('\n')
    k = rng.random()
    if len(lines) < 6: return text
    i = rng.randrange(1, len(lines) - 1)
    if k < 0.2:
        del lines[i]
    elif k < 0.35:
        lines[i] = lines[i][:rng.randint(0, max(0, len(lines[i]) - 1))]
    elif k < 0.5:
        lines = lines[:i]
    elif k < 0.6:
        lines[i] = 'BOGUS'
    elif k < 0.7:
        lines[0] = lines[0][:rng.randint(0, len(lines[0]))]
    elif k < 0.8:
        lines.insert(i, '')
    elif k < 0.9:
        j = rng.randrange(len(lines[i]) + 1)
        lines[i] = lines[i][:j] + rng.choice(['x', ' ', '9', '-', '.']) + lines[i][j + 1:]
    elif k < 0.95:
        lines[0] = lines[0][:5] + rng.choice(['4', '9', ' ']) + lines[0][6:]
    else:
        # any header column: atmosphere type digit, unit type, block order, numbers
        j = rng.choice([5, 6, 6, 27, 28, 31, 52, 63, 64, 64, rng.randrange(0, 66)])
        h = lines[0].ljust(65)
        lines[0] = h[:j] + rng.choice('0123456789 FET-.x') + h[j + 1:]
    return '\n'.join(lines)


# ------------------------------------------------------------------ run

CORPUS = [
    {'custom': 'cross', 'base': 'custom', 'unit': ''},
    # the witness of the known finding (also proved in Props/C03.lean: centre_zero_witness)
    dict(base='rect', style='fixed', xs=[10.0, 20.5], ys=[15.0], zs=[2.006, 3.0], origin=[0.0, 0.0, 1.006], conv=0, justify='r', case=None,
         spaces=True, atm=0, block_order=None, unit='', perm_angle=None, atm_volume=None, atm_conn=None, surf=[0.0, 0], centres=[0.0, 0], wells=[0, 0, False]),
    # second witness (Props/C03.lean second_file_differs): centre -0.002 is written '-0.00', re-read as the default +0.0
    dict(base='rect', style='fixed', xs=[10.0], ys=[15.0], zs=[2.004, 2.996], origin=[0.0, 0.0, 1.0], conv=0, justify='r', case=None,
         spaces=True, atm=0, block_order=None, unit='', perm_angle=None, atm_volume=None, atm_conn=None, surf=[0.0, 0], centres=[0.0, 0], wells=[0, 0, False]),
    dict(base='rect', style='fixed', xs=[100.0] * 3, ys=[150.0] * 2, zs=[10.0] * 3, origin=[0.0, 0.0, 0.0], conv=0, justify='r', case=None,
         spaces=True, atm=2, block_order=None, unit='FEET ', perm_angle=30.0, atm_volume=None, atm_conn=None, surf=[0.6, 5], centres=[0.5, 7], wells=[2, 3, False]),
    dict(base='rect', style='fixed', xs=[0.25, 0.5], ys=[1.0], zs=[0.25, 0.25], origin=[-0.125, 9999990.0, -0.001], conv=3, justify='r', case='u',
         spaces=True, atm=1, block_order='dmplex', unit='', rotate=90.0, perm_angle=None, atm_volume=None, atm_conn=None, surf=[1.0, 5], centres=[0.0, 7], wells=[1, 3, False]),
    # zero / negative zero / sub-rounding values in every optional numeric field (truthiness slips)
    dict(base='rect', style='fixed', xs=[10.0, 10.0], ys=[10.0], zs=[5.0, 5.0], origin=[0.0, -0.004, 5.0], conv=0, justify='r', case=None,
         spaces=True, atm=1, block_order='layer_column', unit='', perm_angle=-0.004, atm_volume=0.0, atm_conn=-0.0, gdc=[0.0, -0.0], cntype=0,
         surf=[1.0, 11], centres=[1.0, 5], wells=[2, 7, False]),
    dict(base='rect', style='fixed', xs=[10.0, 10.0], ys=[10.0], zs=[5.0, 5.0], origin=[-0.0, 0.0049, 5.0], conv=2, justify='r', case='u',
         spaces=True, atm=0, block_order=None, unit='FEET ', perm_angle=0.0, atm_volume=None, atm_conn=0.0, gdc=[0.004, None], cntype=None,
         surf=[1.0, 12], centres=[1.0, 6], wells=[3, 8, False]),
] + [dict(base='shipped', file=f, atm=None, block_order=None, unit='', perm_angle=None, atm_volume=None, atm_conn=None,
          surf=[0.0, 0], centres=[0.0, 0], wells=[0, 0, False]) for f in ('g5', 'g6', 'g7', 'g1', 'g3')]
CORPUS_THOROUGH = [dict(base='shipped', file=f, atm=None, block_order=None, unit=u, perm_angle=None, atm_volume=None, atm_conn=None,
                        surf=[0.0, 0], centres=[0.0, 0], wells=[0, 0, False]) for f in ('g2', 'g4') for u in ('', 'FEET ')]


def recipes(ctx, n):
    rng = ctx.rng('geo_rw')
    out = list(CORPUS)
    if ctx.quick:
        out.append(CORPUS_THOROUGH[rng.randrange(len(CORPUS_THOROUGH))])
    else:
        out += CORPUS_THOROUGH
    # every header combination at least once (thorough) / a seeded third (quick)
    combos = [(c, a, u, b) for c in range(4) for a in range(3) for u in ('', 'FEET ') for b in (None, 'layer_column', 'dmplex')]
    for (c, a, u, b) in combos:
        if ctx.quick and rng.random() > 0.34: continue
        rc = gen_recipe(rng, ctx.quick, -1)
        while rc['base'] != 'rect': rc = gen_recipe(rng, ctx.quick, -1)
        rc.update(conv=c, atm=a, unit=u, block_order=b, justify='r')
        out.append(rc)
    for i in range(n):
        out.append(gen_recipe(rng, ctx.quick, i))
    return out


def recipe_key(rc):
    return json.dumps(rc, sort_keys=True)


def classify(res, rc, g):
    res.count('base:' + ('custom-' + rc['custom'] if 'custom' in rc else rc['base'] if rc['base'] == 'rect' else rc['file'] + ('+' + rc['derive'][0] if rc.get('derive') else '')))
    res.count('convention:%d' % g.convention)
    res.count('atmosphere_type:%d' % g.atmosphere_type)
    res.count('unit:%s' % ('feet' if g.unit_type else 'metres'))
    res.count('block_order:%s' % g.block_order)
    nc = len(g.columnlist)
    res.count('columns:%s' % ('1-4' if nc <= 4 else '5-30' if nc <= 30 else '31-500' if nc <= 500 else '>500'))
    ns = sum(1 for c in g.columnlist if not c.default_surface)
    res.count('surfaces:%s' % ('none' if ns == 0 else 'all' if ns == nc else 'some'))
    res.count('wells:%d' % min(len(g.welllist), 3))
    nsp = sum(1 for c in g.columnlist if c.centre_specified)
    res.count('specified_centres:%s' % ('none' if nsp == 0 else 'all' if nsp == nc else 'some'))
    if any(c.num_nodes not in (3, 4) for c in g.columnlist): res.count('polygon_columns(>4 nodes)')
    if any(c.num_nodes == 3 for c in g.columnlist): res.count('triangle_columns')
    up = all(c.name == c.name.upper() for c in g.columnlist)
    res.count('case:%s' % ('upper/digits' if up else 'lower'))
    def zeroish(v, tol): return v is not None and abs(v) < tol
    if any(zeroish(x, 0.00501) for n in g.nodelist for x in n.pos): res.count('zeroish:node coordinate')
    if any(c.centre_specified and any(zeroish(x, 0.00501) for x in c.centre) for c in g.columnlist): res.count('zeroish:specified centre')
    if any(zeroish(l.bottom, 0.00501) for l in g.layerlist): res.count('zeroish:layer bottom')
    if any(zeroish(l.centre, 0.00501) for l in g.layerlist): res.count('zeroish:layer centre')
    if any((not c.default_surface) and zeroish(c.surface, 0.00501) for c in g.columnlist): res.count('zeroish:surface')
    if any(zeroish(x, 0.0501) for w in g.welllist for p in w.pos for x in p): res.count('zeroish:well track point')
    if zeroish(g.permeability_angle, 0.00501) and rc.get('perm_angle') is not None: res.count('zeroish:permeability angle (set)')
    if g.atmosphere_volume == 0 or g.atmosphere_connection == 0: res.count('zeroish:atmosphere volume/connection')
    if g.gdcx is not None or g.gdcy is not None: res.count('gdcx/gdcy set' + (' (zeroish)' if zeroish(g.gdcx, 0.00501) or zeroish(g.gdcy, 0.00501) else ''))
    if g.cntype is not None: res.count('cntype set')
    if rc.get('rotate') is not None: res.count('rotated')
    if rc.get('translate') is not None: res.count('translated')
    big = max([abs(x) for n in g.nodelist for x in n.pos] or [0])
    res.count('coordinates:%s' % ('<1e4' if big < 1e4 else '<1e6' if big < 1e6 else '7-digit (10 columns)'))


ANCHORED = {'mulgrids.py': ['read_header', 'read_nodes', 'read_columns', 'read_connections', 'read_layers', 'read_surface', 'read_wells',
                            'read', 'write', 'write_header', 'write_nodes', 'write_columns', 'write_connections', 'write_layers',
                            'write_surface', 'write_wells', 'set_unit_type', 'set_secondary_variables', 'identify_layer_tops',
                            'set_default_surface', 'set_column_num_layers', 'setup_block_name_index', 'block_name_list_layer_column',
                            'block_name_list_dmplex', 'setup_block_connection_name_index', 'block_name', 'fix_blockname',
                            'add_node', 'add_column', 'add_connection', 'add_layer', 'add_well'],
            'fixed_format_file.py': ['parse_string', 'write_values_to_string', 'fit_value', 'read_values', 'write_values',
                                     'read_value_line', 'write_value_line', 'preprocess_specification']}


def anchored_lines():
    """{file: {function: set(line numbers of its body)}} from the current tree (ast)"""
    import ast
    out = {}
    for fn, names in ANCHORED.items():
        tree = ast.parse((core.REPO / fn).read_text())
        d = {}
        for node in ast.walk(tree):
            if isinstance(node, ast.FunctionDef) and node.name in names:
                body = set()
                for st in node.body:
                    if isinstance(st, ast.Expr) and isinstance(getattr(st, 'value', None), ast.Constant) and isinstance(st.value.value, str):
                        continue                                   # docstring
                    for sub in ast.walk(st):
                        if hasattr(sub, 'lineno') and isinstance(sub, ast.stmt):
                            body.add(sub.lineno)
                d.setdefault(node.name, set()).update(body)
        out[fn] = d
    return out


def run(ctx, only_oracle=False, n=None, seed_shift=0):
    cov = None
    if not ctx.quick and not only_oracle and not seed_shift:
        try:
            import coverage
            cov = coverage.Coverage(data_file=None, include=[str(core.REPO / f) for f in ANCHORED])
            cov.start()
        except Exception:
            cov = None
    try:
        res = _run(ctx, only_oracle, n, seed_shift)
    finally:
        if cov is not None: cov.stop()
    if not only_oracle and not seed_shift:
        ctx.notes += observations(ctx)
    if cov is not None:
        reach = {}
        data = cov.get_data()
        for fn, funcs in anchored_lines().items():
            hit = set(data.lines(str(core.REPO / fn)) or [])
            for name, lines in funcs.items():
                miss = sorted(lines - hit)
                reach['%s:%s' % (fn, name)] = {'statements': len(lines), 'executed': len(lines) - len(miss), 'not_executed_lines': miss}
        tot = sum(v['statements'] for v in reach.values())
        ex = sum(v['executed'] for v in reach.values())
        res.stats['reach: statements of the anchored functions executed'] = '%d/%d' % (ex, tot)
        res.reach = reach
        EVIDENCE_EXTRA['measured_reach'] = reach
    return res


EVIDENCE_EXTRA = {}


def _run(ctx, only_oracle=False, n=None, seed_shift=0):
    res = Result()
    res.rule = ('one case = one geometry (recipe: rectangular with generated spacings/origin or a shipped geometry with a refine/reduce/'
                'rotate/translate derivation; convention, atmosphere type, unit type, block order, surfaces, specified centres, wells) taken '
                'through write -> read -> write on the real code and the model; non-trivial = distinct recipe whose geometry has at least one '
                'column and one layer and was written successfully; plus one case = one sequence (reuse / reload / order) on the same object or '
                'in the same process, judged against fresh objects (distinct = distinct sequence description)')
    m = mg()
    fw, frd, fmal = res.facet('geo_write'), res.facet('geo_read'), res.facet('geo_malformed')
    fcan = res.facet('geo_canon')
    hyp_wf = res.hyp.setdefault('WF g (hypothesis of geo_roundtrip and its corollaries)', [0, 0])
    hyp_lck = res.hyp.setdefault('LayerCentresKept g', [0, 0])
    hyp_st = res.hyp.setdefault('StableSurfaces g (hypothesis of names_lists_preserved)', [0, 0])
    hyp_sz = res.hyp.setdefault('SizesStable g (proved from WF: sizesStable_of_fits; evaluated as a cross-check)', [0, 0])
    res.hyp.setdefault('Consistent g (tops / default surfaces as the library sets them)', [0, 0])
    res.hyp.setdefault('SurfaceClear g (hypothesis of names_lists_preserved_clear)', [0, 0])
    res.hyp.setdefault('StableSurfaces g = SurfaceClear g whenever WF g and Consistent g (surface_crossing_characterised, cross-check)', [0, 0])
    if n is None: n = ctx.n(70, 450)
    rcs = recipes(ctx, n) if not seed_shift else [gen_recipe(ctx.rng('search%d' % seed_shift), True, i) for i in range(n)]
    rng_mal = ctx.rng('malformed')
    reqs, meta = [], []

    def flush():
        if reqs:
            process_replies(res, reqs, meta)
            del reqs[:]
            del meta[:]
    for idx, rc in enumerate(rcs):
        if len(reqs) > 400 or sum(len(r) for r in reqs) > 6 * 10 ** 7: flush()
        try:
            g = build(rc)
        except Exception as e:
            # a recipe the real code cannot build (e.g. NamingConventionError for too many columns) is no case
            res.count('unbuildable:' + type(e).__name__)
            continue
        res.evaluations += 1
        classify(res, rc, g)
        inq = in_quantifier(g)
        if not inq: res.count('outside-quantifier(left-justified names)')
        tmp = ctx.tmp
        V, info = oracle(g, tmp, 'c%d' % (idx % 4))
        if info.get('skip'):
            res.count('skipped:' + info['skip'])
            if info['skip'] == 'unstable': res.unstable += 1
        if info.get('degenerate'): res.count('degenerate-columns(orientation not checked)', info['degenerate'])
        if info.get('stable_surfaces') is False:
            res.count('surface moved across a layer boundary by rounding (name lists not compared)')
        if inq:
            for v in V:
                v['case'] = {'recipe': rc}
                res.violations.append(v)
        if g.columnlist and g.layerlist and 't1' in info:
            res.distinct.add(recipe_key(rc))
        if idx % max(1, len(rcs) // 6) == 0:
            res.sample({'recipe': {k: (v if not isinstance(v, list) or len(v) < 8 else v[:8]) for k, v in rc.items()},
                        'nodes': len(g.nodelist), 'columns': len(g.columnlist), 'layers': len(g.layerlist),
                        'oracle': [v['key'] for v in V] or 'holds'})
        if only_oracle or not ctx.model_ok:
            continue
        # ---- correspondence requests
        feet = bool(g.unit_type)
        unstable = False
        if feet:
            try:
                for nd in g.nodelist:
                    for x in nd.pos:
                        if unstable_division(x, 2): unstable = True
                for c in g.columnlist:
                    if c.centre_specified and any(unstable_division(x, 2) for x in c.centre): unstable = True
                    if not c.default_surface and unstable_division(c.surface, 2): unstable = True
                for l in g.layerlist:
                    if unstable_division(l.bottom, 2) or unstable_division(l.centre, 2): unstable = True
                for w in g.welllist:
                    if any(unstable_division(x, 1) for p in w.pos for x in p): unstable = True
            except Exception:
                unstable = True
        if unstable:
            res.unstable += 1
            continue
        # real write (text or exception)
        f1 = str(tmp / 'w.dat')
        try:
            with quiet(): g.write(f1)
            real_w = open(f1).read()
        except Exception as e:
            real_w = 'exc ' + type(e).__name__
        try:
            enc = encode(g)
        except OverflowError:
            res.count('skipped:non-finite')
            continue
        reqs.append('write ' + enc)
        meta.append(('write', rc, real_w, None))
        # the theorem statement itself, evaluated in the model: read (write g) = canonGeo g when WF g
        reqs += ['wf ' + enc, 'rw ' + enc, 'canon ' + enc]
        meta += [('wf', rc, inq, None), ('rw', rc, None, None), ('canon', rc, None, None)]
        if not real_w.startswith('exc '):
            # real read of the written file, of a second generation, and of the shipped original
            texts = [real_w]
            g2 = info.get('g2')
            for text in texts:
                try:
                    with quiet(): gr = m.mulgrid(f1)
                    R = dump_real(gr)
                except Exception as e:
                    R = 'exc ' + type(e).__name__
                reqs.append('read ' + text.encode('latin-1').hex())
                meta.append(('read', rc, R, feet))
                # second generation: the re-read object written again
                if not isinstance(R, str):
                    try:
                        f2 = str(tmp / 'w2.dat')
                        with quiet(): gr.write(f2)
                        rw2 = open(f2).read()
                    except Exception as e:
                        rw2 = 'exc ' + type(e).__name__
                    reqs.append('write ' + encode(gr))
                    meta.append(('write', rc, rw2, None))
            # damaged variants of the file
            if len(real_w) < 40000:
                for _ in range(3):
                    bad = damage(rng_mal, real_w)
                    fb = str(tmp / 'bad.dat')
                    open(fb, 'w').write(bad)
                    try:
                        with quiet(): gb = m.mulgrid(fb)
                        Rb = dump_real(gb)
                    except Exception as e:
                        Rb = 'exc ' + type(e).__name__
                    reqs.append('read ' + bad.encode('latin-1').hex())
                    meta.append(('malformed', {'text': bad}, Rb, feet))
    # shipped originals read directly (CRLF files go through Python's newline translation first)
    if not only_oracle and ctx.model_ok and not seed_shift:
        for f in (SHIPPED if not ctx.quick else ['g1', 'g3', 'g5', 'g6', 'g7']):
            p = core.REPO / 'tests' / 'mulgrid' / (f + '.dat')
            text = open(p).read()
            try:
                with quiet(): R = dump_real(m.mulgrid(str(p)))
            except Exception as e:
                R = 'exc ' + type(e).__name__
            reqs.append('read ' + text.encode('latin-1').hex())
            meta.append(('read', {'base': 'shipped-original', 'file': f}, R, False))

    flush()
    # ---- sequences on one object / in one process (hidden state), judged against fresh objects
    if not seed_shift: seq_facet(ctx, res, ctx.rng('geo_sequence'), *((14, 14, 3) if ctx.quick else (80, 80, 12)))
    else: seq_facet(ctx, res, ctx.rng('geo_sequence%d' % seed_shift), 8, 8, 2)
    res.exhaustive = False
    return res


def process_replies(res, reqs, meta):
    fw, frd, fmal, fcan = res.facet('geo_write'), res.facet('geo_read'), res.facet('geo_malformed'), res.facet('geo_canon')
    hyp_wf = res.hyp['WF g (hypothesis of geo_roundtrip and its corollaries)']
    hyp_lck = res.hyp['LayerCentresKept g']
    hyp_st = res.hyp['StableSurfaces g (hypothesis of names_lists_preserved)']
    hyp_sz = res.hyp['SizesStable g (proved from WF: sizesStable_of_fits; evaluated as a cross-check)']
    hyp_co = res.hyp['Consistent g (tops / default surfaces as the library sets them)']
    hyp_cl = res.hyp['SurfaceClear g (hypothesis of names_lists_preserved_clear)']
    hyp_iff = res.hyp['StableSurfaces g = SurfaceClear g whenever WF g and Consistent g (surface_crossing_characterised, cross-check)']
    if reqs:
        out = core.run_driver('drv_c03', reqs)
        last_wf = None
        last_rw = None
        for reply, (kind, rc, real, feet) in zip(out, meta):
            if kind == 'wf':
                w = reply.split()
                if w[0] != 'ok': raise RuntimeError('driver wf: ' + reply[:80])
                last_wf = (w[1] == '1', w[2] == '1', w[3] == '1', w[4] == '1', w[5] == '1', w[6] == '1')
                if last_wf[0] and last_wf[4]:
                    hyp_iff[1] += 1
                    hyp_iff[0] += int(last_wf[2] == last_wf[5])
                for h, ok in zip((hyp_wf, hyp_lck, hyp_st, hyp_sz, hyp_co, hyp_cl), last_wf):
                    h[1] += 1
                    h[0] += int(ok)
                if real and not last_wf[0]: res.count('in quantifier but outside WF')
            elif kind == 'rw':
                last_rw = reply
            elif kind == 'canon':
                if last_wf[0]:
                    fcan['cases'] += 1
                    if last_rw != reply:
                        fcan['disagreements'] += 1
                        a, b = last_rw.split(' '), reply.split(' ')
                        i = next((i for i, (x, y) in enumerate(zip(a, b)) if x != y), min(len(a), len(b)))
                        res.disagreements.append(dict(facet='geo_canon', case={'recipe': rc}, model='read(write g) token %d: %s' % (i, ' '.join(a[max(0, i - 3):i + 3])),
                                                      impl='canonGeo g: %s' % ' '.join(b[max(0, i - 3):i + 3])))
            elif kind == 'write':
                fw['cases'] += 1
                if reply.startswith('ok s'): mw = bytes.fromhex(reply[4:]).decode('latin-1')
                else: mw = reply
                if mw != real:
                    fw['disagreements'] += 1
                    a, b = (mw.split('\n'), real.split('\n')) if not (mw.startswith('exc') or real.startswith('exc')) else ([mw[:60]], [real[:60]])
                    first = next(((x, y) for x, y in zip(a, b) if x != y), (len(a), len(b)))
                    res.disagreements.append(dict(facet='geo_write', case={'recipe': rc}, model=repr(first[0])[:120], impl=repr(first[1])[:120]))
            else:
                fac = frd if kind == 'read' else fmal
                fac['cases'] += 1
                M = parse_dump(reply)
                if isinstance(real, str) or isinstance(M, str):
                    same = (real == M) or (isinstance(real, str) and isinstance(M, str) and exc_same(real, M))
                    d = None if same else 'real %s, model %s' % (real if isinstance(real, str) else 'ok', M if isinstance(M, str) else 'ok')
                    if kind == 'malformed': res.count('malformed:' + (real if isinstance(real, str) else 'read-ok'))
                else:
                    d = diff_dumps(real, M, not feet)
                    if kind == 'malformed': res.count('malformed:read-ok')
                if d:
                    fac['disagreements'] += 1
                    res.disagreements.append(dict(facet='geo_read' if kind == 'read' else 'geo_malformed', case=rc if kind == 'malformed' else {'recipe': rc}, model=d[:200], impl='(see model field)'))


def exc_same(real, model):
    """exception classes: the model's enum is coarser than Python's"""
    r, mo = real[4:], model[4:]
    if r == mo: return True
    coarse = {'Exception': {'Exception', 'NamingConventionError', 'OverflowError', 'AttributeError', 'UnboundLocalError'}}
    return r in coarse.get(mo, set())


def search(ctx, seconds, res):
    found = list(res.violations)
    t0 = time.time()
    k = 0
    while not found and time.time() - t0 < seconds:
        k += 1
        c2 = core.Ctx(ctx.prop, ctx.tier, ctx.seed + 7919 * k)
        c2.model_ok = False
        try:
            r = run(c2, only_oracle=True, n=60, seed_shift=k)
        finally:
            c2.cleanup()
        known = core.known_keys(ID)
        found = [v for v in r.violations if v['key'] not in known]
    return found


def replay(ctx, payload):
    c = payload.get('case') or {}
    if 'seq' in c:
        V, info = seq_case(c, ctx.tmp)
        key = payload.get('key')
        known = core.known_keys(ID)
        if payload.get('kind') == 'sequence-note':
            return False, 'sequence note (no verdict): ' + ('\n'.join('  ' + v['key'] + ': ' + v['what'] for v in V) or 'not seen any more')
        hits = [v for v in V if v['key'] == key] or [v for v in V if v['key'] not in known and v['key'] != KEY_CARRY]
        txt = 'sequence %s\n' % json.dumps(c)[:600] + (('  skipped: ' + info['skip']) if info.get('skip') else
                                                     ('\n'.join('  ' + v['key'] + ': ' + v['what'] for v in V) or '  every step agrees with a fresh object'))
        return bool(hits), txt
    if 'recipe' not in c:
        return False, 'replay file names what no longer checks: %s' % payload.get('broken')
    if payload.get('kind') == 'observation':
        note = [x for x in observations(ctx) if '[%s]' % c['recipe']['custom'] in x]
        return False, 'observation (outside the hypotheses of the theorems, no verdict): ' + (note[0] if note else payload.get('what', ''))
    g = build(c['recipe'])
    V, info = oracle(g, ctx.tmp, 'r')
    key = payload.get('key')
    known = core.known_keys(ID)
    hits = [v for v in V if v['key'] == key] or [v for v in V if v['key'] not in known]
    txt = 'recipe %s\n' % json.dumps(c['recipe'])[:400] + ('\n'.join('  ' + v['key'] + ': ' + v['what'] for v in V) or '  property holds on this geometry')
    return bool(hits), txt
