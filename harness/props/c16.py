"""C16 — Fortran-written numbers are read with Fortran's meaning, and never raise.

model      lean/PyTough/Model/Fortran.lean  (fortranFloat, fortranInt over Py/Num.lean pyFloat, pyInt)
theorems   lean/PyTough/Props/C16.lean
tie        correspondence facets `fortran_num` (real fortran_float/fortran_int vs model) and
           `py_num` (the model's float()/int() grammar vs CPython's float()/int())
oracle     renderings of known values in every Fortran output style must read back as that value;
           no string may raise; non-number characters give nan / None; blanks give the blank value
"""
import math, struct, itertools
import core
from core import Result, hexs

ID = 'C16'
MODULE = 'PyTough.Props.C16'
TARGETS = ['PyTough.Props.C16', 'drv_c16']
THEOREMS = ['Props.C16.' + t for t in [
    'fortran_float_total', 'fortran_int_total', 'float_agrees_with_python', 'int_agrees_with_python',
    'blank_gives_blank_value_float', 'blank_gives_blank_value_int',
    'bad_character_gives_nan', 'bad_character_gives_none', 'reads_fortran_reals', 'reads_fortran_ints']]
LEVEL_TEXT = ('Proof: 10 Lean theorems about the model of fortran_float/fortran_int (totality for every string, agreement with float()/int(), '
              'blank value, not-a-number for any non-number character, and exact reading of every Fortran rendering of a real or integer with '
              'arbitrary blanks), all without sorry; tied to /repo by a correspondence run (real readers vs compiled model, >100k strings incl. all '
              'strings of length<=3 over a 20-char alphabet) and an independent oracle on rendered values.')
LEVEL_NOTE = ('Trusted: Lean kernel (+propext, Classical.choice, Quot.sound); Py/Num.lean as a model of CPython float()/int() on ASCII (diffed against '
              'CPython every run); decimal->double by CPython (A-float); non-ASCII text is outside the model.')
TECHNIQUE = 'Lean 4 proof over an executable model of the try/except cascade + differential correspondence with the real readers'
ASSUMPTIONS = [
    'ASCII text only (Python float()/int() also accept non-ASCII digits and spaces: outside the model)',
    'A-float: the model returns the exact decimal written; the decimal->double step is CPython float() (correctly rounded)',
]
TRUSTED_EXTRA = ['Py/Num.lean pyFloat/pyInt as a model of CPython float(str)/int(str): diffed against CPython on every run (facet py_num)']

BLANK = object()
NUMALPHA = '0123456789+-.eEdD _'
PRINTABLE = ''.join(chr(i) for i in range(32, 127)) + '\t\n'
CTRL = '\x0b\x0c\r\x1c\x1d\x1e\x1f\x00\x7f'


def bits(x):
    return struct.pack('>d', x).hex()


def canon_real(v):
    """canonical form of a value returned by the real readers"""
    if v is BLANK: return 'blank'
    if v is None: return 'none'
    if isinstance(v, bool): return 'bool'
    if isinstance(v, int): return 'int %d' % v
    if isinstance(v, float):
        if math.isnan(v): return 'nan'
        return 'f ' + bits(v)
    return 'other ' + repr(v)


def canon_model(line):
    """canonical form of a driver reply (decimal -> nearest double through CPython: A-float)"""
    w = line.split()
    if w[0] == 'exc': return 'exc ' + w[1]
    if w[0] != 'ok': return 'bad ' + line
    if w[1] == 'blank': return 'blank'
    if w[1] == 'none': return 'none'
    if w[1] == 'nan': return 'nan'
    if w[1] == 'int': return 'int %d' % int(w[2])
    if w[1] == 'inf': return 'f ' + bits(-math.inf if w[2] == '1' else math.inf)
    if w[1] == 'fin':
        x = float('%s%se%s' % ('-' if w[2] == '1' else '', w[3], w[4]))
        return 'f ' + bits(x)
    return 'bad ' + line


def call(f, *a, **k):
    try:
        return canon_real(f(*a, **k))
    except Exception as e:
        return 'exc ' + type(e).__name__


# ------------------------------------------------------------------ generators

def render_real(rng):
    """a real number in some Fortran output style; returns (text, expected float)"""
    nd = rng.choice([1, 1, 2, 3, 5, 7, 8, 15, 16, 17, rng.randint(1, 17)])
    digs = ''.join(rng.choice('0123456789') for _ in range(nd))
    k = rng.randint(0, nd)                      # digits before the point
    ip, fp = digs[:k], digs[k:]
    style = rng.choice(['plain', 'lead0', 'leadpoint'])
    if style == 'lead0' or (ip == '' and style == 'plain'):
        ip, fp = '0', digs
    if style == 'leadpoint':
        ip, fp = '', digs
    point = True if fp else rng.random() < 0.8
    if not ip and not fp:
        ip = '1'
    sign = rng.choice(['', '', '-', '+'])
    e = rng.choice([0, 1, -1, 5, -5, 99, -99, 100, -100, 101, 299, -299, 300, -300,
                    rng.randint(-300, 300), rng.randint(-120, 120), rng.randint(-9, 9)])
    es = rng.choice(['none', 'letter', 'letter', 'letter', 'bare'])
    if es == 'none':
        etxt, e = '', 0
    elif es == 'letter':
        l = rng.choice('EeDd')
        sg = '-' if e < 0 else rng.choice(['+', '+', ' ', ''])
        w = rng.choice([1, 2, 2, 3, 3])
        etxt = l + sg + str(abs(e)).rjust(w, '0')
    else:
        sg = '-' if e < 0 else '+'
        w = rng.choice([1, 2, 3, 3, 3])
        etxt = sg + str(abs(e)).rjust(w, '0')
    core_txt = sign + ip + ('.' if point else '') + fp + etxt
    # blanks: leading, trailing, embedded
    txt = core_txt
    if rng.random() < 0.3:
        cs = list(txt)
        for _ in range(rng.randint(1, 3)):
            cs.insert(rng.randint(0, len(cs)), ' ')
        txt = ''.join(cs)
    txt = ' ' * rng.choice([0, 0, 1, 3]) + txt + ' ' * rng.choice([0, 0, 1, 2])
    expected = float('%s%s.%se%d' % ('-' if sign == '-' else '', ip or '0', fp or '0', e))
    return txt, expected, es


def render_int(rng):
    n = rng.choice([0, 1, 7, 10, 99, 12345, rng.randint(0, 10 ** rng.randint(1, 18))])
    sign = rng.choice(['', '', '-', '+'])
    cs = list(sign + str(n))
    if rng.random() < 0.4:
        for _ in range(rng.randint(1, 3)):
            cs.insert(rng.randint(0, len(cs)), ' ')
    txt = ' ' * rng.choice([0, 1, 4]) + ''.join(cs) + ' ' * rng.choice([0, 0, 2])
    return txt, (-n if sign == '-' else n)


def random_string(rng):
    n = rng.randint(0, 20)
    mode = rng.random()
    if mode < 0.55:
        alpha = NUMALPHA
    elif mode < 0.8:
        alpha = NUMALPHA * 3 + 'infatyINFATY_' + PRINTABLE
    elif mode < 0.9:
        alpha = NUMALPHA * 2 + CTRL + '\t\n'
    else:
        alpha = PRINTABLE
    return ''.join(rng.choice(alpha) for _ in range(n))


SPECIALS = ['', ' ', '\n', '   \n', '\x1c', '\x1c1', ' \x1c ', '**********', '*****', '1.0+100', '-1.0-100', '-1.0+100',
            '1.0-100', '+1.0+100', '1.0D-05', ' 0.1234D-05', '.5E 02', '1.0e 5', '1 .5', 'd', 'e', '-', '+', '.', '-.', 'e5',
            'inf', '-inf', 'Infinity', 'nan', 'NaN', 'i n f', 'na n', '1_0', '1__0', '_1', '1_', '1_.0', '1.0_1', '1e5_0',
            '1e_5', '1d5', '1D+5', '1-5', '1+5', '1-', '1+', '--1', '-+1', '+-1', '1e400', '-1e-400', '1-400', '1+400',
            '0x10', '1e', '1e+', '5.', '.5', '1.e5', '1 2', '1 2 3', '- 1', '12-3-4', '1+2+3', '-1-2', '1.5-2-3', 'D5', '1dd5',
            '1.0E+05', '1.0e-05', ' 1 . 0 E + 0 5 ', '1,0', '1.0*5', 'NAN', '-nan', '+inf', 'infinit', 'infinityy',
            '1.0\x00', '\t1.5\t', '\x0b2\x0c', '1\t2', '0', '-0', '-0.0', '00012', '+ 5', '5 +', '9' * 30, '.' * 3]


def exhaustive_strings(maxlen, alpha):
    for n in range(maxlen + 1):
        for t in itertools.product(alpha, repeat=n):
            yield ''.join(t)



# ------------------------------------------------------------------ call sites (t2incons uses the Fortran readers)


def eval_incon_case(ctx, case):
    """reads case['text'] with the real t2incon and compares with case['want'] (Fortran meaning); returns a violation or None"""
    import contextlib, io, os
    import t2incons
    want = [(n, float(p), [float(x) for x in v]) for n, p, v in case['want']]
    path = os.path.join(str(ctx.tmp), 'c16_case.incon')
    with open(path, 'w') as f:
        f.write(case['text'] + '\n')
    try:
        with contextlib.redirect_stdout(io.StringIO()):
            inc = t2incons.t2incon(path)
        got = [(b.block, b.porosity, list(b.variable)) for b in inc._blocklist]
        timing = inc.timing
    except Exception as e:
        return dict(key='incon-callsite-raises', what='t2incon raises %s on a Fortran-written file' % type(e).__name__, case=case)
    finally:
        os.remove(path)
    def same(a, b):
        if a is None or b is None: return a is b
        return (a == b) or (isinstance(a, float) and isinstance(b, float) and math.isnan(a) and math.isnan(b))
    ok = len(got) == len(want)
    if ok:
        for (n1, p1, v1), (n2, p2, v2) in zip(got, want):
            if not (same(p1, p2) and len(v1) == len(v2) and all(same(a, b) for a, b in zip(v1, v2))):
                ok = False
    if ok and not (timing and timing.get('kcyc') == 12 and timing.get('sumtim') == 0.31536e8 and timing.get('tstart') == 0.0):
        ok = False
    if not ok:
        return dict(key='incon-callsite', what='t2incon reads a Fortran-written initial-conditions file with other values than Fortran would (got %r timing %r)' % (got, timing), case=case)
    return None

def callsite_incon(ctx, res, rng, n_files):
    """An INCON/SAVE file as a Fortran simulator prints it (D exponents, letter-less 3-digit exponents,
    blank instead of '+', overflow asterisks) must be read with the Fortran meaning by t2incon."""
    import importlib, contextlib, io, os
    import t2incons
    importlib.reload(t2incons)
    fac = res.facet('callsite_incon')
    for k in range(n_files):
        nblk = rng.randint(1, 4)
        want, lines = [], ['INCON -- INITIAL CONDITIONS FOR %5d ELEMENTS AT TIME  0.100000E+10' % nblk]
        for b in range(nblk):
            name = 'ab%3d' % (b + 1)
            por_txt, por, _ = render_real(rng)
            por_txt = por_txt.strip()
            if len(por_txt) > 15 or ' ' in por_txt:
                por_txt, por = '0.25000000D+00', 0.25
            star = rng.random() < 0.15
            if star: por_txt, por = '*' * 15, math.nan
            lines.append('%5s%5s%5s%15s' % (name, '', '', por_txt))
            vals, txts = [], []
            for j in range(rng.randint(1, 4)):
                t, x, _ = render_real(rng)
                t = t.strip().replace(' ', '')
                if len(t) > 20: t, x = '0.1013D+06', 101300.0
                vals.append(x); txts.append(t.rjust(20))
            lines.append(''.join(txts))
            want.append((name, por, vals))
        lines.append('+++')
        lines.append('%5d%5d%5d%15s%15s' % (12, 3, 1, '0.000000000D+00', ' 0.31536000+008'))
        case = {'fn': 'incon', 'text': '\n'.join(lines), 'want': [[n, repr(p), [repr(x) for x in v]] for n, p, v in want]}
        fac['cases'] += 1
        res.evaluations += 1
        res.distinct.add('incon:' + case['text'])
        v = eval_incon_case(ctx, case)
        if v:
            res.violations.append(v)
    res.sample({'incon_file': lines})

# ------------------------------------------------------------------ run

def bad_float_char(c):
    return (not c.isspace()) and c.lower() not in '0123456789+-._edinfatyn'  # letters of inf/infinity/nan


def bad_int_char(c):
    return (not c.isspace()) and c not in '0123456789+-_'


def oracle_string(s, ff, fi, res, label='string'):
    """property clauses that apply to an arbitrary string, evaluated on the real code"""
    out = []
    rf = call(ff, s, BLANK)
    ri = call(fi, s, BLANK)
    if rf.startswith('exc'):
        out.append(dict(key='float-raises:%s' % rf[4:], what='fortran_float(%r) raises %s' % (s, rf[4:]), case={'fn': 'float', 's': s}))
    if ri.startswith('exc'):
        out.append(dict(key='int-raises:%s' % ri[4:], what='fortran_int(%r) raises %s' % (s, ri[4:]), case={'fn': 'int', 's': s}))
    if s.strip() == '':
        if rf != 'blank':
            out.append(dict(key='float-blank', what='fortran_float(%r) is %s, not the blank value' % (s, rf), case={'fn': 'float', 's': s}))
        if ri != 'blank':
            out.append(dict(key='int-blank', what='fortran_int(%r) is %s, not the blank value' % (s, ri), case={'fn': 'int', 's': s}))
    else:
        if any(bad_float_char(c) for c in s) and rf != 'nan':
            out.append(dict(key='float-badchar', what='fortran_float(%r) is %s, expected nan' % (s, rf), case={'fn': 'float', 's': s}))
        if any(bad_int_char(c) for c in s) and ri != 'none':
            out.append(dict(key='int-badchar', what='fortran_int(%r) is %s, expected None' % (s, ri), case={'fn': 'int', 's': s}))
    try:
        pv = canon_real(float(s))
        if rf != pv:
            out.append(dict(key='float-python', what='fortran_float(%r) is %s but float() gives %s' % (s, rf, pv), case={'fn': 'float', 's': s}))
    except ValueError:
        pass
    try:
        pv = canon_real(int(s))
        if ri != pv:
            out.append(dict(key='int-python', what='fortran_int(%r) is %s but int() gives %s' % (s, ri, pv), case={'fn': 'int', 's': s}))
    except ValueError:
        pass
    return rf, ri, out


BLANK_VALUES = ['default', None, BLANK, 7, -1.5, 'x', 'default', 0, None]


def blank_sequence(s, ff, fi):
    """the same field text read several times in one process with different blank values: "blank fields yield the
    caller's blank value" on every call, whatever was read before; a non-blank field does not depend on it"""
    out = []
    for fname, f, dflt in (('float', ff, 0.0), ('int', fi, 0)):
        first = None
        for k, b in enumerate(BLANK_VALUES):
            try:
                r = f(s) if b == 'default' else f(s, b)
            except Exception as e:
                out.append(dict(key='%s-raises:%s' % (fname, type(e).__name__), what='fortran_%s(%r, blank value %r) raises %s' % (fname, s, b, type(e).__name__),
                                case={'fn': fname, 's': s, 'blank_sequence': True}))
                break
            if s.strip() == '':
                want = dflt if b == 'default' else b
                same = (r is want) or (type(r) is type(want) and not isinstance(want, (str, type(None))) and want is not BLANK and r == want)
                if not same:
                    out.append(dict(key='%s-blank-sequence' % fname,
                                    what='call %d in one process: fortran_%s(%r%s) is %r, not the blank value %r (earlier calls passed %r)'
                                         % (k + 1, fname, s, '' if b == 'default' else ', <blank value>', 'BLANK' if r is BLANK else r,
                                            'BLANK' if want is BLANK else want, ['BLANK' if x is BLANK else x for x in BLANK_VALUES[:k]]),
                                    case={'fn': fname, 's': s, 'blank_sequence': True}))
                    break
            else:
                c = canon_real(r)
                if first is None: first = c
                elif c != first:
                    out.append(dict(key='%s-depends-on-blank-value' % fname,
                                    what='fortran_%s(%r) is %s with one blank value and %s with another' % (fname, s, first, c),
                                    case={'fn': fname, 's': s, 'blank_sequence': True}))
                    break
    return out


def run(ctx, scale=1.0):
    import importlib, fixed_format_file as fff
    importlib.reload(fff)
    ff, fi = fff.fortran_float, fff.fortran_int
    res = Result()
    res.rule = ('strings = renderings of reals/ints in Fortran styles + specials + random strings over printable ASCII/control '
                'characters (len<=20) + all strings of length<=3 (quick) / <=4 (thorough) over a 20-character alphabet; '
                'non-trivial = distinct strings on which float(s) (resp. int(s)) raises and s.strip() is non-empty, '
                'i.e. the cascade beyond the first level is exercised')
    rng = ctx.rng('fortran_num')
    n_render = int(ctx.n(40000, 600000) * scale)
    n_int = int(ctx.n(10000, 100000) * scale)
    n_rand = int(ctx.n(60000, 1500000) * scale)
    strings = []          # (s, expected-or-None, kind)
    for s in SPECIALS:
        strings.append((s, None, 'special'))
    for _ in range(n_render):
        t, x, es = render_real(rng)
        strings.append((t, ('f', x), 'real-' + es))
    for _ in range(n_int):
        t, n = render_int(rng)
        strings.append((t, ('i', n), 'int'))
    for _ in range(n_rand):
        strings.append((random_string(rng), None, 'random'))
    alpha20 = '019+-.eEdD _ninfa*\tx'
    for s in exhaustive_strings(ctx.n(3, 4), alpha20):
        strings.append((s, None, 'exhaustive'))

    f1 = res.facet('fortran_num')
    f2 = res.facet('py_num')
    f3 = res.facet('blank_value_sequence')
    seq_strings = [' ' * w for w in range(0, 41)] + ['\n', '\t', ' \n', '     \n', '\r\n'] + [t for t, _, k in strings[:400] if k != 'random']
    for t in seq_strings:
        f3['cases'] += 1
        v = blank_sequence(t, ff, fi)
        res.violations += v
    # real code + oracle
    real = []
    for s, exp, kind in strings:
        rf, ri, viol = oracle_string(s, ff, fi, res)
        res.violations += viol
        if exp is not None:
            if exp[0] == 'f':
                want = canon_real(exp[1])
                if rf != want:
                    res.violations.append(dict(key='float-render:' + kind, what='fortran_float(%r) is %s, Fortran reads %r (%s)' % (s, rf, exp[1], want),
                                               case={'fn': 'float', 's': s, 'expected': repr(exp[1])}))
            else:
                want = 'int %d' % exp[1]
                if ri != want:
                    res.violations.append(dict(key='int-render', what='fortran_int(%r) is %s, Fortran reads %d' % (s, ri, exp[1]),
                                               case={'fn': 'int', 's': s, 'expected': exp[1]}))
        real.append((rf, ri))
        res.count('kind:' + kind)
        res.evaluations += 1
        nontrivial = False
        if s.strip():
            try: float(s)
            except ValueError: nontrivial = True
        if nontrivial:
            res.distinct.add(s)
            res.count('float-result:' + ('nan' if rf == 'nan' else 'value' if rf.startswith('f ') else rf))
    # the partial application used by t2incon
    for s in ['', '   ', '1.5', 'x', ' 1 2 ']:
        a, b = fff.fortran_read_function['e'](s), fff.fortran_read_function['d'](s)
        wa, wb = ff(s, None), fi(s, None)
        if not (a == wa or (a != a and wa != wa)) or b != wb:
            res.violations.append(dict(key='read-function-dict', what='fortran_read_function disagrees with fortran_float/int on %r' % s, case={'fn': 'dict', 's': s}))

    # model
    if ctx.model_ok:
        lines = []
        for s, _, _ in strings:
            h = hexs(s)
            lines += ['ff ' + h, 'fi ' + h, 'pf ' + h, 'pi ' + h]
        out = core.run_driver('drv_c16', lines)
        for k, (s, exp, kind) in enumerate(strings):
            mf, mi, mpf, mpi = (canon_model(x) for x in out[4 * k:4 * k + 4])
            rf, ri = real[k]
            f1['cases'] += 2
            if mf != rf:
                f1['disagreements'] += 1
                res.disagreements.append(dict(facet='fortran_num', case={'fn': 'float', 's': s}, model=mf, impl=rf))
            if mi != ri:
                f1['disagreements'] += 1
                res.disagreements.append(dict(facet='fortran_num', case={'fn': 'int', 's': s}, model=mi, impl=ri))
            # model grammar vs CPython (validates Py/Num.lean itself)
            pf, pi = call(float, s), call(int, s)
            f2['cases'] += 2
            if mpf != pf:
                f2['disagreements'] += 1
                res.disagreements.append(dict(facet='py_num', case={'fn': 'pyfloat', 's': s}, model=mpf, impl=pf))
            if mpi != pi:
                f2['disagreements'] += 1
                res.disagreements.append(dict(facet='py_num', case={'fn': 'pyint', 's': s}, model=mpi, impl=pi))
            if k % 20011 == 0:
                res.sample({'s': s, 'fortran_float': rf, 'fortran_int': ri, 'model_float': mf, 'model_int': mi})
    else:
        for k in range(0, len(strings), 20011):
            res.sample({'s': strings[k][0], 'fortran_float': real[k][0], 'fortran_int': real[k][1]})
    callsite_incon(ctx, res, ctx.rng('callsite_incon'), int(ctx.n(150, 3000) * scale))
    res.exhaustive = False
    res.hyp['FReal.WF (rendered reals: hypothesis of reads_fortran_reals)'] = [n_render, n_render]
    return res


def search(ctx, seconds, res):
    """failing-input search on the real code: the oracle is part of run(); widen the stream"""
    import time
    found = list(res.violations)
    t0 = time.time()
    k = 0
    while not found and time.time() - t0 < seconds:
        k += 1
        c2 = core.Ctx(ctx.prop, ctx.tier, ctx.seed + 1000 * k)
        c2.model_ok = False
        r = run(c2, scale=0.5)
        c2.cleanup()
        found = r.violations
    # a model/implementation disagreement on a string is itself a candidate: re-examine with the oracle
    return found


def replay(ctx, payload):
    import fixed_format_file as fff
    c = payload.get('case') or {}
    if c.get('fn') == 'incon':
        v = eval_incon_case(ctx, c)
        return bool(v), (v['what'] if v else 't2incon reads the file with the Fortran meaning') + '\nfile:\n' + c['text']
    if 's' not in c:
        return False, 'replay file names what no longer checks: %s' % payload.get('broken')
    s = c['s']
    if c.get('blank_sequence'):
        v = blank_sequence(s, fff.fortran_float, fff.fortran_int)
        return bool(v), '\n'.join(x['what'] for x in v) or 'every call returns the blank value it was given'
    rf, ri, viol = oracle_string(s, fff.fortran_float, fff.fortran_int, None)
    txt = 'fortran_float(%r) -> %s ; fortran_int(%r) -> %s' % (s, rf, s, ri)
    bad = bool(viol)
    if 'expected' in c:
        if c['fn'] == 'float':
            want = canon_real(float(c['expected']))
            bad = bad or rf != want
            txt += ' ; expected %s' % want
        elif c['fn'] == 'int':
            bad = bad or ri != 'int %d' % int(c['expected'])
    return bad, txt
