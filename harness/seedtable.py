#!/venv/bin/python
"""Regenerate the table of DESIGN.md section 7.4 (which checks catch which seeded change) from seeded/*/meta.json.
usage: seedtable.py            (rewrites the block between the SEEDTABLE markers in DESIGN.md)"""
import json, re
from pathlib import Path
V = Path(__file__).resolve().parents[1]


def title(d):
    n = d / 'notes.md'
    if n.exists():
        for line in n.read_text(errors='replace').splitlines():
            s = line.strip().lstrip('#').strip()
            if s:
                return re.sub(r'\s+', ' ', s)[:150].replace('|', '/')
    m = d / 'meta.json'
    return json.loads(m.read_text()).get('what', '')[:150] if m.exists() else ''


def main():
    rows = []
    for d in sorted((V / 'seeded').iterdir()):
        m = d / 'meta.json'
        if not m.exists():
            continue
        j = json.loads(m.read_text())
        cells = []
        for c, v in sorted(j.get('verdicts', {}).items()):
            cells.append('%s: %s' % (c, ('caught, failing input replayed' if v.get('with_input') else 'caught (no-failing-input-found)')
                                     if v.get('detected') else 'not caught'))
        rows.append('| %s | %s | %s | %s |' % (d.name, j.get('property'), title(d), '; '.join(cells)))
    block = ['| change | breaks | what it is | checks run against it |', '|---|---|---|---|'] + rows
    p = V / 'DESIGN.md'
    s = p.read_text()
    a, b = '<!-- SEEDTABLE-BEGIN -->', '<!-- SEEDTABLE-END -->'
    assert a in s and b in s
    s = s[:s.index(a) + len(a)] + '\n' + '\n'.join(block) + '\n' + s[s.index(b):]
    p.write_text(s)
    print(len(rows), 'rows')


if __name__ == '__main__':
    main()
