"""Translator: the data behind flavour conversion and Waiwera export -> lean/PyTough/Gen/ConvertTables.lean.

From the *current* /repo tree:
  * module level:   t2data_sections
  * AST literals inside t2data methods (they are local variables, so the function bodies are parsed):
      convert_AUTOUGH2_generators_to_TOUGH2 : allowed, convert, the constant of gen.type.startswith(...)
      convert_TOUGH2_parameters_to_AUTOUGH2 : lineq_types
      eos_json                              : supported_eos, eos_from_index
      generators_json                       : unsupported_types, the literal of `gen.type != 'TMAK'`
      set_type                              : the accepted type names
      convert_to_AUTOUGH2                   : default simulator / eos arguments (inspect.signature)
  * evaluated behaviour tables (the real methods are run on fresh t2data objects):
      MOP conversion, both directions, MP off/on: for every position 0..24 and digit 0..9 the digit the
      real converter leaves at that position (all other positions are checked to be unaffected: the
      translator raises if a digit influences another position);
      the MOP(21) value produced from each LINEQ type 0..9, the LINEQ type produced from each solver
      type / MOP(21) value 0..6;
      the number of conductivity rescalings for each (simulator string, MP, position, digit).
The Lean side proves (by `decide` over these whole tables) that the hand-written model of the two
parameter converters agrees with them; a change of the code's tables therefore re-elaborates the theorems.
Anything that cannot be found or has an unexpected shape raises.
"""
import ast, inspect, importlib, io, contextlib
import core

SIMS = ['', 'AUTOUGH2', 'AUTOUGH2.2', 'AUTOUGH2.2EW', 'AUTOUGH2EW', 'MULKOM', 'MULKOMEW', 'TOUGH2', 'autough2']


def lchar(c):
    o = ord(c)
    if not (0 <= o < 128):
        raise ValueError('non-ASCII character in a table: %r' % c)
    if c.isalnum() or c in ' ._-+':
        return "'%s'" % c
    return 'Char.ofNat %d' % o


def lstr(s):
    if not isinstance(s, str):
        raise ValueError('expected a string, found %r' % (s,))
    return '[' + ', '.join(lchar(c) for c in s) + ']'


def _func(cls_node, name):
    for n in cls_node.body:
        if isinstance(n, ast.FunctionDef) and n.name == name:
            return n
    raise ValueError('t2data.%s not found' % name)


def _local_literal(fn, var):
    """value of the unique assignment `var = <literal>` anywhere inside function fn"""
    hits = [n for n in ast.walk(fn) if isinstance(n, ast.Assign) and len(n.targets) == 1
            and isinstance(n.targets[0], ast.Name) and n.targets[0].id == var]
    lits = []
    for h in hits:
        try:
            lits.append(ast.literal_eval(h.value))
        except Exception:
            pass
    if len(lits) != 1:
        raise ValueError('%s: expected exactly one literal assignment to %r, found %d' % (fn.name, var, len(lits)))
    return lits[0]


def _startswith_constants(fn):
    out = []
    for n in ast.walk(fn):
        if isinstance(n, ast.Call) and isinstance(n.func, ast.Attribute) and n.func.attr == 'startswith' \
                and len(n.args) == 1 and isinstance(n.args[0], ast.Constant) and isinstance(n.args[0].value, str):
            out.append(n.args[0].value)
    return out


def _subscripted_int_lists(fn):
    out = []
    for n in ast.walk(fn):
        if isinstance(n, ast.Subscript) and isinstance(n.value, ast.List):
            try:
                v = ast.literal_eval(n.value)
            except Exception:
                continue
            if v and all(isinstance(x, int) for x in v):
                out.append(v)
    return out


def _membership_lists(fn, name):
    """literal lists L in tests `name in L`"""
    out = []
    for n in ast.walk(fn):
        if isinstance(n, ast.Compare) and len(n.ops) == 1 and isinstance(n.ops[0], ast.In) \
                and isinstance(n.left, ast.Name) and n.left.id == name:
            try:
                out.append(ast.literal_eval(n.comparators[0]))
            except Exception:
                pass
    return out


def _noteq_type_constants(fn):
    out = []
    for n in ast.walk(fn):
        if isinstance(n, ast.Compare) and len(n.ops) == 1 and isinstance(n.ops[0], ast.NotEq) \
                and isinstance(n.left, ast.Attribute) and n.left.attr == 'type' \
                and isinstance(n.comparators[0], ast.Constant):
            out.append(n.comparators[0].value)
    return out


def _quiet(f, *a, **k):
    with contextlib.redirect_stdout(io.StringIO()):
        return f(*a, **k)


def collect():
    import t2data as T
    importlib.reload(T)
    src = inspect.getsource(T)
    tree = ast.parse(src)
    cls = [n for n in tree.body if isinstance(n, ast.ClassDef) and n.name == 't2data']
    if len(cls) != 1:
        raise ValueError('class t2data not found')
    cls = cls[0]
    t = {}
    secs = list(T.t2data_sections)
    if not secs or not all(isinstance(s, str) for s in secs) or len(set(secs)) != len(secs):
        raise ValueError('t2data_sections has an unexpected shape')
    t['sections'] = secs

    fg = _func(cls, 'convert_AUTOUGH2_generators_to_TOUGH2')
    t['allowed'] = list(_local_literal(fg, 'allowed'))
    conv = _local_literal(fg, 'convert')
    if not isinstance(conv, dict):
        raise ValueError('convert is not a dict')
    t['convert'] = list(conv.items())
    sw = _startswith_constants(fg)
    if len(sw) != 1:
        raise ValueError('expected one startswith(...) in convert_AUTOUGH2_generators_to_TOUGH2, found %r' % (sw,))
    t['prefix'] = sw[0]

    fp = _func(cls, 'convert_TOUGH2_parameters_to_AUTOUGH2')
    lt = _local_literal(fp, 'lineq_types')
    if not (isinstance(lt, list) and lt and all(isinstance(x, int) for x in lt)):
        raise ValueError('lineq_types in convert_TOUGH2_parameters_to_AUTOUGH2 is not a list of integers')
    t['lineq_types'] = lt

    fe = _func(cls, 'eos_json')
    se = _local_literal(fe, 'supported_eos')
    ei = _local_literal(fe, 'eos_from_index')
    if not (isinstance(se, dict) and isinstance(ei, dict)):
        raise ValueError('supported_eos / eos_from_index are not dicts')
    t['supported_eos'] = list(se.items())
    t['eos_from_index'] = list(ei.items())
    tr = _membership_lists(fe, 'aut2eosname')
    tr = [x for x in tr if isinstance(x, list)]
    if len(tr) != 1:
        raise ValueError('expected one `aut2eosname in [...]` (tracer EOS list) in eos_json, found %r' % (tr,))
    t['tracer_eos'] = tr[0]

    fj = _func(cls, 'generators_json')
    un = _local_literal(fj, 'unsupported_types')
    if not isinstance(un, (set, frozenset, list, tuple)):
        raise ValueError('unsupported_types is not a set')
    t['unsupported_types'] = sorted(un)
    ne = [x for x in _noteq_type_constants(fj) if isinstance(x, str)]
    groups = sorted(set(x for x in ne if x not in ('HEAT',)))
    # the only generator type excluded from `sources` is the one in `if gen.type != ...: sources.append(g)`
    grp = []
    for n in ast.walk(fj):
        if isinstance(n, ast.If) and isinstance(n.test, ast.Compare) and isinstance(n.test.ops[0], ast.NotEq) \
                and isinstance(n.test.left, ast.Attribute) and n.test.left.attr == 'type' \
                and any(isinstance(b, ast.Expr) and isinstance(b.value, ast.Call) and isinstance(b.value.func, ast.Attribute)
                        and b.value.func.attr == 'append' and isinstance(b.value.func.value, ast.Name)
                        and b.value.func.value.id == 'sources' for b in n.body):
            grp.append(n.test.comparators[0].value)
    if len(grp) != 1:
        raise ValueError('expected exactly one `if gen.type != X: sources.append(g)` in generators_json, found %r (%r)' % (grp, groups))
    t['group_type'] = grp[0]

    fs = _func(cls, 'set_type')
    tl = [x for x in _membership_lists(fs, 'value') if isinstance(x, list)]
    if len(tl) != 1:
        raise ValueError('expected one `value in [...]` in set_type')
    t['type_names'] = tl[0]

    sig = inspect.signature(T.t2data.convert_to_AUTOUGH2)
    t['default_simulator'] = sig.parameters['simulator'].default
    t['default_eos'] = sig.parameters['eos'].default

    # ---------------- evaluated behaviour
    def fresh(sim=''):
        d = T.t2data()
        d.simulator = sim
        r = T.rocktype(name='r', porosity=0.5, conductivity=4.0)
        d.grid.add_rocktype(r)
        return d, r

    def run(direction, mp, vec, sim='', lineq=None, solver=None):
        d, r = fresh(sim)
        for i, v in enumerate(vec):
            d.parameter['option'][i] = v
        if lineq is not None: d.lineq = dict(lineq)
        if solver is not None: d.solver = dict(solver)
        if direction == 'a2t':
            _quiet(d.convert_AUTOUGH2_parameters_to_TOUGH2, False, mp)
        else:
            _quiet(d.convert_TOUGH2_parameters_to_AUTOUGH2, False, mp)
        k = {4.0: 0, 2.0: 1, 1.0: 2}.get(float(r.conductivity))
        if k is None:
            raise ValueError('unexpected conductivity %r after conversion' % (r.conductivity,))
        return [int(x) for x in d.parameter['option']], k, d

    n = len(T.default_parameters['option'])
    if n != 25:
        raise ValueError('parameter option vector has length %d, expected 25' % n)
    zero = [0] * n

    def mop_table(direction, sim=''):
        tab, ktab = {}, {}
        for mp in (False, True):
            base, kbase, _ = run(direction, mp, zero, sim)
            rows, krows = [], []
            for pos in range(n):
                row, krow = [], []
                for dig in range(10):
                    vec = list(zero); vec[pos] = dig
                    res, k, _ = run(direction, mp, vec, sim)
                    for j in range(n):
                        if j != pos and res[j] != base[j]:
                            raise ValueError('%s: digit %d at MOP(%d) changes MOP(%d)' % (direction, dig, pos, j))
                    row.append(res[pos]); krow.append(k)
                rows.append(row); krows.append(krow)
            tab[mp] = rows; ktab[mp] = krows
        return tab, ktab

    t['mop_a2t'], _ = mop_table('a2t')
    t['mop_t2a'], kt = mop_table('t2a')
    if any(k for mp in kt for row in kt[mp] for k in row):
        raise ValueError('TOUGH2->AUTOUGH2 conversion rescales conductivities')
    t['cond_a2t'] = [(s, mop_table('a2t', s)[1]) for s in SIMS]

    # LINEQ type -> MOP(21)
    l2s = []
    for ty in range(10):
        res, _, d = run('a2t', False, zero, lineq={'type': ty})
        if d.lineq != {}:
            raise ValueError('lineq not emptied')
        l2s.append(res[21])
    t['lineq_to_solver'] = l2s
    # solver type / MOP(21) 0..9 -> LINEQ type (evaluated; must agree with the AST list where it is in range)
    s2l = []
    for st in range(10):
        got = []
        for how in ('solver', 'mop'):
            vec = list(zero)
            if how == 'mop': vec[21] = st
            res, _, d = run('t2a', False, vec, solver={'type': st} if how == 'solver' else None)
            if d.solver != {}:
                raise ValueError('solver not emptied')
            got.append(d.lineq.get('type'))
        if got[0] != got[1] or not isinstance(got[0], int):
            raise ValueError('LINEQ type from SOLVR type %d and from MOP(21)=%d differ: %r' % (st, st, got))
        if st < len(t['lineq_types']) and got[0] != t['lineq_types'][st]:
            raise ValueError('lineq_types in the source does not match behaviour at %d' % st)
        s2l.append(got[0])
    t['solver_to_lineq'] = s2l
    res, _, d = run('t2a', True, zero, solver={'type': 5})
    t['lineq_type_mp'] = d.lineq['type']
    t['lineq_keys'] = list(d.lineq.keys())
    return t


def render(t):
    o = ['/- GENERATED by harness/translate/convert_tables.py from /repo/t2data.py (do not edit). -/',
         'namespace Gen.ConvertTables', '']

    def slist(name, xs, doc):
        o.append('/-- %s -/' % doc)
        o.append('def %s : List (List Char) := [%s]' % (name, ', '.join(lstr(x) for x in xs)))
        o.append('')

    def spairs(name, xs, doc):
        o.append('/-- %s -/' % doc)
        o.append('def %s : List (List Char × List Char) := [%s]' % (name, ', '.join('(%s, %s)' % (lstr(a), lstr(b)) for a, b in xs)))
        o.append('')

    def nat3(name, tab, doc):
        o.append('/-- %s -/' % doc)
        o.append('def %s : List (List Nat) := [\n%s]' % (name, ',\n'.join('  [%s]' % ', '.join(str(int(x)) for x in row) for row in tab)))
        o.append('')

    slist('sections', t['sections'], 't2data_sections')
    slist('allowed', t['allowed'], '`allowed` in convert_AUTOUGH2_generators_to_TOUGH2')
    spairs('convert', t['convert'], '`convert` in convert_AUTOUGH2_generators_to_TOUGH2')
    o.append('/-- the constant of `gen.type.startswith(...)` -/')
    o.append('def keepPrefix : List Char := %s\n' % lstr(t['prefix']))
    o.append('/-- the list indexed by the solver type in convert_TOUGH2_parameters_to_AUTOUGH2 -/')
    o.append('def lineqTypes : List Int := [%s]\n' % ', '.join(str(int(x)) for x in t['lineq_types']))
    o.append('/-- LINEQ type produced from solver type / MOP(21) 0..9 (evaluated) -/')
    o.append('def solverToLineq : List Int := [%s]\n' % ', '.join(str(int(x)) for x in t['solver_to_lineq']))
    o.append('/-- LINEQ type chosen when MP is set (evaluated) -/')
    o.append('def lineqTypeMP : Int := %d\n' % t['lineq_type_mp'])
    slist('lineqKeys', t['lineq_keys'], 'keys of the LINEQ dict created by the conversion, in order (evaluated)')
    o.append('/-- MOP(21) produced from LINEQ type 0..9 (evaluated) -/')
    o.append('def lineqToSolver : List Int := [%s]\n' % ', '.join(str(int(x)) for x in t['lineq_to_solver']))
    spairs('supportedEos', t['supported_eos'], '`supported_eos` in eos_json (insertion order)')
    o.append('/-- `eos_from_index` in eos_json -/')
    for k, v in t['eos_from_index']:
        if not isinstance(k, int):
            raise ValueError('eos_from_index key %r' % (k,))
    o.append('def eosFromIndex : List (Int × List Char) := [%s]\n' % ', '.join('(%d, %s)' % (k, lstr(v)) for k, v in t['eos_from_index']))
    slist('tracerEos', t['tracer_eos'], 'EOS names that carry a tracer')
    slist('unsupportedGenTypes', t['unsupported_types'], '`unsupported_types` in generators_json (sorted)')
    o.append('/-- the generator type that produces a group instead of a source -/')
    o.append('def groupType : List Char := %s\n' % lstr(t['group_type']))
    slist('typeNames', t['type_names'], 'accepted by the `type` setter')
    o.append('def defaultSimulator : List Char := %s' % lstr(t['default_simulator']))
    o.append('def defaultEos : List Char := %s\n' % lstr(t['default_eos']))
    nat3('tblMopA2T', t['mop_a2t'][False], 'AUTOUGH2->TOUGH2, MP off: [position][digit] -> digit left at that position (LINEQ empty)')
    nat3('tblMopA2TMP', t['mop_a2t'][True], 'AUTOUGH2->TOUGH2, MP on')
    nat3('tblMopT2A', t['mop_t2a'][False], 'TOUGH2->AUTOUGH2, MP off')
    nat3('tblMopT2AMP', t['mop_t2a'][True], 'TOUGH2->AUTOUGH2, MP on')
    o.append('/-- number of conductivity rescalings: (simulator string, MP off table, MP on table), [position][digit] -/')
    o.append('def tblCondA2T : List (List Char × List (List Nat) × List (List Nat)) := [')
    rows = []
    for s, kt in t['cond_a2t']:
        def tab(x):
            return '[' + ', '.join('[%s]' % ', '.join(str(v) for v in row) for row in x) + ']'
        rows.append('  (%s,\n   %s,\n   %s)' % (lstr(s), tab(kt[False]), tab(kt[True])))
    o.append(',\n'.join(rows) + ']')
    o.append('')
    o.append('end Gen.ConvertTables')
    return '\n'.join(o) + '\n'


def translate(ctx=None):
    t = collect()
    core.write_if_changed(core.LEAN / 'PyTough' / 'Gen' / 'ConvertTables.lean', render(t))
    return t
