"""Translator for the thermodynamic routines (C14, C15).

    /repo/IAPWS97.py   ->  lean/PyTough/Gen/Iapws.lean
    /repo/t2thermo.py  ->  lean/PyTough/Gen/Ifc67.lean

The module source is parsed with `ast`; every constant / table is taken from the *imported*
module (so `tcritical = tcriticalk - tc_k`, `supst_b = dict(zip(...))` have the values the code
really uses).  Function bodies are turned into a small typed IR which is emitted twice:

  * as Lean definitions generic in a carrier `K` with `[ThermoField K]` (Model/Thermo.lean):
    run over `Float` by the compiled driver (bit-for-bit validation against CPython on every
    run) and over the reals by the theorems in Props/C14, Props/C15;
  * as Python source generic in a number backend (`float` for a self check of the IR, `Decimal`
    with 70 digits as the high-precision reference of the finite-difference oracles).

Accepted Python subset: assignments to a name, `if/elif/else`, `return`, `+ - * / **`, unary
minus, comparisons (chained), `and/or/not`, conditional expressions, `sqrt`, `exp` (from math),
`max/min`, `power_array(value, <module chain>)`, `sum([e for (..) in zip(<module arrays>)])`,
`np.dot(<module array>, arr[lo:hi])`, subscripts `arr[<int expr>]` of a power array,
`<module array/dict/list>[<const>]`, `<local list literal>[<const>]`, calls to other translated
functions.  Anything else raises TranslateError: a translation failure, never a guess.
"""
import ast, importlib.util, math, struct, sys, os
from decimal import Decimal, getcontext
from fractions import Fraction
from pathlib import Path


class TranslateError(Exception):
    pass


def fail(node, msg):
    line = getattr(node, 'lineno', '?')
    raise TranslateError('line %s: %s' % (line, msg))


# ----------------------------------------------------------------------------- module loading

def load_module(path, name):
    """import a fresh copy of the module at `path` (not through sys.modules)"""
    spec = importlib.util.spec_from_file_location(name, str(path))
    mod = importlib.util.module_from_spec(spec)
    old = sys.dont_write_bytecode
    sys.dont_write_bytecode = True
    try:
        spec.loader.exec_module(mod)
    finally:
        sys.dont_write_bytecode = old
    return mod


def is_float(v):
    import numpy as np
    return isinstance(v, (float, np.floating)) and not isinstance(v, bool)


def is_int(v):
    import numpy as np
    return isinstance(v, (int, np.integer)) and not isinstance(v, bool)


# ----------------------------------------------------------------------------- IR
# expressions are tuples; ty(e) in {'K','Int','Bool','Arr','Ret'}
#   ('lit', float)              K     a float literal / evaluated module constant element
#   ('int', n)                  Int
#   ('var', name, ty)
#   ('const', name, ty)         module-level scalar (K or Int)
#   ('elem', name, key)         K     module-level container element with constant key
#   ('bin', op, a, b, ty)       op in + - * /      (Int: + - * only)
#   ('neg', a, ty)
#   ('ofint', a)                K     int -> float conversion
#   ('fn1', 'sqrt'|'exp', a)    K
#   ('pow', a, b)               K     float ** float
#   ('min', a, b) ('max', a, b) K     Python's two-argument min/max
#   ('call', fname, [args])     Ret   call of a translated function
#   ('tok', e)                  K     use of a call result as a number
#   ('cmp', op, a, b)           Bool  op in <= < >= >   (a, b : K)
#   ('and', [es]) ('or', [es]) ('not', e) ('bool', b)
#   ('ifexp', c, a, b, ty)
#   ('parr', value, chain)      Arr   power_array(value, chain)
#   ('idx', arr, i)             K     arr[i], Python indexing (negative wraps)
#   ('sumzip', vars, tables, tys, body)   K   sum([body for vars in zip(tables)])
#   ('dot', table, arr, lo, hi) K     np.dot(table, arr[lo:hi])
# return values:  ('rnone',) ('rnonepair',) ('rnum', e) ('rpair', a, b) ('rint', n) ('rif', c, r1, r2)
#                 ('rbool', e) ('rk', e)   (helper functions returning a Bool / a bare K)
# statements:     ('assign', name, e, ty) ('if', c, body, orelse) ('return', r)


def ty(e):
    k = e[0]
    if k in ('lit', 'elem', 'ofint', 'fn1', 'pow', 'min', 'max', 'tok', 'idx', 'sumzip', 'dot'):
        return 'K'
    if k == 'int':
        return 'Int'
    if k in ('var', 'const'):
        return e[2]
    if k == 'bin':
        return e[4]
    if k == 'neg':
        return e[2]
    if k == 'call':
        return 'Ret'
    if k in ('cmp', 'and', 'or', 'not', 'bool'):
        return 'Bool'
    if k == 'ifexp':
        return e[4]
    if k == 'parr':
        return 'Arr'
    raise TranslateError('ty: unknown node %r' % (k,))


def toK(e, node=None):
    t = ty(e)
    if t == 'K':
        return e
    if t == 'Int':
        return ('ofint', e)
    if t == 'Ret':
        return ('tok', e)
    fail(node, 'a %s value is used as a number' % t)


class Module:
    """everything the emitters need about one translated Python module"""
    def __init__(self, name, path):
        self.name = name
        self.path = Path(path)
        self.src = self.path.read_text()
        self.tree = ast.parse(self.src)
        self.mod = load_module(self.path, 'ptv_translated_' + name)
        self.funcs = {}          # name -> FunctionDef
        for n in self.tree.body:
            if isinstance(n, ast.FunctionDef):
                self.funcs[n.name] = n
        self.consts = {}         # name -> ('K', float) | ('Int', int)
        self.elems = {}          # (name, key) -> float
        self.tables = {}         # name -> ('K'|'Int', [values])
        self.chains = {}         # name -> [(tgt, [ops])]
        self.fir = {}            # name -> dict(params=[(n,ty)], body=[stmts], kind='Ret'|'Bool'|'K')
        self.order = []

    # -- module-level data, always the evaluated value
    def value(self, name, node=None):
        if not hasattr(self.mod, name):
            fail(node, 'unknown name %r' % name)
        return getattr(self.mod, name)

    def use_const(self, name, node):
        v = self.value(name, node)
        if is_float(v):
            self.consts[name] = ('K', float(v)); return ('const', name, 'K')
        if is_int(v):
            self.consts[name] = ('Int', int(v)); return ('const', name, 'Int')
        fail(node, 'module name %r is not a scalar (%s)' % (name, type(v).__name__))

    def use_elem(self, name, key, node):
        v = self.value(name, node)
        try:
            x = v[key]
        except Exception as e:
            fail(node, '%s[%r]: %s' % (name, key, e))
        if not is_float(x):
            fail(node, '%s[%r] is not a float' % (name, key))
        self.elems[(name, key)] = float(x)
        return ('elem', name, key)

    def use_table(self, name, node):
        import numpy as np
        v = self.value(name, node)
        if isinstance(v, np.ndarray):
            if v.ndim != 1: fail(node, 'table %s is not one-dimensional' % name)
            if np.issubdtype(v.dtype, np.floating):
                if v.dtype != np.float64: fail(node, 'table %s is not float64' % name)
                self.tables[name] = ('K', [float(x) for x in v]); return 'K'
            if np.issubdtype(v.dtype, np.integer):
                self.tables[name] = ('Int', [int(x) for x in v]); return 'Int'
            fail(node, 'table %s has dtype %s' % (name, v.dtype))
        if isinstance(v, (list, tuple)) and v and all(is_float(x) for x in v):
            self.tables[name] = ('K', [float(x) for x in v]); return 'K'
        if isinstance(v, (list, tuple)) and v and all(is_int(x) for x in v):
            self.tables[name] = ('Int', [int(x) for x in v]); return 'Int'
        fail(node, 'module name %r is not a numeric table' % name)

    def use_chain(self, name, node):
        v = self.value(name, node)
        try:
            ch = []
            for item in v:
                tgt, ops = item
                if not is_int(tgt): raise ValueError('target')
                ops = [int(o) for o in ops]
                ch.append((int(tgt), ops))
        except Exception as e:
            fail(node, 'module name %r is not a power chain: %s' % (name, e))
        self.chains[name] = ch
        return name


CMPOPS = {ast.LtE: '<=', ast.Lt: '<', ast.GtE: '>=', ast.Gt: '>'}
BINOPS = {ast.Add: '+', ast.Sub: '-', ast.Mult: '*', ast.Div: '/'}


class FuncTranslator:
    def __init__(self, M, fdef, param_types, special=None):
        self.M = M
        self.fdef = fdef
        self.env = {}            # local name -> ty  |  ('table', [floats])
        for (n, t) in param_types:
            self.env[n] = t
        self.params = list(param_types)
        self.special = special or {}

    # ---- expressions
    def expr(self, n):
        M = self.M
        if isinstance(n, ast.Constant):
            v = n.value
            if isinstance(v, bool): return ('bool', v)
            if isinstance(v, float): return ('lit', v)
            if isinstance(v, int): return ('int', v)
            fail(n, 'constant %r' % (v,))
        if isinstance(n, ast.Name):
            if n.id in self.env:
                t = self.env[n.id]
                if isinstance(t, tuple): fail(n, 'local table %s used as a value' % n.id)
                return ('var', n.id, t)
            return M.use_const(n.id, n)
        if isinstance(n, ast.UnaryOp):
            if isinstance(n.op, ast.USub):
                a = self.expr(n.operand)
                if a[0] == 'int': return ('int', -a[1])
                if a[0] == 'lit': return ('lit', -a[1])
                t = ty(a)
                if t == 'Ret': a, t = toK(a, n), 'K'
                if t not in ('K', 'Int'): fail(n, 'unary minus of %s' % t)
                return ('neg', a, t)
            if isinstance(n.op, ast.Not):
                a = self.expr(n.operand)
                if ty(a) != 'Bool': fail(n, 'not of a non-boolean')
                return ('not', a)
            fail(n, 'unary operator %s' % type(n.op).__name__)
        if isinstance(n, ast.BinOp):
            a, b = self.expr(n.left), self.expr(n.right)
            if isinstance(n.op, ast.Pow):
                if ty(a) == 'Int' and ty(b) == 'Int': fail(n, 'int ** int')
                return ('pow', toK(a, n), toK(b, n))
            if type(n.op) not in BINOPS: fail(n, 'binary operator %s' % type(n.op).__name__)
            op = BINOPS[type(n.op)]
            ta, tb = ty(a), ty(b)
            if ta == 'Int' and tb == 'Int' and op != '/':
                return ('bin', op, a, b, 'Int')
            return ('bin', op, toK(a, n), toK(b, n), 'K')
        if isinstance(n, ast.Compare):
            items = [self.expr(n.left)] + [self.expr(c) for c in n.comparators]
            parts = []
            for k, op in enumerate(n.ops):
                if type(op) not in CMPOPS: fail(n, 'comparison %s' % type(op).__name__)
                parts.append(('cmp', CMPOPS[type(op)], toK(items[k], n), toK(items[k + 1], n)))
            # a chained comparison evaluates its middle operands once; they are pure here
            return parts[0] if len(parts) == 1 else ('and', parts)
        if isinstance(n, ast.BoolOp):
            es = [self.expr(v) for v in n.values]
            for e in es:
                if ty(e) != 'Bool': fail(n, 'and/or of a non-boolean')
            return ('and' if isinstance(n.op, ast.And) else 'or', es)
        if isinstance(n, ast.IfExp):
            c, a, b = self.expr(n.test), self.expr(n.body), self.expr(n.orelse)
            if ty(c) != 'Bool': fail(n, 'condition is not boolean')
            if ty(a) == ty(b) and ty(a) in ('Int', 'Bool', 'K'):
                return ('ifexp', c, a, b, ty(a))
            return ('ifexp', c, toK(a, n), toK(b, n), 'K')
        if isinstance(n, ast.Subscript):
            return self.subscript(n)
        if isinstance(n, ast.Call):
            return self.call(n)
        fail(n, 'expression %s' % type(n).__name__)

    def const_index(self, n):
        if isinstance(n, ast.Constant) and isinstance(n.value, int) and not isinstance(n.value, bool):
            return n.value
        if isinstance(n, ast.UnaryOp) and isinstance(n.op, ast.USub) and isinstance(n.operand, ast.Constant) \
                and isinstance(n.operand.value, int):
            return -n.operand.value
        return None

    def subscript(self, n):
        if not isinstance(n.value, ast.Name): fail(n, 'subscript of a non-name')
        name = n.value.id
        if isinstance(n.slice, ast.Slice): fail(n, 'slice outside np.dot')
        if name in self.env:
            t = self.env[name]
            if isinstance(t, tuple) and t[0] == 'table':
                k = self.const_index(n.slice)
                if k is None: fail(n, 'local table %s needs a constant index' % name)
                try:
                    return ('lit', t[1][k])
                except IndexError:
                    fail(n, '%s[%d] out of range' % (name, k))
            if t == 'Arr':
                i = self.expr(n.slice)
                if ty(i) != 'Int': fail(n, 'index of %s is not an integer expression' % name)
                return ('idx', ('var', name, 'Arr'), i)
            fail(n, 'subscript of local %s : %s' % (name, t))
        k = self.const_index(n.slice)
        if k is None: fail(n, 'module container %s needs a constant index' % name)
        return self.M.use_elem(name, k, n)

    def call(self, n):
        M = self.M
        if n.keywords: fail(n, 'keyword arguments')
        f = n.func
        if isinstance(f, ast.Attribute):
            if isinstance(f.value, ast.Name) and f.value.id == 'np' and f.attr == 'dot' and len(n.args) == 2:
                a, b = n.args
                if not isinstance(a, ast.Name) or a.id in self.env: fail(n, 'np.dot: first argument must be a module table')
                if M.use_table(a.id, n) != 'K': fail(n, 'np.dot of an integer table')
                if not (isinstance(b, ast.Subscript) and isinstance(b.value, ast.Name) and self.env.get(b.value.id) == 'Arr'
                        and isinstance(b.slice, ast.Slice) and b.slice.step is None):
                    fail(n, 'np.dot: second argument must be arr[lo:hi]')
                lo, hi = self.const_index(b.slice.lower), self.const_index(b.slice.upper)
                if lo is None or hi is None or lo < 0 or hi < lo: fail(n, 'np.dot: slice bounds')
                if hi - lo != len(M.tables[a.id][1]): fail(n, 'np.dot: length mismatch')
                return ('dot', a.id, ('var', b.value.id, 'Arr'), lo, hi)
            fail(n, 'call of attribute')
        if not isinstance(f, ast.Name): fail(n, 'call of a non-name')
        name = f.id
        if name in self.env: fail(n, 'call of local %s' % name)
        if name in ('sqrt', 'exp'):
            if getattr(M.mod, name, None) is not getattr(math, name): fail(n, '%s is not math.%s' % (name, name))
            if len(n.args) != 1: fail(n, name + ' arity')
            return ('fn1', name, toK(self.expr(n.args[0]), n))
        if name in ('max', 'min'):
            if hasattr(M.mod, name): fail(n, '%s is redefined in the module' % name)
            if len(n.args) != 2: fail(n, name + ' with %d arguments' % len(n.args))
            return (name, toK(self.expr(n.args[0]), n), toK(self.expr(n.args[1]), n))
        if name == 'power_array':
            if 'power_array' not in M.funcs: fail(n, 'power_array is not defined in this module')
            if len(n.args) != 2 or not isinstance(n.args[1], ast.Name) or n.args[1].id in self.env:
                fail(n, 'power_array(value, <module chain>)')
            return ('parr', toK(self.expr(n.args[0]), n), M.use_chain(n.args[1].id, n))
        if name == 'sum':
            if hasattr(M.mod, 'sum'): fail(n, 'sum is redefined in the module')
            if len(n.args) != 1 or not isinstance(n.args[0], ast.ListComp): fail(n, 'sum of a non-list-comprehension')
            lc = n.args[0]
            if len(lc.generators) != 1: fail(n, 'nested comprehension')
            g = lc.generators[0]
            if g.ifs or g.is_async: fail(n, 'comprehension filter')
            if not (isinstance(g.iter, ast.Call) and isinstance(g.iter.func, ast.Name) and g.iter.func.id == 'zip'
                    and not g.iter.keywords): fail(n, 'comprehension not over zip(...)')
            if hasattr(M.mod, 'zip'): fail(n, 'zip is redefined')
            tabs = []
            for a in g.iter.args:
                if not isinstance(a, ast.Name) or a.id in self.env: fail(n, 'zip argument is not a module table')
                tabs.append(a.id)
            if isinstance(g.target, ast.Tuple):
                vs = g.target.elts
            else:
                vs = [g.target]
            if len(vs) != len(tabs) or not all(isinstance(v, ast.Name) for v in vs): fail(n, 'comprehension target')
            names = [v.id for v in vs]
            tys = [M.use_table(t, n) for t in tabs]
            saved = dict(self.env)
            for v, t in zip(names, tys):
                self.env[v] = t
            body = toK(self.expr(lc.elt), n)
            self.env = saved
            return ('sumzip', names, tabs, tys, body)
        if name in self.special.get('opaque_calls', ()):
            fail(n, 'opaque call %s in expression position' % name)
        # another translated function of the same module
        if name in M.funcs:
            if name not in M.fir: fail(n, 'call of %s before its translation' % name)
            sig = M.fir[name]['params']
            if len(n.args) > len(sig): fail(n, 'too many arguments for %s' % name)
            args = []
            for k, (pn, pt) in enumerate(sig):
                if k < len(n.args):
                    a = self.expr(n.args[k])
                    if pt == 'K': a = toK(a, n)
                    elif ty(a) != pt: fail(n, 'argument %d of %s: %s for %s' % (k, name, ty(a), pt))
                else:
                    d = M.fir[name]['defaults'].get(pn)
                    if d is None: fail(n, 'missing argument %s of %s' % (pn, name))
                    a = d
                args.append(a)
            return ('call', name, args)
        fail(n, 'call of unknown function %s' % name)

    # ---- statements
    def retval(self, n):
        if n is None or (isinstance(n, ast.Constant) and n.value is None):
            return ('rnone',)
        if isinstance(n, ast.Tuple):
            if len(n.elts) != 2: fail(n, 'tuple of %d' % len(n.elts))
            a, b = n.elts
            an = isinstance(a, ast.Constant) and a.value is None
            bn = isinstance(b, ast.Constant) and b.value is None
            if an and bn: return ('rnonepair',)
            if an or bn: fail(n, 'half-None pair')
            return ('rpair', toK(self.expr(a), n), toK(self.expr(b), n))
        if isinstance(n, ast.IfExp):
            c = self.expr(n.test)
            if ty(c) != 'Bool': fail(n, 'condition')
            return ('rif', c, self.retval(n.body), self.retval(n.orelse))
        e = self.expr(n)
        if ty(e) == 'Int':
            if e[0] != 'int': fail(n, 'integer return that is not a literal')
            return ('rint', e[1])
        if ty(e) == 'Bool':
            return ('rbool', e)
        return ('rnum', toK(e, n))

    def stmts(self, body):
        out = []
        for s in body:
            if isinstance(s, ast.Expr) and isinstance(s.value, ast.Constant) and isinstance(s.value.value, str):
                continue                                  # docstring
            if isinstance(s, ast.Assign):
                if not all(isinstance(t_, ast.Name) for t_ in s.targets): fail(s, 'assignment target')
                name = s.targets[0].id
                if isinstance(s.value, ast.List):
                    if len(s.targets) != 1: fail(s, 'chained assignment of a list')
                    vals = []
                    for el in s.value.elts:
                        e = self.expr(el)
                        if e[0] == 'lit': vals.append(e[1])
                        elif e[0] == 'int': vals.append(float(e[1]))
                        else: fail(s, 'list literal with a non-constant element')
                    self.env[name] = ('table', vals)
                    continue
                e = self.expr(s.value)
                # `a = b = e` evaluates e once and assigns from left to right: a = e; b = a
                for k_, tgt in enumerate(s.targets):
                    name = tgt.id
                    ek = e if k_ == 0 else ('var', s.targets[0].id, self.env[s.targets[0].id])
                    t = ty(ek)
                    if t == 'Ret': ek, t = toK(ek, s), 'K'
                    if name in self.env and self.env[name] != t:
                        if self.env[name] == 'K' and t == 'Int': ek, t = toK(ek, s), 'K'
                        else: fail(s, 'variable %s changes type %s -> %s' % (name, self.env[name], t))
                    self.env[name] = t
                    out.append(('assign', name, ek, t))
                continue
            if isinstance(s, ast.If):
                c = self.expr(s.test)
                if ty(c) != 'Bool': fail(s, 'if condition is not boolean')
                saved = dict(self.env)
                b1 = self.stmts(s.body)
                env1 = self.env
                self.env = dict(saved)
                b2 = self.stmts(s.orelse)
                env2 = self.env
                # variables visible afterwards: defined (with one type) on every path that falls through
                merged = dict(saved)
                r1, r2 = always_returns(b1), always_returns(b2)
                for k in set(env1) | set(env2):
                    if r1 and not r2: v = env2.get(k)
                    elif r2 and not r1: v = env1.get(k)
                    elif k in env1 and k in env2:
                        if env1[k] != env2[k]: fail(s, 'variable %s has different types in the two branches' % k)
                        v = env1[k]
                    else: v = None
                    if v is not None: merged[k] = v
                self.env = merged
                # variables assigned in the statement that are still defined afterwards (on every path that falls through)
                live = [k for k in assigned(b1 + b2) if k in merged and not isinstance(merged[k], tuple)]
                out.append(('if', c, b1, b2, live))
                continue
            if isinstance(s, ast.Return):
                out.append(('return', self.retval(s.value)))
                continue
            if isinstance(s, ast.Pass):
                continue
            fail(s, 'statement %s' % type(s).__name__)
        return out


def always_returns(body):
    for s in body:
        if s[0] == 'return': return True
        if s[0] == 'if' and always_returns(s[2]) and always_returns(s[3]): return True
    return False


def contains_return(body):
    for s in body:
        if s[0] == 'return': return True
        if s[0] == 'if' and (contains_return(s[2]) or contains_return(s[3])): return True
    return False


def assigned(body):
    out = []
    for s in body:
        if s[0] == 'assign' and s[1] not in out: out.append(s[1])
        if s[0] == 'if':
            for v in assigned(s[2]) + assigned(s[3]):
                if v not in out: out.append(v)
    return out


def translate_function(M, name, param_types, defaults=None, body=None, kind='Ret', irname=None, special=None):
    fdef = M.funcs.get(name)
    if fdef is None: raise TranslateError('function %s not found in %s' % (name, M.path.name))
    a = fdef.args
    if a.vararg or a.kwarg or a.kwonlyargs or a.posonlyargs: fail(fdef, 'unsupported signature')
    if body is None:
        names = [x.arg for x in a.args]
        if names != [p for p, _ in param_types]: fail(fdef, 'parameters of %s are %s' % (name, names))
        nd = len(a.defaults)
        dflt = {}
        for x, d in zip(a.args[len(a.args) - nd:], a.defaults):
            if isinstance(d, ast.Constant) and isinstance(d.value, bool): dflt[x.arg] = ('bool', d.value)
            elif isinstance(d, ast.Constant) and d.value is None: dflt[x.arg] = None
            else: fail(fdef, 'default of %s' % x.arg)
    else:
        dflt = defaults or {}
    T = FuncTranslator(M, fdef, param_types, special)
    st = T.stmts(fdef.body if body is None else body)
    irname = irname or name
    M.fir[irname] = dict(params=list(param_types), body=st, kind=kind, defaults=dflt, src=name)
    M.order.append(irname)
    return M.fir[irname]


# ----------------------------------------------------------------------------- the two modules

def build_iapws(repo):
    M = Module('IAPWS97', Path(repo) / 'IAPWS97.py')
    if 'power_array' not in M.funcs: raise TranslateError('IAPWS97.power_array not found')
    translate_function(M, 'cowat', [('t', 'K'), ('p', 'K')])
    translate_function(M, 'supst', [('t', 'K'), ('p', 'K')])
    translate_function(M, 'super', [('d', 'K'), ('t', 'K')])
    translate_function(M, 'sat', [('t', 'K')])
    translate_function(M, 'tsat', [('p', 'K')])
    translate_function(M, 'visc', [('d', 'K'), ('t', 'K')])
    translate_function(M, 'b23p', [('t', 'K')])
    translate_function(M, 'b23t', [('p', 'K')])
    translate_function(M, 'region', [('t', 'K'), ('p', 'K')])
    # chains that are not used by any translated body would escape power_chains_wf: require them all
    for nm in dir(M.mod):
        v = getattr(M.mod, nm)
        if isinstance(v, tuple) and v and all(isinstance(x, tuple) and len(x) == 2 and isinstance(x[1], tuple) for x in v):
            M.use_chain(nm, None)
    return M


def build_ifc67(repo):
    M = Module('t2thermo', Path(repo) / 't2thermo.py')
    translate_function(M, 'sat', [('t', 'K'), ('bounds', 'Bool')])
    translate_function(M, 'b23p', [('t', 'K')])
    translate_function(M, 'cowat', [('t', 'K'), ('p', 'K'), ('bounds', 'Bool')])
    translate_function(M, 'supst', [('t', 'K'), ('p', 'K'), ('bounds', 'Bool')])
    translate_function(M, 'visw', [('t', 'K'), ('p', 'K'), ('ps', 'K')])
    translate_function(M, 'viss', [('t', 'K'), ('d', 'K')])
    translate_function(M, 'region', [('t', 'K'), ('p', 'K')])
    # --- tsat: only the range guard is translated (the root is found by scipy.optimize.fsolve)
    f = M.funcs.get('tsat')
    if f is None: raise TranslateError('t2thermo.tsat not found')
    if [x.arg for x in f.args.args] != ['p', 'bounds']: fail(f, 'tsat parameters')
    body = [s for s in f.body if not (isinstance(s, ast.Expr) and isinstance(s.value, ast.Constant))]
    if len(body) != 2 or not isinstance(body[0], ast.If) or not isinstance(body[1], ast.If):
        fail(f, 'tsat: expected "if bounds: ok = ... else: ok = True" followed by "if ok: ... else: return None"')
    tail = body[1]
    if not (isinstance(tail.test, ast.Name) and tail.test.id == 'ok' and len(tail.orelse) == 1
            and isinstance(tail.orelse[0], ast.Return)
            and (tail.orelse[0].value is None or (isinstance(tail.orelse[0].value, ast.Constant) and tail.orelse[0].value.value is None))):
        fail(tail, 'tsat: expected "if ok: <solve> else: return None"')
    if not any(isinstance(x, ast.Return) for x in ast.walk(ast.Module(body=tail.body, type_ignores=[]))):
        fail(tail, 'tsat: the solving branch returns nothing')
    synth = [body[0], ast.Return(value=ast.Name(id='ok', ctx=ast.Load()), lineno=body[0].lineno)]
    translate_function(M, 'tsat', [('p', 'K'), ('bounds', 'Bool')], defaults={'bounds': ('bool', False)},
                       body=synth, kind='Bool', irname='tsat_ok')
    # --- separated_steam_fraction: the algebra, with the four saturation enthalpies as parameters
    f = M.funcs.get('separated_steam_fraction')
    if f is None: raise TranslateError('t2thermo.separated_steam_fraction not found')
    if [x.arg for x in f.args.args] != ['h', 'separator_pressure', 'separator_pressure2']: fail(f, 'separated_steam_fraction parameters')
    body = [s for s in f.body if not (isinstance(s, ast.Expr) and isinstance(s.value, ast.Constant))]
    inner = {s.name: s for s in body if isinstance(s, ast.FunctionDef)}
    rest = [s for s in body if not isinstance(s, ast.FunctionDef)]
    if set(inner) != {'enth', 'hlhs'}: fail(f, 'separated_steam_fraction: expected inner functions enth, hlhs')
    # enth(t, p, f):  d, u = f(t, p); return u + p / d
    e = inner['enth']
    eb = e.body
    ok = ([x.arg for x in e.args.args] == ['t', 'p', 'f'] and len(eb) == 2 and isinstance(eb[0], ast.Assign)
          and isinstance(eb[0].targets[0], ast.Tuple) and [x.id for x in eb[0].targets[0].elts] == ['d', 'u']
          and ast.dump(eb[0].value) == ast.dump(ast.parse('f(t, p)').body[0].value) and isinstance(eb[1], ast.Return))
    if not ok: fail(e, 'enth: expected "d, u = f(t, p); return <expr>"')
    M.funcs['enth'] = e
    translate_function(M, 'enth', [('d', 'K'), ('u', 'K'), ('p', 'K')], defaults={}, body=[eb[1]], kind='K')
    # hlhs(p): ts = tsat(p); return enth(ts, p, cowat), enth(ts, p, supst)
    hl = inner['hlhs']
    want = ast.dump(ast.parse('def hlhs(p):\n    ts = tsat(p)\n    return enth(ts, p, cowat), enth(ts, p, supst)\n').body[0])
    if ast.dump(hl) != want: fail(hl, 'hlhs: expected "ts = tsat(p); return enth(ts, p, cowat), enth(ts, p, supst)"')
    # if separator_pressure2 is None: hl1, hs1 = hlhs(sp); hl = ..; hs = ..  else: (two stages) ; frac = ..; return max(min(..))
    if len(rest) != 3 or not isinstance(rest[0], ast.If): fail(f, 'separated_steam_fraction: expected if / frac = / return')
    t0 = rest[0].test
    if ast.dump(t0) != ast.dump(ast.parse('separator_pressure2 is None').body[0].value): fail(t0, 'expected "separator_pressure2 is None"')

    def strip_hlhs(stm, expect):
        got, out = [], []
        for s in stm:
            if isinstance(s, ast.Assign) and isinstance(s.targets[0], ast.Tuple) and isinstance(s.value, ast.Call) \
                    and isinstance(s.value.func, ast.Name) and s.value.func.id == 'hlhs':
                names = [x.id for x in s.targets[0].elts]
                arg = s.value.args[0].id if (len(s.value.args) == 1 and isinstance(s.value.args[0], ast.Name)) else None
                got.append((tuple(names), arg))
            else:
                out.append(s)
        if got != expect: fail(rest[0], 'separated_steam_fraction: hlhs bindings are %r, expected %r' % (got, expect))
        return out
    b1 = strip_hlhs(rest[0].body, [(('hl1', 'hs1'), 'separator_pressure')])
    b2 = strip_hlhs(rest[0].orelse, [(('hl1', 'hs1'), 'separator_pressure'), (('hl2', 'hs2'), 'separator_pressure2')])
    synth = [ast.If(test=ast.Name(id='one_stage', ctx=ast.Load()), body=b1, orelse=b2, lineno=rest[0].lineno)] + rest[1:]
    M.funcs['ssf'] = f
    translate_function(M, 'ssf', [('h', 'K'), ('one_stage', 'Bool'), ('hl1', 'K'), ('hs1', 'K'), ('hl2', 'K'), ('hs2', 'K')],
                       defaults={}, body=synth, kind='K')
    return M


# ----------------------------------------------------------------------------- Lean emitter

LEAN_RESERVED = {'at', 'from', 'end', 'fun', 'let', 'in', 'do', 'if', 'then', 'else', 'match', 'with', 'open', 'set',
                 'show', 'have', 'by', 'def', 'theorem', 'instance', 'class', 'structure', 'where', 'Type', 'Prop', 'Sort',
                 'e', 'exp', 'sqrt', 'lit', 'le', 'lt', 'pow', 'ofInt', 'none', 'some'}


def bits_of(x):
    return struct.unpack('>Q', struct.pack('>d', x))[0]


def lean_lit(x):
    if x != x or x in (math.inf, -math.inf): raise TranslateError('non-finite constant')
    n, d = x.as_integer_ratio()
    return '(lit 0x%016X (%d) %d : K)' % (bits_of(x), n, d)


class LeanEmitter:
    def __init__(self, M, namespace):
        self.M = M
        self.ns = namespace
        self.fnames = set(M.fir)

    def lname(self, v):                       # local variable
        if v in LEAN_RESERVED or v in self.fnames or v in self.M.consts or v in self.M.tables or v in self.M.chains:
            return v + '_'
        return v

    def fname(self, f):
        return {'super': 'super_'}.get(f, f)

    def elem_name(self, name, key):
        return '%s_%s' % (name, ('m%d' % -key) if key < 0 else str(key))

    def E(self, e, sub=None):
        k = e[0]
        sub = sub or {}
        E = lambda x: self.E(x, sub)
        if k == 'lit': return lean_lit(e[1])
        if k == 'int': return '(%d : Int)' % e[1]
        if k == 'var':
            return sub.get(e[1], self.lname(e[1]))
        if k == 'const':
            return '(%s : %s)' % (e[1], 'K' if e[2] == 'K' else 'Int')
        if k == 'elem': return '(%s : K)' % self.elem_name(e[1], e[2])
        if k == 'bin': return '(%s %s %s)' % (E(e[2]), e[1], E(e[3]))
        if k == 'neg': return '(-%s)' % E(e[1])
        if k == 'ofint': return '(ofInt %s : K)' % E(e[1])
        if k == 'fn1': return '(ThermoField.%s %s)' % (e[1], E(e[2]))
        if k == 'pow': return '(ThermoField.pow %s %s)' % (E(e[1]), E(e[2]))
        if k == 'min': return '(pyMin %s %s)' % (E(e[1]), E(e[2]))
        if k == 'max': return '(pyMax %s %s)' % (E(e[1]), E(e[2]))
        if k == 'call': return '(%s %s)' % (self.fname(e[1]), ' '.join(E(a) for a in e[2]))
        if k == 'tok': return '(Ret.toK %s)' % E(e[1])
        if k == 'cmp':
            a, b = E(e[2]), E(e[3])
            return {'<=': '(le %s %s)' % (a, b), '<': '(lt %s %s)' % (a, b),
                    '>=': '(le %s %s)' % (b, a), '>': '(lt %s %s)' % (b, a)}[e[1]]
        if k == 'and': return '(' + ' && '.join(E(x) for x in e[1]) + ')'
        if k == 'or': return '(' + ' || '.join(E(x) for x in e[1]) + ')'
        if k == 'not': return '(!%s)' % E(e[1])
        if k == 'bool': return 'true' if e[1] else 'false'
        if k == 'ifexp': return '(if %s then %s else %s)' % (E(e[1]), E(e[2]), E(e[3]))
        if k == 'parr': return '(powerArray %s %s)' % (E(e[1]), e[2])
        if k == 'idx': return '(PArr.get %s %s)' % (E(e[1]), E(e[2]))
        if k == 'sumzip':
            names, tabs, tys = e[1], e[2], e[3]
            n = len(names)
            s2 = dict(sub)
            for i, v in enumerate(names):
                if n == 1: proj = 'r'
                else: proj = 'r' + '.2' * i + ('.1' if i < n - 1 else '')
                s2[v] = proj
            tabs_l = ['(%s : List %s)' % (t, 'K' if y == 'K' else 'Int') for t, y in zip(tabs, tys)]
            z = {1: '%s', 2: '(List.zip %s %s)', 3: '(zip3 %s %s %s)'}.get(n)
            if z is None: raise TranslateError('zip of %d tables' % n)
            return '(pySum (List.map (fun r => %s) %s))' % (self.E(e[4], s2), z % tuple(tabs_l))
        if k == 'dot':
            return '(pyDot (%s : List K) (PArr.slice %s %d %d))' % (e[1], E(e[2]), e[3], e[4])
        raise TranslateError('emit: %r' % (k,))

    def R(self, r):
        k = r[0]
        if k == 'rnone': return 'Ret.none'
        if k == 'rnonepair': return 'Ret.nonePair'
        if k == 'rnum': return 'Ret.num %s' % self.E(r[1])
        if k == 'rpair': return 'Ret.pair %s %s' % (self.E(r[1]), self.E(r[2]))
        if k == 'rint': return 'Ret.int %d' % r[1]
        if k == 'rif': return 'if %s then %s else %s' % (self.E(r[1]), self.R(r[2]), self.R(r[3]))
        if k == 'rbool': return self.E(r[1])
        raise TranslateError('emit ret: %r' % (k,))

    def S(self, body, ind, kind, tail=None):
        """statements -> a Lean term; `tail` = term to finish with when the statements fall through"""
        pad = '  ' * ind
        if not body:
            if tail is not None: return pad + tail
            if kind == 'Ret': return pad + 'Ret.none'          # falling off the end of a Python function
            raise TranslateError('a helper function falls off its end')
        s, rest = body[0], body[1:]
        if s[0] == 'assign':
            return pad + 'let %s := %s\n' % (self.lname(s[1]), self.E(s[2])) + self.S(rest, ind, kind, tail)
        if s[0] == 'return':
            r = s[1]
            if kind == 'K':
                if r[0] != 'rnum': raise TranslateError('helper returning %s' % r[0])
                return pad + self.E(r[1])
            if kind == 'Bool':
                if r[0] != 'rbool': raise TranslateError('guard returning %s' % r[0])
                return pad + self.E(r[1])
            return pad + self.R(r)
        if s[0] == 'if':
            c, b1, b2 = s[1], s[2], s[3]
            if not contains_return(b1) and not contains_return(b2):
                # a variable assigned on one branch only keeps its previous value on the other (it is in scope: `live`
                # holds only variables defined on every path); one that did not exist before is dead afterwards
                vs = list(s[4]) if len(s) > 4 else assigned(b1 + b2)
                if not vs:
                    return self.S(rest, ind, kind, tail)
                tupl = self.lname(vs[0]) if len(vs) == 1 else '(' + ', '.join(self.lname(v) for v in vs) + ')'
                t1 = self.S(b1, ind + 2, 'tuple', tupl)
                t2 = self.S(b2, ind + 2, 'tuple', tupl)
                return (pad + 'let %s :=\n' % tupl + pad + '  if %s then\n' % self.E(c) + t1 + '\n' + pad + '  else\n' + t2 + '\n'
                        + self.S(rest, ind, kind, tail))
            # a branch returns: the rest of the function continues in every branch that falls through
            t1 = self.S(b1 + ([] if always_returns(b1) else rest), ind + 1, kind, tail)
            t2 = self.S(b2 + ([] if always_returns(b2) else rest), ind + 1, kind, tail)
            return pad + 'if %s then\n' % self.E(c) + t1 + '\n' + pad + 'else\n' + t2
        raise TranslateError('emit stmt %r' % (s[0],))

    def module(self):
        M = self.M
        o = []
        o.append('/-\n  GENERATED by harness/translate/thermo.py from %s — do not edit.\n'
                 '  Regenerated on every check from the current source of /repo; constants are the values of the\n'
                 '  imported module (exact rational of each double, and its bit pattern for the Float instance).\n-/' % M.path.name)
        o.append('import PyTough.Model.Thermo')
        o.append('set_option linter.unusedVariables false')
        o.append('namespace %s' % self.ns)
        o.append('open Model.Thermo ThermoField')
        o.append('variable {K : Type} [ThermoField K]\n')
        o.append('/-! ### scalar constants -/')
        for name in sorted(M.consts):
            t, v = M.consts[name]
            if t == 'K': o.append('def %s : K := %s' % (name, lean_lit(v)))
            else: o.append('def %s : Int := %d' % (name, v))
        o.append('\n/-! ### container elements used with a constant index -/')
        for (name, key) in sorted(M.elems, key=lambda x: (x[0], x[1])):
            o.append('def %s : K := %s' % (self.elem_name(name, key), lean_lit(M.elems[(name, key)])))
        o.append('\n/-! ### tables -/')
        for name in sorted(M.tables):
            t, vals = M.tables[name]
            if t == 'K':
                o.append('def %s : List K := [\n  %s]' % (name, ',\n  '.join(lean_lit(v) for v in vals)))
            else:
                o.append('def %s : List Int := [%s]' % (name, ', '.join(str(v) for v in vals)))
        o.append('\n/-! ### power chains -/')
        for name in sorted(M.chains):
            o.append('def %s : List (Int × List Int) := [%s]' % (
                name, ', '.join('(%d, [%s])' % (t, ', '.join(str(x) for x in ops)) for t, ops in M.chains[name])))
        o.append('def allChains : List (List (Int × List Int)) := [%s]' % ', '.join(sorted(M.chains)))
        o.append('\n/-! ### functions -/')
        for fn in M.order:
            f = M.fir[fn]
            ps = ' '.join('(%s : %s)' % (self.lname(p), {'K': 'K', 'Bool': 'Bool', 'Int': 'Int'}[t]) for p, t in f['params'])
            rt = {'Ret': 'Ret K', 'Bool': 'Bool', 'K': 'K'}[f['kind']]
            o.append('/-- `%s.%s` -/' % (M.path.name[:-3], f['src']))
            o.append('def %s %s : %s :=\n%s\n' % (self.fname(fn), ps, rt, self.S(f['body'], 1, f['kind'])))
        # read-sets of the sums, for `indices_defined`
        o.append('/-! ### which entries of which power array each sum reads: per sum and array: (chain, [(multiplier, index) per table row]) -/')
        reads = sum_reads(M)
        for fn in sorted(reads):
            for k, (chain, rows) in enumerate(reads[fn]):
                o.append('def reads_%s_%d : List (Int × List Int) × List (Int × Int) := (%s, [%s])' % (
                    self.fname(fn), k, chain, ', '.join('(%d, %d)' % r for r in rows)))
        o.append('def allReads : List (List (Int × List Int) × List (Int × Int)) := [%s]' % ', '.join(
            'reads_%s_%d' % (self.fname(fn), k) for fn in sorted(reads) for k in range(len(reads[fn]))))
        o.append('\nend %s\n' % self.ns)
        return '\n'.join(o)


# ----------------------------------------------------------------------------- read-sets of the sums

def sum_reads(M):
    """for every `sum([...])` of a translated body and every power-array subscript in it: the list over the table rows
    of (integer multiplier of the term, index read).  A row whose multiplier is 0 contributes nothing whatever the array
    holds; for the others the index must be a *defined* entry (theorem indices_defined)."""
    out = {}

    def int_eval(e, envr):
        if e[0] == 'int': return e[1]
        if e[0] == 'var': return envr[e[1]]
        if e[0] == 'neg': return -int_eval(e[1], envr)
        if e[0] == 'bin':
            a, b = int_eval(e[2], envr), int_eval(e[3], envr)
            return {'+': a + b, '-': a - b, '*': a * b}[e[1]]
        if e[0] == 'const': return M.consts[e[1]][1]
        raise TranslateError('int_eval %r' % (e[0],))

    def collect_idx(e, acc):
        if isinstance(e, (tuple, list)):
            if isinstance(e, tuple) and e and e[0] == 'idx':
                acc.append((e[1][1], e[2])); return
            for x in e: collect_idx(x, acc)

    def collect_factors(e, acc):
        # integer factors of a product term  n * i * a[..] * b[..]
        if e[0] == 'bin' and e[1] == '*':
            collect_factors(e[2], acc); collect_factors(e[3], acc)
        elif e[0] == 'ofint':
            acc.append(e[1])

    for fn in M.order:
        arrs = {}

        def walk(x):
            if isinstance(x, list):
                for y in x: walk(y)
                return
            if not isinstance(x, tuple) or not x: return
            if x[0] == 'assign' and isinstance(x[2], tuple) and x[2][0] == 'parr':
                arrs[x[1]] = x[2][2]
            if x[0] == 'sumzip':
                names, tabs, tys, body = x[1], x[2], x[3], x[4]
                rows = list(zip(*[M.tables[t][1] for t in tabs]))
                idxs, factors = [], []
                collect_idx(body, idxs)
                collect_factors(body, factors)
                for (arr, ie) in idxs:
                    if arr not in arrs: raise TranslateError('sum reads %s which is not a power array' % arr)
                    rr = []
                    for row in rows:
                        envr = dict(zip(names, row))
                        mult = 1
                        for fe in factors:
                            mult *= int_eval(fe, envr)
                        rr.append((mult, int_eval(ie, envr)))
                    out.setdefault(fn, []).append((arrs[arr], rr))
                return
            for y in x: walk(y)
        walk(M.fir[fn]['body'])
    return out


# ----------------------------------------------------------------------------- Python emitter (float / Decimal backends)

class PyEmitter:
    """emits `def <fn>(B, ...)` where B is a backend: B.L(float) literal, B.I(int), B.sqrt, B.exp, B.pow;
    arithmetic and comparisons are the backend values' own operators."""
    def __init__(self, M):
        self.M = M

    def E(self, e):
        k = e[0]
        E = self.E
        if k == 'lit': return 'B.L(%r)' % e[1]
        if k == 'int': return '(%d)' % e[1]
        if k == 'var': return 'v_' + e[1]
        if k == 'const':
            return 'C[%r]' % e[1]
        if k == 'elem': return 'EL[(%r, %r)]' % (e[1], e[2])
        if k == 'bin': return '(%s %s %s)' % (E(e[2]), e[1], E(e[3]))
        if k == 'neg': return '(-%s)' % E(e[1])
        if k == 'ofint': return 'B.I(%s)' % E(e[1])
        if k == 'fn1': return 'B.%s(%s)' % (e[1], E(e[2]))
        if k == 'pow': return 'B.pow(%s, %s)' % (E(e[1]), E(e[2]))
        if k == 'min': return 'pymin(%s, %s)' % (E(e[1]), E(e[2]))
        if k == 'max': return 'pymax(%s, %s)' % (E(e[1]), E(e[2]))
        if k == 'call': return 'f_%s(B, C, EL, TB, %s)' % (e[1], ', '.join(E(a) for a in e[2]))
        if k == 'tok': return 'tok(%s)' % E(e[1])
        if k == 'cmp': return '(%s %s %s)' % (E(e[2]), e[1], E(e[3]))
        if k == 'and': return '(' + ' and '.join(E(x) for x in e[1]) + ')'
        if k == 'or': return '(' + ' or '.join(E(x) for x in e[1]) + ')'
        if k == 'not': return '(not %s)' % E(e[1])
        if k == 'bool': return repr(bool(e[1]))
        if k == 'ifexp': return '(%s if %s else %s)' % (E(e[2]), E(e[1]), E(e[3]))
        if k == 'parr': return 'power_array(B, %s, CH[%r])' % (E(e[1]), e[2])
        if k == 'idx': return '%s[%s]' % (E(e[1]), E(e[2]))
        if k == 'sumzip':
            names, tabs = e[1], e[2]
            return 'pysum(B, [%s for (%s,) in zip(%s)])' % (E(e[4]), ', '.join('v_' + n for n in names),
                                                            ', '.join('TB[%r]' % t for t in tabs))
        if k == 'dot':
            return 'pydot(B, TB[%r], %s[%d:%d])' % (e[1], E(e[2]), e[3], e[4])
        raise TranslateError('pyemit %r' % (k,))

    def R(self, r):
        k = r[0]
        if k == 'rnone': return "('none',)"
        if k == 'rnonepair': return "('nonepair',)"
        if k == 'rnum': return "('num', %s)" % self.E(r[1])
        if k == 'rpair': return "('pair', %s, %s)" % (self.E(r[1]), self.E(r[2]))
        if k == 'rint': return "('int', %d)" % r[1]
        if k == 'rif': return '(%s if %s else %s)' % (self.R(r[2]), self.E(r[1]), self.R(r[3]))
        if k == 'rbool': return self.E(r[1])
        raise TranslateError('pyemit ret')

    def S(self, body, ind, kind):
        pad = '    ' * ind
        out = []
        for s in body:
            if s[0] == 'assign':
                out.append(pad + 'v_%s = %s' % (s[1], self.E(s[2])))
            elif s[0] == 'return':
                r = s[1]
                out.append(pad + 'return ' + (self.E(r[1]) if kind in ('K', 'Bool') else self.R(r)))
            elif s[0] == 'if':
                out.append(pad + 'if %s:' % self.E(s[1]))
                out += self.S(s[2], ind + 1, kind) or [pad + '    pass']
                out.append(pad + 'else:')
                out += self.S(s[3], ind + 1, kind) or [pad + '    pass']
        return out

    def source(self):
        o = [PY_PRELUDE]
        for fn in self.M.order:
            f = self.M.fir[fn]
            o.append('def f_%s(B, C, EL, TB, %s):' % (fn, ', '.join('v_' + p for p, _ in f['params'])))
            o += self.S(f['body'], 1, f['kind'])
            if f['kind'] == 'Ret':
                o.append("    return ('none',)")
            o.append('')
        return '\n'.join(o)


PY_PRELUDE = '''
def tok(r):
    if r[0] != 'num': raise TypeError('a call result that is not a number is used as a number')
    return r[1]
def pymin(a, b):
    return b if b < a else a
def pymax(a, b):
    return b if b > a else a
def pysum(B, xs):
    acc = B.I(0)
    for x in xs: acc = acc + x
    return acc
def pydot(B, tab, xs):
    acc = tab[0] * xs[0]
    for a, x in zip(tab[1:], xs[1:]): acc = B.fma(a, x, acc)
    return acc
def power_array(B, value, comb):
    ppowers = [c[0] for c in comb if c[0] > 0]
    npowers = [c[0] for c in comb if c[0] < 0] + [-1]
    nneg, npos = -min(npowers), max(ppowers)
    p = [B.I(0)] * (1 + npos + nneg)
    p[0], p[1] = B.I(1), value
    p[-1] = B.I(1) / value if value != 0 else B.inf
    for c in comb:
        p[c[0]] = p[c[1][0]]
        for m in c[1][1:]:
            p[c[0]] = p[c[0]] * p[m]
    return p
'''


class FloatBackend:
    inf = math.inf
    fma = staticmethod(lambda a, b, c: float(Fraction(a) * Fraction(b) + Fraction(c)) if all(map(math.isfinite, (a, b, c))) else a * b + c)
    L = staticmethod(float)
    I = staticmethod(float)
    sqrt = staticmethod(math.sqrt)
    exp = staticmethod(math.exp)
    pow = staticmethod(lambda a, b: a ** b)


class DecimalBackend:
    """70 significant digits; literals are the exact values of the doubles"""
    inf = Decimal('Infinity')

    def __init__(self, prec=70):
        self.prec = prec
    def L(self, x): return Decimal(x)
    def I(self, n): return Decimal(n)
    def sqrt(self, x): return x.sqrt()
    def exp(self, x): return x.exp()
    def pow(self, a, b): return a ** b
    def fma(self, a, b, c): return a * b + c


class Compiled:
    """the translated functions of one module as Python callables over a backend"""
    def __init__(self, M, backend):
        self.M, self.B = M, backend
        src = PyEmitter(M).source()
        self.ns = {'CH': dict(M.chains)}
        exec(compile(src, '<translated %s>' % M.name, 'exec'), self.ns)
        B = backend
        self.C = {k: (B.L(v) if t == 'K' else v) for k, (t, v) in M.consts.items()}
        self.EL = {k: B.L(v) for k, v in M.elems.items()}
        self.TB = {k: ([B.L(x) for x in vals] if t == 'K' else list(vals)) for k, (t, vals) in M.tables.items()}

    def __call__(self, fn, *args):
        return self.ns['f_' + fn](self.B, self.C, self.EL, self.TB, *args)


# ----------------------------------------------------------------------------- probes: where can the arithmetic go singular?

class Probes:
    """recorder used by the probed functions: the value of every denominator, square-root argument, power-array base and
    comparison difference met while evaluating a routine once (float arithmetic; a zero denominator / negative radicand
    does not abort the evaluation)"""
    def __init__(self):
        self.vals = {}

    def div(self, k, a, b):
        self.vals.setdefault(k, b)
        try:
            return a / b
        except ZeroDivisionError:
            return float('nan')

    def sqrt(self, k, x):
        self.vals.setdefault(k, x)
        try:
            return math.sqrt(x)
        except ValueError:
            return float('nan')

    def base(self, k, x):
        self.vals.setdefault(k, x)
        return x

    def cmp(self, k, a, op, b):
        self.vals.setdefault(k, a - b)
        return {'<=': a <= b, '<': a < b, '>=': a >= b, '>': a > b}[op]


class ProbeEmitter(PyEmitter):
    """the translated functions with every division, sqrt, power_array base and comparison routed through `PB`"""
    def __init__(self, M):
        PyEmitter.__init__(self, M)
        self.sites = {}          # key -> (function, kind, text of the probed sub-expression)
        self.cur = None

    def key(self, kind, e):
        k = '%s#%d' % (self.cur, len([1 for x in self.sites if x.startswith(self.cur + '#')]))
        self.sites[k] = (self.cur, kind, PyEmitter(self.M).E(e)[:200])
        return k

    def E(self, e):
        k = e[0]
        if k == 'bin' and e[1] == '/':
            return 'PB.div(%r, %s, %s)' % (self.key('denominator', e[3]), self.E(e[2]), self.E(e[3]))
        if k == 'fn1' and e[1] == 'sqrt':
            return 'PB.sqrt(%r, %s)' % (self.key('sqrt argument', e[2]), self.E(e[2]))
        if k == 'parr':
            return 'power_array(B, PB.base(%r, %s), CH[%r])' % (self.key('power_array base (1/value)', e[1]), self.E(e[1]), e[2])
        if k == 'cmp':
            return 'PB.cmp(%r, %s, %r, %s)' % (self.key('comparison', ('bin', '-', e[2], e[3], 'K')), self.E(e[2]), e[1], self.E(e[3]))
        if k == 'call':
            return 'g_%s(B, C, EL, TB, PB, %s)' % (e[1], ', '.join(self.E(a) for a in e[2]))
        return PyEmitter.E(self, e)

    def source(self):
        o = [PY_PRELUDE]
        for fn in self.M.order:
            f = self.M.fir[fn]
            self.cur = fn
            o.append('def g_%s(B, C, EL, TB, PB, %s):' % (fn, ', '.join('v_' + p for p, _ in f['params'])))
            o += self.S(f['body'], 1, f['kind'])
            if f['kind'] == 'Ret':
                o.append("    return ('none',)")
            o.append('')
        return '\n'.join(o)


class Prober:
    """trace(fn, *args) -> {site key: value} for one evaluation of the translated routine in float arithmetic"""
    def __init__(self, M):
        self.M = M
        em = ProbeEmitter(M)
        src = em.source()
        self.sites = em.sites
        self.ns = {'CH': dict(M.chains)}
        exec(compile(src, '<probed %s>' % M.name, 'exec'), self.ns)
        B = FloatBackend
        self.C = {k: (B.L(v) if t == 'K' else v) for k, (t, v) in M.consts.items()}
        self.EL = {k: B.L(v) for k, v in M.elems.items()}
        self.TB = {k: ([B.L(x) for x in vals] if t == 'K' else list(vals)) for k, (t, vals) in M.tables.items()}

    def trace(self, fn, *args):
        pb = Probes()
        try:
            self.ns['g_' + fn](FloatBackend, self.C, self.EL, self.TB, pb, *args)
        except (ZeroDivisionError, OverflowError, ValueError, TypeError):
            pass
        return pb.vals

    def describe(self, key):
        fn, kind, text = self.sites[key]
        return '%s of %s: %s' % (kind, fn, text)


class TraceProber:
    """the same interface on the REAL code, for comparisons against numeric constants only (used when the source can
    no longer be translated): the function's AST is scanned for Compare nodes with a numeric side; sys.settrace evaluates
    the other side in the running frame when the statement is reached"""
    def __init__(self, mod, path, fnames):
        self.mod = mod
        tree = ast.parse(Path(path).read_text())
        self.sites = {}
        self.by_fn = {}
        for node in tree.body:
            if isinstance(node, ast.FunctionDef) and node.name in fnames:
                lst = []
                for st in ast.walk(node):
                    if not isinstance(st, ast.stmt) or isinstance(st, ast.FunctionDef): continue
                    tests = []
                    if isinstance(st, (ast.If, ast.While)): tests = [st.test]
                    elif isinstance(st, (ast.Assign, ast.Return, ast.Expr)) and st.value is not None: tests = [st.value]
                    for tnode in tests:
                        for c in ast.walk(tnode):
                            if not isinstance(c, ast.Compare): continue
                            items = [c.left] + list(c.comparators)
                            for a, b in zip(items, items[1:]):
                                for x, y in ((a, b), (b, a)):
                                    v = self.const_value(y)
                                    if v is None or self.const_value(x) is not None: continue
                                    src = ast.unparse(x)
                                    key = '%s@%d:%s~%r' % (node.name, st.lineno, src, v)
                                    code = compile(ast.Expression(body=x), '<probe>', 'eval')
                                    lst.append((st.lineno, key, code, v))
                                    self.sites[key] = (node.name, 'comparison with the constant %r' % v, src)
                self.by_fn[node.name] = lst

    def const_value(self, n):
        if isinstance(n, ast.Constant) and isinstance(n.value, (int, float)) and not isinstance(n.value, bool):
            return float(n.value)
        if isinstance(n, ast.UnaryOp) and isinstance(n.op, ast.USub):
            v = self.const_value(n.operand)
            return None if v is None else -v
        if isinstance(n, ast.Name) and is_float(getattr(self.mod, n.id, None)):
            return float(getattr(self.mod, n.id))
        return None

    def trace(self, fn, *args):
        vals = {}
        f = getattr(self.mod, fn)
        code = f.__code__
        sites = self.by_fn.get(fn, [])

        def local(frame, event, arg):
            if event == 'line':
                for lineno, key, c, v in sites:
                    if frame.f_lineno == lineno and key not in vals:
                        try:
                            x = eval(c, frame.f_globals, frame.f_locals)
                            vals[key] = float(x) - v
                        except Exception:
                            pass
            return local

        def glob(frame, event, arg):
            return local if frame.f_code is code else None
        old = sys.gettrace()
        sys.settrace(glob)
        try:
            import warnings
            with warnings.catch_warnings():
                warnings.simplefilter('ignore')
                f(*args)
        except Exception:
            pass
        finally:
            sys.settrace(old)
        return vals

    def describe(self, key):
        fn, kind, text = self.sites[key]
        return '%s in %s: %s' % (kind, fn, text)


def find_roots(prober, fn, make_args, lo, hi, n=300, log=False, domain_ok=None):
    """scan x in [lo, hi] (n points), and for every probed site whose value changes sign between two neighbouring points
    (or vanishes, or has an isolated tiny minimum of its modulus) bisect to the root.  -> [(site key, x_root, kind)]"""
    if log:
        xs = [lo * (hi / lo) ** (k / (n - 1)) for k in range(n)]
    else:
        xs = [lo + (hi - lo) * k / (n - 1) for k in range(n)]
    xs[0], xs[-1] = lo, hi
    tr = [prober.trace(fn, *make_args(x)) for x in xs]
    keys = []
    for t_ in tr:
        for k in t_:
            if k not in keys: keys.append(k)
    out = []
    for key in keys:
        vs = [t_.get(key) for t_ in tr]
        fin = [abs(v) for v in vs if v is not None and v == v and abs(v) != math.inf]
        scale = max(fin) if fin else 0.0
        real = [v for v in vs if v is not None and v == v]
        if not real or min(real) == max(real):
            continue                                  # constant along this line (e.g. t - 350 on the line t = 350): no root to look for
        for i in range(len(xs)):
            v = vs[i]
            if v is None or v != v: continue
            if v == 0.0:
                nb = [vs[j] for j in (i - 1, i + 1) if 0 <= j < len(xs)]
                if all(w is None or w != 0.0 for w in nb):
                    out.append((key, xs[i], 'zero'))
                continue
            if i + 1 < len(xs):
                w = vs[i + 1]
                if w is not None and w == w and w != 0.0 and (v < 0) != (w < 0):
                    a, b, fa = xs[i], xs[i + 1], v
                    for _ in range(200):
                        m = 0.5 * (a + b)
                        if not (a < m < b): break
                        fm = prober.trace(fn, *make_args(m)).get(key)
                        if fm is None or fm != fm: break
                        if fm == 0.0:
                            a = b = m; break
                        if (fm < 0) == (fa < 0): a, fa = m, fm
                        else: b = m
                    out.append((key, a, 'sign change'))
                    if b != a: out.append((key, b, 'sign change'))
            if 0 < i < len(xs) - 1 and scale > 0:
                l_, r_ = vs[i - 1], vs[i + 1]
                if l_ is not None and r_ is not None and abs(v) < abs(l_) and abs(v) < abs(r_) and abs(v) < 1e-9 * scale:
                    out.append((key, xs[i], 'near zero'))
    return out


# ----------------------------------------------------------------------------- entry points

_cache = {}


def modules(repo):
    """(IAPWS97 Module, t2thermo Module) for the tree at `repo` (cached per path+mtime)"""
    repo = Path(repo)
    key = (str(repo), os.path.getmtime(repo / 'IAPWS97.py'), os.path.getmtime(repo / 't2thermo.py'))
    if key not in _cache:
        _cache.clear()
        _cache[key] = (build_iapws(repo), build_ifc67(repo))
    return _cache[key]


def generate(repo, lean_dir, which=('iapws', 'ifc67')):
    """regenerate Gen/Iapws.lean and/or Gen/Ifc67.lean; returns the list of files that changed"""
    from core import write_if_changed
    changed = []
    if 'iapws' in which:
        M = build_iapws(repo)
        if write_if_changed(Path(lean_dir) / 'PyTough' / 'Gen' / 'Iapws.lean', LeanEmitter(M, 'Gen.Iapws').module()):
            changed.append('Gen/Iapws.lean')
    if 'ifc67' in which:
        M = build_ifc67(repo)
        if write_if_changed(Path(lean_dir) / 'PyTough' / 'Gen' / 'Ifc67.lean', LeanEmitter(M, 'Gen.Ifc67').module()):
            changed.append('Gen/Ifc67.lean')
    return changed


if __name__ == '__main__':
    sys.path.insert(0, str(Path(__file__).resolve().parents[1]))
    import core
    print(generate(core.REPO, core.LEAN))
