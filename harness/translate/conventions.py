"""Translator: /repo/mulgrids.py naming-convention tables  ->  lean/PyTough/Gen/Conventions.lean

Extracted from the *current* source (AST of the class `mulgrid`, plus probing of
`valid_blockname` and the signature defaults through the imported module):

  set_secondary_variables   atmosphere_column_name / colname_length / layername_length  list literals indexed by convention
  add_layers                surfacelayername list literal
  column_name / layer_name  the `if self.convention == k: return blockname[a:b]` chains
  block_name                which part comes first and the two slice bounds, for each convention
  node_col_name_from_number the conventions with alphabetic (int_to_chars) node/column names
  layer_name_from_number    the conventions with decimal layer names
  valid_blockname           the per-position character classes (probed on all 128 ASCII characters)
  rectangular               default `chars`

Anything that does not have the expected shape raises TranslateError (the check then
treats the tie as broken).
"""
import ast, sys, importlib, inspect
from pathlib import Path

sys.path.insert(0, str(Path(__file__).resolve().parents[1]))
import core


class TranslateError(Exception):
    pass


def _fail(msg):
    raise TranslateError('conventions translator: ' + msg)


def _find_class(tree, name):
    for n in tree.body:
        if isinstance(n, ast.ClassDef) and n.name == name:
            return n
    _fail('class %s not found' % name)


def _find_method(cls, name):
    for n in cls.body:
        if isinstance(n, ast.FunctionDef) and n.name == name:
            return n
    _fail('method %s.%s not found' % (cls.name, name))


def _is_self_attr(node, attr):
    return (isinstance(node, ast.Attribute) and node.attr == attr and
            isinstance(node.value, ast.Name) and node.value.id == 'self')


def _const_list(node, typ):
    if not isinstance(node, ast.List):
        _fail('expected a list literal, found %s' % ast.dump(node)[:80])
    out = []
    for e in node.elts:
        if not (isinstance(e, ast.Constant) and isinstance(e.value, typ)) or isinstance(e.value, bool):
            _fail('expected %s constants in list literal' % typ.__name__)
        out.append(e.value)
    return out


def _indexed_by_convention(node, typ):
    """`[a, b, c, d][self.convention]` -> [a, b, c, d]"""
    if not (isinstance(node, ast.Subscript) and _is_self_attr(node.slice, 'convention')):
        _fail('expected `[...][self.convention]`, found %s' % ast.dump(node)[:100])
    return _const_list(node.value, typ)


def _assignments(fn):
    """all simple assignments `target = value` anywhere in the function body, as (target-node, value)"""
    for n in ast.walk(fn):
        if isinstance(n, ast.Assign) and len(n.targets) == 1:
            yield n.targets[0], n.value


def _conv_test(test, conv):
    """evaluate `self.convention == k` / `self.convention in [..]` for a concrete convention"""
    if not (isinstance(test, ast.Compare) and len(test.ops) == 1 and _is_self_attr(test.left, 'convention')):
        _fail('unsupported test on the convention: %s' % ast.dump(test)[:100])
    op, rhs = test.ops[0], test.comparators[0]
    if isinstance(op, ast.Eq) and isinstance(rhs, ast.Constant) and isinstance(rhs.value, int):
        return conv == rhs.value
    if isinstance(op, ast.In):
        return conv in _const_list(rhs, int)
    _fail('unsupported test on the convention: %s' % ast.dump(test)[:100])


def _select_branch(stmts, conv):
    """follow an if/elif/else chain on the convention; returns the statement list that is executed"""
    for s in stmts:
        if isinstance(s, ast.Expr) and isinstance(s.value, ast.Constant):
            continue                      # docstring
        if isinstance(s, ast.If):
            if _conv_test(s.test, conv):
                return _select_branch_or_body(s.body, conv)
            return _select_branch_or_body(s.orelse, conv)
        return stmts
    return stmts


def _select_branch_or_body(stmts, conv):
    if len(stmts) == 1 and isinstance(stmts[0], ast.If):
        return _select_branch(stmts, conv)
    return stmts


def _slice_of(node, var):
    """`var[a:b]` with constant bounds -> (a, b)"""
    if not (isinstance(node, ast.Subscript) and isinstance(node.value, ast.Name) and node.value.id == var
            and isinstance(node.slice, ast.Slice) and node.slice.step is None
            and isinstance(node.slice.lower, ast.Constant) and isinstance(node.slice.upper, ast.Constant)):
        _fail('expected %s[a:b] with constant bounds, found %s' % (var, ast.dump(node)[:100]))
    a, b = node.slice.lower.value, node.slice.upper.value
    if not (isinstance(a, int) and isinstance(b, int) and 0 <= a <= b):
        _fail('slice bounds of %s are not non-negative integers' % var)
    return a, b


def _sliced_var(node):
    if isinstance(node, ast.Subscript) and isinstance(node.value, ast.Name):
        return node.value.id
    _fail('expected a slice of a name, found %s' % ast.dump(node)[:100])


def extract(repo=None):
    repo = Path(repo or core.REPO)
    src = (repo / 'mulgrids.py').read_text()
    tree = ast.parse(src)
    cls = _find_class(tree, 'mulgrid')
    out = {}

    # --- set_secondary_variables
    fn = _find_method(cls, 'set_secondary_variables')
    found = {}
    for tgt, val in _assignments(fn):
        for attr, typ in (('atmosphere_column_name', str), ('colname_length', int), ('layername_length', int)):
            if _is_self_attr(tgt, attr):
                found[attr] = _indexed_by_convention(val, typ)
    for k in ('atmosphere_column_name', 'colname_length', 'layername_length'):
        if k not in found:
            _fail('set_secondary_variables does not assign self.%s' % k)
    out.update(found)
    nconv = len(found['colname_length'])

    # --- add_layers: surface layer names
    fn = _find_method(cls, 'add_layers')
    # the surface layer name: the one local assigned from a list of strings indexed by the convention
    # (located structurally, so that renaming the variable does not disturb the translator)
    cands = [val for tgt, val in _assignments(fn)
             if isinstance(tgt, ast.Name) and isinstance(val, ast.Subscript) and _is_self_attr(val.slice, 'convention')]
    if len(cands) != 1:
        _fail('add_layers: expected exactly one `name = [...][self.convention]`, found %d' % len(cands))
    surf = _indexed_by_convention(cands[0], str)
    out['surface_layer_name'] = surf
    for k in ('atmosphere_column_name', 'layername_length', 'surface_layer_name'):
        if len(out[k]) != nconv:
            _fail('table %s has %d entries, colname_length has %d' % (k, len(out[k]), nconv))

    # --- column_name / layer_name
    for meth, key in (('column_name', 'column_slice'), ('layer_name', 'layer_slice')):
        fn = _find_method(cls, meth)
        arg = fn.args.args[1].arg
        table = []
        for conv in range(nconv):
            body = _select_branch(fn.body, conv)
            if not (len(body) == 1 and isinstance(body[0], ast.Return)):
                _fail('%s: expected a single return for convention %d' % (meth, conv))
            table.append(_slice_of(body[0].value, arg))
        out[key] = table

    # --- block_name
    fn = _find_method(cls, 'block_name')
    layarg, colarg = fn.args.args[1].arg, fn.args.args[2].arg
    parts = []
    for conv in range(nconv):
        body = _select_branch(fn.body, conv)
        asg = [s for s in body if isinstance(s, ast.Assign)]
        if not asg or not (isinstance(asg[0].targets[0], ast.Name) and asg[0].targets[0].id == 'name'):
            _fail('block_name: expected `name = ...` for convention %d' % conv)
        v = asg[0].value
        if not (isinstance(v, ast.BinOp) and isinstance(v.op, ast.Add)):
            _fail('block_name: expected a concatenation of two slices for convention %d' % conv)
        first, second = _sliced_var(v.left), _sliced_var(v.right)
        if {first, second} != {layarg, colarg}:
            _fail('block_name: the two parts must be the layer and column names')
        parts.append((first == colarg, _slice_of(v.left, first), _slice_of(v.right, second)))
    out['block_parts'] = parts
    # the rest of block_name must be: blkname = fix_blockname(name); blockmap lookup; return blkname
    calls = [n.func.id for n in ast.walk(fn) if isinstance(n, ast.Call) and isinstance(n.func, ast.Name)]
    if calls != ['fix_blockname']:
        _fail('block_name: expected exactly one call, to fix_blockname; found %s' % calls)

    # --- which conventions use int_to_chars for node/column names, decimal numbers for layer names
    def conv_set(meth, uses_chars_in_true_branch):
        fn = _find_method(cls, meth)
        ifs = [s for s in fn.body if isinstance(s, ast.If)]
        if not ifs:
            _fail('%s: expected an if on the convention' % meth)
        first = ifs[0]
        has_itc = any(isinstance(n, ast.Call) and isinstance(n.func, ast.Name) and n.func.id == 'int_to_chars'
                      for s in first.body for n in ast.walk(s))
        has_itc_else = any(isinstance(n, ast.Call) and isinstance(n.func, ast.Name) and n.func.id == 'int_to_chars'
                           for s in first.orelse for n in ast.walk(s))
        if has_itc == has_itc_else:
            _fail('%s: exactly one branch must call int_to_chars' % meth)
        if has_itc != uses_chars_in_true_branch:
            _fail('%s: the branches are the other way round than expected' % meth)
        return [c for c in range(nconv) if _conv_test(first.test, c)]
    out['alpha_column_conventions'] = conv_set('node_col_name_from_number', True)
    out['numeric_layer_conventions'] = conv_set('layer_name_from_number', False)

    # --- evaluated data through the imported module
    if str(repo) not in sys.path:
        sys.path.insert(0, str(repo))
    import mulgrids
    if Path(mulgrids.__file__).resolve().parent != repo.resolve():
        _fail('imported mulgrids from %s, expected %s' % (mulgrids.__file__, repo))
    ascii_chars = [chr(i) for i in range(128)]
    base = 'aaa00'
    if not mulgrids.valid_blockname(base):
        _fail('valid_blockname rejects the probe base name')
    classes = []
    for pos in range(5):
        classes.append(''.join(c for c in ascii_chars if mulgrids.valid_blockname(base[:pos] + c + base[pos + 1:])))
    if not (classes[0] == classes[1] == classes[2]):
        _fail('valid_blockname: the first three positions have different classes')
    out['valid_first3'], out['valid_fourth'], out['valid_fifth'] = classes[0], classes[3], classes[4]
    d = inspect.signature(mulgrids.mulgrid.rectangular).parameters['chars'].default
    if not (isinstance(d, str) and d.isascii()):
        _fail('default chars of rectangular is not an ASCII string')
    out['default_chars'] = d
    return out


def _lchar(c):
    o = ord(c)
    if c == "'": return "'\\''"
    if c == '\\': return "'\\\\'"
    if 32 <= o < 127: return "'%s'" % c
    return "'\\x%02x'" % o


def _lstr(s):
    return '[' + ', '.join(_lchar(c) for c in s) + ']'


def _llist(xs, f=str):
    return '[' + ', '.join(f(x) for x in xs) + ']'


def render(t):
    pair = lambda p: '(%d, %d)' % p
    L = []
    L.append('/-')
    L.append('  GENERATED by harness/translate/conventions.py from /repo/mulgrids.py -- do not edit.')
    L.append('  Naming-convention tables of class `mulgrid` (list index = naming convention).')
    L.append('-/')
    L.append('namespace Gen.Conventions')
    L.append('')
    L.append('/-- `set_secondary_variables`: `self.colname_length` -/')
    L.append('def colnameLength : List Nat := %s' % _llist(t['colname_length']))
    L.append('/-- `set_secondary_variables`: `self.layername_length` -/')
    L.append('def layernameLength : List Nat := %s' % _llist(t['layername_length']))
    L.append('/-- `set_secondary_variables`: `self.atmosphere_column_name` (atmosphere type 0) -/')
    L.append('def atmosphereColumnName : List (List Char) := %s' % _llist(t['atmosphere_column_name'], _lstr))
    L.append('/-- `add_layers`: `surfacelayername` -/')
    L.append('def surfaceLayerName : List (List Char) := %s' % _llist(t['surface_layer_name'], _lstr))
    L.append('/-- `column_name`: convention k returns `blockname[a:b]` -/')
    L.append('def columnSlice : List (Nat × Nat) := %s' % _llist(t['column_slice'], pair))
    L.append('/-- `layer_name`: convention k returns `blockname[a:b]` -/')
    L.append('def layerSlice : List (Nat × Nat) := %s' % _llist(t['layer_slice'], pair))
    L.append('/-- `block_name`: (column part first?, slice bounds of the first part, slice bounds of the second part) -/')
    L.append('def blockParts : List (Bool × (Nat × Nat) × (Nat × Nat)) := %s' % _llist(
        t['block_parts'], lambda p: '(%s, %s, %s)' % ('true' if p[0] else 'false', pair(p[1]), pair(p[2]))))
    L.append('/-- `node_col_name_from_number`: conventions whose node/column names come from `int_to_chars` -/')
    L.append('def alphaColumnConventions : List Nat := %s' % _llist(t['alpha_column_conventions']))
    L.append('/-- `layer_name_from_number`: conventions whose layer names are decimal numbers -/')
    L.append('def numericLayerConventions : List Nat := %s' % _llist(t['numeric_layer_conventions']))
    L.append('/-- `valid_blockname`: characters accepted in positions 0-2, 3 and 4 (ASCII) -/')
    L.append('def validFirst3 : List Char := %s' % _lstr(t['valid_first3']))
    L.append('def validFourth : List Char := %s' % _lstr(t['valid_fourth']))
    L.append('def validFifth : List Char := %s' % _lstr(t['valid_fifth']))
    L.append('/-- default `chars` of `rectangular` -/')
    L.append('def defaultChars : List Char := %s' % _lstr(t['default_chars']))
    L.append('')
    L.append('end Gen.Conventions')
    return '\n'.join(L) + '\n'


def translate(repo=None):
    t = extract(repo)
    changed = core.write_if_changed(core.LEAN / 'PyTough' / 'Gen' / 'Conventions.lean', render(t))
    return t, changed


if __name__ == '__main__':
    t, ch = translate()
    print(t)
    print('changed' if ch else 'unchanged')
