"""Translator (C03): the small tables of the MULgraph reader/writer  ->  lean/PyTough/Gen/GeoTables.lean

From the AST of class `mulgrid` in the *current* /repo/mulgrids.py:

  set_unit_type        the dictionary `{'': 1.0, 'FEET ': 0.3048}[unit_type]`   (unit type -> scale, as the exact decimal written)
  read_header          `block_orders = {0: 'layer_column', 1: 'dmplex'}`
  set_block_order_int  `block_order_ints = {'layer_column': 0, 'dmplex': 1}`
  read                 the keyword dispatch `read_fn = {'VERTI': self.read_nodes, ...}`   (keyword -> method name, in order)
  write                the sequence of `self.write_*` calls (order of the sections in the file)
  write_*              the keyword line each section writer emits first (`geo.write('VERTICES\\n')`)

Anything that does not have the expected shape raises (the check then treats the tie as broken).
"""
import ast, sys
from fractions import Fraction
from pathlib import Path

sys.path.insert(0, str(Path(__file__).resolve().parents[1]))
import core


class TranslateError(Exception):
    pass


def _fail(msg):
    raise TranslateError('geotables translator: ' + msg)


def _method(cls, name):
    for n in cls.body:
        if isinstance(n, ast.FunctionDef) and n.name == name:
            return n
    _fail('method mulgrid.%s not found' % name)


def _dict_literals(fn):
    return [n for n in ast.walk(fn) if isinstance(n, ast.Dict)]


def _const(node, typ):
    if not (isinstance(node, ast.Constant) and isinstance(node.value, typ)) or isinstance(node.value, bool):
        _fail('expected a %s constant, found %s' % (typ, ast.dump(node)[:80]))
    return node.value


def _lchar(c):
    o = ord(c)
    if c == "'": return "'\\''"
    if c == '\\': return "'\\\\'"
    if 32 <= o < 127: return "'%s'" % c
    _fail('non-printable character in a table: %r' % c)


def _lstr(s):
    return '[' + ', '.join(_lchar(c) for c in s) + ']'


def extract(repo=None):
    repo = Path(repo or core.REPO)
    src = (repo / 'mulgrids.py').read_text()
    tree = ast.parse(src)
    cls = next((n for n in tree.body if isinstance(n, ast.ClassDef) and n.name == 'mulgrid'), None)
    if cls is None: _fail('class mulgrid not found')
    out = {}

    # unit scales: the one dict literal of set_unit_type, string keys -> numeric constants
    ds = _dict_literals(_method(cls, 'set_unit_type'))
    if len(ds) != 1: _fail('set_unit_type: expected exactly one dictionary literal')
    scales = []
    for k, v in zip(ds[0].keys, ds[0].values):
        key = _const(k, str)
        val = _const(v, (int, float))
        text = ast.get_source_segment(src, v)
        try:
            fr = Fraction(text)                     # the decimal as written (0.3048 -> 381/1250)
        except (ValueError, TypeError):
            _fail('set_unit_type: scale %r is not a decimal literal' % text)
        if float(fr) != float(val) or fr <= 0: _fail('set_unit_type: unexpected scale %r' % text)
        scales.append((key, fr.numerator, fr.denominator))
    out['unit_scale'] = scales

    # block orders (read side, int -> name) and (write side, name -> int)
    ds = [d for d in _dict_literals(_method(cls, 'read_header')) if d.keys and all(isinstance(k, ast.Constant) and isinstance(k.value, int) for k in d.keys)]
    if len(ds) != 1: _fail('read_header: expected exactly one {int: name} dictionary literal')
    out['block_orders'] = [(_const(k, int), _const(v, str)) for k, v in zip(ds[0].keys, ds[0].values)]
    ds = _dict_literals(_method(cls, 'set_block_order_int'))
    if len(ds) != 1: _fail('set_block_order_int: expected exactly one dictionary literal')
    out['block_order_ints'] = [(_const(k, str), _const(v, int)) for k, v in zip(ds[0].keys, ds[0].values)]

    # keyword dispatch of read
    ds = _dict_literals(_method(cls, 'read'))
    if len(ds) != 1: _fail('read: expected exactly one dictionary literal (read_fn)')
    kws = []
    for k, v in zip(ds[0].keys, ds[0].values):
        if not (isinstance(v, ast.Attribute) and isinstance(v.value, ast.Name) and v.value.id == 'self'):
            _fail('read: read_fn values are expected to be bound methods self.read_*')
        kws.append((_const(k, str), v.attr))
    out['read_keywords'] = kws

    # order of the section writers in write(), and the keyword line each one writes first
    calls = []
    for n in ast.walk(_method(cls, 'write')):
        if (isinstance(n, ast.Call) and isinstance(n.func, ast.Attribute) and isinstance(n.func.value, ast.Name)
                and n.func.value.id == 'self' and n.func.attr.startswith('write_')):
            calls.append((n.lineno, n.col_offset, n.func.attr))
    order = [c[2] for c in sorted(calls)]
    if not order: _fail('write: no self.write_* calls found')
    out['write_order'] = order
    kwlines = []
    for name in order:
        fn = _method(cls, name)
        first = None
        for st in fn.body:
            if isinstance(st, ast.Expr) and isinstance(st.value, ast.Constant): continue     # docstring
            first = st
            break
        kw = ''
        if (isinstance(first, ast.Expr) and isinstance(first.value, ast.Call) and isinstance(first.value.func, ast.Attribute)
                and first.value.func.attr == 'write' and len(first.value.args) == 1 and isinstance(first.value.args[0], ast.Constant)
                and isinstance(first.value.args[0].value, str)):
            kw = first.value.args[0].value
        kwlines.append((name, kw))
    out['write_keywords'] = kwlines
    return out


def render(t):
    L = ['/-', '  GENERATED by harness/translate/geotables.py from /repo/mulgrids.py -- do not edit.',
         '  Small tables of the MULgraph geometry reader / writer (class `mulgrid`).', '-/',
         'namespace Gen.GeoTables', '']
    L.append('/-- `set_unit_type`: unit type -> scale (numerator, denominator of the decimal written) -/')
    L.append('def unitScale : List (List Char × Int × Nat) := [%s]' % ', '.join('(%s, %d, %d)' % (_lstr(k), n, d) for k, n, d in t['unit_scale']))
    L.append('/-- `read_header`: `block_orders` -/')
    L.append('def blockOrders : List (Int × List Char) := [%s]' % ', '.join('(%d, %s)' % (k, _lstr(v)) for k, v in t['block_orders']))
    L.append('/-- `set_block_order_int`: `block_order_ints` -/')
    L.append('def blockOrderInts : List (List Char × Int) := [%s]' % ', '.join('(%s, %d)' % (_lstr(k), v) for k, v in t['block_order_ints']))
    L.append('/-- `read`: `read_fn` (keyword -> reader method) -/')
    L.append('def readKeywords : List (List Char × String) := [%s]' % ', '.join('(%s, "%s")' % (_lstr(k), v) for k, v in t['read_keywords']))
    L.append('/-- `write`: the section writers in the order they are called, with the keyword line each writes first -/')
    L.append('def writeKeywords : List (String × List Char) := [%s]' % ', '.join('("%s", %s)' % (k, _lstr(v.rstrip('\n'))) for k, v in t['write_keywords']))
    L += ['', 'end Gen.GeoTables']
    return '\n'.join(L) + '\n'


def translate(repo=None):
    t = extract(repo)
    for k, v in t['write_keywords']:
        if v and not v.endswith('\n'): _fail('%s: the keyword line does not end in a newline' % k)
    changed = core.write_if_changed(core.LEAN / 'PyTough' / 'Gen' / 'GeoTables.lean', render(t))
    return t, changed


if __name__ == '__main__':
    print(translate())
