"""Translator: /repo/t2listing.py per-simulator method binding  ->  lean/PyTough/Gen/ListingBind.lean

`t2listing.detect_simulator` binds, for the detected simulator, one method per name in `internal_fns`
(`setup_pos`, `next_table`, ... ) by `setattr(self, fname, getattr(self, fname + '_' + simname))`, falling back to the
TOUGH2 method when a simulator in the fallback list has no method of its own.  The whole-file Lean model dispatches
through the generated table, so a method added, removed or renamed in the source changes what the model runs
(and an unknown target makes the model raise AttributeError where the code would not).

Extracted from the current source:
  * `internal_fns` and the fallback list: the list literals inside detect_simulator (AST),
  * the simulator names: the values of the `simulator` dict literal there + the names the fallback list mentions,
  * the bound method for every (simulator, fname): the rule above evaluated on the imported class,
and validated by opening one shipped listing per simulator and reading the names of the methods really bound.
Anything that does not have the expected shape raises TranslateError.
"""
import ast, sys, importlib, io, contextlib, warnings
from pathlib import Path

sys.path.insert(0, str(Path(__file__).resolve().parents[1]))
import core


class TranslateError(Exception):
    pass


def _fail(msg):
    raise TranslateError('listing_bind translator: ' + msg)


SAMPLE = {'AUTOUGH2': 'AUTOUGH2/1/case1.listing', 'TOUGH2': 'TOUGH2/1/r1q.listing', 'TOUGH2_MP': 'TOUGH2-MP/1/OUTPUT_DATA',
          'TOUGH+': 'TOUGHplus/1/case1.dat', 'TOUGHREACT': 'TOUGHREACT/2/case2.out', 'TOUGH3': 'TOUGH3/1/OUTPUT'}


def extract():
    src = (core.REPO / 't2listing.py').read_text()
    tree = ast.parse(src)
    cls = next((n for n in tree.body if isinstance(n, ast.ClassDef) and n.name == 't2listing'), None)
    if cls is None: _fail('class t2listing not found')
    fn = next((n for n in cls.body if isinstance(n, ast.FunctionDef) and n.name == 'detect_simulator'), None)
    if fn is None: _fail('detect_simulator not found')
    internal, fallback, simdict = None, None, None
    for node in ast.walk(fn):
        if isinstance(node, ast.Assign) and len(node.targets) == 1 and isinstance(node.targets[0], ast.Name):
            name = node.targets[0].id
            if name == 'internal_fns' and isinstance(node.value, ast.List):
                internal = [ast.literal_eval(e) for e in node.value.elts]
            if name == 'simulator' and isinstance(node.value, ast.Dict):
                simdict = ast.literal_eval(node.value)
        if isinstance(node, ast.Compare) and isinstance(node.left, ast.Name) and node.left.id == 'simname' \
                and len(node.ops) == 1 and isinstance(node.ops[0], ast.In) and isinstance(node.comparators[0], ast.List):
            fallback = [ast.literal_eval(e) for e in node.comparators[0].elts]
    if not internal: _fail('internal_fns list literal not found in detect_simulator')
    if fallback is None: _fail('fallback list (simname in [...]) not found in detect_simulator')
    if not simdict: _fail('simulator dict literal not found in detect_simulator')
    # the setattr / getattr / replace rule must still be there
    text = ast.get_source_segment(src, fn) or ''
    for needle in ("fname + '_' + simname", "fname_sim.replace(simname, 'TOUGH2')", 'setattr(self, fname, getattr(self, fname_sim))',
                   "self.simulator.replace('+','plus')"):
        if needle not in text:
            _fail('binding rule changed: %r not found' % needle)
    with warnings.catch_warnings():
        warnings.simplefilter('ignore')
        mod = importlib.import_module('t2listing')
        mod = importlib.reload(mod)
    C = mod.t2listing
    sims = sorted(set(simdict.values()) | {s.replace('plus', '+') for s in fallback} | {'TOUGH2_MP'})
    table = {}
    for sim in sims:
        simname = sim.replace('+', 'plus')
        row = []
        for fname in internal:
            target = fname + '_' + simname
            if simname in fallback and not hasattr(C, target):
                target = target.replace(simname, 'TOUGH2')
            if not hasattr(C, target):
                target = ''                      # getattr would raise AttributeError
            row.append((fname, target))
        table[sim] = row
    # validation on shipped files: the methods really bound
    base = core.REPO / 'tests' / 'listing'
    for sim, rel in SAMPLE.items():
        p = base / rel
        if not p.exists() or sim not in table:
            continue
        with contextlib.redirect_stdout(io.StringIO()), warnings.catch_warnings():
            warnings.simplefilter('ignore')
            lst = C(str(p))
        if lst.simulator != sim:
            _fail('%s is detected as %r, expected %r' % (rel, lst.simulator, sim))
        for fname, target in table[sim]:
            real = getattr(lst, fname).__func__.__name__
            if real != target:
                _fail('%s: %s is bound to %s, the rule gives %s' % (sim, fname, real, target))
        lst.close()
    return internal, table


def render(internal, table):
    L = ['/-', '  GENERATED by harness/translate/listing_bind.py from /repo/t2listing.py (detect_simulator) — do not edit.',
         '  For every simulator name, the method bound to each internal function name.', '-/',
         'namespace Gen.ListingBind', '',
         'def internalFns : List String := [' + ', '.join('"%s"' % f for f in internal) + ']', '',
         'def binding : List (String × List (String × String)) := [']
    rows = []
    for sim in sorted(table):
        rows.append('  ("%s", [%s])' % (sim, ', '.join('("%s", "%s")' % (f, t) for f, t in table[sim])))
    L.append(',\n'.join(rows))
    L += [']', '', 'end Gen.ListingBind', '']
    return '\n'.join(L)


def run():
    internal, table = extract()
    return core.write_if_changed(core.LEAN / 'PyTough' / 'Gen' / 'ListingBind.lean', render(internal, table))


if __name__ == '__main__':
    print(run())
