"""Translator: the subdivision tables of mulgrid.refine / decompose_column -> lean/PyTough/Gen/RefineTables.lean.

Everything is located structurally in the AST of the *current* /repo/mulgrids.py:

  * `transition_column`   the dict literal assigned inside mulgrid.refine (ast.literal_eval);
  * `transition_type`     the nested decision function of mulgrid.refine: compiled on its own and
                          tabulated over its whole domain (nn in {3,4} is enforced by refine's own
                          guard `all(col.num_nodes in [3, 4] ...)`, sides = every ascending subset);
  * centre-node condition the test of the `if` that creates `centrenodes[col.name]`, tabulated over
                          (nn, nrefined, irange);
  * decompose cases       every `self.subdivide_column(column_name, <start>, [<tuples>], ...)` call of
                          mulgrid.decompose_column together with the (nn, ns) / d conditions guarding it;
  * split_column          the node triple given to the new column and the index deleted from the old one.

Anything that does not have the expected shape raises (the check treats that like a broken proof).
"""
import ast, itertools, io, contextlib
import core

OUT = core.LEAN / 'PyTough' / 'Gen' / 'RefineTables.lean'


class TranslateError(Exception):
    pass


def need(cond, msg):
    if not cond:
        raise TranslateError('refine_tables: ' + msg)


def find_method(tree, cls, name):
    for n in tree.body:
        if isinstance(n, ast.ClassDef) and n.name == cls:
            for m in n.body:
                if isinstance(m, ast.FunctionDef) and m.name == name:
                    return m
    raise TranslateError('refine_tables: %s.%s not found' % (cls, name))


def vert(v):
    if isinstance(v, int) and not isinstance(v, bool) and v >= 0:
        return '.corner %d' % v
    if v == 'c':
        return '.centre'
    if isinstance(v, tuple) and len(v) == 2 and all(isinstance(x, int) and x >= 0 for x in v):
        return '.mid %d %d' % v
    raise TranslateError('refine_tables: unexpected vertex %r in a subdivision table' % (v,))


def poly(p):
    need(isinstance(p, tuple) and len(p) >= 3, 'sub-column %r is not a tuple of >= 3 vertices' % (p,))
    return '[' + ', '.join(vert(v) for v in p) + ']'


def polys(ps):
    need(isinstance(ps, (tuple, list)) and len(ps) >= 1, 'empty subdivision %r' % (ps,))
    return '[' + ', '.join(poly(p) for p in ps) + ']'


def extract_refine(tree):
    fn = find_method(tree, 'mulgrid', 'refine')
    table = ttype = centre_test = None
    for n in ast.walk(fn):
        if isinstance(n, ast.Assign) and len(n.targets) == 1 and isinstance(n.targets[0], ast.Name) \
                and n.targets[0].id == 'transition_column':
            need(table is None, 'transition_column assigned twice')
            table = ast.literal_eval(n.value)
        if isinstance(n, ast.FunctionDef) and n.name == 'transition_type':
            need(ttype is None, 'transition_type defined twice')
            ttype = n
        if isinstance(n, ast.If):
            for b in n.body:
                if isinstance(b, ast.Assign) and isinstance(b.targets[0], ast.Subscript) \
                        and isinstance(b.targets[0].value, ast.Name) and b.targets[0].value.id == 'centrenodes':
                    need(centre_test is None, 'two places create centre nodes')
                    centre_test = n.test
    need(isinstance(table, dict) and table, 'transition_column dict literal not found in mulgrid.refine')
    need(ttype is not None, 'nested function transition_type not found in mulgrid.refine')
    need(centre_test is not None, 'the `if` creating centrenodes[col.name] not found in mulgrid.refine')
    need([a.arg for a in ttype.args.args] == ['nn', 'sides'], 'transition_type signature changed')
    # the guard restricting refine to 3- and 4-sided columns
    guard = [n for n in ast.walk(fn) if isinstance(n, ast.Compare) and isinstance(n.left, ast.Attribute)
             and n.left.attr == 'num_nodes' and isinstance(n.ops[0], ast.In)
             and isinstance(n.comparators[0], (ast.List, ast.Tuple))]
    sizes = sorted(set(tuple(ast.literal_eval(g.comparators[0])) for g in guard))
    need(sizes == [(3, 4)], 'guard `col.num_nodes in [3, 4]` not found in mulgrid.refine (found %r)' % (sizes,))
    need(sorted(table.keys()) == [3, 4], 'transition_column keys are %r, expected [3, 4]' % (sorted(table.keys()),))
    # compile the decision function on its own
    mod = ast.Module(body=[ttype], type_ignores=[])
    ast.fix_missing_locations(mod)
    env = {}
    exec(compile(mod, '<transition_type>', 'exec'), env)
    f = env['transition_type']
    ttab = []
    for nn in (3, 4):
        for k in range(0, nn + 1):
            for sides in itertools.combinations(range(nn), k):
                with contextlib.redirect_stdout(io.StringIO()):
                    try:
                        r = f(nn, list(sides))
                    except Exception as e:       # e.g. IndexError on the empty list
                        r = None
                if r is not None:
                    need(isinstance(r, tuple) and len(r) == 3 and all(isinstance(x, int) and x >= 0 for x in r),
                         'transition_type(%d, %r) returned %r' % (nn, sides, r))
                ttab.append((nn, list(sides), r))
    # centre-node condition
    names = {n.id for n in ast.walk(centre_test) if isinstance(n, ast.Name)}
    need(names <= {'col', 'nrefined', 'irange', 'nn'}, 'centre-node condition uses unexpected names %r' % (names,))
    code = compile(ast.Expression(centre_test), '<centre_test>', 'eval')

    class _Col:
        pass
    ctab = []
    for nn in (3, 4):
        for nref in range(0, nn + 1):
            for irange in range(0, nn):
                c = _Col()
                c.num_nodes = nn
                ctab.append((nn, nref, irange, bool(eval(code, {'col': c, 'nrefined': nref, 'irange': irange, 'nn': nn}))))
    return table, ttab, ctab


def _const_pair(node):
    """(nn, ns) == (a, b)  ->  (a, b)"""
    if isinstance(node, ast.Compare) and len(node.ops) == 1 and isinstance(node.ops[0], ast.Eq):
        l, r = node.left, node.comparators[0]
        if isinstance(l, ast.Tuple) and [getattr(e, 'id', None) for e in l.elts] == ['nn', 'ns']:
            v = ast.literal_eval(r)
            if isinstance(v, tuple) and len(v) == 2:
                return v
    return None


def _d_eq(node):
    if isinstance(node, ast.Compare) and len(node.ops) == 1 and isinstance(node.ops[0], ast.Eq) \
            and isinstance(node.left, ast.Name) and node.left.id == 'd':
        return ast.literal_eval(node.comparators[0])
    return None


def extract_decompose(tree):
    fn = find_method(tree, 'mulgrid', 'decompose_column')
    cases = []

    def calls_in(stmts):
        out = []
        for s in stmts:
            for n in ast.walk(s):
                if isinstance(n, ast.Call) and isinstance(n.func, ast.Attribute) and n.func.attr == 'subdivide_column':
                    out.append(n)
        return out

    def walk_if(node, nnns, d):
        """node: ast.If chain"""
        while True:
            pair, dd = _const_pair(node.test), _d_eq(node.test)
            sub_nnns, sub_d = (pair or nnns), (dd if dd is not None else d)
            inner_ifs = [s for s in node.body if isinstance(s, ast.If)]
            if inner_ifs:
                for s in inner_ifs:
                    walk_if(s, sub_nnns, sub_d)
            else:
                for c in calls_in(node.body):
                    need(sub_nnns is not None, 'subdivide_column call outside an (nn, ns) == (..) branch')
                    need(len(c.args) >= 3, 'subdivide_column call with < 3 positional arguments')
                    start = ast.unparse(c.args[1])
                    kind = {'straight[0]': 'first', 'start': 'afterGap'}.get(start)
                    need(kind is not None, 'unrecognised start expression %r in decompose_column' % start)
                    cases.append((sub_nnns[0], sub_nnns[1], sub_d, kind, ast.literal_eval(c.args[2])))
            if len(node.orelse) == 1 and isinstance(node.orelse[0], ast.If):
                node = node.orelse[0]
            else:
                for s in node.orelse:
                    if isinstance(s, ast.If):
                        walk_if(s, nnns, d)
                return

    tops = [s for s in fn.body if isinstance(s, ast.If)]
    need(len(tops) == 1, 'decompose_column: expected one top-level if chain')
    walk_if(tops[0], None, None)
    need(cases, 'no subdivide_column case found in decompose_column')
    # the definition of `start` (first straight node whose second predecessor is not straight)
    src = ast.unparse(fn)
    if any(c[3] == 'afterGap' for c in cases):
        need('last2 = [col.index_minus(i, 2) for i in straight]' in src and
             'start = [s for s, l in zip(straight, last2) if l not in straight][0]' in src,
             'the definition of `start` in decompose_column changed')
    # thresholds
    th = [ast.literal_eval(n.comparators[0]) for n in ast.walk(fn)
          if isinstance(n, ast.Compare) and isinstance(n.left, ast.Name) and n.left.id == 'nn'
          and isinstance(n.ops[0], ast.LtE)]
    need(th == [4, 8], 'decompose_column size thresholds are %r, expected [4, 8]' % (th,))
    return cases


def extract_split(tree):
    fn = find_method(tree, 'mulgrid', 'split_column')
    new = dele = None
    for n in ast.walk(fn):
        if isinstance(n, ast.Call) and isinstance(n.func, ast.Name) and n.func.id == 'column':
            for kw in n.keywords:
                if kw.arg == 'node':
                    new = ast.unparse(kw.value)
        if isinstance(n, ast.Delete):
            dele = ast.unparse(n.targets[0])
    import re
    need(new is not None and dele is not None, 'split_column: new column / deleted node not found')
    m = re.fullmatch(r'\[col\.node\[i\[(\d)\]\], col\.node\[i\[(\d)\]\], col\.node\[i\[(\d)\]\]\]', new)
    d = re.fullmatch(r'col\.node\[i\[(\d)\]\]', dele)
    need(m and d, 'split_column: unexpected shapes %r / %r' % (new, dele))
    return [int(x) for x in m.groups()], int(d.group(1))


def generate():
    src = (core.REPO / 'mulgrids.py').read_text()
    tree = ast.parse(src)
    table, ttab, ctab = extract_refine(tree)
    cases = extract_decompose(tree)
    split_new, split_del = extract_split(tree)
    o = ['/- GENERATED by harness/translate/refine_tables.py from /repo/mulgrids.py (do not edit). -/',
         'namespace Gen.RefineTables', '',
         '/-- a vertex of a sub-column, relative to the parent column: local corner index (counted from the',
         '    starting corner), the mid-side node of the side joining two local corners, or the centre node -/',
         'inductive Vert where',
         '  | corner (i : Nat)', '  | mid (i j : Nat)', '  | centre',
         '  deriving DecidableEq, Repr, Inhabited', '',
         'abbrev Poly := List Vert', '',
         '/-- `transition_column[nn][(nrefined, irange)]` of `mulgrid.refine` -/',
         'def transitionColumn : List (Nat × List ((Nat × Nat) × List Poly)) := [']
    rows = []
    for nn in sorted(table):
        need(isinstance(table[nn], dict), 'transition_column[%r] is not a dict' % nn)
        ent = []
        for key, subs in table[nn].items():
            need(isinstance(key, tuple) and len(key) == 2 and all(isinstance(x, int) for x in key),
                 'transition_column[%r] key %r' % (nn, key))
            ent.append('    ((%d, %d), %s)' % (key[0], key[1], polys(subs)))
        rows.append('  (%d, [\n%s])' % (nn, ',\n'.join(ent)))
    o.append(',\n'.join(rows) + ']')
    o += ['', '/-- the nested function `transition_type(nn, sides)` of `mulgrid.refine`, tabulated over its whole',
          '    domain (nn = 3, 4; every ascending list of sides); `none` = it returned None or raised -/',
          'def transitionTypeTable : List ((Nat × List Nat) × Option (Nat × Nat × Nat)) := [']
    o.append(',\n'.join('  ((%d, [%s]), %s)' % (nn, ', '.join(map(str, s)),
                                                 'none' if r is None else 'some (%d, %d, %d)' % r)
                        for nn, s, r in ttab) + ']')
    o += ['', '/-- the condition under which `refine` creates a centre node: (nn, nrefined, irange) ↦ bool -/',
          'def centreNodeTable : List ((Nat × Nat × Nat) × Bool) := [']
    o.append(',\n'.join('  ((%d, %d, %d), %s)' % (a, b, c, 'true' if t else 'false') for a, b, c, t in ctab) + ']')
    o += ['', 'inductive StartKind where', '  | first      -- straight[0]',
          '  | afterGap   -- the first straight node whose second predecessor is not straight',
          '  deriving DecidableEq, Repr', '',
          'structure DecompCase where', '  nn : Nat', '  ns : Nat', '  d : Option Nat   -- index distance of the two straight nodes ((6,2) only)',
          '  start : StartKind', '  polys : List Poly', '  deriving Repr', '',
          '/-- the special cases of `mulgrid.decompose_column` (everything else is triangulated) -/',
          'def decomposeCases : List DecompCase := [']
    o.append(',\n'.join('  { nn := %d, ns := %d, d := %s, start := .%s, polys := %s }' % (
        nn, ns, 'none' if d is None else 'some %d' % d, kind, polys(ps)) for nn, ns, d, kind, ps in cases) + ']')
    o += ['', '/-- `split_column`: local indices (from the chosen node) of the new triangle, and the index removed from the old column -/',
          'def splitNew : List Nat := [%s]' % ', '.join(map(str, split_new)),
          'def splitDeleted : Nat := %d' % split_del, '',
          'end Gen.RefineTables', '']
    return '\n'.join(o)


def run():
    return core.write_if_changed(OUT, generate())


if __name__ == '__main__':
    import sys
    print(generate() if '--print' in sys.argv else run())
