"""Shared machinery of the PyTOUGH verification harness (see DESIGN.md §2.5).

Every check is  `python harness/check.py <Cxx> --tier quick|thorough [--replay p]`.
The pipeline per property:

  1. translate   /repo -> lean/PyTough/Gen/*.lean      (property module: translate())
  2. build       lake build <Props.Cxx> <driver>        (flock-serialised)
  3. audit       #print axioms for every property theorem + forbidden-token grep
  4. correspond  real code vs. the Lean model on the same inputs   (module: run())
  5. oracle      the property itself evaluated on the real code    (module: run())
  6. verdict     + failing-input search when 1-4 broke            (module: search())
  7. evidence    evidence/<Cxx>.json
"""
import sys, os, json, time, hashlib, random, subprocess, fcntl, re, traceback, shutil, tempfile
from pathlib import Path

VERIF = Path(__file__).resolve().parents[1]
REPO = Path(os.environ.get('PYTOUGH_REPO', '/repo'))
LEAN = VERIF / 'lean'
EVID = Path(os.environ.get('PTV_EVIDENCE_DIR') or (VERIF / 'evidence'))   # seedtest points this elsewhere
REPLAYS = VERIF / 'replays'
KNOWN = VERIF / 'known_findings.json'
GUARD = 'PYTOUGH_VERIF'

ALLOWED_AXIOMS = {'propext', 'Classical.choice', 'Quot.sound'}
FORBIDDEN = re.compile(r'\bsorry\b|\badmit\b|^\s*axiom\s|native_decide|bv_decide|implemented_by|\bunsafe\s|maxHeartbeats\s+0\b',
                       re.M)

os.environ.setdefault(GUARD, '1')
if str(REPO) not in sys.path:
    sys.path.insert(0, str(REPO))


class Ctx:
    def __init__(self, prop, tier, seed):
        self.prop = prop
        self.tier = tier
        self.seed = seed
        self.t0 = time.time()
        self.model_ok = True          # Lean model built and audited
        self.broken = []              # names of theorems / translators / facets that no longer check
        self.notes = []
        self.tmp = Path(tempfile.mkdtemp(prefix='ptv_%s_' % prop))

    def rng(self, facet=''):
        h = hashlib.sha256(('%d/%s/%s' % (self.seed, self.prop, facet)).encode()).digest()
        return random.Random(int.from_bytes(h[:8], 'big'))

    @property
    def quick(self):
        return self.tier == 'quick'

    def n(self, quick, thorough):
        return quick if self.quick else thorough

    def elapsed(self):
        return time.time() - self.t0

    def cleanup(self):
        shutil.rmtree(self.tmp, ignore_errors=True)


class Result:
    """What a property module's run() reports."""
    def __init__(self):
        self.evaluations = 0
        self.distinct = set()        # canonical keys of distinct non-trivial cases
        self.rule = ''
        self.samples = []
        self.violations = []         # oracle hits on the real code: dict(key=, what=, case=)
        self.disagreements = []      # model vs implementation: dict(facet=, case=, model=, impl=)
        self.facets = {}             # facet name -> dict(cases=, disagreements=, ...)
        self.stats = {}              # input distribution etc.
        self.hyp = {}                # hypothesis name -> [satisfied, total]
        self.unstable = 0

    def facet(self, name):
        return self.facets.setdefault(name, {'cases': 0, 'disagreements': 0})

    def count(self, key, k=1):
        self.stats[key] = self.stats.get(key, 0) + k

    def sample(self, s, cap=8):
        if len(self.samples) < cap:
            self.samples.append(s)

    def merge(self, other):
        self.evaluations += other.evaluations
        self.distinct |= other.distinct
        self.violations += other.violations
        self.disagreements += other.disagreements
        for k, v in other.facets.items():
            f = self.facet(k)
            for kk, vv in v.items():
                f[kk] = f.get(kk, 0) + vv if isinstance(vv, (int, float)) else vv
        for k, v in other.stats.items():
            self.count(k, v)
        for s in other.samples:
            self.sample(s)
        self.unstable += other.unstable


# --------------------------------------------------------------------------- lean

class _Lock:
    def __enter__(self):
        self.f = open(LEAN / '.lock', 'w')
        fcntl.flock(self.f, fcntl.LOCK_EX)
        return self

    def __exit__(self, *a):
        fcntl.flock(self.f, fcntl.LOCK_UN)
        self.f.close()


def write_if_changed(path, text):
    path = Path(path)
    if path.exists() and path.read_text() == text:
        return False
    path.parent.mkdir(parents=True, exist_ok=True)
    tmp = path.with_suffix(path.suffix + '.tmp%d' % os.getpid())
    tmp.write_text(text)
    os.replace(tmp, path)
    return True


def lake_build(targets, timeout=3000):
    """returns (ok, output)"""
    with _Lock():
        p = subprocess.run(['lake', 'build'] + list(targets), cwd=LEAN, capture_output=True,
                           text=True, timeout=timeout)
    return p.returncode == 0, p.stdout + p.stderr


def failed_decls(build_output):
    """names of declarations / files mentioned in Lean error messages"""
    names = []
    for m in re.finditer(r'^error: ([^\n:]+\.lean):(\d+):(\d+): (.*)$', build_output, re.M):
        names.append('%s:%s %s' % (m.group(1), m.group(2), m.group(4)[:120]))
    for m in re.finditer(r'^error: (.*)$', build_output, re.M):
        if '.lean:' not in m.group(1):
            names.append(m.group(1)[:160])
    return names[:20]


def audit_axioms(module, theorems, prop):
    """#print axioms on each theorem. returns (ok, {thm: [axioms]}, problems)"""
    d = LEAN / '.audit'
    d.mkdir(exist_ok=True)
    f = d / ('Audit_%s_%d.lean' % (prop, os.getpid()))
    f.write_text('import %s\n' % module + ''.join('#print axioms %s\n' % t for t in theorems))
    try:
        p = subprocess.run(['lake', 'env', 'lean', str(f)], cwd=LEAN, capture_output=True, text=True, timeout=1200)
    finally:
        try: f.unlink()
        except OSError: pass
    out = p.stdout + p.stderr
    axioms, problems = {}, []
    flat = re.sub(r'\s+', ' ', out)
    for t in theorems:
        short = t
        m = re.search(r"'%s' depends on axioms: \[([^\]]*)\]" % re.escape(short), flat)
        if m:
            ax = [a.strip() for a in m.group(1).split(',') if a.strip()]
            axioms[t] = ax
            bad = [a for a in ax if a not in ALLOWED_AXIOMS]
            if bad:
                problems.append('%s uses axioms %s' % (t, bad))
        elif re.search(r"'%s' does not depend on any axioms" % re.escape(short), flat):
            axioms[t] = []
        else:
            problems.append('%s: not found / not checked' % t)
    if p.returncode != 0 and not problems:
        problems.append('audit file failed: ' + out[-300:])
    return not problems, axioms, problems


def strip_lean_comments(src):
    # nested block comments are rare in this tree; handle one level + line comments
    out, i, depth = [], 0, 0
    while i < len(src):
        if src.startswith('/-', i):
            depth += 1; i += 2; continue
        if src.startswith('-/', i) and depth:
            depth -= 1; i += 2; continue
        if depth == 0 and src.startswith('--', i):
            j = src.find('\n', i)
            i = len(src) if j < 0 else j
            continue
        if depth == 0:
            out.append(src[i])
        elif src[i] == '\n':
            out.append('\n')
        i += 1
    return ''.join(out)


def import_closure(roots):
    """files of this project reachable through `import` lines from the given module names"""
    seen, todo = {}, list(roots)
    while todo:
        m = todo.pop()
        if m in seen:
            continue
        f = LEAN / (m.replace('.', '/') + '.lean')
        if not f.exists():
            continue
        seen[m] = f
        for mm in re.findall(r'^\s*(?:public\s+)?import\s+([A-Za-z0-9_.]+)', f.read_text(), re.M):
            if mm.startswith(('PyTough.', 'Drv.')):
                todo.append(mm)
    return list(seen.values())


def forbidden_tokens(roots=None):
    """forbidden tokens in the files the property depends on (comments and strings stripped)"""
    hits = []
    if roots:
        files = import_closure(roots)
    else:
        files = list((LEAN / 'PyTough').rglob('*.lean')) + list((LEAN / 'Drv').rglob('*.lean'))
    for f in files:
        src = strip_lean_comments(f.read_text())
        # string literals may legitimately mention words; drop them
        src = re.sub(r'"(\\.|[^"\\])*"', '""', src)
        for m in FORBIDDEN.finditer(src):
            hits.append('%s: %s' % (f.relative_to(LEAN), m.group(0).strip()))
    return hits


def run_driver(exe, lines, timeout=3000):
    """feed request lines to the compiled Lean driver, return reply lines"""
    path = LEAN / '.lake' / 'build' / 'bin' / exe
    data = '\n'.join(lines) + '\n'
    p = subprocess.run([str(path)], input=data, capture_output=True, text=True, timeout=timeout)
    if p.returncode != 0:
        raise RuntimeError('driver %s failed: %s' % (exe, p.stderr[-500:]))
    out = p.stdout.split('\n')
    if out and out[-1] == '':
        out.pop()
    if len(out) != len(lines):
        raise RuntimeError('driver %s: %d replies for %d requests' % (exe, len(out), len(lines)))
    return out


def hexs(s):
    return s.encode('latin-1').hex()


# --------------------------------------------------------------------------- findings, replay, evidence

def load_known():
    if KNOWN.exists():
        return json.loads(KNOWN.read_text())
    return {'findings': []}


def known_keys(prop):
    """key -> what, for findings with status 'known' (fixed entries suppress nothing)"""
    return {f['key']: f.get('what', '') for f in load_known()['findings']
            if f['property'] == prop and f.get('status') == 'known'}


def write_replay(prop, payload):
    REPLAYS.mkdir(exist_ok=True)
    blob = json.dumps(payload, sort_keys=True, default=str)
    h = hashlib.sha256(blob.encode()).hexdigest()[:12]
    p = REPLAYS / ('%s-%s.json' % (prop, h))
    p.write_text(json.dumps(payload, indent=1, sort_keys=True, default=str))
    return p


def write_evidence(prop, ctx, res, lean_info, n_viol, extra=None):
    EVID.mkdir(exist_ok=True)
    obligations = lean_info['obligations']
    cov = {
        'obligations': len(obligations),
        'discharged': sum(1 for o in obligations if o['ok']),
        'obligation_list': obligations,
        'checker_cmd': lean_info['checker_cmd'],
        'trusted_base': lean_info['trusted_base'],
        'axioms': lean_info.get('axioms', {}),
        'evaluations': res.evaluations,
        'distinct_nontrivial': len(res.distinct),
        'rule': res.rule,
        'samples': res.samples or ['(no case was run)'],
        'facets': res.facets,
        'input_distribution': res.stats,
        'hypotheses_met': res.hyp,
        'unstable_discarded': res.unstable,
        'disagreements_checked': len(res.disagreements),
        'broken': ctx.broken,
        'notes': ctx.notes,
        'exhaustive': False,
    }
    if extra:
        cov.update(extra)
    ev = {
        'property_id': prop, 'tier': ctx.tier, 'seed': ctx.seed, 'level': 'proof',
        'coverage': cov,
        'assumptions': lean_info.get('assumptions', []),
        'wall_s': round(ctx.elapsed(), 2),
        'violations': n_viol,
    }
    (EVID / ('%s.json' % prop)).write_text(json.dumps(ev, indent=1, default=str))


TRUSTED_BASE_COMMON = [
    'Lean 4.33.0 kernel (leanchecker re-check in the thorough tier)',
    'axioms allowed: propext, Classical.choice, Quot.sound (audited by #print axioms every run); no native_decide / bv_decide / sorry / own axioms',
    'the statements in lean/PyTough/Props/*.lean and the hand-written models in lean/PyTough/Model (tied to /repo by the correspondence facets, not proved equal to the Python)',
    'the translators in harness/translate (tables dumped from the imported modules / AST of the current /repo tree)',
    'the harness, canonicalisers and oracles in harness/',
    'CPython semantics assumed: float()/% conversions correctly rounded (A-float), dict insertion order',
]
