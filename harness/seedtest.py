#!/venv/bin/python
"""Evaluate a seeded change against the checks.

  seedtest.py <seed-dir> <Cxx> [--keep-as <name>] [--checks C01,C02]

<seed-dir> holds patch.diff and demo.py (demo.py <repo> exits 0/PASS on a tree where the
property holds and 1/FAIL where it is broken).  The patch is applied in a scratch worktree of
/repo under /tmp (never in /repo itself), then:
  1. the pinned test-suite must give the same passed set as on the clean tree,
  2. demo.py must PASS on the clean tree and FAIL on the patched tree,
  3. the check(s) are run with PYTOUGH_REPO pointing at the patched tree.
With --keep-as the directory is copied to /verif/seeded/<name>/ together with meta.json.
The worktree is always removed.
"""
import sys, os, json, subprocess, shutil, argparse, tempfile, re, time
from pathlib import Path

VERIF = Path(__file__).resolve().parents[1]
PY = '/venv/bin/python'


def sh(cmd, **kw):
    return subprocess.run(cmd, shell=True, capture_output=True, text=True, **kw)


def passed_tests(tree):
    p = sh('cd %s && %s -m pytest -q -rA -p no:cacheprovider --timeout=900 --continue-on-collection-errors tests 2>&1' % (tree, PY))
    return sorted(set(re.findall(r'^PASSED (\S+)', p.stdout, re.M))), p.stdout[-300:]


def main():
    ap = argparse.ArgumentParser()
    ap.add_argument('seed_dir'); ap.add_argument('prop')
    ap.add_argument('--keep-as'); ap.add_argument('--checks'); ap.add_argument('--tier', default='quick')
    a = ap.parse_args()
    sd = Path(a.seed_dir)
    props = (a.checks.split(',') if a.checks else [a.prop])
    wt = Path(tempfile.mkdtemp(prefix='wt-seed-'))
    wt.rmdir()
    meta = {'property': a.prop, 'checks_run': props, 'at': time.strftime('%Y-%m-%dT%H:%M:%SZ', time.gmtime())}
    try:
        r = sh('git -C /repo worktree add --detach %s HEAD' % wt)
        assert r.returncode == 0, r.stderr
        meta['repo_head'] = sh('git -C /repo rev-parse --short HEAD').stdout.strip()
        base, _ = passed_tests(wt)
        demo_clean = sh('%s %s %s' % (PY, sd / 'demo.py', wt), timeout=600)
        r = sh('git -C %s apply %s' % (wt, (sd / 'patch.diff').resolve()))
        if r.returncode != 0:
            meta['error'] = 'patch does not apply: ' + r.stderr[-300:]
            print(json.dumps(meta, indent=1)); return 2
        mut, tail = passed_tests(wt)
        demo_mut = sh('%s %s %s' % (PY, sd / 'demo.py', wt), timeout=600)
        meta['tests_same_passed_set'] = (base == mut)
        meta['tests_passed'] = len(mut)
        meta['demo_clean_exit'] = demo_clean.returncode
        meta['demo_patched_exit'] = demo_mut.returncode
        meta['demo_patched_output'] = (demo_mut.stdout + demo_mut.stderr)[-400:]
        meta['valid_seed'] = (base == mut) and demo_clean.returncode == 0 and demo_mut.returncode == 1
        meta['verdicts'] = {}
        for p in props:
            env = dict(os.environ, PYTOUGH_REPO=str(wt), PTV_EVIDENCE_DIR=str(wt) + '-evidence')
            t0 = time.time()
            c = subprocess.run([PY, str(VERIF / 'harness' / 'check.py'), p, '--tier', a.tier], cwd=VERIF, env=env,
                               capture_output=True, text=True, timeout=7200)
            lines = [l for l in c.stdout.splitlines() if l.startswith(('VIOLATION', 'FAILS', 'BROKEN', 'KNOWN'))]
            meta['verdicts'][p] = {'exit': c.returncode, 'detected': c.returncode == 1 and any(l.startswith('VIOLATION') for l in lines),
                                   'with_input': any(l.startswith('VIOLATION') and 'no-failing-input-found' not in l for l in lines),
                                   'lines': lines[:6], 'wall_s': round(time.time() - t0, 1)}
        print(json.dumps(meta, indent=1))
    finally:
        sh('git -C /repo worktree remove --force %s' % wt)
        shutil.rmtree(wt, ignore_errors=True)
        shutil.rmtree(str(wt) + '-evidence', ignore_errors=True)
        # a run against a scratch tree may have regenerated lean/PyTough/Gen: restore from /repo
        for p in props:
            subprocess.run([PY, '-c', 'import sys; sys.path.insert(0, %r); import core, importlib; m = importlib.import_module("props.%s"); '
                            'c = core.Ctx(%r, "quick", 0); getattr(m, "translate", lambda c: None)(c); c.cleanup()'
                            % (str(VERIF / 'harness'), p.lower(), p)], cwd=VERIF, capture_output=True)
    if a.keep_as:
        dst = VERIF / 'seeded' / a.keep_as
        dst.mkdir(parents=True, exist_ok=True)
        for f in sd.iterdir():
            if f.is_file() and f.resolve() != (dst / f.name).resolve():
                shutil.copy(f, dst / f.name)
        (dst / 'meta.json').write_text(json.dumps(meta, indent=1))
    return 0


if __name__ == '__main__':
    sys.exit(main())
