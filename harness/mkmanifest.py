#!/venv/bin/python
"""Regenerates /verif/MANIFEST.json from the property modules in harness/props/.

A property is claimed iff harness/props/cNN.py exists and sets CLAIMED = True
(default True); every other property of properties.jsonl goes to not_applicable
with the module's NOT_CLAIMED_REASON or 'machinery not built yet'.
"""
import json, sys, importlib
from pathlib import Path
HERE = Path(__file__).resolve().parent
VERIF = HERE.parent
sys.path.insert(0, str(HERE))

PY = '/venv/bin/python'
props = [json.loads(l) for l in (VERIF / 'properties.jsonl').read_text().splitlines() if l.strip()]
checks, na = [], []
for p in props:
    pid = p['id']
    modfile = HERE / 'props' / ('%s.py' % pid.lower())
    mod = None
    if modfile.exists():
        mod = importlib.import_module('props.%s' % pid.lower())
    claimed_list = [l.split('#')[0].strip() for l in (HERE / 'claimed.txt').read_text().splitlines()]
    if pid not in claimed_list:
        mod = None if mod is None else mod
        na.append({'property_id': pid, 'reason': 'machinery for this property is still being built / validated (see DESIGN.md section 3 for the plan); nothing is claimed yet'})
        continue
    if mod is None or not getattr(mod, 'CLAIMED', True):
        na.append({'property_id': pid,
                   'reason': getattr(mod, 'NOT_CLAIMED_REASON', 'machinery for this property is not built yet (see DESIGN.md section 3 for the plan); nothing is claimed') if mod else
                             'machinery for this property is not built yet (see DESIGN.md section 3 for the plan); nothing is claimed'})
        continue
    checks.append({
        'property_id': pid,
        'quick_cmd': '%s harness/check.py %s --tier quick' % (PY, pid),
        'thorough_cmd': '%s harness/check.py %s --tier thorough' % (PY, pid),
        'evidence_file': 'evidence/%s.json' % pid,
        'replay_cmd_template': '%s harness/check.py %s --replay {path}' % (PY, pid),
        'engine': 'lean4-proof+correspondence',
        'level_claimed': {
            'category': 'proof',
            'text': getattr(mod, 'LEVEL_TEXT', mod.__doc__ or ''),
            'design_ref': 'DESIGN.md section 3, %s' % pid,
        },
        'level_note': getattr(mod, 'LEVEL_NOTE', 'Trusted: Lean kernel; axioms propext/Classical.choice/Quot.sound only; the hand-written model (tied to /repo by the correspondence run on every check); harness oracles; CPython float()/% correctly rounded.'),
        'technique': getattr(mod, 'TECHNIQUE', 'Lean 4 theorems about an executable model + model/implementation correspondence check + oracle search'),
    })

manifest = {
    'version': 1,
    'setup_cmd': '/venv/bin/python harness/setup.py',
    'hooks': {
        'guard': 'PYTOUGH_VERIF',
        'enable': 'no source hooks are needed: the harness imports /repo modules in-process (env PYTOUGH_VERIF=1 is set by the harness but nothing in /repo reads it)',
        'baseline_off_cmd': 'cd /repo && /venv/bin/python -m pytest -ra -q -p no:cacheprovider --timeout=900 --continue-on-collection-errors',
        'source_commits': [],
        'add_only': True,
    },
    'engines': [
        {'name': 'lean4-proof+correspondence', 'path': 'lean/ + harness/',
         'serves_properties': [c['property_id'] for c in checks],
         'kind_free_text': 'Lean 4 models (lean/PyTough/Model), property theorems (lean/PyTough/Props), translators regenerating lean/PyTough/Gen from /repo, compiled Lean drivers (lean/Drv) driven over a line protocol by harness/props/*.py against the real code imported from /repo, and direct property oracles for failing-input search'},
    ],
    'checks': checks,
    'not_applicable': na,
    'notes': 'Repairs of genuine defects are unguarded "fix:" commits in /repo, listed in known_findings.json (status fixed) with their reverse patches under seeded/fix-*. Exit 2 = machinery failure (never a verdict).',
}
(VERIF / 'MANIFEST.json').write_text(json.dumps(manifest, indent=1) + '\n')
print('MANIFEST.json: %d checks, %d not_applicable' % (len(checks), len(na)))
