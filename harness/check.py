#!/venv/bin/python
"""Entry point of every check:  check.py <Cxx> --tier quick|thorough [--replay path]

exit 0  property held on everything explored (known findings are printed, not counted)
exit 1  + line 'VIOLATION property=<id> replay=<path>[ no-failing-input-found]'
exit 2  the machinery itself failed (never a VIOLATION line)
"""
import os, sys, json, time, argparse, importlib, traceback
from pathlib import Path
sys.path.insert(0, str(Path(__file__).resolve().parent))
import core


def main():
    ap = argparse.ArgumentParser()
    ap.add_argument('prop')
    ap.add_argument('--tier', default=os.environ.get('VERIF_TIER', 'quick'), choices=['quick', 'thorough'])
    ap.add_argument('--replay')
    ap.add_argument('--no-build', action='store_true', help='(development) skip translate/build/audit')
    a = ap.parse_args()
    prop = a.prop.upper()
    seed = int(os.environ.get('VERIF_SEED', '0') or 0)
    ctx = core.Ctx(prop, a.tier, seed)
    try:
        mod = importlib.import_module('props.%s' % prop.lower())
        if a.replay:
            return do_replay(ctx, mod, a.replay)
        return do_check(ctx, mod, a.no_build)
    except SystemExit:
        raise
    except Exception:
        traceback.print_exc()
        print('INTERNAL-ERROR property=%s (machinery failure, not a verdict)' % prop)
        return 2
    finally:
        ctx.cleanup()


def do_replay(ctx, mod, path):
    payload = json.loads(Path(path).read_text())
    violated, text = mod.replay(ctx, payload)
    print(text)
    if violated:
        print('VIOLATION property=%s replay=%s' % (ctx.prop, path))
        return 1
    print('replay: property holds on this case')
    return 0


def do_check(ctx, mod, no_build=False):
    prop = ctx.prop
    obligations = []
    axioms = {}
    checker_cmd = 'cd lean && lake build %s && lake env lean <#print axioms %s.*>' % (' '.join(mod.TARGETS), mod.MODULE)

    # 1. translate
    if hasattr(mod, 'translate') and not no_build:
        try:
            mod.translate(ctx)
            obligations.append({'name': 'translate(/repo -> Gen/*.lean)', 'kind': 'translator', 'ok': True})
        except Exception as e:
            ctx.broken.append('translator: %s' % (str(e)[:200],))
            ctx.notes.append(traceback.format_exc()[-800:])
            obligations.append({'name': 'translate(/repo -> Gen/*.lean)', 'kind': 'translator', 'ok': False})
            ctx.model_ok = False

    # 2. build
    built = True
    if not no_build:
        ok, out = core.lake_build(mod.TARGETS)
        if not ok:
            built = False
            names = core.failed_decls(out)
            ctx.broken.append('lake build failed: ' + '; '.join(names[:6]))
            ctx.notes.append(out[-1500:])
            # the property theorems may be broken while the model + driver still build
            drv = [t for t in mod.TARGETS if t.startswith('drv_')]
            ok2, out2 = core.lake_build(drv) if drv else (False, '')
            ctx.model_ok = ok2 and ctx.model_ok
    # 3. audit
    if built and not no_build:
        ok, axioms, problems = core.audit_axioms(mod.MODULE, mod.THEOREMS, prop)
        for t in mod.THEOREMS:
            good = t in axioms and all(x in core.ALLOWED_AXIOMS for x in axioms[t])
            obligations.append({'name': t, 'kind': 'theorem', 'ok': good, 'axioms': axioms.get(t)})
        if not ok:
            ctx.broken += ['audit: ' + p for p in problems]
        if ctx.tier == 'thorough':
            # independent re-check of the compiled proofs
            import subprocess
            with core._Lock():
                lc = subprocess.run(['lake', 'env', 'leanchecker', mod.MODULE], cwd=core.LEAN, capture_output=True, text=True, timeout=3000)
            obligations.append({'name': 'leanchecker %s' % mod.MODULE, 'kind': 'audit', 'ok': lc.returncode == 0})
            if lc.returncode != 0:
                ctx.broken.append('leanchecker rejected %s: %s' % (mod.MODULE, (lc.stdout + lc.stderr)[-200:]))
        roots = [mod.MODULE] + ['Drv.' + t[4:].upper() for t in mod.TARGETS if t.startswith('drv_')]
        hits = core.forbidden_tokens(roots)
        obligations.append({'name': 'forbidden-token grep (sorry/admit/axiom/native_decide/...)', 'kind': 'audit', 'ok': not hits})
        if hits:
            ctx.broken += ['forbidden token: ' + h for h in hits[:5]]
    else:
        for t in mod.THEOREMS:
            obligations.append({'name': t, 'kind': 'theorem', 'ok': bool(no_build)})

    # 4+5. correspondence and oracle
    try:
        res = mod.run(ctx)
    except Exception as e:
        # An exception that escapes run() is a failure of the machinery (exit 2) - unless it was raised INSIDE the code under
        # test, at a place where the harness did not expect that code to raise: then the tie between model and code is what
        # broke (the run could not be completed against this tree), which is handled like any other broken tie: failing-input
        # search with the oracle alone, and a violation naming the exception if the search finds nothing.
        frames = [f for f in traceback.extract_tb(e.__traceback__) if str(f.filename).startswith(str(core.REPO) + os.sep)]
        if not frames:
            raise
        last = frames[-1]
        ctx.broken.append('run() aborted: %s raised inside the code under test at %s:%d in %s (%s)' % (
            type(e).__name__, os.path.basename(last.filename), last.lineno, last.name, str(e)[:120]))
        ctx.notes.append(traceback.format_exc()[-1500:])
        res = core.Result()
        res.rule = 'run aborted by an exception of the code under test; see notes'
    for name, f in res.facets.items():
        bad = f.get('disagreements', 0)
        obligations.append({'name': 'correspondence facet %s' % name, 'kind': 'correspondence',
                            'ok': bad == 0 and ctx.model_ok, 'cases': f.get('cases', 0)})
        if bad:
            ctx.broken.append('correspondence facet %s: %d disagreement(s)' % (name, bad))

    # 6. verdict
    known = core.known_keys(prop)
    printed_known = set()
    new_viol = []
    for v in res.violations:
        if v['key'] in known:
            if v['key'] not in printed_known:
                printed_known.add(v['key'])
                print('KNOWN-FINDING: property=%s %s' % (prop, known[v['key']] or v['what']))
        else:
            new_viol.append(v)

    status = 0
    if not new_viol and ctx.broken:
        # something that ties the theorems to the code no longer checks: search for a concrete failing input
        budget = ctx.n(30, 300)
        found = []
        if hasattr(mod, 'search'):
            try:
                found = [v for v in mod.search(ctx, budget, res) if v['key'] not in known]
            except Exception:
                ctx.notes.append('search failed: ' + traceback.format_exc()[-500:])
        new_viol = found
        if not found:
            payload = {'property': prop, 'kind': 'unproved', 'no_failing_input_found': True,
                       'broken': ctx.broken, 'disagreements': res.disagreements[:5], 'notes': ctx.notes[-3:],
                       'seed': ctx.seed, 'tier': ctx.tier}
            p = core.write_replay(prop, payload)
            print('BROKEN: ' + ' | '.join(ctx.broken[:6]))
            print('VIOLATION property=%s replay=%s no-failing-input-found' % (prop, p))
            status = 1
    if new_viol:
        seen = set()
        for v in new_viol:
            if v['key'] in seen:
                continue
            seen.add(v['key'])
            payload = {'property': prop, 'kind': 'counterexample', 'key': v['key'], 'what': v['what'],
                       'case': v['case'], 'broken': ctx.broken, 'seed': ctx.seed, 'tier': ctx.tier}
            p = core.write_replay(prop, payload)
            print('FAILS: %s' % v['what'])
            print('VIOLATION property=%s replay=%s' % (prop, p))
            if len(seen) >= 5:
                break
        status = 1

    lean_info = {
        'obligations': obligations,
        'checker_cmd': checker_cmd,
        'trusted_base': core.TRUSTED_BASE_COMMON + list(getattr(mod, 'TRUSTED_EXTRA', [])),
        'assumptions': list(getattr(mod, 'ASSUMPTIONS', [])),
        'axioms': axioms,
    }
    extra = dict(getattr(mod, 'EVIDENCE_EXTRA', {}))
    extra['known_findings_seen'] = sorted(printed_known)
    if hasattr(res, 'exhaustive'):
        extra['exhaustive'] = bool(res.exhaustive)
    core.write_evidence(prop, ctx, res, lean_info, len(new_viol) if status else 0, extra)
    print('%s %s: %d obligations (%d discharged), %d cases, %d distinct non-trivial, %d disagreements, %d violation(s), %.1fs'
          % (prop, ctx.tier, len(obligations), sum(1 for o in obligations if o['ok']), res.evaluations,
             len(res.distinct), len(res.disagreements), len(new_viol) if status else 0, ctx.elapsed()))
    return status


if __name__ == '__main__':
    sys.exit(main())
