#!/venv/bin/python
"""sweep.py C14 C15 ... [--seeds 0,1,2] [--tier quick]: run checks, one summary line each."""
import sys, os, subprocess, time, argparse
from pathlib import Path
V = Path(__file__).resolve().parents[1]
ap = argparse.ArgumentParser(); ap.add_argument('props', nargs='+'); ap.add_argument('--seeds', default='0'); ap.add_argument('--tier', default='quick')
a = ap.parse_args()
bad = 0
for p in a.props:
    for s in a.seeds.split(','):
        t0 = time.time()
        r = subprocess.run(['/venv/bin/python', str(V / 'harness/check.py'), p, '--tier', a.tier], cwd=V, env=dict(os.environ, VERIF_SEED=s), capture_output=True, text=True)
        out = r.stdout.splitlines()
        viol = [l for l in out if l.startswith('VIOLATION')]
        known = len([l for l in out if l.startswith('KNOWN')])
        last = out[-1][:150] if out else r.stderr[-200:]
        print('%s seed=%s rc=%d %4.0fs viol=%d known=%d :: %s' % (p, s, r.returncode, time.time() - t0, len(viol), known, last), flush=True)
        if r.returncode != 0:
            bad += 1
            for l in out:
                if l.startswith(('FAILS', 'BROKEN', 'INTERNAL')): print('    ' + l[:300])
            if r.returncode == 2: print('    ' + r.stderr[-600:].replace('\n', '\n    '))
sys.exit(1 if bad else 0)
