#!/venv/bin/python
"""MANIFEST.setup_cmd: build the Lean development from files on disk (offline).

Builds everything in one `lake build`; if that fails, falls back to building each claimed
property's targets separately so that one broken module cannot take the others down.
Always exits 0 when at least the shared library modules build: each check rebuilds what it
needs itself and reports its own breakage.
"""
import sys, json, importlib, subprocess
from pathlib import Path
HERE = Path(__file__).resolve().parent
sys.path.insert(0, str(HERE))
import core

ok, out = core.lake_build([])
print(out[-2000:])
if ok:
    print('setup: full build ok')
    sys.exit(0)
print('setup: full build failed; building per property')
man = json.loads((core.VERIF / 'MANIFEST.json').read_text())
bad = []
for c in man['checks']:
    pid = c['property_id']
    mod = importlib.import_module('props.%s' % pid.lower())
    ok, out = core.lake_build(mod.TARGETS)
    print('setup: %s %s' % (pid, 'ok' if ok else 'FAILED'))
    if not ok:
        bad.append(pid)
        print(out[-1500:])
sys.exit(0)
