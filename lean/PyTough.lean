import PyTough.Py.Str
import PyTough.Py.Num
import PyTough.Py.Proto
import PyTough.Model.Fortran
