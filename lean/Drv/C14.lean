-- driver stub (replaced when the model for C14 is built)
def main : IO Unit := pure ()
