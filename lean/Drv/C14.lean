/-
  Driver for C14: runs the generated IAPWS-97 definitions over `Float` (bit patterns in, bit
  patterns out) and the hand model of `power_array`.
-/
import PyTough.Gen.Iapws
import PyTough.Py.Proto
open Model.Thermo Gen.Iapws

def fx := floatOfHex

def handle : List String → String
  | ["cowat", t, p] => showRet (cowat (fx t) (fx p))
  | ["supst", t, p] => showRet (supst (fx t) (fx p))
  | ["super", d, t] => showRet (super_ (fx d) (fx t))
  | ["sat", t] => showRet (sat (fx t))
  | ["tsat", p] => showRet (tsat (fx p))
  | ["visc", d, t] => showRet (visc (fx d) (fx t))
  | ["b23p", t] => showRet (b23p (fx t))
  | ["b23t", p] => showRet (b23t (fx p))
  | ["region", t, p] => showRet (region (fx t) (fx p))
  | ["parr", v, ch] => " ".intercalate ((powerArray (fx v) (parseChain ch)).map hexOfFloat)
  | ["fma", a, b, c] => hexOfFloat (fmaExact (fx a) (fx b) (fx c))
  | ["chainwf", ch] => if chainWF (parseChain ch) then "true" else "false"
  | _ => "bad-op"

def main : IO Unit := Py.serve handle
