/-
  Driver for C12 (point and line location).  Stateful line protocol: a `geo` line installs the
  current geometry, a `qt` line builds and installs a quadtree, the other lines are queries.
  Rationals are `num/den` (or an integer); a reply never contains a float.
-/
import PyTough.Model.Locate
import PyTough.Model.Track
open Model.Locate

abbrev P := StateT (List String) Option

def tok : P String := fun s => match s with | [] => none | t :: r => some (t, r)

def parseInt (s : String) : Option Int :=
  match s.toList with
  | '-' :: r => (String.ofList r).toNat?.map fun n => -(n : Int)
  | _ => s.toNat?.map fun n => (n : Int)

def parseRat (s : String) : Option Rat :=
  match s.splitOn "/" with
  | [a] => (parseInt a).map fun n => (n : Rat)
  | [a, b] => do
    let n ← parseInt a
    let d ← b.toNat?
    if d = 0 then none else some (mkRat n d)
  | _ => none

def rat : P Rat := do let t ← tok; (parseRat t : Option Rat)
def nat : P Nat := do let t ← tok; (t.toNat? : Option Nat)
def pt : P Pt := do let x ← rat; let y ← rat; pure (x, y)
def many {α} (p : P α) : Nat → P (List α)
  | 0 => pure []
  | n + 1 => do let a ← p; let r ← many p n; pure (a :: r)
def counted {α} (p : P α) : P (List α) := do let n ← nat; many p n
/-- `-` for None, otherwise the value -/
def opt {α} (p : P α) : P (Option α) := fun s =>
  match s with
  | "-" :: r => some (none, r)
  | _ => (p s).map fun (a, r) => (some a, r)

def column : P Column := do
  let poly ← counted pt
  let c ← pt
  let s ← rat
  let nb ← counted nat
  pure { poly := poly, centre := c, surface := s, nbrs := nb }

def layer : P Layer := do let b ← rat; let t ← rat; pure { bottom := b, top := t }

def geoP : P Geo := do
  let cols ← counted column
  let lays ← counted layer
  pure { cols := cols, layers := lays }

def showRat (r : Rat) : String := if r.den = 1 then s!"{r.num}" else s!"{r.num}/{r.den}"
def showPt (p : Pt) : String := showRat p.1 ++ "," ++ showRat p.2
def showRect (r : Rect) : String := showPt r.1 ++ "," ++ showPt r.2
def showNats (l : List Nat) : String := ",".intercalate (l.map toString)
def showOptNat : Option Nat → String | none => "none" | some n => toString n

partial def dumpQ (gen : Nat) : QTree → List String
  | .node b e ch => s!"{gen}:{showRect b}:{showNats e}" :: (ch.map (dumpQ (gen + 1))).flatten

structure St where
  geo : Geo := { cols := [], layers := [] }
  qt : Option QT := none

def run {α} (p : P α) (args : List String) : Option α :=
  match p args with
  | some (a, []) => some a
  | _ => none

def showTrack (t : Model.Track.TrackOut) : String :=
  match t with
  | .unstable why => "unstable " ++ why
  | .ok segs => "ok " ++ " ".intercalate (segs.map fun s => s!"{s.col}:{showPt s.pin}:{showPt s.pout}")

def handle (st : St) : List String → St × String
  | "geo" :: args =>
    match run geoP args with
    | some g => ({ geo := g, qt := none }, "ok")
    | none => (st, "bad-geo")
  | "qt" :: args =>
    match run (do let cs ← opt (counted nat); let a ← pt; let b ← pt; pure (cs, a, b)) args with
    | some (cs, a, b) =>
      let cols := cs.getD (List.range st.geo.ncols)
      match columnQuadtree st.geo (a, b) cols with
      | some q => ({ st with qt := some q }, "ok " ++ " ".intercalate (dumpQ 0 q.root))
      | none => ({ st with qt := none }, "exc RecursionError")
    | none => (st, "bad-qt")
  | "leaf" :: args =>
    match run pt args, st.qt with
    | some p, some q =>
      (st, match q.root.leaf p with
           | some l => s!"{showRect l.bounds}:{showNats l.elements}"
           | none => "none")
    | _, _ => (st, "bad-leaf")
  | "ccp" :: args =>
    match run (do let p ← pt; let cs ← opt (counted nat); let gu ← opt nat; let b ← opt (counted pt); let q ← nat
                  pure (p, cs, gu, b, q)) args with
    | some (p, cs, gu, b, q) =>
      let a : Aids := { columns := cs, guess := gu, bounds := b, qtree := if q = 1 then st.qt else none }
      (st, showOptNat (columnContainingPoint st.geo p a))
    | none => (st, "bad-ccp")
  | "blk" :: args =>
    match run (do let p ← pt; let z ← rat; let q ← nat; pure (p, z, q)) args with
    | some (p, z, q) =>
      (st, match blockContainingPoint st.geo p z (if q = 1 then st.qt else none) with
           | .ok none => "none"
           | .ok (some (li, ci)) => s!"{li} {ci}"
           | .error _ => "exc IndexError")
    | none => (st, "bad-blk")
  | "bcp" :: args =>
    match run (do let li ← nat; let ci ← nat; let p ← pt; let z ← rat; pure (li, ci, p, z)) args with
    | some (li, ci, p, z) => (st, if blockContainsPoint st.geo li ci p z then "1" else "0")
    | none => (st, "bad-bcp")
  | "lce" :: args =>
    match run rat args with
    | some z => (st, showOptNat (layerContainingElevation st.geo z))
    | none => (st, "bad-lce")
  | "trk" :: args =>
    match run (do let a ← pt; let b ← pt; pure (a, b)) args with
    | some (a, b) => (st, showTrack (Model.Track.columnTrack st.geo a b))
    | none => (st, "bad-trk")
  | "trkh" :: args =>
    match run (do let a ← pt; let b ← pt; pure (a, b)) args with
    | some (a, b) =>
      let g := st.geo
      let bit := fun (x : Bool) => if x then "1" else "0"
      let ord := match Model.Track.columnTrack g a b with
                 | .ok segs => bit (Model.Track.orderedB 0 segs)
                 | .unstable _ => "u"
      (st, " ".intercalate ([bit (Model.Track.notInOneB g a b), bit (Model.Track.uniqueAtB g a), bit (Model.Track.uniqueAtB g b),
                             bit (Model.Track.boxSymB g a b), bit (Model.Track.cleanB g a b), bit (Model.Track.revHypB g a b), ord]
                            ++ (Model.Track.trackHypCounts g a b).map toString))
    | none => (st, "bad-trkh")
  -- direct facets of geometry.py
  | "ip" :: args =>
    match run (do let p ← pt; let poly ← counted pt; pure (p, poly)) args with
    | some (_, []) => (st, "exc IndexError")
    | some (p, poly) => (st, toString (inPolygon p poly))
    | none => (st, "bad-ip")
  | "ir" :: args =>
    match run (do let p ← pt; let a ← pt; let b ← pt; pure (p, a, b)) args with
    | some (p, a, b) => (st, if inRectangle p (a, b) then "1" else "0")
    | none => (st, "bad-ir")
  | "ri" :: args =>
    match run (do let a ← pt; let b ← pt; let c ← pt; let d ← pt; pure (a, b, c, d)) args with
    | some (a, b, c, d) => (st, if rectanglesIntersect (a, b) (c, d) then "1" else "0")
    | none => (st, "bad-ri")
  | "sr" :: args =>
    match run (do let a ← pt; let b ← pt; pure (a, b)) args with
    | some (a, b) => (st, " ".intercalate ((subRectangles (a, b)).map showRect))
    | none => (st, "bad-sr")
  | "bp" :: args =>
    match run (counted pt) args with
    | some [] => (st, "exc ValueError")
    | some ps => (st, showRect (boundsOfPoints ps))
    | none => (st, "bad-bp")
  | "lir" :: args =>
    match run (do let a ← pt; let b ← pt; let c ← pt; let d ← pt; pure (a, b, c, d)) args with
    | some (a, b, c, d) => (st, match Model.Track.lineIntersectsRectangle (a, b) c d with
                                 | some true => "1" | some false => "0" | none => "exc")
    | none => (st, "bad-lir")
  | "lpi" :: args =>
    match run (do let a ← pt; let b ← pt; let poly ← counted pt; pure (a, b, poly)) args with
    | some (a, b, poly) => (st, match Model.Track.linePolygonIntersections poly a b with
                                 | .unstable why => "unstable " ++ why
                                 | .ok pts => "ok " ++ " ".intercalate (pts.map showPt))
    | none => (st, "bad-lpi")
  | _ => (st, "bad-op")

partial def loop (i o : IO.FS.Stream) (st : St) : IO Unit := do
  let line ← i.getLine
  if line.isEmpty then return ()
  let ws := (line.trimAscii.toString.splitOn " ").filter (· ≠ "")
  let (st', r) := handle st ws
  o.putStrLn r
  loop i o st'

def main : IO Unit := do
  let i ← IO.getStdin
  let o ← IO.getStdout
  loop i o {}
  o.flush
