-- driver stub (replaced when the model for C12 is built)
def main : IO Unit := pure ()
