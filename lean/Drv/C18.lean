-- driver stub (replaced when the model for C18 is built)
def main : IO Unit := pure ()
