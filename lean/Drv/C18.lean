/-
  Driver for C18: one TOUGH2 grid per request line.

  request   rectgeo <maxvol> <conv> <atm> <left 0|1> <chars> <spaces 0|1> <order> <snap> <remove_inactive 0|1> <origin name|->
                    <nblocks> {<name> <volume> <cx> <cy> <cz> | <name> <volume> -}*
                    <nconns>  {<b0> <b1> <dirn> <d0> <d1>}*
  names are `x` + hex; rationals `num/den` or integers.

  reply     exc <E>
          | ok O <origin block> S <n1> {dx}* <n2> {dy}* <n3> {dz}*
               R <exact 0|1> <cos> <sin>
               L <n> {<name> <bottom> <centre> <top>}*
               C <n> {<name> <cx> <cy> <surface> <area> <k> {<x> <y>}*}*
               N <n> {<name>}*                       (block_name_list of the reconstructed geometry)
               M <n> {<key> <value>}*                (block map)
               F <5 bits>                            (model fromgeo(geo, map) vs the original grid: block names,
                                                      volumes, connection names, directions, distances; 1e-9)
               H <3 bits>                            (isLine holds on the spacing tracks in directions 1, 2, 3)
          | bad <msg>
-/
import PyTough.Model.RectGeo
import PyTough.Py.Proto
open Py Model.FromGeo Model.RectGeo

namespace DrvC18

abbrev P := StateT (List String) (Except String)

def tok : P String := do
  match (← get) with
  | [] => throw "eof"
  | t :: r => set r; pure t

def pNat : P Nat := do
  let t ← tok
  match t.toNat? with
  | some n => pure n
  | none => throw s!"nat {t}"

def parseRat (t : String) : Option Rat :=
  match t.splitOn "/" with
  | [a] => a.toInt?.map (fun (i : Int) => (i : Rat))
  | [a, b] => match a.toInt?, b.toNat? with
    | some i, some d => if d = 0 then none else some (mkRat i d)
    | _, _ => none
  | _ => none

def pRat : P Rat := do
  let t ← tok
  match parseRat t with
  | some q => pure q
  | none => throw s!"rat {t}"

def nameOf (t : String) : Option Str :=
  match t.toList with
  | 'x' :: h => some (ofHex (String.ofList h))
  | _ => none

def pName : P Str := do
  let t ← tok
  match nameOf t with
  | some n => pure n
  | none => throw s!"name {t}"

def pMany {α} (p : P α) : Nat → P (List α)
  | 0 => pure []
  | n + 1 => do
    let a ← p
    let r ← pMany p n
    pure (a :: r)

def pBlock : P GBlock := do
  let n ← pName
  let v ← pRat
  let t ← tok
  if t = "-" then pure ⟨n, v, none⟩ else
  match parseRat t with
  | none => throw s!"rat {t}"
  | some x =>
    let y ← pRat
    let z ← pRat
    pure ⟨n, v, some ⟨x, y, z⟩⟩

def pConn : P GConn := do
  let a ← pName
  let b ← pName
  let d ← pNat
  let d0 ← pRat
  let d1 ← pRat
  pure ⟨a, b, d, d0, d1⟩

def pReq : P (TGrid × Params) := do
  let mv ← pRat
  let conv ← pNat
  let atm ← pNat
  let left ← pNat
  let chars ← pName
  let spaces ← pNat
  let order ← pNat
  let snap ← pRat
  let rem ← pNat
  let ot ← tok
  let nb ← pNat
  let blocks ← pMany pBlock nb
  let nc ← pNat
  let conns ← pMany pConn nc
  pure (⟨blocks, conns⟩, ⟨mv, ⟨conv, atm, left = 1, chars, spaces = 1, order⟩, snap, rem = 1, nameOf ot⟩)

def showRat (q : Rat) : String := if q.den = 1 then s!"{q.num}" else s!"{q.num}/{q.den}"
def showName (s : Str) : String := "x" ++ toHex s
def showList (l : List Rat) : String := s!"{l.length} " ++ " ".intercalate (l.map showRat)

/-- `‖Δ‖`: exact when `‖Δ‖²` is a perfect square, else to about 10⁻³⁰ relative -/
def normOf (d : P2) : Rat × Bool :=
  let q := d.x * d.x + d.y * d.y
  match ratSqrt? q with
  | some r => (r, true)
  | none =>
    -- sqrt(n/d) = sqrt(n*d)/d, scaled by 10^60 under the root
    let n := q.num.toNat * q.den
    let s := isqrt (n * 10 ^ 60)
    (mkRat s (q.den * 10 ^ 30), false)

def showLayer (l : Layer) : String := s!"{showName l.name} {showRat l.bottom} {showRat l.centre} {showRat l.top}"
def showColumn (c : Column) : String :=
  s!"{showName c.name} {showRat c.centre.x} {showRat c.centre.y} {showRat c.surface} {showRat c.area} {c.nodes.length} " ++
  " ".intercalate (c.nodes.map fun p => s!"{showRat p.x} {showRat p.y}")

def absQ (q : Rat) : Rat := if q < 0 then -q else q
/-- `|a - b| ≤ 10⁻⁹ max(|a|, |b|)` -/
def closeQ (a b : Rat) : Bool :=
  decide (absQ (a - b) ≤ mkRat 1 1000000000 * (if absQ a < absQ b then absQ b else absQ a))

/-- comparison (to 10⁻⁹ relative) of the grid regenerated *by the model* — `fromgeo (rectgeo T)` with
    the returned block map — with the original grid: block names and order, volumes of the blocks
    that are not boundary blocks, connection names and order, directions, distances (squared).
    One character per clause. -/
def regenerated (T : TGrid) (maxVol : Rat) (g : Geo) (mp : BlockMap) : String :=
  match fromgeo g mp with
  | .error _ => "0e"
  | .ok t =>
    let b (x : Bool) : String := if x then "1" else "0"
    let boundary := (T.blocks.filter (fun x => !(volOk (some maxVol) x))).map (·.name)
    b (t.blocks.map (·.name) == T.blocks.map (·.name)) ++
    b ((t.blocks.zip T.blocks).all (fun (a, b) =>
      !(volOk (some maxVol) b) || (match a.volume with | some v => closeQ v b.volume | none => false))) ++
    b (t.conns.map TConn.names == T.conns.map (fun c => (c.b0, c.b1))) ++
    b ((t.conns.zip T.conns).all (fun (a, b) => a.dirn == b.dirn)) ++
    b ((t.conns.zip T.conns).all (fun (a, b) =>
      closeQ (a.d0.coef * a.d0.coef * a.d0.rad) (b.d0 * b.d0) &&
      (closeQ (a.d1.coef * a.d1.coef * a.d1.rad) (b.d1 * b.d1) || boundary.contains a.b1)))

/-- hypothesis of `direction_track_sizes` on the three spacing tracks of this grid -/
def lineBits (T : TGrid) (p : Params) (ob : GBlock) : String :=
  let b (x : Bool) : String := if x then "1" else "0"
  let one (start : GBlock) (k : Nat) : Bool :=
    let steps := stepsFrom T k (some p.maxVol) (T.blocks.length + 1) start none
    volOk (some p.maxVol) start && decide (steps.length ≤ T.blocks.length) && isLine T k (some p.maxVol) none none start steps
  b (one ob 1) ++ b (one ob 2) ++ (match topmostBlock T (some p.maxVol) with
    | .ok tb => b (one tb 3)
    | .error _ => "0")

def handleRectgeo (T : TGrid) (p : Params) : String :=
  match stage1 T p with
  | .error e => "exc " ++ e.toString
  | .ok s =>
    let (nrm, exact) := normOf s.delta
    match stage2 T p s nrm with
    | .error e => "exc " ++ e.toString
    | .ok (g, mp) =>
      let cs := cosSin s.delta s.second nrm
      s!"ok O {showName s.ob.name} S {showList s.spacings.1} {showList s.spacings.2.1} {showList s.spacings.2.2}" ++
      s!" R {if exact then 1 else 0} {showRat cs.x} {showRat cs.y}" ++
      s!" L {g.layerlist.length} " ++ " ".intercalate (g.layerlist.map showLayer) ++
      s!" C {g.columns.length} " ++ " ".intercalate (g.columns.map showColumn) ++
      s!" N {g.blockNames.length} " ++ " ".intercalate (g.blockNames.map showName) ++
      s!" M {mp.length} " ++ " ".intercalate (mp.map fun kv => showName kv.1 ++ " " ++ showName kv.2) ++
      " F " ++ regenerated T p.maxVol g mp ++ " H " ++ lineBits T p s.ob

def handle : List String → String
  | "rectgeo" :: rest =>
    match (pReq.run rest) with
    | .ok ((t, p), []) => handleRectgeo t p
    | .ok (_, _) => "bad trailing"
    | .error e => "bad " ++ e
  | _ => "bad-op"

end DrvC18

def main : IO Unit := serve DrvC18.handle
