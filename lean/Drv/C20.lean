/-
  Driver for C20: one request per line.

    conv <T2> <nops> <op>...      run operations on a data object; reply `ok <T2>` or
                                  `exc <Name> <index of the failing op> <T2 reached>`
    eos  <arg> <dict> <sim> <n>   eos_json          → `ok s<hex> <0|1>` | `exc <Name>`
    rocks <LS> <LS> <nAtm> <blocks> <atmos>         → `ok <n> (<k> i.. )*` | `exc <Name>`
    bdy  <blocks> <atmos>                           → `ok <LS>`
    faces <LS> <nAtm> <blocks> <atmos> <conns>      → `ok <n> (s<block> <k> i..)*` (cells in connection order)
    src  <LS> <nAtm> <gens> <dictSize>              → `ok <n> (s<hex> cell)*` | `exc <Name>`
    whist <items> / wcons <items>                   → `ok <LS>` | `exc AttributeError`
    wshort <short>                                  → `ok s<heading> <LS lines>` | `exc raises`
    rshort <LS blocks> <cons> <lookup> s<heading> <LS lines>   → `ok <short>` | `exc <Name>`
    rhist <LS blocks> <LS lines>                    → `ok <items>`
    hyp  <T2>                                       → truth of the theorem hypotheses on this object

  Encoding: strings `s<hex>`, integers `i<dec>`, rationals `q<num>/<den>`, None `n`, lists are
  length-prefixed.  The same encoding is used for the reply, so the harness needs one encoder.
-/
import PyTough.Model.Waiwera
import PyTough.Py.Proto
open Py Model.Convert Model.Waiwera

abbrev P := StateT (List String) Option

def tok : P String := do
  match (← get) with
  | [] => failure
  | t :: r => set r; pure t

def pNat : P Nat := do
  let t ← tok
  match t.toNat? with
  | some n => pure n
  | none => failure

def pStr : P Str := do
  let t ← tok
  match t.toList with
  | 's' :: h => pure (ofHexAux h)
  | _ => failure

def pIntTok (t : String) : Option Int := (String.ofList (t.toList.drop 1)).toInt?

def pInt : P Int := do
  let t ← tok
  match t.toList with
  | 'i' :: _ => match pIntTok t with | some i => pure i | none => failure
  | _ => failure

def pRatOf (cs : List Char) : Option Rat :=
  match (String.ofList cs).splitOn "/" with
  | [a, b] => match a.toInt?, b.toNat? with
    | some n, some d => some (mkRat n d)
    | _, _ => none
  | _ => none

def pRat : P Rat := do
  let t ← tok
  match t.toList with
  | 'q' :: r => match pRatOf r with | some q => pure q | none => failure
  | _ => failure

def pV : P PyV := do
  let t ← tok
  match t.toList with
  | ['n'] => pure .none
  | 'i' :: _ => match pIntTok t with | some i => pure (.int i) | none => failure
  | 'q' :: r => match pRatOf r with | some q => pure (.num q) | none => failure
  | 's' :: h => pure (.str (ofHexAux h))
  | _ => failure

def pList {α} (p : P α) : P (List α) := do
  let n ← pNat
  let rec go : Nat → P (List α)
    | 0 => pure []
    | k + 1 => do let x ← p; let r ← go k; pure (x :: r)
  go n

def pOpt {α} (p : P α) : P (Option α) := do
  let n ← pNat
  if n = 0 then pure none else do let x ← p; pure (some x)

def pDict : P Dict := pList (do let k ← pStr; let v ← pV; pure (k, v))

def pGen : P Gener := do
  let id ← pNat; let b ← pStr; let n ← pStr; let t ← pStr; let p ← pNat
  pure { id := id, block := b, name := n, type := t, payload := p }

def pRock : P Rock := do
  let n ← pStr; let po ← pRat; let c ← pRat; let p ← pNat
  pure { name := n, porosity := po, conductivity := c, payload := p }

def pItem : P Item := do
  let t ← tok
  match t with
  | "B" => do let n ← pStr; pure (.blk n)
  | "C" => do let a ← pStr; let b ← pStr; pure (.con a b)
  | "G" => do let i ← pNat; let b ← pStr; let n ← pStr; pure (.gen i b n)
  | "S" => do let n ← pStr; pure (.str n)
  | "T" => do let a ← pStr; let b ← pStr; pure (.tup a b)
  | _ => failure

def pShort : P Short := do
  let f ← pOpt pV; let b ← pOpt (pList pItem); let c ← pOpt (pList pItem); let g ← pOpt (pList pItem)
  pure { freq := f, block := b, con := c, gen := g }

def pT2 : P T2 := do
  let fn ← pStr; let sim ← pStr; let secs ← pList pStr
  let multi ← pDict; let lineq ← pDict; let solver ← pDict
  let opt ← pList pInt; let rocks ← pList pRock; let gens ← pList pGen
  let gd ← pList (do let b ← pStr; let n ← pStr; let i ← pNat; pure ((b, n), i))
  let sh ← pShort
  let hb ← pList pItem; let hc ← pList pItem; let hg ← pList pItem
  let other ← pList pStr; let blocks ← pList pStr
  pure { filename := fn, simulator := sim, sections := secs, multi := multi, lineq := lineq, solver := solver,
         option := opt, rocks := rocks, gens := gens, gendict := gd, short := sh,
         histBlock := hb, histCon := hc, histGen := hg, other := other, blocks := blocks }

/-! encoders -/
def eStr (s : Str) : String := "s" ++ toHex s
def eRat (q : Rat) : String := s!"q{q.num}/{q.den}"
def eV : PyV → String
  | .none => "n" | .int i => s!"i{i}" | .num q => eRat q | .str s => eStr s
def eList {α} (f : α → String) (l : List α) : String :=
  String.intercalate " " (toString l.length :: l.map f)
def eOpt {α} (f : α → String) : Option α → String
  | none => "0" | some x => "1 " ++ f x
def eDict (d : Dict) : String := eList (fun e => eStr e.1 ++ " " ++ eV e.2) d
def eGen (g : Gener) : String := s!"{g.id} {eStr g.block} {eStr g.name} {eStr g.type} {g.payload}"
def eRock (r : Rock) : String := s!"{eStr r.name} {eRat r.porosity} {eRat r.conductivity} {r.payload}"
def eItem : Item → String
  | .blk n => "B " ++ eStr n
  | .con a b => "C " ++ eStr a ++ " " ++ eStr b
  | .gen i b n => s!"G {i} {eStr b} {eStr n}"
  | .str n => "S " ++ eStr n
  | .tup a b => "T " ++ eStr a ++ " " ++ eStr b
def eShort (s : Short) : String :=
  String.intercalate " " [eOpt eV s.freq, eOpt (eList eItem) s.block, eOpt (eList eItem) s.con, eOpt (eList eItem) s.gen]
def eT2 (d : T2) : String :=
  String.intercalate " " [eStr d.filename, eStr d.simulator, eList eStr d.sections, eDict d.multi, eDict d.lineq,
    eDict d.solver, eList (fun (i : Int) => s!"i{i}") d.option, eList eRock d.rocks, eList eGen d.gens,
    eList (fun e => s!"{eStr e.1.1} {eStr e.1.2} {e.2}") d.gendict, eShort d.short,
    eList eItem d.histBlock, eList eItem d.histCon, eList eItem d.histGen, eList eStr d.other, eList eStr d.blocks]

/-! operations -/
inductive Op where
  | toT2 (mp : Bool) | toA2 (mp : Bool) (sim eos : Str) | setType (v : Str)
  | paramsA2T (mp : Bool) | paramsT2A (mp : Bool) | gensA2T | s2h | h2s
  | addGen (g : Gener) | delGen (b n : Str) | insSec (s : Str) | delSec (s : Str) | updSec

def pBool : P Bool := do let n ← pNat; pure (n != 0)

def pOp : P Op := do
  let t ← tok
  match t with
  | "toT2" => do let m ← pBool; pure (.toT2 m)
  | "toA2" => do let m ← pBool; let s ← pStr; let e ← pStr; pure (.toA2 m s e)
  | "setType" => do let v ← pStr; pure (.setType v)
  | "paramsA2T" => do let m ← pBool; pure (.paramsA2T m)
  | "paramsT2A" => do let m ← pBool; pure (.paramsT2A m)
  | "gensA2T" => pure .gensA2T
  | "s2h" => pure .s2h
  | "h2s" => pure .h2s
  | "addGen" => do let g ← pGen; pure (.addGen g)
  | "delGen" => do let b ← pStr; let n ← pStr; pure (.delGen b n)
  | "insSec" => do let s ← pStr; pure (.insSec s)
  | "delSec" => do let s ← pStr; pure (.delSec s)
  | "updSec" => pure .updSec
  | _ => failure

def applyOp (d : T2) : Op → T2 × Option Exc
  | .toT2 m => convertToTough2 m d
  | .toA2 m s e => convertToAutough2 m s e d
  | .setType v => setType v d
  | .paramsA2T m => convParamsA2T m d
  | .paramsT2A m => convParamsT2A m d
  | .gensA2T => (convertGenerators d, none)
  | .s2h => (shortToHistory d, none)
  | .h2s => (historyToShort d, none)
  | .addGen g => (addGenerator d g, none)
  | .delGen b n => deleteGenerator d (b, n)
  | .insSec s => (insertSection d s, none)
  | .delSec s => (deleteSection d s, none)
  | .updSec => (updateSections d, none)

def runOps : T2 → List Op → Nat → String
  | d, [], _ => "ok " ++ eT2 d
  | d, op :: r, i =>
    match applyOp d op with
    | (d', none) => runOps d' r (i + 1)
    | (d', some e) => s!"exc {e.toString} {i} " ++ eT2 d'

def pBlocks : P (List WBlock) := pList (do let n ← pStr; let r ← pStr; let v ← pRat; pure { name := n, rock := r, volume := v })

def eCell : Option Int → String | none => "n" | some i => s!"i{i}"

def b01 (b : Bool) : String := if b then "1" else "0"

def request : P String := do
  let t ← tok
  match t with
  | "conv" => do
    let d ← pT2; let ops ← pList pOp
    pure (runOps d ops 0)
  | "eos" => do
    let a ← tok
    let arg : EosArg ← match a.toList with
      | ['n'] => pure EosArg.none
      | 'i' :: _ => match pIntTok a with | some i => pure (EosArg.idx i) | none => failure
      | 's' :: h => pure (EosArg.name (ofHexAux h))
      | _ => failure
    let m ← pDict; let sim ← pStr; let n ← pNat
    pure (match eosJson arg m sim n with
      | .ok o => s!"ok {eStr o.name} {b01 o.tracer}"
      | .error e => "exc " ++ e.toString)
  | "rocks" => do
    let rn ← pList pStr; let gn ← pList pStr; let na ← pNat; let bs ← pBlocks; let atm ← pRat
    pure (match rockCells rn gn na bs atm with
      | .ok cells => "ok " ++ eList (eList (fun (i : Int) => s!"i{i}")) cells
      | .error e => "exc " ++ e.toString)
  | "bdy" => do
    let bs ← pBlocks; let atm ← pRat
    pure ("ok " ++ eList eStr (boundaryBlocks bs atm))
  | "faces" => do
    let gn ← pList pStr; let na ← pNat; let bs ← pBlocks; let atm ← pRat
    let cs ← pList (do let a ← pStr; let b ← pStr; pure (a, b))
    pure (match boundaryFaces gn na bs atm cs with
      | .ok fs => "ok " ++ eList (fun f => eStr f.1 ++ " " ++ eList (fun (i : Int) => s!"i{i}") f.2) fs
      | .error e => "exc " ++ e.toString)
  | "src" => do
    let gn ← pList pStr; let na ← pNat; let gs ← pList pGen; let n ← pNat
    pure (match sources gn na gs n with
      | .ok ss => "ok " ++ eList (fun s => eStr s.name ++ " " ++ eCell s.cell) ss
      | .error e => "exc " ++ e.toString)
  | "whist" => do
    let l ← pList pItem
    pure (match writeNames l with | some ns => "ok " ++ eList eStr ns | none => "exc AttributeError")
  | "wcons" => do
    let l ← pList pItem
    pure (match writeCons l with
      | some ns => "ok " ++ eList (fun p => eStr p.1 ++ " " ++ eStr p.2) ns
      | none => "exc AttributeError")
  | "wshort" => do
    let so ← pShort
    pure (match writeShort so with
      | some (h, body) => "ok " ++ eStr h ++ " " ++ eList eStr body
      | none => "exc raises")
  | "rshort" => do
    let bs ← pList pStr
    let cs ← pList (do let a ← pStr; let b ← pStr; pure (a, b))
    let gd ← pList (do let b ← pStr; let n ← pStr; let i ← pNat; pure ((b, n), i))
    let h ← pStr
    let body ← pList pStr
    pure (match readShort bs cs gd h body with
      | .ok so => "ok " ++ eShort so
      | .error e => "exc " ++ e.toString)
  | "rhist" => do
    let bs ← pList pStr; let ls ← pList pStr
    pure ("ok " ++ eList eItem (readNames bs ls))
  | "rcons" => do
    let bs ← pList pStr
    let cs ← pList (do let a ← pStr; let b ← pStr; pure (a, b))
    let ls ← pList (do let a ← pStr; let b ← pStr; pure (a, b))
    pure ("ok " ++ eList eItem (readCons bs cs ls))
  | _ => failure

def handle (ws : List String) : String :=
  match request.run ws with
  | some (r, []) => r
  | some (_, _) => "bad-request trailing-tokens"
  | none => "bad-request"

def main : IO Unit := serve handle
