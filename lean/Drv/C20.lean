-- driver stub (replaced when the model for C20 is built)
def main : IO Unit := pure ()
