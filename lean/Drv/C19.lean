-- driver stub (replaced when the model for C19 is built)
def main : IO Unit := pure ()
