/-
  Driver for C19 (transfers between geometries): one request line in, one reply line out.
  Tokens are separated by blanks; names are `x` + hex; rationals `num/den`.

    geo   := conv atm dmplex ncols nlays {xname cx cy surface numLayers numNodes area}* {xname bottom centre}*
    dict  := n {xkey xvalue}*
    q     := first | tab n {index}*          (the nearest-column oracle: model's own, or a table
                                              giving the chosen source index per target column)
  requests
    names geo
    hyp geo geo
    bm q geo geo
    inc q geo geo n {xname nv {rat}* por}* dict dict
    inch (same arguments as inc)   the heap model of transfer_from: `ok unchanged blocksOk fresh <incon>`
    gen q geo geo ng {xname xblock xtype ltab gx rate}* dictQ(sgridVol) n{xname rat}(tgrid) n{0|1}(incols)
        n{x}(top) n{x}(bottom) dict dict rename preserve
    genhyp geo ng {gen}* dictQ dictQ n{0|1} n{x} n{x} dict dict   (hypotheses of generator_transfer_identity)
    rock dict(sgridRock) dict(mapping) n{x}(tblocks)
    pb dict(mapping) n{x}(tblocks) (xname | -)
    incd dict(mapping) n{x}(tblocks) n{xname}
-/
import PyTough.Model.Mapping
import PyTough.Py.Proto
open Py Model.Mapping

abbrev P := StateT (List String) Option

def tok : P String := fun s => match s with
  | [] => none
  | t :: r => some (t, r)

def pNat : P Nat := do
  let t ← tok
  match t.toNat? with
  | some n => pure n
  | none => failure

def pInt : P Int := do
  let t ← tok
  match t.toInt? with
  | some n => pure n
  | none => failure

def pRatOf (t : String) : Option Rat :=
  match t.splitOn "/" with
  | [a] => a.toInt?.map (fun n => (n : Rat))
  | [a, b] => do
    let n ← a.toInt?
    let d ← b.toNat?
    pure (mkRat n d)
  | _ => none

def pRat : P Rat := do
  let t ← tok
  match pRatOf t with
  | some r => pure r
  | none => failure

def pStr : P Str := do
  let t ← tok
  match t.toList with
  | 'x' :: h => pure (ofHexAux h)
  | _ => failure

def pOpt {α : Type} (p : String → Option α) : P (Option α) := do
  let t ← tok
  if t == "-" then pure none else
  match p t with
  | some a => pure (some a)
  | none => failure

def pMany {α : Type} (p : P α) : Nat → P (List α)
  | 0 => pure []
  | n + 1 => do
    let a ← p
    let r ← pMany p n
    pure (a :: r)

def pList {α : Type} (p : P α) : P (List α) := do
  let n ← pNat
  pMany p n

def pConv : P Conv := do
  let n ← pNat
  match n with
  | 0 => pure .c0
  | 1 => pure .c1
  | 2 => pure .c2
  | 3 => pure .c3
  | _ => failure

def pCol : P Col := do
  let name ← pStr
  let cx ← pRat
  let cy ← pRat
  let s ← pRat
  let nl ← pNat
  let nn ← pNat
  let a ← pRat
  pure ⟨name, cx, cy, s, nl, nn, a⟩

def pLay : P Lay := do
  let name ← pStr
  let b ← pRat
  let c ← pRat
  pure ⟨name, b, c⟩

def pGeo : P Geo := do
  let cv ← pConv
  let atm ← pNat
  let dm ← pNat
  let nc ← pNat
  let nl ← pNat
  let cols ← pMany pCol nc
  let lays ← pMany pLay nl
  pure ⟨cv, atm, dm != 0, cols, lays⟩

def pDict : P (Dict Str) := pList (do
  let k ← pStr
  let v ← pStr
  pure (k, v))

def pDictQ : P (Dict Rat) := pList (do
  let k ← pStr
  let v ← pRat
  pure (k, v))

/-- nearest-column parameter: the model's own, or a table keyed by the target centres -/
def pQ (tgtCentres : Geo → List (Rat × Rat)) : P (Geo → List (Rat × Rat) → Rat × Rat → Nat) := do
  let t ← tok
  if t == "first" then pure (fun _ => nearestFirst)
  else if t == "tab" then do
    let idx ← pList pNat
    pure (fun geo _ p =>
      match ((tgtCentres geo).zip idx).find? (fun x => x.1 == p) with
      | some x => x.2
      | none => 0)
  else failure

def centresOf (g : Geo) : List (Rat × Rat) := g.cols.map Col.centre

def shRat (r : Rat) : String := s!"{r.num}/{r.den}"
def shStr (s : Str) : String := "x" ++ toHex s
def shOptRat : Option Rat → String
  | none => "-"
  | some r => shRat r
def shList {α : Type} (f : α → String) (l : List α) : String :=
  l.foldl (fun acc a => acc ++ " " ++ f a) (toString l.length)
def shDict (d : Dict Str) : String := shList (fun p => shStr p.1 ++ " " ++ shStr p.2) d
def shIncVal (v : IncVal) : String :=
  shList shRat v.vars ++ " " ++ shOptRat v.porosity ++ " " ++
    (match v.tag with | none => "-" | some i => toString i)
def shIncon (d : Incon) : String := shList (fun p => shStr p.1 ++ " " ++ shIncVal p.2) d
def shGenOut (g : GenOut) : String :=
  toString g.src ++ " " ++ shStr g.name ++ " " ++ shStr g.block ++ " " ++ shOptRat g.gx ++ " " ++
    (match g.rate with | none => "-" | some r => "r " ++ shList shRat r)
def shB (b : Bool) : String := if b then "1" else "0"

def pIncon : P Incon := do
  let l ← pList (do
    let name ← pStr
    let vars ← pList pRat
    let por ← pOpt pRatOf
    pure (name, vars, por))
  pure ((enumFrom 0 l).map (fun x => (x.2.1, ⟨x.2.2.1, x.2.2.2, some x.1⟩)))

def pGen : P Gen := do
  let name ← pStr
  let block ← pStr
  let type ← pStr
  let ltab ← pOpt String.toInt?
  let gx ← pOpt pRatOf
  let t ← tok
  let rate ← (if t == "-" then pure none else do
    let r ← pList pRat
    pure (some r) : P (Option (List Rat)))
  pure ⟨name, block, type, ltab, gx, rate⟩

def pOptStr : P (Option Str) := do
  let t ← tok
  if t == "-" then pure none else
  match t.toList with
  | 'x' :: h => pure (some (ofHexAux h))
  | _ => failure

def request : P String := do
  let op ← tok
  match op with
  | "names" => do
    let g ← pGeo
    pure (showExc (shList shStr) g.blockNameList)
  | "hyp" => do
    let s ← pGeo
    let t ← pGeo
    pure (s!"{shB (srcOK s)} {shB (tgtOK t)} {shB (atmOK s t)} {shB (distinctCentres s)} {shB (tgtOK s)}")
  | "bm" => do
    let q ← pQ centresOf
    let s ← pGeo
    let t ← pGeo
    pure (showExc (fun (r : Dict Str × Dict Str) => shDict r.1 ++ " " ++ shDict r.2) (blockMapping (q t) s t))
  | "inc" => do
    let q ← pQ centresOf
    let s ← pGeo
    let t ← pGeo
    let inc ← pIncon
    let m ← pDict
    let cm ← pDict
    pure (showExc shIncon (transferFrom (q t) inc s t m cm))
  | "inch" => do
    let q ← pQ centresOf
    let s ← pGeo
    let t ← pGeo
    let inc ← pIncon
    let m ← pDict
    let cm ← pDict
    let h0 : Heap := inc.map (fun p => ⟨p.1, p.2⟩)
    let src : InconH := (enumFrom 0 inc).map (fun x => (x.2.1, x.1))
    pure (showExc (fun (r : Heap × InconH) =>
        let unchanged := decide (r.1.take h0.length = h0)
        let view : List (Str × Option Obj) := readInc r.1 r.2
        let blocksOk := view.all (fun p => match p.2 with | some o => o.block == p.1 | none => false)
        let fresh := r.2.all (fun p => decide (h0.length ≤ p.2))
        shB unchanged ++ " " ++ shB blocksOk ++ " " ++ shB fresh ++ " " ++
          shIncon (view.map (fun p => (p.1, match p.2 with | some o => o.val | none => ⟨[], none, none⟩))))
      (transferFromH (q t) h0 src s t m cm))
  | "gen" => do
    let q ← pQ centresOf
    let s ← pGeo
    let t ← pGeo
    let gens ← pList pGen
    let sv ← pDictQ
    let tg ← pDictQ
    let inc ← pList pNat
    let top ← pList pStr
    let bot ← pList pStr
    let m ← pDict
    let cm ← pDict
    let rn ← pNat
    let pr ← pNat
    pure (showExc (shList shGenOut)
      (transferGenerators (q t) gens s t sv tg (inc.map (· != 0)) top bot m cm (rn != 0) (pr != 0)))
  | "genhyp" => do
    let g ← pGeo
    let gens ← pList pGen
    let sv ← pDictQ
    let tg ← pDictQ
    let inc ← pList pNat
    let top ← pList pStr
    let bot ← pList pStr
    let m ← pDict
    let cm ← pDict
    pure (s!"{shB (genIdentitySetting g tg (inc.map (· != 0)) m cm)} {(gens.filter (genPlaced g sv tg top bot)).length} {gens.length}")
  | "rock" => do
    let sr ← pDict
    let m ← pDict
    let tb ← pList pStr
    pure (showExc (shList shStr) (transferRocktypes sr m tb))
  | "pb" => do
    let m ← pDict
    let tb ← pList pStr
    let pb ← pOptStr
    pure (showExc (fun (o : Option Str) => match o with | none => "-" | some s => shStr s)
      (transferPrintBlock m tb pb))
  | "incd" => do
    let m ← pDict
    let tb ← pList pStr
    let src ← pList pStr
    pure (showExc (shList (fun (p : Str × Nat) => shStr p.1 ++ " " ++ toString p.2))
      (transferInconDict m tb ((enumFrom 0 src).map (fun x => (x.2, x.1)))))
  | _ => failure

def handle (ws : List String) : String :=
  match request ws with
  | some (r, []) => r
  | some (_, _) => "bad-request trailing"
  | none => "bad-request"

def main : IO Unit := serve handle
