-- driver stub (replaced when the model for C09 is built)
def main : IO Unit := pure ()
