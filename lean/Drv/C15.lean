/-
  Driver for C15: runs the generated IFC-67 definitions (t2thermo.py) over `Float`.
-/
import PyTough.Gen.Ifc67
import PyTough.Py.Proto
open Model.Thermo Gen.Ifc67

def fx := floatOfHex
def bx (s : String) : Bool := s == "1"

def handle : List String → String
  | ["cowat", t, p, b] => showRet (cowat (fx t) (fx p) (bx b))
  | ["supst", t, p, b] => showRet (supst (fx t) (fx p) (bx b))
  | ["sat", t, b] => showRet (sat (fx t) (bx b))
  | ["b23p", t] => showRet (b23p (fx t))
  | ["region", t, p] => showRet (region (fx t) (fx p))
  | ["visw", t, p, ps] => showRet (visw (fx t) (fx p) (fx ps))
  | ["viss", t, d] => showRet (viss (fx t) (fx d))
  | ["tsat_ok", p, b] => if tsat_ok (fx p) (bx b) then "true" else "false"
  | ["enth", d, u, p] => "num " ++ hexOfFloat (enth (fx d) (fx u) (fx p))
  | ["ssf", h, one, hl1, hs1, hl2, hs2] =>
      "num " ++ hexOfFloat (ssf (fx h) (bx one) (fx hl1) (fx hs1) (fx hl2) (fx hs2))
  | _ => "bad-op"

def main : IO Unit := Py.serve handle
