-- driver stub (replaced when the model for C15 is built)
def main : IO Unit := pure ()
