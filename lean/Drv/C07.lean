-- driver stub (replaced when the model for C07 is built)
def main : IO Unit := pure ()
