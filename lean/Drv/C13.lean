import PyTough.Model.Incon
import PyTough.Gen.Specs
import PyTough.Py.Proto
open Py Model Model.Incon

/-!
  Driver of C13 (`drv_c13`): one request per line.

    w   <reset> <incon…>                         write        → `ok t<hex of the file text>` | `exc X`
    r   <rf> <sim0> <nvars|n> <check> t<hex>      read         → `ok <dump>` | `exc X`
    rw  <rf> <sim0> <nvars|n> <check> <reset> t<hex>   read, hand the values back, write again → `ok t<hex>`
    fx / ux / vb  s<hex>                          fix_blockname / unfix_blockname / valid_blockname

  <incon…> = s<sim hex> (n | 5 value tokens) <nblocks> { s<name> <nseq> <nadd> <porosity> (n | p k1 k2 k3) <nvars> values… }
  value tokens as in drv_c02:  n | i<int> | r<num>/<den> | z | inf0 | inf1 | nan | s<hex>
-/

def parseVal (t : String) : Val :=
  match t.toList with
  | ['n'] => .none
  | ['z'] => .negZero
  | ['n','a','n'] => .nan
  | ['i','n','f','0'] => .inf false
  | ['i','n','f','1'] => .inf true
  | 'i' :: r => .int (String.ofList r).toInt!
  | 's' :: r => .str (ofHexAux r)
  | 'r' :: r =>
    match (String.ofList r).splitOn "/" with
    | [a, b] => .real (mkRat a.toInt! b.toNat!)
    | _ => .none
  | _ => .none

def showPVal : PVal → String
  | .none => "n"
  | .int i => s!"i{i}"
  | .flt (.fin neg m e) => s!"f{if neg then 1 else 0},{m},{e}"
  | .flt (.inf neg) => s!"inf{if neg then 1 else 0}"
  | .flt .nan => "nan"
  | .str s => "s" ++ toHex s

def strArg (t : String) : Str := ofHexAux (t.toList.drop 1)

def specOf (name : String) : List FieldSpec :=
  match Gen.Specs.t2incon.find name with
  | none => []
  | some sec => match parseSpecs (sec.specs.map String.toList) with | .ok fs => fs | .error _ => []

/-- the record layouts of the current /repo tree -/
def specs : Specs :=
  { headerShort := specOf "header_short", headerLong := specOf "header_long", incon1 := specOf "incon1",
    incon1Tr := specOf "incon1_toughreact", incon2 := specOf "incon2", timing := specOf "timing",
    timingTr := specOf "timing_toughreact" }

def parseBlocks : Nat → List String → List (Block Val) → Option (List (Block Val))
  | 0, _, acc => some acc.reverse
  | k + 1, nm :: nseq :: nadd :: por :: rest, acc =>
    let (perm, rest1) : Option (Val × Val × Val) × List String :=
      match rest with
      | "p" :: a :: b :: c :: r => (some (parseVal a, parseVal b, parseVal c), r)
      | _ :: r => (none, r)
      | [] => (none, [])
    match rest1 with
    | nv :: r =>
      let n := nv.toNat!
      parseBlocks k (r.drop n) ({ block := strArg nm, vars := (r.take n).map parseVal, porosity := parseVal por,
                                  permeability := perm, nseq := parseVal nseq, nadd := parseVal nadd } :: acc)
    | [] => none
  | _, _, _ => none

def parseIncon : List String → Option (Incon Val)
  | sim :: rest =>
    let (timing, rest1) : Option (Timing Val) × List String :=
      match rest with
      | "n" :: r => (none, r)
      | _ :: a :: b :: c :: d :: e :: r =>
        (some { kcyc := parseVal a, iter := parseVal b, nm := parseVal c, tstart := parseVal d, sumtim := parseVal e }, r)
      | r => (none, r)
    match rest1 with
    | nb :: r => -- the harness builds the object with `add_incon`, block by block
      (parseBlocks nb.toNat! r []).map fun bs => { simulator := strArg sim, blocks := bs.foldl addIncon [], timing := timing }
    | [] => none
  | [] => none

def showBlock (b : Block PVal) : String :=
  let perm := match b.permeability with
    | none => "n"
    | some (a, b, c) => s!"p {showPVal a} {showPVal b} {showPVal c}"
  s!"s{toHex b.block} {showPVal b.nseq} {showPVal b.nadd} {showPVal b.porosity} {perm} {b.vars.length} " ++
    " ".intercalate (b.vars.map showPVal)

def showIncon (x : Incon PVal) : String :=
  let timing := match x.timing with
    | none => "n"
    | some t => s!"t {showPVal t.kcyc} {showPVal t.iter} {showPVal t.nm} {showPVal t.tstart} {showPVal t.sumtim}"
  s!"s{toHex x.simulator} {timing} {x.blocks.length} " ++ " ".intercalate (x.blocks.map showBlock)

def rfOf (s : String) : ReadFn := if s = "f" then .fortran else .default
def nvOf (s : String) : Option Nat := if s = "n" then none else some s.toNat!
def showText (ls : List Str) : String := "t" ++ toHex ls.flatten

def handle : List String → String
  | "w" :: reset :: rest =>
    match parseIncon rest with
    | none => "bad-incon"
    | some x => showExc showText (write specs x (reset = "1"))
  | ["r", rf, sim0, nv, check, text] =>
    showExc showIncon (read (rfOf rf) specs (strArg sim0) (nvOf nv) (check = "1") (splitLines (strArg text)))
  | ["rw", rf, sim0, nv, check, reset, text] =>
    showExc showText (do
      let x ← read (rfOf rf) specs (strArg sim0) (nvOf nv) (check = "1") (splitLines (strArg text))
      write specs x.toDouble (reset = "1"))
  | ["fx", s] => showExc (fun n => "s" ++ toHex n) (Names.fixBlockname (strArg s))
  | ["ux", s] => "ok s" ++ toHex (Names.unfixBlockname (strArg s))
  | ["dbl", neg, n, d] => (match nearestDouble (neg = "1") n.toNat! d.toNat! with
      | .real r => s!"r{r.num}/{r.den}" | .negZero => "z" | .inf b => (if b then "inf1" else "inf0") | _ => "?")
  | ["vb", s] => showExc (fun (b : Bool) => if b then "1" else "0") (Names.validBlockname (strArg s))
  | _ => "bad-op"

def main : IO Unit := serve handle
