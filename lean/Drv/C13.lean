-- driver stub (replaced when the model for C13 is built)
def main : IO Unit := pure ()
