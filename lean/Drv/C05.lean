-- driver stub (replaced when the model for C05 is built)
def main : IO Unit := pure ()
