/-
  Driver for the listing models (C05, C06, C07).  One request per line, one reply line.
  The driver keeps the currently opened reader between requests.

    open <hexpath> <0|1 isOutputData> <skip,skip|->     run t2listing.__init__ on the file
    index <i>                                         listing.index = i
    view                                              index, time, step and every table (names + cells)
    info                                              simulator, result times/steps, table layouts
    hist <0|1 short> <item> ...                       listing.history(selection, short); item = hexspec/key/hexcol,
                                                      key = i:<int> | n:<hex>;<hex>
    times <bits,bits,...>                             the doubles of fulltimes (for `nav time`)
    nav first|last|next|prev | nav idx <i> | nav time <bits> | nav step <s>
    snap <k> / same <k>                               remember the current view / compare with a remembered one
    covers                                            for each result: does re-reading overwrite every cell?
-/
import PyTough.Model.ListingHistory
import PyTough.Proofs.ListingRowFormat
import PyTough.Py.Proto
open Py Model Model.Listing

def showFVal : FVal → String
  | .fin n m e => s!"{if n then "-" else ""}{m}e{e}"
  | .inf n => if n then "-inf" else "inf"
  | .nan => "nan"

def showStep : Step → String
  | some i => toString i
  | none => "None"

def hexOrDash (s : Str) : String := if s.isEmpty then "-" else toHex s

def showKey (k : Key) : String := String.intercalate "," (k.map hexOrDash)

def showTable (name : String) (t : Table) : String :=
  let rows := String.intercalate " " (t.rows.toList.map showKey)
  let cols := String.intercalate " " (t.cols.map hexOrDash)
  let cells := String.intercalate " " (t.data.toList.map fun r => String.intercalate " " (r.toList.map showFVal))
  s!"T {name} {t.rows.size} {t.cols.length} {rows} {cols} {cells}"

def showView (s : Rd) : String :=
  let tabs := String.intercalate " " (s.tables.map fun (n, t) => showTable n t)
  s!"ok {s.index} {showFVal s.time} {showStep s.step} {s.tables.length} {tabs}"

def showOpt (o : Option Int) : String := match o with | some i => toString i | none => "None"

/-- do the hypotheses of Props.C05.column_boundaries_correct hold for the line this table's columns were inferred from? -/
def rowFormatOf (t : Table) : String :=
  if t.longest.isEmpty then "-"
  else
    let bs := t.numpos.dropLast.filterMap fun o => match o with | some i => if i ≥ 0 then some i.toNat else none | none => none
    let okI := match t.cols with | c :: _ => c != ['I'] | [] => false
    if bs.length + 1 == t.numpos.length && okI && t.numpos.getLast? == some (some (t.longest.length : Int)) &&
       Proofs.Rows.rowFormatB t.longest bs then "1" else "0"

def showLayout (name : String) (t : Table) : String :=
  let kp := String.intercalate "," (t.keyPos.map toString)
  let np := String.intercalate "," (t.numpos.map showOpt)
  let rl := match t.rowLine with
    | some a => String.intercalate "," (a.toList.map toString)
    | none => "-"
  let sk := String.intercalate "," (t.skips.map toString)
  s!"L {name} {t.numKeys} {if kp.isEmpty then "-" else kp} {if np.isEmpty then "-" else np} {t.headerSkip} {if sk.isEmpty then "-" else sk} {rl} RF={rowFormatOf t}"

def showInfo (s : Rd) : String :=
  let sim := match s.simulator with | some x => toHex x | none => "-"
  let ft := String.intercalate "," (s.fulltimes.toList.map showFVal)
  let fs := String.intercalate "," (s.fullsteps.toList.map showStep)
  let allt := String.intercalate "," (s.times.toList.map showFVal)
  let sh := String.intercalate "," (s.short.toList.map fun b => if b then "1" else "0")
  let fp := String.intercalate "," (s.fullpos.toList.map fun p => toString p.no)
  let st := String.intercalate "," (s.shortTypes.map toHex)
  let tn := String.intercalate "," s.tablenames
  let lay := String.intercalate " " (s.tables.map fun (n, t) => showLayout n t)
  s!"ok sim={sim} title={hexOrDash s.title} n={s.fulltimes.size} fulltimes={ft} fullsteps={fs} times={allt} short={sh} fullpos={fp} shorttypes={st} tables={tn} {lay}"

def runM (st : Rd) (m : M Unit) : Except LErr Rd :=
  match m.run st with
  | .ok (_, s) => .ok s
  | .error e => .error e

def bytesToStr (b : ByteArray) : Str := b.toList.map (fun x => Char.ofNat x.toNat)

structure DSt where
  rd : Option Rd := none
  times : List Float := []
  snaps : List (Nat × Rd) := []

def unhexD (h : String) : Str := if h = "-" then [] else ofHex h

def parseItem (w : String) : Option Item :=
  match w.splitOn "/" with
  | [sp, k, c] =>
    let key : Option HKey :=
      if k.startsWith "i:" then (k.drop 2).toString.toInt?.map HKey.int
      else if k.startsWith "n:" then some (HKey.name (((k.drop 2).toString.splitOn ";").map unhexD))
      else none
    key.map fun kk => { spec := unhexD sp, key := kk, col := unhexD c }
  | _ => none

def sameView (a b : Rd) : Bool :=
  a.time == b.time && a.step == b.step &&
  a.tables.length == b.tables.length &&
  (a.tables.zip b.tables).all fun ((n1, t1), (n2, t2)) => n1 == n2 && t1.rows == t2.rows && t1.cols == t2.cols && t1.data == t2.data

def sentinel : FVal := .fin false 7 777

def coversAt (rd : Rd) (j : Nat) : Bool :=
  let blank : Rd := { rd with tables := rd.tables.map fun (n, t) => (n, { t with data := t.data.map fun r => r.map fun _ => sentinel }) }
  match (loadResult j).run blank with
  | .ok (_, s) => s.tables.all fun (_, t) => t.data.all fun r => r.all fun c => c != sentinel
  | .error _ => false

def fltLt (a b : Float) : Bool := a < b
def fltDist (a b : Float) : Float := Float.abs (a - b)

def doNav (d : DSt) (rd : Rd) (ws : List String) : Option (Except LErr (Bool × Rd)) :=
  let N := fileNav rd
  let steps := rd.fullsteps.toList.map (·.getD 0)
  let op : Option (Nav.Op Float) := match ws with
    | ["first"] => some .first | ["last"] => some .last | ["next"] => some .next | ["prev"] => some .prev
    | ["idx", i] => i.toInt?.map .index
    | ["time", b] => b.toNat?.map fun n => .time (Float.ofBits n.toUInt64)
    | ["step", x] => x.toInt?.map .step
    | _ => none
  op.map fun o => Nav.apply N fltLt fltDist d.times steps o rd

partial def loop (h out : IO.FS.Stream) (st : IO.Ref DSt) : IO Unit := do
  let line ← h.getLine
  if line.isEmpty then return ()
  let ws := (line.trimAscii.toString.splitOn " ").filter (· ≠ "")
  let d ← st.get
  let reply ← match ws with
    | ["open", hp, od, sk] => do
      let path := String.ofList (ofHex hp)
      try
        let bytes ← IO.FS.readBinFile path
        let skip := if sk = "-" then [] else sk.splitOn ","
        let rd := initRd (bytesToStr bytes) (od = "1") skip
        match runM rd openReader with
        | .ok s => st.set { d with rd := some s }; pure s!"ok {s.fulltimes.size}"
        | .error e => st.set { d with rd := none }; pure s!"exc {e.toString}"
      catch e => pure s!"ioerror {e}"
    | ["index", i] => do
      match d.rd, i.toInt? with
      | some s, some k =>
        match runM s (setIndex k) with
        | .ok s' => st.set { d with rd := some s' }; pure s!"ok {s'.index}"
        | .error e => pure s!"exc {e.toString}"       -- the Python object would be left half-updated; the harness reopens
      | _, _ => pure "bad-state"
    | ["view"] => pure (match d.rd with | some s => showView s | none => "bad-state")
    | ["info"] => pure (match d.rd with | some s => showInfo s | none => "bad-state")
    | "hist" :: sh :: items => do
      match d.rd, items.mapM parseItem with
      | some s, some its =>
        match (history its (sh = "1")).run s with
        | .ok (none, s') => st.set { d with rd := some s' }; pure "ok none"
        | .ok (some series, s') =>
          st.set { d with rd := some s' }
          let body := String.intercalate " " (series.map fun (full, h) =>
            s!"S {if full then 1 else 0} {h.length} " ++ String.intercalate " " (h.map showFVal))
          pure s!"ok {series.length} {body}"
        | .error e => pure s!"exc {e.toString}"
      | _, _ => pure "bad-state"
    | ["times", bs] => do
      let ts := (bs.splitOn ",").filterMap fun b => b.toNat?.map fun n => Float.ofBits n.toUInt64
      st.set { d with times := ts }
      pure s!"ok {ts.length}"
    | "nav" :: rest => do
      match d.rd with
      | some s =>
        match doNav d s rest with
        | some (.ok (moved, s')) => st.set { d with rd := some s' }; pure s!"ok {if moved then 1 else 0} {s'.index}"
        | some (.error e) => pure s!"exc {e.toString}"
        | none => pure "bad-op"
      | none => pure "bad-state"
    | ["snap", k] => do
      match d.rd, k.toNat? with
      | some s, some kk => st.set { d with snaps := (kk, s) :: d.snaps.filter (·.1 != kk) }; pure "ok"
      | _, _ => pure "bad-state"
    | ["same", k] => do
      match d.rd, k.toNat? with
      | some s, some kk =>
        match d.snaps.lookup kk with
        | some s0 => pure s!"ok {if sameView s s0 then 1 else 0}"
        | none => pure "bad-state"
      | _, _ => pure "bad-state"
    | ["addr", tn, k] => do
      match d.rd with
      | some s =>
        match s.tables.lookup tn with
        | none => pure "no-table"
        | some t =>
          let key : Option (Sum Int Key) :=
            if k.startsWith "i:" then (k.drop 2).toString.toInt?.map Sum.inl
            else if k.startsWith "n:" then some (Sum.inr (((k.drop 2).toString.splitOn ";").map unhexD))
            else none
          match key with
          | none => pure "bad-op"
          | some kk =>
            match t.getItem kk with
            | .error e => pure s!"exc {e.toString}"
            | .ok .none => pure "ok none"
            | .ok (.col c) => pure ("ok col " ++ String.intercalate " " (c.map showFVal))
            | .ok (.row r) => pure (s!"ok row {showKey r.key} " ++ String.intercalate " " (r.cells.map fun (c, v) => s!"{hexOrDash c}={showFVal v}"))
      | none => pure "bad-state"
    | ["covers"] => do
      match d.rd with
      | some s => pure ("ok " ++ String.intercalate "," ((List.range s.fulltimes.size).map fun j => if coversAt s j then "1" else "0"))
      | none => pure "bad-state"
    | _ => pure "bad-op"
  out.putStrLn reply
  out.flush
  loop h out st

def main : IO Unit := do
  let i ← IO.getStdin
  let o ← IO.getStdout
  let st ← IO.mkRef ({} : DSt)
  loop i o st
