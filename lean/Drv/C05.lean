/-
  Driver for the listing models (C05, C06, C07).  One request per line, one reply line.
  The driver keeps the currently opened reader between requests.

    open <hexpath> <0|1 isOutputData> <skip,skip|->     run t2listing.__init__ on the file
    index <i>                                         listing.index = i
    view                                              index, time, step and every table (names + cells)
    info                                              simulator, result times/steps, table layouts
-/
import PyTough.Model.ListingFile
import PyTough.Py.Proto
open Py Model Model.Listing

def showFVal : FVal → String
  | .fin n m e => s!"{if n then "-" else ""}{m}e{e}"
  | .inf n => if n then "-inf" else "inf"
  | .nan => "nan"

def showStep : Step → String
  | some i => toString i
  | none => "None"

def hexOrDash (s : Str) : String := if s.isEmpty then "-" else toHex s

def showKey (k : Key) : String := String.intercalate "," (k.map hexOrDash)

def showTable (name : String) (t : Table) : String :=
  let rows := String.intercalate " " (t.rows.toList.map showKey)
  let cols := String.intercalate " " (t.cols.map hexOrDash)
  let cells := String.intercalate " " (t.data.toList.map fun r => String.intercalate " " (r.toList.map showFVal))
  s!"T {name} {t.rows.size} {t.cols.length} {rows} {cols} {cells}"

def showView (s : Rd) : String :=
  let tabs := String.intercalate " " (s.tables.map fun (n, t) => showTable n t)
  s!"ok {s.index} {showFVal s.time} {showStep s.step} {s.tables.length} {tabs}"

def showOpt (o : Option Int) : String := match o with | some i => toString i | none => "None"

def showLayout (name : String) (t : Table) : String :=
  let kp := String.intercalate "," (t.keyPos.map toString)
  let np := String.intercalate "," (t.numpos.map showOpt)
  let rl := match t.rowLine with
    | some a => String.intercalate "," (a.toList.map toString)
    | none => "-"
  let sk := String.intercalate "," (t.skips.map toString)
  s!"L {name} {t.numKeys} {if kp.isEmpty then "-" else kp} {if np.isEmpty then "-" else np} {t.headerSkip} {if sk.isEmpty then "-" else sk} {rl}"

def showInfo (s : Rd) : String :=
  let sim := match s.simulator with | some x => toHex x | none => "-"
  let ft := String.intercalate "," (s.fulltimes.toList.map showFVal)
  let fs := String.intercalate "," (s.fullsteps.toList.map showStep)
  let allt := String.intercalate "," (s.times.toList.map showFVal)
  let sh := String.intercalate "," (s.short.toList.map fun b => if b then "1" else "0")
  let fp := String.intercalate "," (s.fullpos.toList.map fun p => toString p.no)
  let st := String.intercalate "," (s.shortTypes.map toHex)
  let tn := String.intercalate "," s.tablenames
  let lay := String.intercalate " " (s.tables.map fun (n, t) => showLayout n t)
  s!"ok sim={sim} title={hexOrDash s.title} n={s.fulltimes.size} fulltimes={ft} fullsteps={fs} times={allt} short={sh} fullpos={fp} shorttypes={st} tables={tn} {lay}"

def runM (st : Rd) (m : M Unit) : Except LErr Rd :=
  match m.run st with
  | .ok (_, s) => .ok s
  | .error e => .error e

def bytesToStr (b : ByteArray) : Str := b.toList.map (fun x => Char.ofNat x.toNat)

partial def loop (h out : IO.FS.Stream) (st : IO.Ref (Option Rd)) : IO Unit := do
  let line ← h.getLine
  if line.isEmpty then return ()
  let ws := (line.trimAscii.toString.splitOn " ").filter (· ≠ "")
  let reply ← match ws with
    | ["open", hp, od, sk] => do
      let path := String.ofList (ofHex hp)
      try
        let bytes ← IO.FS.readBinFile path
        let skip := if sk = "-" then [] else sk.splitOn ","
        let rd := initRd (bytesToStr bytes) (od = "1") skip
        match runM rd openReader with
        | .ok s => st.set (some s); pure s!"ok {s.fulltimes.size}"
        | .error e => st.set none; pure s!"exc {e.toString}"
      catch e => pure s!"ioerror {e}"
    | ["index", i] => do
      match (← st.get), i.toInt? with
      | some s, some k =>
        match runM s (setIndex k) with
        | .ok s' => st.set (some s'); pure s!"ok {s'.index}"
        | .error e => pure s!"exc {e.toString}"       -- the Python object would be left half-updated; the harness reopens
      | _, _ => pure "bad-state"
    | ["view"] => do
      match (← st.get) with
      | some s => pure (showView s)
      | none => pure "bad-state"
    | ["info"] => do
      match (← st.get) with
      | some s => pure (showInfo s)
      | none => pure "bad-state"
    | _ => pure "bad-op"
  out.putStrLn reply
  out.flush
  loop h out st

def main : IO Unit := do
  let i ← IO.getStdin
  let o ← IO.getStdout
  let st ← IO.mkRef (none : Option Rd)
  loop i o st
