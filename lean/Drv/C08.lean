-- driver stub (replaced when the model for C08 is built)
def main : IO Unit := pure ()
