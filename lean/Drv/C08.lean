import PyTough.Model.GridProto
import PyTough.Py.Proto
def main : IO Unit := Py.serve Model.Grid.Proto.handle
