/-
  Driver of the C01 correspondence: one request per line, one reply per line.

    write <in|ascii|binary> <xp: - | tree of strings> <echo: -|0|1> <object tree>
        -> ok M<hex main> E<hex mesh|-> P<hex pdat|-> <tree: [sections, extra_precision, echo]>
    read <d|f> <hex path main> <hex path mesh|-> <hex path pdat|->
        -> ok <object tree>            (the driver reads the files itself, bytes decoded latin-1)
    chk                                -> ok | bad …   (Gen/Sections record tables = preprocess of Gen/Specs)

  tree tokens:  L<n> followed by n trees |  n | i<int> | r<num>/<den> | z | inf0 | inf1 | nan | s<hex>
-/
import PyTough.Model.T2Data
import PyTough.Gen.Specs
import PyTough.Py.Proto
open Py Model Model.T2

inductive J where
  | v (x : Val)
  | l (xs : List J)
  deriving Inhabited

def parseVal (t : String) : Val :=
  match t.toList with
  | ['n'] => .none
  | ['z'] => .negZero
  | ['n','a','n'] => .nan
  | ['i','n','f','0'] => .inf false
  | ['i','n','f','1'] => .inf true
  | 'i' :: r => .int (String.ofList r).toInt!
  | 's' :: r => .str (ofHexAux r)
  | 'r' :: r =>
    match (String.ofList r).splitOn "/" with
    | [a, b] => .real (mkRat a.toInt! b.toNat!)
    | _ => .none
  | _ => .none

partial def parseJ : List String → Option (J × List String)
  | [] => none
  | t :: rest =>
    match t.toList with
    | 'L' :: n =>
      let n := (String.ofList n).toNat!
      let rec go : Nat → List String → List J → Option (List J × List String)
        | 0, ts, acc => some (acc.reverse, ts)
        | k + 1, ts, acc => match parseJ ts with
          | some (j, ts') => go k ts' (j :: acc)
          | none => none
      match go n rest [] with
      | some (xs, ts) => some (.l xs, ts)
      | none => none
    | _ => some (.v (parseVal t), rest)

def showVal : Val → String
  | .none => "n"
  | .int i => s!"i{i}"
  | .real r => s!"r{r.num}/{r.den}"
  | .negZero => "z"
  | .inf n => if n then "inf1" else "inf0"
  | .nan => "nan"
  | .str s => "s" ++ toHex s

partial def showJ : J → List String
  | .v x => [showVal x]
  | .l xs => s!"L{xs.length}" :: xs.flatMap showJ

/-! encoders -/
def jS (s : Str) : J := .v (.str s)
def jB (b : Bool) : J := .v (.int (if b then 1 else 0))
def jVs (vs : List Val) : J := .l (vs.map .v)
def jSs (ss : List Str) : J := .l (ss.map jS)
def jDict (d : Dict) : J := .l (d.map fun p => .l [jS p.1, .v p.2])
def jOpt {α} (f : α → J) : Option α → J
  | none => .l []
  | some x => .l [f x]
def jRP : Option RP → J
  | none => .l []
  | some p => .l [.v p.type, jVs p.params]

def jRock (r : Rock) : J :=
  .l [.v r.name, .v r.nad, .v r.density, .v r.porosity, jVs r.perm, .v r.conductivity, .v r.specificHeat, jDict r.extra, jRP r.rp, jRP r.cp]
def jBlock (b : Block) : J :=
  .l [jS b.name, .v b.nseq, .v b.nadd, jS b.rock, .v b.volume, .v b.ahtx, .v b.pmx, jOpt jVs b.centre]
def jConn (c : Conn) : J :=
  .l [jS c.b1, jS c.b2, .v c.nseq, .v c.nad1, .v c.nad2, .v c.direction, jVs c.dist, .v c.area, .v c.dircos, .v c.sigma]
def jGen (g : Gener) : J :=
  .l [jS g.block, jS g.name, .v g.nseq, .v g.nadd, .v g.nads, .v g.ltab, .v g.type, .v g.itab, .v g.gx, .v g.ex, .v g.hg, .v g.fg,
      jVs g.time, jVs g.rate, jVs g.enthalpy]
def jPairs (ps : List (Str × Str)) : J := .l (ps.map fun p => .l [jS p.1, jS p.2])
def jShort (s : Short) : J := .l [jOpt .v s.frequency, jOpt jSs s.block, jOpt jPairs s.connection, jOpt jPairs s.generator]
def jRZ : RZSub → J
  | .radii xs => .l [jS (c!"radii"), jVs xs]
  | .equid d => .l [jS (c!"equid"), jDict d]
  | .logar d => .l [jS (c!"logar"), jDict d]
  | .layer xs => .l [jS (c!"layer"), jVs xs]
def jMM : MeshMaker → J
  | .rz2d subs => .l [jS (c!"rz2d"), .l (subs.map jRZ)]
  | .xyz deg subs => .l [jS (c!"xyz"), .v deg, .l (subs.map fun s => .l [.v s.ntype, .v s.no, .v s.del, jOpt jVs s.deli])]
  | .minc m => .l [jS (c!"minc"), .v m.type, .v m.dual, .v m.numContinua, .v m.where_, jVs m.spacing, jVs m.vol]

def jData (d : T2Data) : J :=
  .l [jS d.title, jS d.simulator, jS d.endKeyword, jSs d.sections, jSs d.extraPrecision, jB d.echo,
      .l (d.rocks.map jRock), jDict d.parameter, .l (d.option.map fun i => .v (.int i)), jVs d.timestep, jVs d.defaultIncons,
      .l (d.moreOption.map fun i => .v (.int i)),
      jDict d.multi, jB d.start, jB d.noversion, jRP d.rpcap.rp, jRP d.rpcap.cp, jDict d.lineq, jDict d.solver,
      jDict d.outputTimes.d, jOpt jVs d.outputTimes.time,
      .l (d.blocks.map jBlock), .l (d.conns.map jConn), .l (d.gens.map jGen), jShort d.short,
      .l (d.historyBlock.map fun i => .l [jB i.isObj, jS i.name]),
      .l (d.historyConn.map fun i => .l [jB i.isObj, jS i.n1, jS i.n2]),
      .l (d.historyGen.map fun i => .l [jB i.isObj, jS i.name]),
      .l (d.incon.map fun e => .l [jS e.name, .v e.porosity, jVs e.vars, jOpt (fun (p : Val × Val) => .l [.v p.1, .v p.2]) e.seq]),
      .l (d.indom.map fun e => .l [jS e.1, jVs e.2]),
      .l (d.diffusion.map jVs),
      jOpt (fun (s : Selection) => .l [jVs s.integer, jVs s.float]) d.selection,
      .l (d.meshmaker.map jMM)]

/-! decoders -/
def dV : J → Option Val
  | .v x => some x
  | _ => none
def dS : J → Option Str
  | .v (.str s) => some s
  | _ => none
def dB : J → Option Bool
  | .v (.int i) => some (i != 0)
  | _ => none
def dI : J → Option Int
  | .v (.int i) => some i
  | _ => none
def dL {α} (f : J → Option α) : J → Option (List α)
  | .l xs => xs.mapM f
  | _ => none
def dOpt {α} (f : J → Option α) : J → Option (Option α)
  | .l [] => some none
  | .l [x] => (f x).map some
  | _ => none
def dDict : J → Option Dict := dL fun
  | .l [a, b] => do pure (← dS a, ← dV b)
  | _ => none
def dRP : J → Option (Option RP)
  | .l [] => some none
  | .l [t, ps] => do pure (some { type := ← dV t, params := ← dL dV ps })
  | _ => none
def dPair : J → Option (Str × Str)
  | .l [a, b] => do pure (← dS a, ← dS b)
  | _ => none

def dRock : J → Option Rock
  | .l [name, nad, density, porosity, perm, cond, sh, extra, rp, cp] => do
    pure { name := ← dV name, nad := ← dV nad, density := ← dV density, porosity := ← dV porosity, perm := ← dL dV perm,
           conductivity := ← dV cond, specificHeat := ← dV sh, extra := ← dDict extra, rp := ← dRP rp, cp := ← dRP cp }
  | _ => none
def dBlock : J → Option Block
  | .l [name, nseq, nadd, rock, volume, ahtx, pmx, centre] => do
    pure { name := ← dS name, nseq := ← dV nseq, nadd := ← dV nadd, rock := ← dS rock, volume := ← dV volume,
           ahtx := ← dV ahtx, pmx := ← dV pmx, centre := ← dOpt (dL dV) centre }
  | _ => none
def dConn : J → Option Conn
  | .l [b1, b2, nseq, nad1, nad2, dirn, dist, area, dircos, sigma] => do
    pure { b1 := ← dS b1, b2 := ← dS b2, nseq := ← dV nseq, nad1 := ← dV nad1, nad2 := ← dV nad2, direction := ← dV dirn,
           dist := ← dL dV dist, area := ← dV area, dircos := ← dV dircos, sigma := ← dV sigma }
  | _ => none
def dGen : J → Option Gener
  | .l [block, name, nseq, nadd, nads, ltab, type, itab, gx, ex, hg, fg, time, rate, enth] => do
    pure { block := ← dS block, name := ← dS name, nseq := ← dV nseq, nadd := ← dV nadd, nads := ← dV nads, ltab := ← dV ltab,
           type := ← dV type, itab := ← dV itab, gx := ← dV gx, ex := ← dV ex, hg := ← dV hg, fg := ← dV fg,
           time := ← dL dV time, rate := ← dL dV rate, enthalpy := ← dL dV enth }
  | _ => none
def dShort : J → Option Short
  | .l [f, b, c, g] => do
    pure { frequency := ← dOpt dV f, block := ← dOpt (dL dS) b, connection := ← dOpt (dL dPair) c, generator := ← dOpt (dL dPair) g }
  | _ => none
def dRZ : J → Option RZSub
  | .l [kind, x] => do
    let kd ← dS kind
    if kd == c!"radii" then pure (.radii (← dL dV x))
    else if kd == c!"equid" then pure (.equid (← dDict x))
    else if kd == c!"logar" then pure (.logar (← dDict x))
    else if kd == c!"layer" then pure (.layer (← dL dV x))
    else none
  | _ => none
def dMM : J → Option MeshMaker
  | .l [kind, subs] => do
    if (← dS kind) == c!"rz2d" then pure (.rz2d (← dL dRZ subs)) else none
  | .l [kind, deg, subs] => do
    if (← dS kind) == c!"xyz" then
      pure (.xyz (← dV deg) (← dL (fun
        | .l [nt, no, del, deli] => do pure { ntype := ← dV nt, no := ← dV no, del := ← dV del, deli := ← dOpt (dL dV) deli }
        | _ => none) subs))
    else none
  | .l [kind, type, dual, nc, wh, sp, vol] => do
    if (← dS kind) == c!"minc" then
      pure (.minc { type := ← dV type, dual := ← dV dual, numContinua := ← dV nc, where_ := ← dV wh, spacing := ← dL dV sp, vol := ← dL dV vol })
    else none
  | _ => none

def dData : J → Option T2Data
  | .l xs =>
   match xs.take 15, xs.drop 15 with
   | [title, simulator, endkw, sections, xp, echo, rocks, param, option, timestep, dincons, moreopt, multi, start, nover],
     [rp, cp, lineq, solver, otimes, otime, blocks, conns, gens, short, fo, co, go, incon, indom, diffusion, selection, mm] => do
    pure { title := ← dS title, simulator := ← dS simulator, endKeyword := ← dS endkw, sections := ← dL dS sections,
           extraPrecision := ← dL dS xp, echo := ← dB echo, rocks := ← dL dRock rocks, parameter := ← dDict param,
           option := ← dL dI option, timestep := ← dL dV timestep, defaultIncons := ← dL dV dincons, moreOption := ← dL dI moreopt,
           multi := ← dDict multi, start := ← dB start, noversion := ← dB nover, rpcap := ⟨← dRP rp, ← dRP cp⟩,
           lineq := ← dDict lineq, solver := ← dDict solver, outputTimes := ⟨← dDict otimes, ← dOpt (dL dV) otime⟩,
           blocks := ← dL dBlock blocks, conns := ← dL dConn conns, gens := ← dL dGen gens, short := ← dShort short,
           historyBlock := ← dL (fun | .l [o, n] => do pure { isObj := ← dB o, name := ← dS n } | _ => none) fo,
           historyConn := ← dL (fun | .l [o, a, b] => do pure { isObj := ← dB o, n1 := ← dS a, n2 := ← dS b } | _ => none) co,
           historyGen := ← dL (fun | .l [o, n] => do pure { isObj := ← dB o, name := ← dS n } | _ => none) go,
           incon := ← dL (fun
             | .l [n, p, vs, sq] => do
               pure { name := ← dS n, porosity := ← dV p, vars := ← dL dV vs,
                      seq := ← dOpt (fun | .l [a, b] => do pure (← dV a, ← dV b) | _ => none) sq }
             | _ => none) incon,
           indom := ← dL (fun | .l [n, vs] => do pure (← dS n, ← dL dV vs) | _ => none) indom,
           diffusion := ← dL (dL dV) diffusion,
           selection := ← dOpt (fun | .l [a, b] => do pure { integer := ← dL dV a, float := ← dL dV b } | _ => none) selection,
           meshmaker := ← dL dMM mm }
   | _, _ => none
  | _ => none

def hexLines (ls : List Str) : String := toHex ls.flatten

def handleWrite (mesh xp echo : String) (obj : List String) : String :=
  let meshK : Option MeshKind := if mesh = "in" then some .infile else if mesh = "ascii" then some .ascii
    else if mesh = "binary" then some .binary else none
  match meshK, parseJ obj with
  | some mk, some (j, []) =>
    match dData j with
    | none => "bad-object"
    | some d =>
      let xpArg : Option (Option (List Str)) := if xp = "-" then some none else
        match parseJ (xp.splitOn ",") with
        | some (jx, []) => (dL dS jx).map some
        | _ => none
      let echoArg : Option Bool := if echo = "-" then none else some (echo = "1")
      match xpArg with
      | none => "bad-xp"
      | some xpA =>
        match d.write { mesh := mk, xp := xpA, echo := echoArg } with
        | .error e => "exc " ++ e.toString
        | .ok (d', f) =>
          let opt := fun (o : Option (List Str)) => match o with | some ls => hexLines ls | none => "-"
          "ok M" ++ hexLines f.main ++ " E" ++ opt f.mesh ++ " P" ++ opt f.pdat ++ " " ++
            " ".intercalate (showJ (.l [jSs d'.sections, jSs d'.extraPrecision, jB d'.echo]))
  | _, _ => "bad-request"

/-- Python text mode: universal newlines -/
def universalNewlines : Str → Str
  | '\r' :: '\n' :: r => '\n' :: universalNewlines r
  | '\r' :: r => '\n' :: universalNewlines r
  | c :: r => c :: universalNewlines r
  | [] => []

def readFileLines (path : String) : IO (List Str) := do
  let b ← IO.FS.readBinFile path
  pure (splitLines (universalNewlines (b.toList.map fun x => Char.ofNat x.toNat)))

def pathOf (h : String) : String := String.ofList (ofHex h)

def handleRead (rf main mesh pdat : String) : IO String := do
  let m ← readFileLines (pathOf main)
  let e ← if mesh = "-" then pure none else do pure (some (← readFileLines (pathOf mesh)))
  let p ← if pdat = "-" then pure none else do pure (some (← readFileLines (pathOf pdat)))
  match T2Data.read (if rf = "f" then .fortran else .default) { main := m, mesh := e, pdat := p } with
  | .error e => pure ("exc " ++ e.toString)
  | .ok d => pure ("ok " ++ " ".intercalate (showJ (jData d)))

/-- the record tables of Gen/Sections are what `preprocess_specification` gives on the tables of Gen/Specs -/
def selfCheck : String :=
  let chk (tname : String) (tab : List (Str × Gen.Sections.Rec)) : List String :=
    match Gen.Specs.findTable tname with
    | none => [s!"no table {tname}"]
    | some t =>
      (if t.sections.length != tab.length then [s!"{tname}: {t.sections.length} vs {tab.length} records"] else []) ++
      t.sections.flatMap fun sec =>
        match Gen.Sections.lookup tab sec.name.toList with
        | none => [s!"{tname}.{sec.name} missing"]
        | some r =>
          match parseSpecs (sec.specs.map String.toList) with
          | .error _ => [s!"{tname}.{sec.name} unparseable"]
          | .ok fs => if fs == r.fs && sec.names.map String.toList == r.names then [] else [s!"{tname}.{sec.name} differs"]
  let bad := chk "t2data" Gen.Sections.mainTable ++ chk "t2data_xp" Gen.Sections.xpTable
  if bad.isEmpty then "ok" else "bad " ++ "; ".intercalate bad

/-! hypotheses of the section theorems (Props/C01.lean), evaluated on an explored object -/
def cycleNameB (n : Str) : Str := match fixBlockname (unfixBlockname n) with | .ok c => c | .error _ => n
def goodNameB (n : Str) : Bool := n.length == 5 && !isBlank (unfixBlockname n) && !(unfixBlockname n).contains '\n'
def goodBlockB (rocks : List Rock) (b : Block) : Bool :=
  goodNameB b.name && b.rock.length == 5 && !b.rock.contains '\n' && rocks.any (·.name == .str b.rock) &&
    (match b.centre with | none => true | some c => c.length == 3)
def goodConnB (names : List Str) (c : Conn) : Bool :=
  goodNameB c.b1 && goodNameB c.b2 && names.contains (cycleNameB c.b1) && names.contains (cycleNameB c.b2) &&
    c.dist.length == 2 && !startsWith (unfixBlockname c.b1) c!"+++"
def timesHypB (o : OutputTimes) : Bool :=
  match o.time with
  | some ts => o.d.get c!"num_times_specified" == some (.int (Int.ofNat ts.length)) && ts.all (· != .none)
  | none => false

def rockLevelB (rt : Rock) : Int := match rt.nad with | .int k => k | _ => 0
def goodRockB (rt : Rock) : Bool :=
  (match rt.name with | .str nm => nm.length == 5 && !nm.contains '\n' && !isBlank nm | _ => false) &&
  (match rt.nad with | .none => true | .int _ => true | _ => false) && rt.perm.length == 3 &&
  (rockLevelB rt < 2 || ((match rt.rp with | some p => p.params.length ≤ 7 | none => false) &&
                         (match rt.cp with | some p => p.params.length ≤ 7 | none => false)))
def tableLenB (g : Gener) : Nat :=
  match tableTimes g.ltab g.type with
  | .ok (some k) => if k ≤ 1 then 0 else k
  | _ => 0
def goodGenerB (g : Gener) : Bool :=
  goodNameB g.block && g.name.length == 5 && !(unfixBlockname g.name).contains '\n' &&
  (match g.ltab with | .int _ => true | .none => true | _ => false) &&
  (match g.itab with
   | .str s => tableLenB g == 0 ||
       (g.time.length == tableLenB g && g.rate.length == tableLenB g &&
        (if isBlank s then g.enthalpy.isEmpty else g.enthalpy.length == tableLenB g))
   | _ => false)

def goodIndomB (e : Str × List Val) : Bool :=
  e.1.length == 5 && !isBlank e.1 && e.2.length ≤ 4 && e.2.all (· != .none)
def goodOptionsB (n : Nat) (opts : List Int) : Bool :=
  opts.head? == some 0 && opts.length == n + 1 && (opts.drop 1).all (fun i => 0 ≤ i && i ≤ 9)
def goodSelectionB (s : Selection) : Bool :=
  (match s.integer.head? with | some (.int k) => k == Int.ofNat ((s.float.length + 7) / 8) | _ => false) && s.integer.length ≤ 16
def goodDiffuB (d : T2Data) : Bool :=
  match d.multi.get c!"num_components", d.multi.get c!"num_phases" with
  | some (.int nc), some (.int np) => nc == Int.ofNat d.diffusion.length && np ≤ 8 && d.diffusion.all (fun r => Int.ofNat r.length == np)
  | _, _ => false
def visibleB (n : Str) : Bool := n.length == 5 && !isBlank (unfixBlockname n)
def notSubKwB (n : Str) : Bool := !shortKeywords.contains (unfixBlockname n)
def goodShortB (d : T2Data) : Bool :=
  let s := d.short
  let names := d.blocks.map (fun b => cycleNameB b.name)
  !s.isEmpty &&
  (match shortFreqText s with | .ok t => t.isEmpty || t.length == 2 | .error _ => false) &&
  (match s.block with | some ns => ns.all (fun n => visibleB n && notSubKwB n && names.contains (cycleNameB n)) | none => true) &&
  (match s.connection with
   | some ps => ps.all (fun p => visibleB p.1 && p.2.length == 5 && notSubKwB p.1 &&
       d.conns.any (fun c => cycleNameB c.b1 == cycleNameB p.1 && cycleNameB c.b2 == cycleNameB p.2))
   | none => true) &&
  (match s.generator with
   | some ps => ps.all (fun p => visibleB p.1 && p.2.length == 5 && notSubKwB p.1 &&
       d.gens.any (fun g => cycleNameB g.block == cycleNameB p.1 && cycleNameB g.name == cycleNameB p.2))
   | none => true)
def lastVisible (s : Str) : Bool := match s.getLast? with | some c => !isStrWs c | none => false
def goodMeshB : MeshMaker → Bool
  | .rz2d subs =>
    (match subs.getLast? with | some (.layer _) => true | _ => false) &&
    subs.dropLast.all (fun s => match s with | .layer _ => false | .equid d => !d.isEmpty | .logar d => !d.isEmpty | .radii xs => xs.all (· != .none))
  | .xyz _ subs => subs.all (fun s =>
      (match s.ntype with | .str t => t.length == 2 && !isBlank t && !t.contains '\n' | _ => false) &&
      (match s.no with
       | .int k => 0 ≤ k && (if s.del.isZero then (match s.deli with | some xs => Int.ofNat xs.length == k | none => false) else s.deli.isNone)
       | _ => false))
  | .minc m =>
    (match m.type with | .str t => t.length == 5 && lastVisible t && !t.contains '\n' | _ => false) &&
    (match m.dual with | .str t => t == c!"     " || (t.length == 5 && lastVisible t && !t.contains '\n') | _ => false) &&
    (match m.where_ with | .str w => w.length == 4 && !w.contains '\n' | _ => false) && m.spacing.length ≤ 7

def handleHyp (obj : List String) : String :=
  match parseJ obj with
  | some (j, []) =>
    match dData j with
    | none => "bad-object"
    | some d =>
      let names := d.blocks.map (fun b => cycleNameB b.name)
      let cnt := fun (l : List Bool) => s!"{(l.filter id).length}/{l.length}"
      let hist := (d.historyBlock ++ d.historyGen).map (fun i => i.name.length == 5 && !isBlank (unfixBlockname i.name))
      "ok GoodRock(structural) " ++ cnt (d.rocks.map goodRockB) ++ " GoodGener(structural) " ++ cnt (d.gens.map goodGenerB) ++
        " GoodBlock " ++ cnt (d.blocks.map (goodBlockB d.rocks)) ++ " GoodConn " ++ cnt (d.conns.map (goodConnB names)) ++
        " GoodName(INCON) " ++ cnt (d.incon.map (fun e => goodNameB e.name)) ++ " Visible(FOFT,GOFT) " ++ cnt hist ++
        " TIMES " ++ cnt (if d.outputTimes.isEmpty then [] else [timesHypB d.outputTimes]) ++
        " GoodIndom " ++ cnt (d.indom.map goodIndomB) ++
        " GoodOptions(PARAM,MOMOP) " ++ cnt ([goodOptionsB 24 d.option] ++ (if d.moreOption.any (· != 0) then [goodOptionsB 21 d.moreOption] else [])) ++
        " GoodSelection " ++ cnt (match d.selection with | some s => [goodSelectionB s] | none => []) ++
        " DIFFU " ++ cnt (if d.diffusion.isEmpty then [] else [goodDiffuB d]) ++
        " GoodShort(structural) " ++ cnt (if d.short.isEmpty then [] else [goodShortB d]) ++
        " GoodMesh(structural) " ++ cnt (d.meshmaker.map goodMeshB)
  | _ => "bad-request"

def handle (ws : List String) : IO String :=
  match ws with
  | "write" :: mesh :: xp :: echo :: obj => pure (handleWrite mesh xp echo obj)
  | ["read", rf, main, mesh, pdat] => handleRead rf main mesh pdat
  | "hyp" :: obj => pure (handleHyp obj)
  | ["chk"] => pure selfCheck
  | _ => pure "bad-op"

partial def loop (i o : IO.FS.Stream) : IO Unit := do
  let line ← i.getLine
  if line.isEmpty then return ()
  let ws := (line.trimAscii.toString.splitOn " ").filter (· ≠ "")
  let r ← try handle ws catch e => pure ("ioerr " ++ (toString e).replace "\n" " ")
  o.putStrLn r
  loop i o

def main : IO Unit := do
  let i ← IO.getStdin
  let o ← IO.getStdout
  loop i o
  o.flush
