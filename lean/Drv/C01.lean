-- driver stub (replaced when the model for C01 is built)
def main : IO Unit := pure ()
