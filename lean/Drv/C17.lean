import PyTough.Model.Names
import PyTough.Py.Proto
open Py Model.Names

/-- strings travel as `x<hex>` so that the empty string is a token -/
def unx (s : String) : Str := ofHex (s.drop 1).toString
def enx (s : Str) : String := "x" ++ toHex s
def unxList (s : String) : List Str := if s = "-" then [] else (s.splitOn ",").map unx
def enxList (l : List Str) : String := if l.isEmpty then "-" else ",".intercalate (l.map enx)
def unxPairs (s : String) : SDict :=
  if s = "-" then [] else (s.splitOn ",").map fun kv =>
    match kv.splitOn ":" with
    | [k, v] => (unx k, unx v)
    | _ => ([], [])
def enxPairs (d : SDict) : String :=
  if d.isEmpty then "-" else ",".intercalate (d.map fun (k, v) => enx k ++ ":" ++ enx v)
def nat (s : String) : Nat := s.toNat?.getD 0
def flag (s : String) : Bool := s = "1"
def natList (s : String) : List Nat := if s = "-" then [] else (s.splitOn ",").map nat

def hashNames (l : List Str) : UInt64 :=
  l.foldl (fun h name => (name.foldl (fun h c => h * 1000003 + c.toNat.toUInt64 + 1) h) * 1000003 + 7) 0

def showOpt : Option Str → String
  | some s => enx s
  | none => "none"

def caseOf (s : String) : Option Bool := if s = "n" then none else if s = "l" then some true else some false

def showRect (full : Bool) (r : RectNames) : String :=
  if full then s!"{enxList r.nodes} {enxList r.cols} {enxList r.layers} {enxList r.blocks}"
  else s!"{r.nodes.length}:{hashNames r.nodes} {r.cols.length}:{hashNames r.cols} {r.layers.length}:{hashNames r.layers} {r.blocks.length}:{hashNames r.blocks}"

def handle : List String → String
  | ["itc", i, st, chars, spaces, length] => showExc enx (intToChars (nat i) (unx st) (unx chars) (flag spaces) (nat length))
  | ["ndk", istart, left, length, chars, spaces, keys] =>
      showExc (fun (p : Str × Nat) => s!"{enx p.1} {p.2}")
        (newDictKey (unxList keys) (nat istart) (flag left) (nat length) (unx chars) (flag spaces))
  | ["uniq", s] => "ok " ++ enx (uniqstring (unx s))
  | ["fix", s] => showExc enx (fixBlockname (unx s))
  | ["unfix", s] => "ok " ++ enx (unfixBlockname (unx s))
  | ["valid", s] => showExc (fun (b : Bool) => if b then "1" else "0") (validBlockname (unx s))
  | ["fbm", d] => showExc enxPairs (fixBlockMapping (unxPairs d))
  | ["str", n] => "ok " ++ enx (natStr (nat n))
  | ["colname", conv, s] => "ok " ++ showOpt (columnName (nat conv) (unx s))
  | ["layname", conv, s] => "ok " ++ showOpt (layerName (nat conv) (unx s))
  | ["blk", conv, lay, col, bm] => showExc enx (blockName (nat conv) (unx lay) (unx col) (unxPairs bm))
  | ["ncn", conv, num, left, chars, spaces] =>
      showExc enx (nodeColNameFromNumber (nat conv) (nat num) (flag left) (unx chars) (flag spaces))
  | ["cnn", conv, num, left, chars, spaces] =>
      showExc enx (columnNameFromNumber (nat conv) (nat num) (flag left) (unx chars) (flag spaces))
  | ["nnn", conv, num, left, chars, spaces] =>
      showExc enx (nodeNameFromNumber (nat conv) (nat num) (flag left) (unx chars) (flag spaces))
  | ["lnn", conv, num, left, chars, spaces] =>
      showExc enx (layerNameFromNumber (nat conv) (nat num) (flag left) (unx chars) (flag spaces))
  | ["nnew", conv, istart, left, chars, spaces, keys] =>
      showExc (fun (p : Str × Nat) => s!"{enx p.1} {p.2}")
        (newNodeName (nat conv) (unxList keys) (nat istart) (flag left) (unx chars) (flag spaces))
  | ["addl", conv, m, left, chars, spaces] =>
      showExc enxList (addLayers (nat conv) (nat m) (flag left) (unx chars) (flag spaces))
  | ["bnl", conv, atmos, layers, cols, first] =>
      let fl := (natList first).toArray
      showExc enxList (blockNameList (nat conv) (nat atmos) (unxList layers) (unxList cols)
        (fun l c => decide (fl.getD c 1 ≤ l)))
  | ["rect", full, nx, ny, nz, conv, atmos, left, case, chars, spaces] =>
      showExc (showRect (flag full))
        (rectangular (nat nx) (nat ny) (nat nz) (nat conv) (nat atmos) (flag left) (caseOf case) (unx chars) (flag spaces))
  | _ => "bad-op"

def main : IO Unit := serve handle
