-- driver stub (replaced when the model for C17 is built)
def main : IO Unit := pure ()
