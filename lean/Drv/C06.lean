-- driver stub (replaced when the model for C06 is built)
def main : IO Unit := pure ()
