-- driver stub (replaced when the model for C10 is built)
def main : IO Unit := pure ()
