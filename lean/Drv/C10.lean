/-
  Driver for C10 (and the whole-geometry part of C11): a geometry state machine.
  One request per line, one reply line.  Names are hex-encoded, rationals are `num/den`.

  building        new <conv> <atmos> | node <name> <x> <y> | col <name> <surface|-> <numlayers> <centre x y|- -> <spec 0|1|-> <node>…
                  conn <col> <col> | layer <name> <bottom> <centre> <top> | well <name> <x y z>…
                  setup | identify_neighbours | set_default_surface
  editing         the operations of mulgrid (see `step`)
  observing       dump   (the whole state, canonical text) | inv   (the clauses of Model/GeoInv.lean)
  reply           `ok` / `ok <value>` / `exc <PythonExceptionName>` / `bad …`
  After an exception the state is the one before the operation (the harness ends the history there).
-/
import PyTough.Model.GeoOps
import PyTough.Model.GeoInv
import PyTough.Py.Proto
open Py Model.Geo Model.Geo.Geo

def parseInt? (s : String) : Option Int :=
  if s.startsWith "-" then (s.drop 1).toNat?.map fun n => -(n : Int) else s.toNat?.map fun n => (n : Int)

def parseRat? (s : String) : Option Rat :=
  match s.splitOn "/" with
  | [n] => (parseInt? n).map fun i => (i : Rat)
  | [n, d] => do
    let i ← parseInt? n
    let k ← d.toNat?
    if k = 0 then none else some (mkRat i k)
  | _ => none

def showRat (r : Rat) : String := s!"{r.num}/{r.den}"
def hexName (n : Name) : String := let h := toHex n; if h = "" then "~" else h
def unhexName (s : String) : Name := if s = "~" then [] else ofHex s

def ratD (s : String) : Rat := (parseRat? s).getD 0

def dump (g : Geo) : String :=
  let nm (n : Name) := hexName n
  let nodeName (i : Nat) := nm (g.node i).name
  let colName (i : Nat) := nm (g.col i).name
  let conName (k : Nat) := colName (g.con k).c0 ++ ":" ++ colName (g.con k).c1
  let sec (tag : String) (items : List String) := tag ++ " " ++ toString items.length ++ (items.foldl (fun a s => a ++ " " ++ s) "")
  let nodes := g.nodelist.map fun i =>
    let n := g.node i
    s!"{nm n.name} {showRat n.pos.1} {showRat n.pos.2} {n.cols.length}" ++ (n.cols.foldl (fun a c => a ++ " " ++ colName c) "")
  let cols := g.columnlist.map fun i =>
    let c := g.col i
    let surf := match c.surface with | some s => showRat s | none => "-"
    s!"{nm c.name} {c.nodes.length}" ++ (c.nodes.foldl (fun a n => a ++ " " ++ nodeName n) "") ++
      s!" {showRat c.centre.1} {showRat c.centre.2} {if c.centreSpecified then 1 else 0} {surf} {showRat c.area} {c.numLayers} {c.nbrs.length}" ++
      (c.nbrs.foldl (fun a n => a ++ " " ++ colName n) "") ++ s!" {c.cons.length}" ++
      (c.cons.foldl (fun a k => a ++ " " ++ conName k) "")
  let cons := g.connlist.map fun k =>
    let c := g.con k
    let nd := match c.nodes with | some (a, b) => nodeName a ++ " " ++ nodeName b | none => "- -"
    s!"{colName c.c0} {colName c.c1} {nd}"
  let lays := g.layerlist.map fun l =>
    let la := g.lay l
    s!"{nm la.name} {showRat la.bottom} {showRat la.centre} {showRat la.top}"
  let wells := g.welllist.map fun w =>
    let wl := g.well w
    s!"{nm wl.name} {wl.pos.length}" ++ (wl.pos.foldl (fun a p => a ++ s!" {showRat p.1} {showRat p.2.1} {showRat p.2.2}") "")
  let dn := g.nodeD.map fun p => nm p.1 ++ " " ++ nodeName p.2
  let dc := g.columnD.map fun p => nm p.1 ++ " " ++ colName p.2
  let dl := g.layerD.map fun p => nm p.1 ++ " " ++ nm (g.lay p.2).name
  let dw := g.wellD.map fun p => nm p.1 ++ " " ++ nm (g.well p.2).name
  let dk := g.connD.map fun p => nm p.1.1 ++ " " ++ nm p.1.2 ++ " " ++ colName (g.con p.2).c0 ++ " " ++ colName (g.con p.2).c1
  let fresh : String :=
    match g.computeBlockNames with
    | .error e => "exc:" ++ e.toString
    | .ok b =>
      match ({ g with blockNames := b }).computeConnNames with
      | .error e => "exc:" ++ e.toString
      | .ok c => (if b = g.blockNames then "1" else "0") ++ (if c = g.connNames then "1" else "0")
  " ".intercalate [sec "N" nodes, sec "C" cols, sec "K" cons, sec "L" lays, sec "W" wells,
    sec "DN" dn, sec "DC" dc, sec "DL" dl, sec "DW" dw, sec "DK" dk,
    sec "B" (g.blockNames.map nm), sec "BC" (g.connNames.map fun p => nm p.1 ++ " " ++ nm p.2), "FRESH " ++ fresh]

def colId (g : Geo) (h : String) : Except Exc Nat :=
  match g.columnD.get? (unhexName h) with
  | some i => .ok i
  | none => .error .keyError

def nodeId (g : Geo) (h : String) : Except Exc Nat :=
  match g.nodeD.get? (unhexName h) with
  | some i => .ok i
  | none => .error .keyError

/-- `k` then `k` items -/
def takeCounted (ws : List String) : Option (List String × List String) :=
  match ws with
  | [] => none
  | k :: r => k.toNat?.bind fun n => if r.length < n then none else some (r.take n, r.drop n)

def parseWellPos : List String → List (Rat × Rat × Rat)
  | x :: y :: z :: r => (ratD x, ratD y, ratD z) :: parseWellPos r
  | _ => []

def step (g : Geo) : List String → Except Exc (Geo × String)
  | ["new", conv, atm] => .ok ({ convention := conv.toNat!, atmosType := atm.toNat! }, "")
  | ["node", n, x, y] => .ok (g.addNode (unhexName n) (ratD x, ratD y), "")
  | "col" :: n :: surf :: nl :: cx :: cy :: spec :: nodes => do
    let ids ← nodes.mapM (nodeId g)
    let centre := if cx = "-" then none else some (ratD cx, ratD cy)
    let existed := g.columnD.contains (unhexName n)
    let g ← g.addColumn (unhexName n) ids centre (parseRat? surf) ((parseInt? nl).getD 0)
    -- loading an existing geometry: the centre is given, `centre_specified` separately
    let g := if existed || spec = "-" then g else
      match g.columnlist.getLast? with
      | some l => g.updCol l fun c => { c with centreSpecified := spec = "1" }
      | none => g
    pure (g, "")
  | ["conn", a, b] => do
    let g := g.addConnection (← colId g a) (← colId g b)
    pure (g, "")
  | ["layer", n, b, c, t] => .ok (g.addLayer { name := unhexName n, bottom := ratD b, centre := ratD c, top := ratD t }, "")
  | "well" :: n :: pos => .ok (g.addWell { name := unhexName n, pos := parseWellPos pos }, "")
  | ["setup"] => do pure (← g.setupNames, "")
  | ["identify_neighbours"] => .ok (g.identifyNeighbours, "")
  | ["set_default_surface"] => .ok (g.setDefaultSurface, "")
  | ["identify_layer_tops"] => .ok (g.identifyLayerTops, "")
  | ["set_surface", c, z] => do pure (← g.setSurface (← colId g c) (ratD z), "")
  | ["delete_node", n] => do pure (← g.deleteNode (unhexName n), "")
  | ["delete_column", n] => do pure (← g.deleteColumn (unhexName n), "")
  | ["delete_connection", a, b] => do pure (← g.deleteConnection (unhexName a, unhexName b), "")
  | ["delete_layer", n] => do pure (← g.deleteLayer (unhexName n), "")
  | ["delete_well", n] => do pure (← g.deleteWell (unhexName n), "")
  | ["split_column", c, n] => do
    let (g, r) ← g.splitColumn (unhexName c) (unhexName n)
    pure (g, if r then "True" else "False")
  | "rename_column" :: rest =>
    match takeCounted rest with
    | some (olds, r) => do pure (← g.renameColumn (olds.map unhexName) (r.map unhexName), "")
    | none => .error .generic
  | ["rename_layer", a, b] => do pure (← g.renameLayer [unhexName a] [unhexName b], "")
  | "refine" :: mode :: rest =>
    match takeCounted rest with
    | some (cols, r) =>
      match takeCounted r with
      | some (edge, _) => do
        let b : Bisect := if mode = "t" then .longest else if mode = "x" then .x else if mode = "y" then .y else .no
        let g ← g.refine (← cols.mapM (colId g)) b (← edge.mapM (colId g))
        pure (g, "")
      | none => .error .generic
    | none => .error .generic
  | "refine_layers" :: f :: layers => do pure (← g.refineLayers (layers.map unhexName) f.toNat!, "")
  | "decompose_columns" :: cols => do pure (← g.decomposeColumns (← cols.mapM (colId g)), "")
  | ["triangulate_column", c] => do
    let (g, _) ← g.triangulateColumn (unhexName c)
    let g ← g.addMissingConnections
    let g := g.identifyNeighbours
    pure (← g.setupNames, "")
  | "reduce" :: cols => do pure (← g.reduce (← cols.mapM (colId g)), "")
  | "snap_columns_to_layers" :: t :: cols => do pure (← g.snapColumnsToLayers (ratD t) (← cols.mapM (colId g)), "")
  | "snap_columns_to_nearest_layers" :: cols => do pure (← g.snapColumnsToNearestLayers (← cols.mapM (colId g)), "")
  | ["translate", dx, dy, dz, w] => .ok (g.translate (ratD dx) (ratD dy) (ratD dz) (w = "1"), "")
  | ["rotate", cs, sn, cx, cy, w] => do
    let centre := if cx = "-" then none else some (ratD cx, ratD cy)
    pure (← g.rotate (ratD cs) (ratD sn) centre (w = "1"), "")
  | "copy_layers_from" :: rest =>
    let rec lay : List String → List Layer
      | n :: b :: c :: t :: r => { name := unhexName n, bottom := ratD b, centre := ratD c, top := ratD t } :: lay r
      | _ => []
    do pure (← g.copyLayersFrom (lay rest), "")
  | ["check_fix"] => do
    let (g, ok) ← g.check true
    pure (g, if ok then "True" else "False")
  | ["check"] => do
    let (_, ok) ← g.check false
    pure (g, if ok then "True" else "False")
  | ["delete_orphans"] => do pure (← g.deleteOrphans, "")
  | "unstable" :: "refine" :: mode :: cols => do
    let b : Bisect := if mode = "t" then .longest else if mode = "x" then .x else if mode = "y" then .y else .no
    pure (g, if g.refineUnstable (← cols.mapM (colId g)) b then "1" else "0")
  | "unstable" :: "decompose" :: cols => do
    pure (g, if g.decomposeUnstable (← cols.mapM (colId g)) then "1" else "0")
  -- numeric resynchronisation (the harness overwrites rounding drift with the doubles of the real object;
  -- never anything combinatorial)
  | ["npos", n, x, y] => do
    let i ← nodeId g n
    pure (g.updNode i fun nd => { nd with pos := (ratD x, ratD y) }, "")
  | ["cnum", c, cx, cy, area, surf] => do
    let i ← colId g c
    pure (g.updCol i fun cl => { cl with centre := (ratD cx, ratD cy), area := ratD area, surface := parseRat? surf }, "")
  | ["lnum", n, b, c, t] =>
    match g.layerD.get? (unhexName n) with
    | some i => .ok (g.updLay i fun la => { la with bottom := ratD b, centre := ratD c, top := ratD t }, "")
    | none => .error .keyError
  | "wpos" :: n :: pos =>
    match g.wellD.get? (unhexName n) with
    | some i => .ok ({ g with W := g.W.modify i fun wl => { wl with pos := parseWellPos pos } }, "")
    | none => .error .keyError
  | ["dump"] => .ok (g, dump g)
  | ["inv"] =>
    let b (x : Bool) := if x then "1" else "0"
    .ok (g, s!"heap={b g.heapOK} registry={b g.registriesOK} node-columns={b g.nodeColsOK} column-connections={b g.colConsOK} neighbours={b g.nbrsOK} connection-nodes={b g.conNodesOK} orientation={b g.orientOK} num_layers={b g.layersOK} blocks={b g.blocksFresh} connections={b g.connsFresh} missing-connections={b g.noMissing} extra-connections={b g.noExtra} orphans={b g.noOrphans}")
  | _ => .error .generic

partial def loop (i o : IO.FS.Stream) (g : Geo) : IO Unit := do
  let line ← i.getLine
  if line.isEmpty then return ()
  let ws := (line.trimAscii.toString.splitOn " ").filter (· ≠ "")
  match step g ws with
  | .ok (g', out) =>
    o.putStrLn (if out = "" then "ok" else "ok " ++ out)
    o.flush
    loop i o g'
  | .error e =>
    o.putStrLn ("exc " ++ e.toString)
    o.flush
    loop i o g

def main : IO Unit := do
  let i ← IO.getStdin
  let o ← IO.getStdout
  loop i o {}
  o.flush
