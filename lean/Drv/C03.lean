-- driver stub (replaced when the model for C03 is built)
def main : IO Unit := pure ()
