import PyTough.Model.GeoFile
import PyTough.Py.Proto
open Py Model Model.GeoFile

/-! Line protocol of the C03 driver.

  Geometry encoding (request and reply), blank-separated tokens:
    H s<type> <conv> <atm> <vol> <conn> s<unit> <gdcx|n> <gdcy|n> <cntype|n> <perm> <boi|n> <bo|n>
    N <k> {s<name> <x> <y>}
    C <k> {s<name> <cs> (n | nan | a <x> <y>) (<surface>|n) <default 0/1> <numlayers> <nn> {s<node>}}
    K <k> {s<n1> s<n2>}
    L <k> {s<name> <bottom> <centre> <top>}
    W <k> {s<name> <np> {<x> <y> <z>}}
  numbers: `num/den` or `z` (the float -0.0); strings `s` + hex.
-/

abbrev P (α : Type) := List String → Option (α × List String)

def tok : P String
  | [] => none
  | t :: r => some (t, r)

def pStr : P Str := fun ts => do
  let (t, r) ← tok ts
  match t.toList with
  | 's' :: h => some (ofHexAux h, r)
  | _ => none

def pInt : P Int := fun ts => do
  let (t, r) ← tok ts
  let i ← t.toInt?
  some (i, r)

def pNat : P Nat := fun ts => do
  let (t, r) ← tok ts
  let i ← t.toNat?
  some (i, r)

def fltOfString (t : String) : Option Flt :=
  if t = "z" then some .negZero
  else match t.splitOn "/" with
    | [a, b] => do
      let n ← a.toInt?
      let d ← b.toNat?
      some (.q (mkRat n d))
    | _ => none

def pFlt : P Flt := fun ts => do
  let (t, r) ← tok ts
  let x ← fltOfString t
  some (x, r)

def pOpt {α} (p : P α) : P (Option α) := fun ts =>
  match ts with
  | "n" :: r => some (none, r)
  | _ => do
    let (x, r) ← p ts
    some (some x, r)

def pMany {α} (p : P α) : Nat → P (List α)
  | 0, ts => some ([], ts)
  | k + 1, ts => do
    let (x, r) ← p ts
    let (xs, r') ← pMany p k r
    some (x :: xs, r')

def pExpect (s : String) : P Unit := fun ts =>
  match ts with
  | t :: r => if t = s then some ((), r) else none
  | [] => none

def pHeader : P Header := fun ts => do
  let (_, ts) ← pExpect "H" ts
  let (type, ts) ← pStr ts
  let (conv, ts) ← pInt ts
  let (atm, ts) ← pInt ts
  let (vol, ts) ← pFlt ts
  let (conn, ts) ← pFlt ts
  let (unit, ts) ← pStr ts
  let (gdcx, ts) ← pOpt pFlt ts
  let (gdcy, ts) ← pOpt pFlt ts
  let (cntype, ts) ← pOpt pInt ts
  let (perm, ts) ← pFlt ts
  let (boi, ts) ← pOpt pInt ts
  let (bo, ts) ← pOpt pNat ts
  some ({ type := type, convention := conv, atmosType := atm, atmosVolume := vol, atmosConnection := conn,
          unitType := unit, gdcx := gdcx, gdcy := gdcy, cntype := cntype, permAngle := perm,
          blockOrderInt := boi, blockOrder := bo }, ts)

def pNode : P GNode := fun ts => do
  let (n, ts) ← pStr ts
  let (x, ts) ← pFlt ts
  let (y, ts) ← pFlt ts
  some ({ name := n, x := x, y := y }, ts)

def pCentre : P Centre := fun ts =>
  match ts with
  | "n" :: r => some (.none, r)
  | "nan" :: r => some (.nan, r)
  | "a" :: r => do
    let (x, r) ← pFlt r
    let (y, r) ← pFlt r
    some (.at x y, r)
  | _ => none

def pColumn : P GColumn := fun ts => do
  let (n, ts) ← pStr ts
  let (cs, ts) ← pInt ts
  let (c, ts) ← pCentre ts
  let (sf, ts) ← pOpt pFlt ts
  let (df, ts) ← pNat ts
  let (nl, ts) ← pInt ts
  let (nn, ts) ← pNat ts
  let (nodes, ts) ← pMany pStr nn ts
  some ({ name := n, nodes := nodes, centreSpecified := cs, centre := c, surface := sf,
          defaultSurface := df != 0, numLayers := nl }, ts)

def pConn : P (Str × Str) := fun ts => do
  let (a, ts) ← pStr ts
  let (b, ts) ← pStr ts
  some ((a, b), ts)

def pLayer : P GLayer := fun ts => do
  let (n, ts) ← pStr ts
  let (b, ts) ← pFlt ts
  let (c, ts) ← pFlt ts
  let (t, ts) ← pFlt ts
  some ({ name := n, bottom := b, centre := c, top := t }, ts)

def pPos : P (Flt × Flt × Flt) := fun ts => do
  let (x, ts) ← pFlt ts
  let (y, ts) ← pFlt ts
  let (z, ts) ← pFlt ts
  some ((x, y, z), ts)

def pWell : P GWell := fun ts => do
  let (n, ts) ← pStr ts
  let (k, ts) ← pNat ts
  let (ps, ts) ← pMany pPos k ts
  some ({ name := n, pos := ps }, ts)

def pSection {α} (tag : String) (p : P α) : P (List α) := fun ts => do
  let (_, ts) ← pExpect tag ts
  let (k, ts) ← pNat ts
  pMany p k ts

def pGeo : P Geo := fun ts => do
  let (h, ts) ← pHeader ts
  let (ns, ts) ← pSection "N" pNode ts
  let (cs, ts) ← pSection "C" pColumn ts
  let (ks, ts) ← pSection "K" pConn ts
  let (ls, ts) ← pSection "L" pLayer ts
  let (ws, ts) ← pSection "W" pWell ts
  some ({ hdr := h, nodes := ns, columns := cs, connections := ks, layers := ls, wells := ws }, ts)

/-! ### dump -/

def shStr (s : Str) : String := "s" ++ toHex s
def shFlt : Flt → String
  | .q r => s!"{r.num}/{r.den}"
  | .negZero => "z"
def shOpt {α} (f : α → String) : Option α → String
  | none => "n"
  | some x => f x
def shInt (i : Int) : String := toString i
def shNat (i : Nat) : String := toString i

def shCentre : Centre → List String
  | .none => ["n"]
  | .nan => ["nan"]
  | .at x y => ["a", shFlt x, shFlt y]

def dumpGeo (g : Geo) : List String :=
  let h := g.hdr
  ["H", shStr h.type, shInt h.convention, shInt h.atmosType, shFlt h.atmosVolume, shFlt h.atmosConnection,
   shStr h.unitType, shOpt shFlt h.gdcx, shOpt shFlt h.gdcy, shOpt shInt h.cntype, shFlt h.permAngle,
   shOpt shInt h.blockOrderInt, shOpt shNat h.blockOrder]
  ++ ["N", shNat g.nodes.length] ++ g.nodes.flatMap (fun n => [shStr n.name, shFlt n.x, shFlt n.y])
  ++ ["C", shNat g.columns.length] ++ g.columns.flatMap (fun c =>
      [shStr c.name, shInt c.centreSpecified] ++ shCentre c.centre ++
      [shOpt shFlt c.surface, (if c.defaultSurface then "1" else "0"), shInt c.numLayers, shNat c.nodes.length]
      ++ c.nodes.map shStr)
  ++ ["K", shNat g.connections.length] ++ g.connections.flatMap (fun k => [shStr k.1, shStr k.2])
  ++ ["L", shNat g.layers.length] ++ g.layers.flatMap (fun l => [shStr l.name, shFlt l.bottom, shFlt l.centre, shFlt l.top])
  ++ ["W", shNat g.wells.length] ++ g.wells.flatMap (fun w =>
      [shStr w.name, shNat w.pos.length] ++ w.pos.flatMap (fun p => [shFlt p.1, shFlt p.2.1, shFlt p.2.2]))

def dumpNames (g : Geo) : List String :=
  (match blockNameList g with
   | .ok l => ["B", "ok", shNat l.length] ++ l.map shStr
   | .error e => ["B", "exc", e.toString])
  ++ (match blockConnectionNameList g with
   | .ok l => ["BC", "ok", shNat l.length] ++ l.flatMap (fun k => [shStr k.1, shStr k.2])
   | .error e => ["BC", "exc", e.toString])

def unwords (l : List String) : String := " ".intercalate l

def withGeo (ts : List String) (f : Geo → String) : String :=
  match pGeo ts with
  | some (g, []) => f g
  | _ => "bad-geo"

def handle : List String → String
  | "write" :: ts => withGeo ts fun g => showExc (fun l => "s" ++ toHex l) (write g)
  | ["read", h] =>
    match read (ofHex h) with
    | .ok g => "ok " ++ unwords (dumpGeo g ++ dumpNames g)
    | .error e => "exc " ++ e.toString
  | ["read"] =>
    match read [] with
    | .ok g => "ok " ++ unwords (dumpGeo g ++ dumpNames g)
    | .error e => "exc " ++ e.toString
  | "names" :: ts => withGeo ts fun g => "ok " ++ unwords (dumpNames g)
  | "rw" :: ts => withGeo ts fun g =>
    -- read (write g): the model's own round trip
    match write g with
    | .error e => "exc " ++ e.toString
    | .ok t => match read t with
      | .ok g' => "ok " ++ unwords (dumpGeo g' ++ dumpNames g')
      | .error e => "exc " ++ e.toString
  | "canon" :: ts => withGeo ts fun g => "ok " ++ unwords (dumpGeo (canonGeo g) ++ dumpNames (canonGeo g))
  | "wf" :: ts => withGeo ts fun g =>
    let b (x : Bool) : String := if x then "1" else "0"
    "ok " ++ b (WF g) ++ " " ++ b (LayerCentresKept g) ++ " " ++ b (StableSurfaces g) ++ " " ++ b (SizesStable g) ++ " " ++ b (Consistent g) ++ " " ++ b (SurfaceClear g)
  | _ => "bad-op"

def main : IO Unit := serve handle
