import PyTough.Model.Fortran
import PyTough.Py.Proto
open Py Model

def showF : FOut FVal → String
  | .val v => v.show
  | .blank => "blank"
def showI : FOut (Option Int) → String
  | .val (some i) => s!"int {i}"
  | .val none => "none"
  | .blank => "blank"

def handle : List String → String
  | ["ff", h] => showExc showF (fortranFloat (ofHex h))
  | ["ff"] => showExc showF (fortranFloat [])
  | ["fi", h] => showExc showI (fortranInt (ofHex h))
  | ["fi"] => showExc showI (fortranInt [])
  | ["pf", h] => showExc FVal.show (pyFloat (ofHex h))
  | ["pf"] => showExc FVal.show (pyFloat [])
  | ["pi", h] => showExc (fun (i : Int) => s!"int {i}") (pyInt (ofHex h))
  | ["pi"] => showExc (fun (i : Int) => s!"int {i}") (pyInt [])
  | _ => "bad-op"

def main : IO Unit := serve handle
