-- driver stub (replaced when the model for C04 is built)
def main : IO Unit := pure ()
