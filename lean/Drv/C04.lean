/-
  Driver for C04: one geometry per request line.

  request   fromgeo <conv> <atm> <atmvol> <atmconn> <order> <gdcx|-> <gdcy|-> <tx> <ty> <tz> <rotc> <rots>
                    (tx ty tz: the real tilt_vector, used only when the model's own is irrational)
                    <nlayers> {<name> <bottom> <centre> <top>}*          (layerlist, first = atmosphere layer)
                    <ncols>   {<name> <nnodes> {<x> <y>}* <cx> <cy> <surface>}*
                    <nconns>  {<i> <j> <x0> <y0> <x1> <y1>}*             (column indices, node positions)
                    <nnames>  {<name>}*                                  (cached block_name_list)
                    <nmap>    {<key> <value>}*                           (blockmap)
  names are `x` + hex; rationals `num/den` or integers.

  reply     ok <hyp bits: Fresh LayersWF NodupBlocks NodupConns parseOk ConnsWF> T <exact 0|1> <tx> <ty> <tz>
               NL <ok n {name}* | exc E>       (setup_block_name_index recomputed)
               CL <ok n {name name}* | exc E>  (setup_block_connection_name_index)
               G <ok B n {name vol|- cx cy cz|- atm}* K n {b0 b1 dirn d0c d0r d1c d1r ac ar cc cr}* | exc E>
            | bad <msg>
-/
import PyTough.Model.FromGeo
import PyTough.Py.Proto
open Py Model.FromGeo

namespace DrvC04

abbrev P := StateT (List String) (Except String)

def tok : P String := do
  match (← get) with
  | [] => throw "eof"
  | t :: r => set r; pure t

def pNat : P Nat := do
  let t ← tok
  match t.toNat? with
  | some n => pure n
  | none => throw s!"nat {t}"

def parseRat (t : String) : Option Rat :=
  match t.splitOn "/" with
  | [a] => a.toInt?.map (fun (i : Int) => (i : Rat))
  | [a, b] => match a.toInt?, b.toNat? with
    | some i, some d => if d = 0 then none else some (mkRat i d)
    | _, _ => none
  | _ => none

def pRat : P Rat := do
  let t ← tok
  match parseRat t with
  | some q => pure q
  | none => throw s!"rat {t}"

def pOptRat : P (Option Rat) := do
  let t ← tok
  if t = "-" then pure none else
  match parseRat t with
  | some q => pure (some q)
  | none => throw s!"rat {t}"

def pName : P Str := do
  let t ← tok
  match t.toList with
  | 'x' :: h => pure (ofHex (String.ofList h))
  | _ => throw s!"name {t}"

def pMany {α} (p : P α) : Nat → P (List α)
  | 0 => pure []
  | n + 1 => do
    let a ← p
    let r ← pMany p n
    pure (a :: r)

def pP2 : P P2 := do
  let x ← pRat
  let y ← pRat
  pure ⟨x, y⟩

def pLayer : P Layer := do
  let n ← pName
  let b ← pRat
  let c ← pRat
  let t ← pRat
  pure ⟨n, b, c, t⟩

def pColumn : P Column := do
  let n ← pName
  let k ← pNat
  let nodes ← pMany pP2 k
  let c ← pP2
  let s ← pRat
  pure (mkColumn n nodes c s)

def pConn (cols : Array Column) : P Conn := do
  let i ← pNat
  let j ← pNat
  let a ← pP2
  let b ← pP2
  match cols[i]?, cols[j]? with
  | some ci, some cj => pure ⟨ci, cj, a, b⟩
  | _, _ => throw "conn index"

def pPair : P (Str × Str) := do
  let a ← pName
  let b ← pName
  pure (a, b)

structure Req where
  geo : Geo
  map : BlockMap
  tiltOk : Bool

def pReq : P Req := do
  let conv ← pNat
  let atm ← pNat
  let av ← pRat
  let ac ← pRat
  let order ← pNat
  let gx ← pOptRat
  let gy ← pOptRat
  let tx ← pRat
  let ty ← pRat
  let tz ← pRat
  let rot ← pP2
  let nl ← pNat
  let layers ← pMany pLayer nl
  let nc ← pNat
  let cols ← pMany pColumn nc
  let nk ← pNat
  let conns ← pMany (pConn cols.toArray) nk
  let nn ← pNat
  let names ← pMany pName nn
  let nm ← pNat
  let m ← pMany pPair nm
  match layers with
  | [] => throw "no layers"
  | l0 :: ls =>
    let (tilt, ok) := match tiltVector? gx gy with
      | some t => (t, true)
      | none => (⟨tx, ty, tz⟩, false)
    pure ⟨⟨conv, atm, av, ac, order, l0, ls, cols, conns, tilt, rot, names⟩, m, ok⟩

def showRat (q : Rat) : String := if q.den = 1 then s!"{q.num}" else s!"{q.num}/{q.den}"
def showName (s : Str) : String := "x" ++ toHex s
def showSurd (s : Surd) : String := showRat s.coef ++ " " ++ showRat s.rad

def showBlock (b : Block) : String :=
  showName b.name ++ " " ++ (match b.volume with | some v => showRat v | none => "-") ++ " " ++
  (match b.centre with | some c => s!"{showRat c.x} {showRat c.y} {showRat c.z}" | none => "-") ++ " " ++
  (if b.atm then "1" else "0")

def showConn (c : TConn) : String :=
  s!"{showName c.b0} {showName c.b1} {c.dirn} {showSurd c.d0} {showSurd c.d1} {showSurd c.area} {showSurd c.dircos}"

def showEx {α} (f : α → String) : Except Exc α → String
  | .ok v => "ok " ++ f v
  | .error e => "exc " ++ e.toString

def showGrid (t : Grid) : String :=
  s!"B {t.blocks.length} " ++ " ".intercalate (t.blocks.map showBlock) ++
  s!" K {t.conns.length} " ++ " ".intercalate (t.conns.map showConn)

def handleFromgeo (r : Req) : String :=
  let g := r.geo
  let b (x : Bool) : String := if x then "1" else "0"
  let nodupB := decide ((g.blockNames.map (applyMap r.map)).Nodup)
  let nodupC := match blockConnectionNameList g with
    | .ok l => decide ((l.map (mapPair r.map)).Nodup)
    | .error _ => false
  -- hypotheses of the property theorems, evaluated on this case
  let fresh := b (decide (Fresh g)) ++ b (decide (LayersWF g)) ++ b nodupB ++ b nodupC ++ b (parseOk g) ++ b (decide (ConnsWF g))
  s!"ok {fresh} T {if r.tiltOk then 1 else 0} {showRat g.tilt.x} {showRat g.tilt.y} {showRat g.tilt.z} NL " ++
    showEx (fun (l : List Str) => s!"{l.length} " ++ " ".intercalate (l.map showName)) (blockNameList g) ++ " CL " ++
    showEx (fun (l : List (Str × Str)) => s!"{l.length} " ++ " ".intercalate (l.map fun p => showName p.1 ++ " " ++ showName p.2))
      (blockConnectionNameList g) ++ " G " ++
    showEx showGrid (fromgeo g r.map)

def handle : List String → String
  | "fromgeo" :: rest =>
    match (pReq.run rest) with
    | .ok (r, []) => handleFromgeo r
    | .ok (_, _) => "bad trailing"
    | .error e => "bad " ++ e
  | _ => "bad-op"

end DrvC04

def main : IO Unit := serve DrvC04.handle
