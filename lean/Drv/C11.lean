-- driver stub (replaced when the model for C11 is built)
def main : IO Unit := pure ()
