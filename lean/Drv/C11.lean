/-
  Driver for C11: the one-column subdivision model (`Model/Refine.lean`).
    refine <nn> <sides,|->        sub-columns `refine` builds for a parent with these refined sides
    split <nn>                    the two columns of `split_column`, for each of the four split nodes
    triangulate <nn>
    decompose <nn> <straight,|->
  reply: sub-columns separated by `|`, vertices `c<i>` (corner), `m<i>_<j>` (mid-side node), `x` (centre)
-/
import PyTough.Model.Refine
import PyTough.Py.Proto
open Py Model.Refine Gen.RefineTables

def showVert : Vert → String
  | .corner i => s!"c{i}"
  | .mid i j => s!"m{i}_{j}"
  | .centre => "x"

def showPolys (ps : List Poly) : String :=
  "|".intercalate (ps.map fun p => " ".intercalate (p.map showVert))

def parseList (s : String) : List Nat :=
  if s = "-" then [] else (s.splitOn ",").filterMap (·.toNat?)

def handle : List String → String
  | ["refine", nn, sides] =>
    match nn.toNat? with
    | some n =>
      (match transitionType n (parseList sides) with
       | none => "exc TypeError"
       | some (nref, istart, irange) =>
         match tableEntry n nref irange with
         | none => "exc KeyError"
         | some e => showPolys (e.map (·.map (shiftVert n istart))))
    | none => "bad"
  | ["split", nn] =>
    if nn = "4" then " ; ".intercalate ((List.range 4).map fun i0 => showPolys [splitOld i0, splitNewPoly i0])
    else "none"
  | ["triangulate", nn] =>
    match nn.toNat? with
    | some n => showPolys (triangulate n)
    | none => "bad"
  | ["decompose", nn, st] =>
    match nn.toNat? with
    | some n =>
      (match decompose n (parseList st) with
       | none => "none"
       | some (.error e) => "exc " ++ e.toString
       | some (.ok ps) => showPolys ps)
    | none => "bad"
  | _ => "bad-op"

def main : IO Unit := serve handle
