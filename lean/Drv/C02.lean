-- driver stub (replaced when the model for C02 is built)
def main : IO Unit := pure ()
