import PyTough.Model.Fixed
import PyTough.Gen.Specs
import PyTough.Py.Proto
open Py Model

/-- value tokens: n | i<int> | r<num>/<den> | z | inf0 | inf1 | nan | s<hex> -/
def parseVal (t : String) : Val :=
  let cs := t.toList
  match cs with
  | ['n'] => .none
  | ['z'] => .negZero
  | ['n','a','n'] => .nan
  | ['i','n','f','0'] => .inf false
  | ['i','n','f','1'] => .inf true
  | 'i' :: r => .int (String.ofList r).toInt!
  | 's' :: r => .str (ofHexAux r)
  | 'r' :: r =>
    match (String.ofList r).splitOn "/" with
    | [a, b] => .real (mkRat a.toInt! b.toNat!)
    | _ => .none
  | _ => .none

def showPVal : PVal → String
  | .none => "n"
  | .int i => s!"i{i}"
  | .flt (.fin neg m e) => s!"f{if neg then 1 else 0},{m},{e}"
  | .flt (.inf neg) => s!"inf{if neg then 1 else 0}"
  | .flt .nan => "nan"
  | .str s => "s" ++ toHex s

def sectionSpecs (t s : String) : Except Exc (List FieldSpec) :=
  match Gen.Specs.findTable t with
  | none => .error .keyError
  | some tab => match tab.find s with
    | none => .error .keyError
    | some sec => parseSpecs (sec.specs.map String.toList)

def handle : List String → String
  | "wv" :: t :: s :: vals =>
    showExc (fun l => "s" ++ toHex l) (do
      let fs ← sectionSpecs t s
      writeValues fs (vals.map parseVal))
  | ["ps", t, s, rf, h] =>
    showExc (fun (l : List PVal) => " ".intercalate (l.map showPVal)) (do
      let fs ← sectionSpecs t s
      parseString (if rf = "f" then .fortran else .default) fs (ofHex h))
  | ["ps", t, s, rf] =>
    showExc (fun (l : List PVal) => " ".intercalate (l.map showPVal)) (do
      let fs ← sectionSpecs t s
      parseString (if rf = "f" then .fortran else .default) fs [])
  | ["spec", t, s] =>
    showExc (fun (l : List ((Nat × Nat) × Char)) => " ".intercalate (l.map fun ((a, b), c) => s!"{a},{b},{c}")) (do
      let fs ← sectionSpecs t s
      pure (lineSpec fs))
  | _ => "bad-op"

def main : IO Unit := serve handle
