/-
  Line protocol plumbing shared by the drivers (`Drv/*.lean`):
  one request per line on stdin, one reply line on stdout.
-/
import PyTough.Py.Num
namespace Py

partial def serveLoop (h : IO.FS.Stream) (out : IO.FS.Stream) (f : List String → String) : IO Unit := do
  let line ← h.getLine
  if line.isEmpty then return ()
  let ws := (line.trimAscii.toString.splitOn " ").filter (· ≠ "")
  out.putStrLn (f ws)
  serveLoop h out f

def serve (f : List String → String) : IO Unit := do
  let i ← IO.getStdin
  let o ← IO.getStdout
  serveLoop i o f
  o.flush

def FVal.show : FVal → String
  | .fin n m e => s!"fin {if n then 1 else 0} {m} {e}"
  | .inf n => s!"inf {if n then 1 else 0}"
  | .nan => "nan"

def showExc {α} (sh : α → String) : Except Exc α → String
  | .ok v => "ok " ++ sh v
  | .error e => "exc " ++ e.toString

end Py
