/-
  Python `str` primitives used by PyTOUGH, over `List Char` (ASCII only).
  Mathlib-free: these definitions are executed by the drivers.
-/
namespace Py

abbrev Str := List Char

/-- Exceptions that the modelled code can raise. -/
inductive Exc where
  | valueError | keyError | indexError | typeError | zeroDivision | naming | generic
  deriving DecidableEq, Repr, Inhabited

def Exc.toString : Exc → String
  | .valueError => "ValueError" | .keyError => "KeyError" | .indexError => "IndexError"
  | .typeError => "TypeError" | .zeroDivision => "ZeroDivisionError"
  | .naming => "NamingConventionError" | .generic => "Exception"

deriving instance DecidableEq for Except

/-- Whitespace stripped by `float()` / `int()` (ASCII part of `Py_ISSPACE`). -/
def isNumWs (c : Char) : Bool :=
  c = ' ' || c = '\t' || c = '\n' || c = '\x0b' || c = '\x0c' || c = '\r'

/-- Whitespace stripped by `str.strip()` (ASCII part of `Py_UNICODE_ISSPACE`). -/
def isStrWs (c : Char) : Bool :=
  isNumWs c || c = '\x1c' || c = '\x1d' || c = '\x1e' || c = '\x1f'

def lstripBy (p : Char → Bool) (s : Str) : Str := s.dropWhile p
def rstripBy (p : Char → Bool) (s : Str) : Str := (s.reverse.dropWhile p).reverse
def stripBy (p : Char → Bool) (s : Str) : Str := rstripBy p (lstripBy p s)

/-- `s.strip()` -/
def strip (s : Str) : Str := stripBy isStrWs s
/-- `s.rstrip()` -/
def rstrip (s : Str) : Str := rstripBy isStrWs s
/-- `s.lstrip()` -/
def lstrip (s : Str) : Str := lstripBy isStrWs s

/-- `s.lower()` on ASCII. -/
def lowerChar : Char → Char
  | 'A' => 'a'
  | 'B' => 'b'
  | 'C' => 'c'
  | 'D' => 'd'
  | 'E' => 'e'
  | 'F' => 'f'
  | 'G' => 'g'
  | 'H' => 'h'
  | 'I' => 'i'
  | 'J' => 'j'
  | 'K' => 'k'
  | 'L' => 'l'
  | 'M' => 'm'
  | 'N' => 'n'
  | 'O' => 'o'
  | 'P' => 'p'
  | 'Q' => 'q'
  | 'R' => 'r'
  | 'S' => 's'
  | 'T' => 't'
  | 'U' => 'u'
  | 'V' => 'v'
  | 'W' => 'w'
  | 'X' => 'x'
  | 'Y' => 'y'
  | 'Z' => 'z'
  | c => c
def upperChar : Char → Char
  | 'a' => 'A'
  | 'b' => 'B'
  | 'c' => 'C'
  | 'd' => 'D'
  | 'e' => 'E'
  | 'f' => 'F'
  | 'g' => 'G'
  | 'h' => 'H'
  | 'i' => 'I'
  | 'j' => 'J'
  | 'k' => 'K'
  | 'l' => 'L'
  | 'm' => 'M'
  | 'n' => 'N'
  | 'o' => 'O'
  | 'p' => 'P'
  | 'q' => 'Q'
  | 'r' => 'R'
  | 's' => 'S'
  | 't' => 'T'
  | 'u' => 'U'
  | 'v' => 'V'
  | 'w' => 'W'
  | 'x' => 'X'
  | 'y' => 'Y'
  | 'z' => 'Z'
  | c => c
def lower (s : Str) : Str := s.map lowerChar
def upper (s : Str) : Str := s.map upperChar

/-- `s.replace(c, t)` for a one-character pattern. -/
def replaceChar (c : Char) (t : Str) : Str → Str
  | [] => []
  | x :: xs => if x = c then t ++ replaceChar c t xs else x :: replaceChar c t xs

/-- Python slice `s[i:j]` with non-negative bounds (out-of-range never raises). -/
def slice (s : Str) (i j : Nat) : Str := (s.drop i).take (j - i)

/-- `s.ljust(n)` / `s.rjust(n)` with blanks. -/
def ljust (s : Str) (n : Nat) : Str := s ++ List.replicate (n - s.length) ' '
def rjust (s : Str) (n : Nat) : Str := List.replicate (n - s.length) ' ' ++ s

def isDigit (c : Char) : Bool := '0' ≤ c && c ≤ '9'
def digitVal (c : Char) : Nat := c.toNat - '0'.toNat

/-- value of a run of decimal digits, most significant first -/
def digitsVal (ds : Str) : Nat := ds.foldl (fun a c => 10 * a + digitVal c) 0

/-- hex encoding used by the line protocol -/
def hexDigit (n : Nat) : Char := if n < 10 then Char.ofNat (48 + n) else Char.ofNat (87 + n)
def toHex (s : Str) : String :=
  String.ofList (s.flatMap fun c => [hexDigit (c.toNat / 16), hexDigit (c.toNat % 16)])
def hexVal (c : Char) : Nat :=
  if '0' ≤ c ∧ c ≤ '9' then c.toNat - 48 else if 'a' ≤ c ∧ c ≤ 'f' then c.toNat - 87 else 0
def ofHexAux : List Char → Str
  | a :: b :: r => Char.ofNat (hexVal a * 16 + hexVal b) :: ofHexAux r
  | _ => []
def ofHex (s : String) : Str := ofHexAux s.toList

end Py
