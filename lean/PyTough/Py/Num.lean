/-
  CPython's `float(str)` and `int(str)` grammars on ASCII strings.
  The result of `float` is the *exact decimal written* (`FVal.fin neg mant exp`
  stands for (-1)^neg * mant * 10^exp); the binary rounding step is outside the
  model (assumption A-float in DESIGN.md).
-/
import PyTough.Py.Str
namespace Py

inductive FVal where
  | fin (neg : Bool) (mant : Nat) (exp : Int)
  | inf (neg : Bool)
  | nan
  deriving DecidableEq, Repr, Inhabited

/-- CPython `_Py_string_to_number_with_underscores`: an underscore must follow a
    digit and precede a digit. `prev` is the previous character (`'\x00'` at start). -/
def underscoresOk : Char → Str → Bool
  | prev, [] => prev != '_'
  | prev, c :: r =>
    if c = '_' then isDigit prev && underscoresOk c r
    else (prev != '_' || isDigit c) && underscoresOk c r

def removeUnderscores (s : Str) : Str := s.filter (· != '_')

/-- optional sign -/
def takeSign : Str → Bool × Str
  | '-' :: t => (true, t)
  | '+' :: t => (false, t)
  | s => (false, s)

/-- exponent part after the mantissa: `[]` or `e|E [sign] digit+` and nothing else -/
def parseExp : Str → Option Int
  | [] => some 0
  | c :: r =>
    if c = 'e' || c = 'E' then
      let (eneg, r1) := takeSign r
      let (ed, r2) := r1.span isDigit
      if ed.isEmpty || !r2.isEmpty then none
      else some (if eneg then -(digitsVal ed : Int) else (digitsVal ed : Int))
    else none

/-- the strtod grammar on a string with whitespace and underscores already removed -/
def parseDecimal (s : Str) : Option FVal :=
  let (neg, s1) := takeSign s
  let low := lower s1
  if low = ['i','n','f'] || low = ['i','n','f','i','n','i','t','y'] then some (.inf neg)
  else if low = ['n','a','n'] then some .nan
  else
    let (ip, r1) := s1.span isDigit
    let (fp, r2) := match r1 with
      | '.' :: t => t.span isDigit
      | _ => ([], r1)
    if ip.isEmpty && fp.isEmpty then none
    else match parseExp r2 with
      | some e => some (.fin neg (digitsVal (ip ++ fp)) (e - fp.length))
      | none => none

/-- `float(s)` for an ASCII `str` argument. -/
def pyFloat (s : Str) : Except Exc FVal :=
  let t := stripBy isNumWs s
  let t' := if t.contains '_' then
              (if underscoresOk '\x00' t then some (removeUnderscores t) else none)
            else some t
  match t' with
  | none => .error .valueError
  | some u => match parseDecimal u with
    | some v => .ok v
    | none => .error .valueError

/-- `int(s)` (base 10) for an ASCII `str` argument. -/
def pyInt (s : Str) : Except Exc Int :=
  let t := stripBy isNumWs s
  let (neg, d) := takeSign t
  if d.isEmpty then .error .valueError
  else if !(underscoresOk '\x00' d) then .error .valueError
  else
    let u := removeUnderscores d
    if u.isEmpty || !(u.all isDigit) then .error .valueError
    else .ok (if neg then -(digitsVal u : Int) else (digitsVal u : Int))

end Py
