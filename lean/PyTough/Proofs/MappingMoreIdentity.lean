/-
  C19 (more): the same grid with possibly different atmosphere types / block orders:
  `block_mapping` is the identity wherever it returns (7 of the 9 atmosphere combinations).
-/
import PyTough.Proofs.MappingMoreNearest
namespace Proofs.Mapping
open Py Model.Mapping

/-- `s` and `t` have the same naming convention, columns and layers (atmosphere type and block
    order are free).  Underground blocks and columns are mapped to themselves; atmosphere
    blocks: single → single is the identity; per-column → per-column (or onto a source without
    atmosphere) keeps the name; per-column onto a single-atmosphere source gives that block. -/
theorem blockMapping_sameGrid (q : List (Rat × Rat) → Rat × Rat → Nat) (hq : IsNearest q) (s t : Geo)
    (hconv : s.conv = t.conv) (hcols : s.cols = t.cols) (hlays : s.lays = t.lays)
    (hs : SrcWF s) (ht : TgtWF t) (ha : atmOK s t = true) (hd : distinctCentres t = true) :
    ∃ m cm un g0, blockMapping q s t = .ok (m, cm) ∧ t.underNames = .ok un ∧ t.lays.head? = some g0 ∧
      (∀ d ∈ un, dget m d = .ok d) ∧ (∀ c ∈ t.cols, dget cm c.name = .ok c.name) ∧
      (t.atm = 0 → s.atm = 0 ∧ ∃ d, t.atmNames = .ok [d] ∧ s.atmNames = .ok [d] ∧ dget m d = .ok d) ∧
      (t.atm = 1 → ∀ c ∈ t.cols, ∃ d, blockName t.conv g0.name c.name = .ok d ∧
          (s.atm ≠ 0 → dget m d = .ok d) ∧
          (s.atm = 0 → ∃ a, s.atmNames = .ok [a] ∧ dget m d = .ok a)) := by
  obtain ⟨cv, a, d1, cols, lays⟩ := s
  obtain ⟨cv', b, d2, cols', lays'⟩ := t
  simp only at hconv hcols hlays
  subst hconv hcols hlays
  simp only [distinctCentres, Bool.and_eq_true] at hd
  obtain ⟨hdc, hdl⟩ := hd
  obtain ⟨m, cm, an, un, san, sun, g0, s0, hbm, han, hun, hnames, hsan, hsun, _, hg0, hs0, hcm, hunder, hatm0, hatm1⟩ :=
    blockMapping_main q hq _ _ hs ht ha
  simp only at hg0 hs0
  rw [hg0] at hs0; cases hs0
  obtain ⟨g0', grest, hgl⟩ := ht.lays
  simp only at hgl
  have : g0' = g0 := by rw [hgl] at hg0; simpa using hg0
  subst this
  refine ⟨m, cm, un, g0', hbm, hun, hg0, ?_, ?_, ?_, ?_⟩
  · intro d hdm
    obtain ⟨un', hun', hm'⟩ := underNames_spec _ ht.names ht.dmplex
    rw [hun] at hun'; cases hun'
    obtain ⟨p, hp, hn⟩ := (hm' d).mp hdm
    have hnm := tgt_under_name _ ht p.1 p.2 hp
    rw [hnm] at hn; cases hn
    obtain ⟨C, S, L', v, hC, hS, hL, _, hv, _, _, hget⟩ := hunder p.1 p.2 hp
    obtain ⟨hl, hc, hlt⟩ := (mem_underPairs _ p.1 p.2).mp hp
    have hCc : C = p.2 := nearestCol_self ⟨cv, a, d1, cols, lays⟩ hdc p.2 C hc hC
    have hSl : S = p.1 := nearestLay_self (lays.drop 1) hdl p.1 S hl hS
    subst hCc hSl
    rw [if_neg (Rat.not_le.mpr hlt)] at hL
    subst hL
    have hnm' : blockName cv p.1.name p.2.name = .ok (rawName cv p.1.name p.2.name) := hnm
    simp only at hv
    rw [hnm'] at hv; cases hv
    exact hget
  · intro c hc
    obtain ⟨C, hC, hget⟩ := hcm c hc
    have : C = c := nearestCol_self ⟨cv, a, d1, cols, lays⟩ hdc c C hc hC
    rw [this] at hget
    exact hget
  · intro h0
    obtain ⟨hs0', v, hane, hsane, hget⟩ := hatm0 h0
    simp only at hs0' hane hget
    obtain ⟨san', hsan', hsan0, _, _⟩ := atmNames_spec ⟨cv, a, d1, cols, lays⟩ hs.names g0' grest hgl
    rw [hsan] at hsan'; cases hsan'
    obtain ⟨n, hn, hsn⟩ := hsan0 hs0'
    have hnm : blockName cv g0'.name (atmColName cv) = .ok (rawName cv g0'.name (atmColName cv)) :=
      tgt_atm_name _ ht g0' grest hgl _ (by simp)
    simp only at hn
    rw [hnm] at hn; cases hn
    rw [hsane] at hsn
    have hv : v = rawName cv g0'.name (atmColName cv) := by simpa using hsn
    subst hv
    refine ⟨hs0', _, ?_, ?_, hget⟩
    · rw [han, hane]
    · rw [hsan, hsane]
  · intro h1 c hc
    obtain ⟨C, v, hC, _, hv, hget⟩ := hatm1 h1 c hc
    have hCc : C = c := nearestCol_self ⟨cv, a, d1, cols, lays⟩ hdc c C hc hC
    subst hCc
    have hnm : blockName cv g0'.name C.name = .ok (rawName cv g0'.name C.name) :=
      tgt_atm_name _ ht g0' grest hgl C.name (List.mem_cons_of_mem _ (List.mem_map.mpr ⟨C, hc, rfl⟩))
    refine ⟨_, hnm, ?_, ?_⟩
    · intro hne
      simp only at hv hne
      rw [if_neg hne, hnm] at hv
      cases hv
      exact hget
    · intro h0
      simp only at hv h0
      rw [if_pos h0] at hv
      obtain ⟨san', hsan', hsan0, _, _⟩ := atmNames_spec ⟨cv, a, d1, cols, lays⟩ hs.names g0' grest hgl
      obtain ⟨n, hn, hsn⟩ := hsan0 h0
      simp only at hn
      rw [hv] at hn; cases hn
      exact ⟨v, by rw [hsan', hsn], hget⟩

end Proofs.Mapping
