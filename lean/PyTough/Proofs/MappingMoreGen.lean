/-
  C19 (more): `transfer_generators_from` between DIFFERENT geometries: every source generator
  (by position in the list: repeated names are no obstacle) is reproduced once on every target
  block / column mapped to its block / column, with `rename` and `preserve_totals`.
-/
import PyTough.Proofs.MappingMoreIdentity
namespace Proofs.Mapping
open Py Model.Mapping

theorem mapE_getElem {α β : Type} {f : α → Except Exc β} {l : List α} {bs : List β}
    (h : mapE f l = .ok bs) (i : Nat) (a : α) (ha : l[i]? = some a) :
    ∃ b, bs[i]? = some b ∧ f a = .ok b := by
  induction l generalizing bs i with
  | nil => simp at ha
  | cons x xs ih =>
    obtain ⟨b, bs', rfl, h1, h2⟩ := mapE_cons_ok h
    cases i with
    | zero => simp at ha; subst ha; exact ⟨b, by simp, h1⟩
    | succ i =>
      obtain ⟨b', hb', hf⟩ := ih h2 i (by simpa using ha)
      exact ⟨b', by simpa using hb', hf⟩

theorem enumFrom_getElem {α : Type} (n : Nat) (l : List α) (i : Nat) (a : α) (ha : l[i]? = some a) :
    (enumFrom n l)[i]? = some (n + i, a) := by
  induction l generalizing n i with
  | nil => simp at ha
  | cons x xs ih =>
    cases i with
    | zero => simp at ha; subst ha; simp [enumFrom]
    | succ i =>
      have := ih (n + 1) i (by simpa using ha)
      simp only [enumFrom, List.getElem?_cons_succ, this]
      congr 2; omega

theorem enumFrom_length {α : Type} (n : Nat) (l : List α) : (enumFrom n l).length = l.length := by
  induction l generalizing n with
  | nil => rfl
  | cons x xs ih => simp [enumFrom, ih]

/-- the list comprehension `[b for b in tgrid if mapping[b.name] == k]` -/
theorem blkFlag_filter (m : Dict Str) (k : Str) (tgrid : List (Str × Rat)) (fl : List ((Str × Rat) × Bool))
    (h : mapE (blkFlag m k) tgrid = .ok fl) :
    (fl.filter (·.2)).map (·.1) = tgrid.filter (fun b => decide (dget m b.1 = .ok k)) := by
  induction tgrid generalizing fl with
  | nil => simp [mapE] at h; subst h; rfl
  | cons b bs ih =>
    obtain ⟨x, fl', rfl, h1, h2⟩ := mapE_cons_ok h
    have := ih fl' h2
    unfold blkFlag at h1
    cases hd : dget m b.1 with
    | error e => rw [hd] at h1; cases h1
    | ok v =>
      rw [hd] at h1
      cases h1
      by_cases hv : v = k
      · subst hv; simp [this, hd]
      · have : (Except.ok v : Except Exc Str) ≠ .ok k := fun h => hv (Except.ok.inj h)
        simp [*]

/-- the list comprehension `[c for c in incols if colmapping[c.name] == k]` -/
theorem colFlag_filter (cm : Dict Str) (k : Str) (cols : List Col) (fl : List (Col × Bool))
    (h : mapE (colFlag cm k) cols = .ok fl) :
    (fl.filter (·.2)).map (·.1) = cols.filter (fun c => decide (dget cm c.name = .ok k)) := by
  induction cols generalizing fl with
  | nil => simp [mapE] at h; subst h; rfl
  | cons b bs ih =>
    obtain ⟨x, fl', rfl, h1, h2⟩ := mapE_cons_ok h
    have := ih fl' h2
    unfold colFlag at h1
    cases hd : dget cm b.name with
    | error e => rw [hd] at h1; cases h1
    | ok v =>
      rw [hd] at h1
      cases h1
      by_cases hv : v = k
      · subst hv; simp [this, hd]
      · have : (Except.ok v : Except Exc Str) ≠ .ok k := fun h => hv (Except.ok.inj h)
        simp [*]

/-- one generator on an interior block -/
theorem blkGenOne_spec (sgeo geo : Geo) (rename : Bool) (idx : Nat) (sg : Gen) (vol : Rat) (b : Str × Rat) (o : GenOut)
    (h : blkGenOne sgeo geo rename idx sg vol b = .ok o) :
    o.src = idx ∧ o.block = b.1 ∧ vol ≠ 0 ∧ scaleGen sg (b.2 / vol) = .ok (o.gx, o.rate) ∧
      (rename = false → o.name = sg.name) ∧
      (rename = true → ∃ cat, (if geo.conv = sgeo.conv then .ok (layerName sgeo.conv sg.name)
               else pick3 geo.conv [' ', '0'] (layerName sgeo.conv sg.name) : Except Exc Str) = .ok cat ∧
          blockName geo.conv cat (columnName geo.conv b.1) = .ok o.name) := by
  unfold blkGenOne at h
  split at h
  · cases h
  · rename_i hv
    split at h
    · cases h
    · rename_i gx rate hsc
      cases rename with
      | false =>
        simp only [Bool.false_eq_true, if_false] at h
        cases h
        exact ⟨rfl, rfl, hv, hsc, fun _ => rfl, fun h => Bool.noConfusion h⟩
      | true =>
        simp only [if_true] at h
        split at h
        · cases h
        · rename_i cat hcat
          split at h
          · cases h
          · rename_i gname hg
            cases h
            exact ⟨rfl, rfl, hv, hsc, fun h => Bool.noConfusion h, fun _ => ⟨cat, hcat, hg⟩⟩

/-- one generator at the top / bottom of a column -/
theorem colGenOne_spec (sgeo geo : Geo) (top bottom : List Str) (idx : Nat) (sg : Gen) (area : Rat) (col : Col) (o : GenOut)
    (h : colGenOne sgeo geo top bottom idx sg area col = .ok o) :
    o.src = idx ∧ area ≠ 0 ∧ scaleGen sg (col.area / area) = .ok (o.gx, o.rate) ∧
      (∃ ln, colGenLayer geo top (layerName sgeo.conv sg.name) col = .ok ln ∧
          blockName geo.conv ln col.name = .ok o.block) ∧
      (∃ cat, colGenCategory sgeo geo (top ++ bottom) (layerName sgeo.conv sg.name) = .ok cat ∧
          blockName geo.conv cat col.name = .ok o.name) := by
  unfold colGenOne at h
  split at h
  · cases h
  · rename_i hv
    split at h
    · cases h
    · rename_i gx rate hsc
      split at h
      · cases h
      · rename_i cat hcat
        split at h
        · cases h
        · rename_i gname hg
          split at h
          · cases h
          · rename_i ln hln
            split at h
            · cases h
            · rename_i gblock hb
              cases h
              exact ⟨rfl, hv, hsc, ⟨ln, hln, hb⟩, ⟨cat, hcat, hg⟩⟩

/-- a source generator on an interior block: one copy on every target block mapped to its block,
    in grid order -/
theorem transferOneGen_interior (sgeo geo : Geo) (sgridVol : Dict Rat) (tgrid : List (Str × Rat))
    (incols : List Col) (top bottom : List Str) (m cm : Dict Str) (rename preserve : Bool) (idx : Nat) (sg : Gen)
    (outs : List GenOut)
    (hcat : (top ++ bottom).contains (layerName sgeo.conv sg.name) = false)
    (h : transferOneGen sgeo geo sgridVol tgrid incols top bottom m cm rename preserve idx sg = .ok outs) :
    ∃ svol, dget sgridVol sg.block = .ok svol ∧
      outs.length = (tgrid.filter (fun b => decide (dget m b.1 = .ok sg.block))).length ∧
      ∀ p ∈ (tgrid.filter (fun b => decide (dget m b.1 = .ok sg.block))).zip outs,
        blkGenOne sgeo geo rename idx sg
          (if preserve then sumQ ((tgrid.filter (fun b => decide (dget m b.1 = .ok sg.block))).map (·.2)) else svol)
          p.1 = .ok p.2 := by
  unfold transferOneGen at h
  rw [hcat] at h
  simp only [Bool.false_eq_true, if_false] at h
  split at h
  · cases h
  · rename_i svol hsv
    split at h
    · cases h
    · rename_i fl hfl
      rw [blkFlag_filter m sg.block tgrid fl hfl] at h
      exact ⟨svol, hsv, mapE_length h, mapE_zip h⟩

/-- a source generator at the top / bottom of a column: one copy on every target column
    (inside the source) mapped to its column, in column order -/
theorem transferOneGen_column (sgeo geo : Geo) (sgridVol : Dict Rat) (tgrid : List (Str × Rat))
    (incols : List Col) (top bottom : List Str) (m cm : Dict Str) (rename preserve : Bool) (idx : Nat) (sg : Gen)
    (outs : List GenOut)
    (hcat : (top ++ bottom).contains (layerName sgeo.conv sg.name) = true)
    (h : transferOneGen sgeo geo sgridVol tgrid incols top bottom m cm rename preserve idx sg = .ok outs) :
    ∃ area, (if preserve then .ok (sumQ ((incols.filter (fun c => decide (dget cm c.name = .ok (columnName sgeo.conv sg.block)))).map (·.area)))
             else match sgeo.findCol (columnName sgeo.conv sg.block) with
               | .error e => .error e
               | .ok c => .ok c.area : Except Exc Rat) = .ok area ∧
      outs.length = (incols.filter (fun c => decide (dget cm c.name = .ok (columnName sgeo.conv sg.block)))).length ∧
      ∀ p ∈ (incols.filter (fun c => decide (dget cm c.name = .ok (columnName sgeo.conv sg.block)))).zip outs,
        colGenOne sgeo geo top bottom idx sg area p.1 = .ok p.2 := by
  unfold transferOneGen at h
  rw [hcat] at h
  simp only [if_true] at h
  split at h
  · cases h
  · rename_i fl hfl
    rw [colFlag_filter cm _ incols fl hfl] at h
    split at h
    · cases h
    · rename_i area harea
      exact ⟨area, harea, mapE_length h, mapE_zip h⟩

/-- the whole list: the result is the concatenation, in order, of the lists made from each
    source generator; generator number `i` is handled with index `i` (names play no role) -/
theorem transferGenerators_split (q : List (Rat × Rat) → Rat × Rat → Nat) (gens : List Gen) (sgeo geo : Geo)
    (sgridVol : Dict Rat) (tgrid : List (Str × Rat)) (flags : List Bool) (top bottom : List Str)
    (mp cmp : Dict Str) (rename preserve : Bool) (outs : List GenOut)
    (h : transferGenerators q gens sgeo geo sgridVol tgrid flags top bottom mp cmp rename preserve = .ok outs) :
    ∃ (m cm : Dict Str) (ls : List (List GenOut)), effectiveMaps q sgeo geo mp cmp = .ok (m, cm) ∧ outs = ls.flatten ∧ ls.length = gens.length ∧
      ∀ i sg, gens[i]? = some sg → ∃ l, ls[i]? = some l ∧
        transferOneGen sgeo geo sgridVol tgrid (((geo.cols.zip flags).filter (·.2)).map (·.1)) top bottom m cm
          rename preserve i sg = .ok l := by
  unfold transferGenerators at h
  split at h
  · cases h
  · rename_i m cm hem
    simp only at h
    split at h
    · cases h
    · rename_i ls hls
      cases h
      refine ⟨m, cm, ls, hem, rfl, ?_, ?_⟩
      · rw [mapE_length hls, enumFrom_length]
      · intro i sg hi
        obtain ⟨l, hl, hf⟩ := mapE_getElem hls i (0 + i, sg) (enumFrom_getElem 0 gens i sg hi)
        refine ⟨l, hl, ?_⟩
        simpa [genStep] using hf

/-- `[b for b in self.grid.blocklist if mapping[b.name] == k]` -/
def mappedBlocks (m : Dict Str) (k : Str) (tgrid : List (Str × Rat)) : List (Str × Rat) :=
  tgrid.filter (fun b => decide (dget m b.1 = .ok k))

/-- `[c for c in incols if colmapping[c.name] == k]` -/
def mappedCols (cm : Dict Str) (k : Str) (incols : List Col) : List Col :=
  incols.filter (fun c => decide (dget cm c.name = .ok k))

theorem generators_interior (q : List (Rat × Rat) → Rat × Rat → Nat) (gens : List Gen) (sgeo geo : Geo)
    (sgridVol : Dict Rat) (tgrid : List (Str × Rat)) (flags : List Bool) (top bottom : List Str)
    (mp cmp : Dict Str) (rename preserve : Bool) (outs : List GenOut)
    (h : transferGenerators q gens sgeo geo sgridVol tgrid flags top bottom mp cmp rename preserve = .ok outs) :
    ∃ (m cm : Dict Str) (ls : List (List GenOut)), effectiveMaps q sgeo geo mp cmp = .ok (m, cm) ∧
      outs = ls.flatten ∧ ls.length = gens.length ∧
      ∀ (i : Nat) (sg : Gen), gens[i]? = some sg → (top ++ bottom).contains (layerName sgeo.conv sg.name) = false →
        ∃ l svol, ls[i]? = some l ∧ dget sgridVol sg.block = .ok svol ∧
          l.length = (mappedBlocks m sg.block tgrid).length ∧
          ∀ p ∈ (mappedBlocks m sg.block tgrid).zip l,
            p.2.src = i ∧ p.2.block = p.1.1 ∧ dget m p.2.block = .ok sg.block ∧
            (if preserve then sumQ ((mappedBlocks m sg.block tgrid).map (·.2)) else svol) ≠ 0 ∧
            scaleGen sg (p.1.2 / (if preserve then sumQ ((mappedBlocks m sg.block tgrid).map (·.2)) else svol))
              = .ok (p.2.gx, p.2.rate) ∧
            (rename = false → p.2.name = sg.name) ∧
            (rename = true → ∃ cat, (if geo.conv = sgeo.conv then .ok (layerName sgeo.conv sg.name)
                 else pick3 geo.conv [' ', '0'] (layerName sgeo.conv sg.name) : Except Exc Str) = .ok cat ∧
               blockName geo.conv cat (columnName geo.conv p.1.1) = .ok p.2.name) := by
  obtain ⟨m, cm, ls, hem, hfl, hlen, hall⟩ :=
    transferGenerators_split q gens sgeo geo sgridVol tgrid flags top bottom mp cmp rename preserve outs h
  refine ⟨m, cm, ls, hem, hfl, hlen, ?_⟩
  intro i sg hi hcat
  obtain ⟨l, hl, hone⟩ := hall i sg hi
  obtain ⟨svol, hsv, hlen', hz⟩ := transferOneGen_interior _ _ _ _ _ _ _ _ _ _ _ _ _ l hcat hone
  refine ⟨l, svol, hl, hsv, hlen', ?_⟩
  intro p hp
  obtain ⟨h1, h2, h3, h4, h5, h6⟩ := blkGenOne_spec _ _ _ _ _ _ _ _ (hz p hp)
  have hmem : p.1 ∈ mappedBlocks m sg.block tgrid := (List.of_mem_zip (show (p.1, p.2) ∈ _ from hp)).1
  have hd : dget m p.1.1 = .ok sg.block := by
    have := (List.mem_filter.mp hmem).2
    exact of_decide_eq_true this
  exact ⟨h1, h2, by rw [h2]; exact hd, h3, h4, h5, h6⟩

theorem generators_column (q : List (Rat × Rat) → Rat × Rat → Nat) (gens : List Gen) (sgeo geo : Geo)
    (sgridVol : Dict Rat) (tgrid : List (Str × Rat)) (flags : List Bool) (top bottom : List Str)
    (mp cmp : Dict Str) (rename preserve : Bool) (outs : List GenOut)
    (h : transferGenerators q gens sgeo geo sgridVol tgrid flags top bottom mp cmp rename preserve = .ok outs) :
    ∃ (m cm : Dict Str) (ls : List (List GenOut)), effectiveMaps q sgeo geo mp cmp = .ok (m, cm) ∧
      outs = ls.flatten ∧ ls.length = gens.length ∧
      ∀ (i : Nat) (sg : Gen), gens[i]? = some sg → (top ++ bottom).contains (layerName sgeo.conv sg.name) = true →
        ∃ l area, ls[i]? = some l ∧
          l.length = (mappedCols cm (columnName sgeo.conv sg.block) (((geo.cols.zip flags).filter (·.2)).map (·.1))).length ∧
          (preserve = true → area = sumQ ((mappedCols cm (columnName sgeo.conv sg.block)
              (((geo.cols.zip flags).filter (·.2)).map (·.1))).map (·.area))) ∧
          (preserve = false → ∃ C, sgeo.findCol (columnName sgeo.conv sg.block) = .ok C ∧ area = C.area) ∧
          ∀ p ∈ (mappedCols cm (columnName sgeo.conv sg.block) (((geo.cols.zip flags).filter (·.2)).map (·.1))).zip l,
            p.2.src = i ∧ p.1 ∈ geo.cols ∧ dget cm p.1.name = .ok (columnName sgeo.conv sg.block) ∧
            area ≠ 0 ∧ scaleGen sg (p.1.area / area) = .ok (p.2.gx, p.2.rate) ∧
            (∃ ln, colGenLayer geo top (layerName sgeo.conv sg.name) p.1 = .ok ln ∧
                blockName geo.conv ln p.1.name = .ok p.2.block) ∧
            (∃ cat, colGenCategory sgeo geo (top ++ bottom) (layerName sgeo.conv sg.name) = .ok cat ∧
                blockName geo.conv cat p.1.name = .ok p.2.name) := by
  obtain ⟨m, cm, ls, hem, hfl, hlen, hall⟩ :=
    transferGenerators_split q gens sgeo geo sgridVol tgrid flags top bottom mp cmp rename preserve outs h
  refine ⟨m, cm, ls, hem, hfl, hlen, ?_⟩
  intro i sg hi hcat
  obtain ⟨l, hl, hone⟩ := hall i sg hi
  obtain ⟨area, harea, hlen', hz⟩ := transferOneGen_column _ _ _ _ _ _ _ _ _ _ _ _ _ l hcat hone
  refine ⟨l, area, hl, hlen', ?_, ?_, ?_⟩
  · intro hp
    rw [hp] at harea
    simp only [if_true] at harea
    exact (Except.ok.inj harea).symm
  · intro hp
    rw [hp] at harea
    simp only [Bool.false_eq_true, if_false] at harea
    split at harea
    · cases harea
    · rename_i C hC
      exact ⟨C, hC, (Except.ok.inj harea).symm⟩
  · intro p hp
    obtain ⟨h1, h2, h3, h4, h5⟩ := colGenOne_spec _ _ _ _ _ _ _ _ _ (hz p hp)
    have hmem : p.1 ∈ mappedCols cm (columnName sgeo.conv sg.block) (((geo.cols.zip flags).filter (·.2)).map (·.1)) :=
      (List.of_mem_zip (show (p.1, p.2) ∈ _ from hp)).1
    obtain ⟨hin, hdec⟩ := List.mem_filter.mp hmem
    have hgeo : p.1 ∈ geo.cols := by
      obtain ⟨x, hx, hx1⟩ := List.mem_map.mp hin
      have := (List.of_mem_zip (show (x.1, x.2) ∈ _ from (List.mem_filter.mp hx).1)).1
      rw [← hx1]; exact this
    exact ⟨h1, hgeo, of_decide_eq_true hdec, h2, h3, h4, h5⟩

end Proofs.Mapping
