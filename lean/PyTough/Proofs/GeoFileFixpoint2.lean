/-
  C03 proofs, part 12: `write (canonGeo g) = write g`.
-/
import PyTough.Proofs.GeoFileFixpoint
namespace Proofs.GeoFile
open Py Model Model.GeoFile Proofs

theorem writeField_roundF_opt {x : Flt} (h : fitsB (fF 2) x.toVal = true) :
    writeField (fF 2) (roundF 2 x).toVal = writeField (fF 2) x.toVal := (writeField_roundF (by decide) h).1

theorem writeHeader_canon {h : Header} (hh : HeaderOK h)
    (h1 : writeField fE (roundE 2 h.atmosVolume).toVal = writeField fE h.atmosVolume.toVal)
    (h2 : writeField fE (roundE 2 h.atmosConnection).toVal = writeField fE h.atmosConnection.toVal) :
    writeHeader SP (canonHeader h) = writeHeader SP h := by
  unfold writeHeader
  have := lineOf_congr [(fS 5, .str h.type, .str h.type), (fD 1, .int h.convention, .int h.convention),
      (fD 1, .int h.atmosType, .int h.atmosType),
      (fE, (roundE 2 h.atmosVolume).toVal, h.atmosVolume.toVal),
      (fE, (roundE 2 h.atmosConnection).toVal, h.atmosConnection.toVal),
      (fS 5, .str h.unitType, .str h.unitType),
      (fF 2, optFlt (h.gdcx.map (roundF 2)), optFlt h.gdcx),
      (fF 2, optFlt (h.gdcy.map (roundF 2)), optFlt h.gdcy),
      (fD 1, optInt h.cntype, optInt h.cntype),
      (fF 2, (roundF 2 h.permAngle).toVal, h.permAngle.toVal),
      (fD 2, optInt h.blockOrderInt, optInt h.blockOrderInt)] (by
    intro t ht
    simp only [List.mem_cons, List.not_mem_nil, or_false] at ht
    rcases ht with rfl | rfl | rfl | rfl | rfl | rfl | rfl | rfl | rfl | rfl | rfl
    · rfl
    · rfl
    · rfl
    · exact h1
    · exact h2
    · rfl
    · cases hx : h.gdcx with
      | none => rfl
      | some x => exact writeField_roundF_opt (hh.gdcx x hx)
    · cases hx : h.gdcy with
      | none => rfl
      | some x => exact writeField_roundF_opt (hh.gdcy x hx)
    · rfl
    · exact writeField_roundF_opt hh.perm
    · rfl)
  have e1 : SP.headerNames.map (canonHeader h).get = [.str h.type, .int h.convention, .int h.atmosType,
      (roundE 2 h.atmosVolume).toVal, (roundE 2 h.atmosConnection).toVal, .str h.unitType,
      optFlt (h.gdcx.map (roundF 2)), optFlt (h.gdcy.map (roundF 2)), optInt h.cntype,
      (roundF 2 h.permAngle).toVal, optInt h.blockOrderInt] := by
    simp [SP, Header.get, canonHeader]
  have e2 : SP.headerNames.map h.get = [.str h.type, .int h.convention, .int h.atmosType,
      h.atmosVolume.toVal, h.atmosConnection.toVal, .str h.unitType,
      optFlt h.gdcx, optFlt h.gdcy, optInt h.cntype, h.permAngle.toVal, optInt h.blockOrderInt] := by
    simp [SP, Header.get]
  rw [e1, e2]
  exact this

theorem layers_canon {LL : Nat} {s : Rat} (hs : s ≠ 0) : ∀ (ls : List GLayer) (t : Flt), (∀ l ∈ ls, LayerOK LL s l) →
    (layerTops t (ls.map (canonLayer s))).mapM (layerLine SP s) = ls.mapM (layerLine SP s) := by
  intro ls
  induction ls with
  | nil => intro _ _; rfl
  | cons l r ih =>
    intro t h
    simp only [List.map_cons, layerTops, List.mapM_cons]
    rw [layerLine_canon hs (h l (by simp)) t, ih _ (fun x hx => h x (List.mem_cons_of_mem _ hx))]

/-- when every centre is kept, the re-read layers are the plainly rounded ones -/
theorem canonLayersAux_kept (s : Rat) : ∀ (ls : List GLayer) (above : Option GLayer),
    layerCentresKeptAux s above ls = true → canonLayersAux s above ls = ls.map (canonLayer s) := by
  intro ls
  induction ls with
  | nil => intro _ _; rfl
  | cons l r ih =>
    intro above h
    simp only [layerCentresKeptAux, Bool.and_eq_true, Bool.or_eq_true, beq_iff_eq] at h
    have e : canonLayerAt s above l = canonLayer s l := by
      unfold canonLayerAt canonLayer
      by_cases ht : (roundF 2 (l.centre.div s)).truthy = true
      · simp only [ht, if_true]
      · simp only [ht, Bool.false_eq_true, if_false]
        rcases h.1 with h1 | h1
        · exact absurd h1 ht
        · simp only [canonLayer] at h1
          rw [h1]; rfl
    simp only [canonLayersAux, List.map_cons, e]
    rw [ih _ h.2]

theorem canonLayers_mapM {LL : Nat} {s : Rat} (hs : s ≠ 0) (ls : List GLayer) (h : ∀ l ∈ ls, LayerOK LL s l)
    (hk : layerCentresKeptAux s none ls = true) :
    (canonLayers s ls).mapM (layerLine SP s) = ls.mapM (layerLine SP s) := by
  unfold canonLayers
  rw [canonLayersAux_kept s ls none hk]
  cases ls with
  | nil => rfl
  | cons l r => exact layers_canon hs (l :: r) _ h

theorem write_canon {g : Geo} {L LL : Nat} {s : Rat} (w : WFP g L LL s) (hk : LayerCentresKept g = true)
    (hst : SizesStable g = true) :
    write (canonGeo g) = write g := by
  have hs : s ≠ 0 := scale_ne_zero w.sc
  have hk' : layerCentresKeptAux s none g.layers = true := by
    unfold LayerCentresKept at hk; rw [w.sOf] at hk; exact hk
  unfold SizesStable at hst
  simp only [Bool.and_eq_true, beq_iff_eq] at hst
  unfold write writeLines
  have hunit : (canonGeo g).hdr.unitType = g.hdr.unitType := rfl
  rw [hunit, specs_eq]
  simp only [bind, Except.bind, w.sc]
  have hhdr : (canonGeo g).hdr = canonHeader g.hdr := rfl
  rw [hhdr, writeHeader_canon w.hdr hst.1 hst.2]
  -- every section
  have hnodes : writeNodes SP s (canonGeo g).nodes = writeNodes SP s g.nodes := by
    have : (canonGeo g).nodes = g.nodes.map (canonNode s) := by unfold canonGeo; rw [w.sOf]
    unfold writeNodes
    rw [this, mapM_map', mapM_congr' g.nodes (fun n hn => nodeLine_canon hs (w.nodes n hn))]
  have hcols : writeColumns SP s (canonGeo g).columns = writeColumns SP s g.columns := by
    have : (canonGeo g).columns = g.columns.map (canonColumn s (g.nodes.map (canonNode s)) (canonLayers s g.layers)) := by
      unfold canonGeo; rw [w.sOf]
    unfold writeColumns
    rw [this, mapM_map', mapM_congr' g.columns (fun c hc => columnLines_canon hs _ _ _ (w.cols c hc))]
  have hconns : writeConnections SP (canonGeo g).connections = writeConnections SP g.connections := rfl
  have hlayers : writeLayers SP s (canonGeo g).layers = writeLayers SP s g.layers := by
    have : (canonGeo g).layers = canonLayers s g.layers := by unfold canonGeo; rw [w.sOf]
    unfold writeLayers
    rw [this, canonLayers_mapM hs g.layers w.layers hk']
  have hall : ((canonGeo g).columns.all fun c => c.defaultSurface) = (g.columns.all fun c => c.defaultSurface) := by
    unfold canonGeo
    simp only [List.all_map]
    rfl
  have hsurf : writeSurface SP s (canonGeo g).columns = writeSurface SP s g.columns := by
    have : (canonGeo g).columns = g.columns.map (canonColumn s (g.nodes.map (canonNode s)) (canonLayers s g.layers)) := by
      unfold canonGeo; rw [w.sOf]
    unfold writeSurface
    rw [this, List.filter_map, mapM_map']
    have hf : (g.columns.filter ((fun c => !c.defaultSurface) ∘
        canonColumn s (g.nodes.map (canonNode s)) (canonLayers s g.layers))) = g.columns.filter (fun c => !c.defaultSurface) := rfl
    rw [hf]
    have hm := mapM_congr' (f := fun c => surfaceLine SP s (canonColumn s (g.nodes.map (canonNode s)) (canonLayers s g.layers) c))
      (g := surfaceLine SP s) (g.columns.filter (fun c => !c.defaultSurface)) (by
      intro c hc
      obtain ⟨hc1, hc2⟩ := List.mem_filter.mp hc
      have hd : c.defaultSurface = false := by simpa using hc2
      rcases w.colSurf c hc1 with h | ⟨z, hz, hfz⟩
      · rw [h] at hd; cases hd
      · exact surfaceLine_canon hs _ _ hd hz hfz)
    rw [hm]
  have hwl : (canonGeo g).wells.length = g.wells.length := by
    unfold canonGeo; simp
  have hwells : writeWells SP s (canonGeo g).wells = writeWells SP s g.wells := by
    have : (canonGeo g).wells = g.wells.map (canonWell s) := by unfold canonGeo; rw [w.sOf]
    unfold writeWells
    rw [this, mapM_map']
    have hm := mapM_congr' (f := fun x => wellLines SP s (canonWell s x)) (g := wellLines SP s) g.wells (by
      intro x hx
      unfold wellLines
      have : (canonWell s x).pos = x.pos.map (canonPos s) := rfl
      rw [this, mapM_map']
      exact mapM_congr' x.pos (fun p hp => wellLine_canon hs (w.wells x hx).name.len ((w.wells x hx).pos p hp)))
    rw [hm]
  rw [hnodes, hcols, hconns, hlayers, hall, hsurf, hwl, hwells]

/-! ### what the re-read layers are -/

theorem layerTops_map {α : Type} (f : GLayer → α) (hf : ∀ (l : GLayer) (t' : Flt), f { l with top := t' } = f l) :
    ∀ (ls : List GLayer) (t : Flt), (layerTops t ls).map f = ls.map f := by
  intro ls
  induction ls with
  | nil => intro _; rfl
  | cons l r ih => intro t; simp only [layerTops, List.map_cons, hf, ih]

theorem canonLayersAux_name_bottom (s : Rat) : ∀ (ls : List GLayer) (above : Option GLayer),
    (canonLayersAux s above ls).map (fun l => (l.name, l.bottom)) = ls.map (fun l => (l.name, canonC 2 s l.bottom)) := by
  intro ls
  induction ls with
  | nil => intro _; rfl
  | cons l r ih => intro above; simp only [canonLayersAux, List.map_cons, ih]; rfl

theorem canonLayers_name_bottom (s : Rat) (ls : List GLayer) :
    (canonLayers s ls).map (fun l => (l.name, l.bottom)) = ls.map (fun l => (l.name, canonC 2 s l.bottom)) := by
  unfold canonLayers
  cases hc : canonLayersAux s none ls with
  | nil => rw [← canonLayersAux_name_bottom s ls none, hc]
  | cons l0 r =>
    simp only
    rw [layerTops_map _ (fun _ _ => rfl), ← hc, canonLayersAux_name_bottom]

theorem canonLayers_centre_kept (s : Rat) (ls : List GLayer) (hk : layerCentresKeptAux s none ls = true) :
    (canonLayers s ls).map (·.centre) = ls.map (fun l => canonC 2 s l.centre) := by
  unfold canonLayers
  rw [canonLayersAux_kept s ls none hk]
  cases ls with
  | nil => rfl
  | cons l r =>
    simp only [List.map_cons]
    rw [layerTops_map _ (fun _ _ => rfl)]
    simp only [List.map_cons, List.map_map]
    rfl

end Proofs.GeoFile
