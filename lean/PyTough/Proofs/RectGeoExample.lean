/-
  A small TOUGH2 grid used by the non-vacuity examples of Props/C18.lean: three blocks in a row
  (direction 1) of widths 2, 4, 6 over one boundary block of huge volume connected to the first.
-/
import PyTough.Model.RectGeo
namespace Proofs.RectGeo.Ex
open Py Model.FromGeo Model.RectGeo

def a : GBlock := ⟨[' ',' ','a',' ','1'], 8, some ⟨1, 1, -1⟩⟩
def b : GBlock := ⟨[' ',' ','b',' ','1'], 16, some ⟨4, 1, -1⟩⟩
def c : GBlock := ⟨[' ',' ','c',' ','1'], 24, some ⟨9, 1, -1⟩⟩
def atm : GBlock := ⟨['A','T','M',' ','0'], 10 ^ 25, none⟩
def ab : GConn := ⟨a.name, b.name, 1, 1, 2⟩
def cb : GConn := ⟨c.name, b.name, 1, 3, 2⟩        -- stored the other way round
def aatm : GConn := ⟨a.name, atm.name, 3, 1, 1 / 1000000⟩
def grid : TGrid := ⟨[atm, a, b, c], [aatm, cb, ab]⟩
def steps : List (GConn × GBlock) := [(ab, b), (cb, c)]

end Proofs.RectGeo.Ex
