/-
  C19: t2data.transfer_rocktypes_from.
-/
import PyTough.Proofs.MappingIncon2
namespace Proofs.Mapping
open Py Model.Mapping

/-- every target block gets the rock type of its mapped source block -/
theorem rocktypes_spec (sr m : Dict Str) (tb rs : List Str) (h : transferRocktypes sr m tb = .ok rs) :
    rs.length = tb.length ∧ ∀ p ∈ tb.zip rs, ∃ sb, dget m p.1 = .ok sb ∧ dget sr sb = .ok p.2 := by
  unfold transferRocktypes at h
  refine ⟨mapE_length h, ?_⟩
  intro p hp
  have := mapE_zip h p hp
  unfold rockOf at this
  split at this
  · cases this
  · rename_i sb hsb
    exact ⟨sb, hsb, this⟩

/-- onto an identical geometry (identity mapping) the assignments are preserved -/
theorem rocktypes_identity (sr m : Dict Str) (tb : List Str) (rock : Str → Str)
    (hid : ∀ b ∈ tb, dget m b = .ok b) (hsr : ∀ b ∈ tb, dget sr b = .ok (rock b)) :
    transferRocktypes sr m tb = .ok (tb.map rock) := by
  unfold transferRocktypes
  apply mapE_ok_of_forall
  intro b hb
  unfold rockOf
  rw [hid b hb]
  exact hsr b hb

end Proofs.Mapping
