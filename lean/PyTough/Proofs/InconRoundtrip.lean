import PyTough.Proofs.InconFile
namespace Proofs.Incon
open Py Model Model.Incon Model.Names Proofs

/-! ### the whole file -/

/-- the five fields of a timing record -/
structure TLayout where
  kcyc : FieldSpec
  iter : FieldSpec
  nm : FieldSpec
  tstart : FieldSpec
  sumtim : FieldSpec

structure TimingOK (fs : List FieldSpec) (T : TLayout) : Prop where
  shape : fs = [T.kcyc, T.iter, T.nm, T.tstart, T.sumtim]
  kcyc_d : T.kcyc.typ = 'd'
  iter_d : T.iter.typ = 'd'
  nm_d : T.nm.typ = 'd'
  tstart_e : T.tstart.typ = 'e'
  sumtim_e : T.sumtim.typ = 'e'

structure TimingWF (t : Timing Val) : Prop where
  kcyc : IsIntOrNone t.kcyc
  iter : IsIntOrNone t.iter
  nm : IsIntOrNone t.nm
  tstart : IsRealOrNone t.tstart
  sumtim : IsReal t.sumtim          -- the long header prints it; it also keeps the timing line non-blank

def canonTiming (rf : ReadFn) (T : TLayout) (t : Timing Val) : Timing PVal :=
  { kcyc := reparse rf T.kcyc t.kcyc, iter := reparse rf T.iter t.iter, nm := reparse rf T.nm t.nm,
    tstart := reparse rf T.tstart t.tstart, sumtim := reparse rf T.sumtim t.sumtim }

theorem timing_line (rf : ReadFn) {fs : List FieldSpec} {T : TLayout} (hT : TimingOK fs T) {t : Timing Val}
    (hwf : TimingWF t) {l : Str} (h : writeLine fs [t.kcyc, t.iter, t.nm, t.tstart, t.sumtim] = .ok l) :
    parseString rf fs (padstring l) =
      .ok [reparse rf T.kcyc t.kcyc, reparse rf T.iter t.iter, reparse rf T.nm t.nm,
           reparse rf T.tstart t.tstart, reparse rf T.sumtim t.sumtim] := by
  have hpad : padstring l = l ++ List.replicate (80 - l.length) ' ' := rfl
  have hws : ∀ c ∈ List.replicate (80 - l.length) ' ', isStrWs c = true := by
    intro c hc; rw [(List.mem_replicate.mp hc).2]; decide
  rw [hpad]
  have := line_roundtrip rf fs _ (by rw [hT.shape]; intro f hf; simp at hf) (by
      rw [hT.shape]; intro vf hvf; simp at hvf
      rcases hvf with rfl | rfl | rfl | rfl | rfl
      · exact readable_intOrNone rf hT.kcyc_d hwf.kcyc
      · exact readable_intOrNone rf hT.iter_d hwf.iter
      · exact readable_intOrNone rf hT.nm_d hwf.nm
      · exact readable_realOrNone rf hT.tstart_e hwf.tstart
      · exact (readable_real rf hT.sumtim_e hwf.sumtim).1) h _ hws
  rw [this, hT.shape]
  simp

/-- the initial-condition sets the property quantifies over -/
structure InconWF (x : Incon Val) (nvars : Option Nat) : Prop where
  blocks : ∀ b ∈ x.blocks, BlockWF b ∧ NvarsOK nvars b
  distinct : (x.blocks.map (·.block)).Nodup
  flavour : x.simulator = TOUGH2 ∨ (x.simulator = TOUGHREACT ∧ ∃ b ∈ x.blocks, b.permeability.isSome = true)
  timing : ∀ t, x.timing = some t → TimingWF t

/-- is the timing record written? -/
def timingWritten (x : Incon Val) (reset : Bool) : Bool := x.timing.isSome && !reset

/-- **what `read` returns for a file `write` produced** -/
def canonIncon (rf : ReadFn) (L : Layout) (T U : TLayout) (x : Incon Val) (reset : Bool) : Incon PVal :=
  { simulator := x.simulator, blocks := x.blocks.map (canonBlock rf L x.simulator),
    timing := if timingWritten x reset then
        x.timing.map (canonTiming rf (if x.simulator = TOUGHREACT then U else T))
      else none }

theorem simAfter_eq {x : Incon Val} {nvars : Option Nat} (hwf : InconWF x nvars) :
    simAfter x.simulator TOUGH2 x.blocks = x.simulator := by
  have hnone : ∀ (bl : List (Block Val)) (s : Str), (∀ b ∈ bl, permWritten x.simulator b = false) →
      simAfter x.simulator s bl = s := by
    intro bl
    induction bl with
    | nil => intro s _; rfl
    | cons b r ih =>
      intro s h
      simp only [simAfter, List.foldl_cons, h b (by simp), Bool.false_eq_true, if_false]
      exact ih s (fun b' hb' => h b' (List.mem_cons_of_mem _ hb'))
  have hsome : ∀ (bl : List (Block Val)) (s : Str), (∃ b ∈ bl, permWritten x.simulator b = true) →
      simAfter x.simulator s bl = TOUGHREACT := by
    intro bl
    induction bl with
    | nil => intro s ⟨b, hb, _⟩; cases hb
    | cons b r ih =>
      intro s ⟨b', hb', hp⟩
      simp only [simAfter, List.foldl_cons]
      by_cases hr : ∃ b'' ∈ r, permWritten x.simulator b'' = true
      · exact ih _ hr
      · have hr' : ∀ b'' ∈ r, permWritten x.simulator b'' = false := by
          intro b'' hb''
          cases h : permWritten x.simulator b'' with
          | false => rfl
          | true => exact absurd ⟨b'', hb'', h⟩ hr
        have hb : permWritten x.simulator b = true := by
          rcases List.mem_cons.mp hb' with rfl | h
          · exact hp
          · rw [hr' b' h] at hp; cases hp
        rw [hb]
        exact hnone r _ hr'
  rcases hwf.flavour with h | ⟨h, b, hb, hp⟩
  · rw [hnone]
    · exact h.symm
    · intro b _
      unfold permWritten
      rw [h]
      have : decide (TOUGH2 = TOUGHREACT) = false := by decide
      rw [this]; rfl
  · rw [hsome x.blocks TOUGH2 ⟨b, hb, by unfold permWritten; rw [h, hp]; simp⟩, h]


theorem flatten_length_ge {α : Type} (body : List (List α)) (h : ∀ l ∈ body, l ≠ []) :
    body.length ≤ body.flatten.length := by
  induction body with
  | nil => simp
  | cons l r ih =>
    have h1 := h l (by simp)
    have h2 := ih (fun l' hl' => h l' (List.mem_cons_of_mem _ hl'))
    cases l with
    | nil => exact absurd rfl h1
    | cons a t => simp only [List.length_cons, List.flatten_cons, List.length_append]; omega

theorem body_facts {S : Specs} {sim : Str} {blocks : List (Block Val)} {body : List (List Str)}
    (h : blocks.mapM (writeBlock S sim) = .ok body) : blocks.length ≤ body.flatten.length := by
  have hall := (mapM_ok_iff _ _ _).mp h
  have hlen := hall.length_eq
  have hne : ∀ l ∈ body, l ≠ [] := by
    clear hlen h
    induction hall with
    | nil => intro l hl; cases hl
    | cons hab _ ih =>
      intro l hl
      rcases List.mem_cons.mp hl with rfl | h'
      · exact writeBlock_nonempty hab
      · exact ih l h'
  have := flatten_length_ge body hne
  omega

/-- what `write` returns, taken apart -/
theorem write_parts {S : Specs} {x : Incon Val} {reset : Bool} {file : List Str}
    (hw : write S x reset = .ok file) :
    ∃ header body footer, file = header :: (body.flatten ++ footer) ∧
      x.blocks.mapM (writeBlock S x.simulator) = .ok body ∧
      ((timingWritten x reset = false ∧ footer = [['\n'], ['\n']]) ∨
       (∃ t l, x.timing = some t ∧ reset = false ∧ footer = [['+', '+', '+', '\n'], l] ∧
          writeLine (if x.simulator = TOUGHREACT then S.timingTr else S.timing)
            [t.kcyc, t.iter, t.nm, t.tstart, t.sumtim] = .ok l)) := by
  unfold write at hw
  simp only [bind, Except.bind, pure, Except.pure] at hw
  cases ht : x.timing with
  | none =>
    rw [ht] at hw
    simp only [Option.isNone_none, Bool.true_or] at hw
    cases hh : writeLine S.headerShort [Val.str headerShortTitle] with
    | error e => rw [hh] at hw; cases hw
    | ok header =>
      rw [hh] at hw
      simp only at hw
      cases hb : x.blocks.mapM (writeBlock S x.simulator) with
      | error e => rw [hb] at hw; cases hw
      | ok body =>
        rw [hb] at hw
        cases hw
        exact ⟨header, body, _, rfl, rfl, Or.inl ⟨by simp [timingWritten, ht], rfl⟩⟩
  | some t =>
    rw [ht] at hw
    cases reset with
    | true =>
      simp only [Option.isNone_some, Bool.or_true] at hw
      cases hh : writeLine S.headerShort [Val.str headerShortTitle] with
      | error e => rw [hh] at hw; cases hw
      | ok header =>
        rw [hh] at hw
        simp only at hw
        cases hb : x.blocks.mapM (writeBlock S x.simulator) with
        | error e => rw [hb] at hw; cases hw
        | ok body =>
          rw [hb] at hw
          cases hw
          exact ⟨header, body, _, rfl, rfl, Or.inl ⟨by simp [timingWritten], rfl⟩⟩
    | false =>
      simp only [Option.isNone_some, Bool.or_false] at hw
      cases hh : writeLine S.headerLong [Val.str headerTitle, Val.int x.blocks.length, Val.str headerMiddle, t.sumtim] with
      | error e => rw [hh] at hw; cases hw
      | ok header =>
        rw [hh] at hw
        simp only at hw
        cases hb : x.blocks.mapM (writeBlock S x.simulator) with
        | error e => rw [hb] at hw; cases hw
        | ok body =>
          rw [hb] at hw
          simp only at hw
          cases hl : writeLine (if x.simulator = TOUGHREACT then S.timingTr else S.timing)
              [t.kcyc, t.iter, t.nm, t.tstart, t.sumtim] with
          | error e => rw [hl] at hw; cases hw
          | ok l =>
            rw [hl] at hw
            cases hw
            exact ⟨header, body, _, rfl, rfl, Or.inr ⟨t, l, rfl, rfl, rfl, hl⟩⟩


theorem written_each {fs : List FieldSpec} {vals : List Val} {l : Str} (h : writeLine fs vals = .ok l) :
    ∀ vf ∈ vals.zip fs, ∃ s, writeField vf.2 vf.1 = .ok s := by
  obtain ⟨rec, hwv, _⟩ := writeLine_ok h
  obtain ⟨strs, hs, hflat⟩ := (writeValues_ok_iff _ _ _).mp hwv
  clear hwv h hflat
  generalize vals.zip fs = z at hs
  induction hs with
  | nil => intro vf hvf; cases hvf
  | cons hab _ ih =>
    intro vf hvf
    rcases List.mem_cons.mp hvf with rfl | h'
    · exact ⟨_, hab⟩
    · exact ih vf h'

/-- a written timing record is not a blank line -/
theorem timing_line_nonblank (rf : ReadFn) {fs : List FieldSpec} {T : TLayout} (hT : TimingOK fs T)
    {t : Timing Val} (hwf : TimingWF t) {l : Str}
    (h : writeLine fs [t.kcyc, t.iter, t.nm, t.tstart, t.sumtim] = .ok l) : (strip l).isEmpty = false := by
  cases hse : (strip l).isEmpty with
  | false => rfl
  | true =>
    exfalso
    have hall : ∀ c ∈ l, isStrWs c = true := by
      intro c hc
      cases hw : isStrWs c with
      | true => rfl
      | false => rw [strip_ne_nil hc hw] at hse; cases hse
    have hallp : ∀ c ∈ padstring l, isStrWs c = true := by
      intro c hc
      have : padstring l = l ++ List.replicate (80 - l.length) ' ' := rfl
      rw [this] at hc
      rcases List.mem_append.mp hc with h' | h'
      · exact hall c h'
      · rw [(List.mem_replicate.mp h').2]; decide
    have hp := timing_line rf hT hwf h
    have hnum : ∀ f ∈ fs, NumericTyp f.typ := by
      rw [hT.shape]; intro f hf; simp at hf
      rcases hf with rfl | rfl | rfl | rfl | rfl
      · exact numeric_of_d hT.kcyc_d
      · exact numeric_of_d hT.iter_d
      · exact numeric_of_d hT.nm_d
      · exact numeric_of_e hT.tstart_e
      · exact numeric_of_e hT.sumtim_e
    have hws := parse_ws_fields rf [] (padstring l) hallp fs hnum 0 (Nat.le_refl _)
    rw [List.nil_append] at hws
    have hpe : parseString rf fs (padstring l) = (lineSpec.go 0 fs).mapM (readAt rf (padstring l)) := rfl
    rw [hpe, hws, hT.shape] at hp
    simp only [List.map_cons, List.map_nil, Except.ok.injEq, List.cons.injEq, and_true] at hp
    obtain ⟨s, hs⟩ := written_each h (t.sumtim, T.sumtim) (by rw [hT.shape]; simp)
    exact (readable_real rf hT.sumtim_e hwf.sumtim).2 s hs hp.2.2.2.2.symm

/-- **Write then read.**  For every well-formed set of initial conditions, every file that `write`
    produces for it (with or without `reset`) is read back — by a fresh `t2incon(filename,
    num_variables)` — as `canonIncon`: the same blocks in the same order, every value the reading
    of its own written text (`reparse`), permeabilities iff TOUGHREACT, the same flavour, and the
    timing record iff it was written. -/
theorem read_write (rf : ReadFn) {S : Specs} {L : Layout} {T U : TLayout} (hL : LayoutOK S L)
    (hT : TimingOK S.timing T) (hU : TimingOK S.timingTr U) (x : Incon Val) (nvars : Option Nat)
    (check reset : Bool) (hwf : InconWF x nvars) {file : List Str} (hw : write S x reset = .ok file) :
    Model.Incon.read rf S TOUGH2 nvars check file = .ok (canonIncon rf L T U x reset) := by
  obtain ⟨header, body, footer, rfl, hbody, hfoot⟩ := write_parts hw
  have hlen := body_facts hbody
  have hsim := simAfter_eq hwf
  unfold Model.Incon.read
  simp only [readline, bind, Except.bind]
  -- fuel = number of blocks + something positive
  obtain ⟨k, hk⟩ : ∃ k, (body.flatten ++ footer).length + 1 = x.blocks.length + (k + 1) := by
    refine ⟨(body.flatten ++ footer).length - x.blocks.length, ?_⟩
    rw [List.length_append]; omega
  have hloop := readBlocks_body rf hL nvars check x.simulator x.blocks body hwf.blocks hwf.distinct hbody
    TOUGH2 [] (by intro x hx; cases hx) footer (k + 1)
  rw [hk, hloop, hsim, List.nil_append]
  rcases hfoot with ⟨htw, rfl⟩ | ⟨t, l, ht, hr, rfl, hl⟩
  · -- blank terminator
    unfold readBlocks
    have : (strip ['\n']).isEmpty = true := by decide
    simp only [readline, this, if_true]
    simp [canonIncon, htw, pure, Except.pure]
  · -- +++ and the timing record
    subst hr
    unfold readBlocks
    have h1 : (strip ['+', '+', '+', '\n']).isEmpty = false := by decide
    simp only [readline, h1, Bool.false_eq_true, if_false, List.take, if_true]
    have htw : timingWritten x false = true := by simp [timingWritten, ht]
    have htwf := hwf.timing t ht
    by_cases hs : x.simulator = TOUGHREACT
    · rw [if_pos hs] at hl
      have hp := timing_line rf hU htwf hl
      have hne := timing_line_nonblank rf hU htwf hl
      simp [hne, hs, hp, canonIncon, htw, ht, canonTiming, pure, Except.pure]
    · rw [if_neg hs] at hl
      have hp := timing_line rf hT htwf hl
      have hne := timing_line_nonblank rf hT htwf hl
      simp [hne, hs, hp, canonIncon, htw, ht, canonTiming, pure, Except.pure]

end Proofs.Incon
