/-
  `int_to_chars` as a numeration system (C17): recursion equations independent of the fuel,
  a left inverse (hence injectivity), membership of the characters, and the exact length
  (hence the capacity of a name of given length).
-/
import PyTough.Model.Names
set_option linter.unusedSimpArgs false
namespace Proofs.Names
open Py Model.Names

/-- the digits produced for `i` (most significant first) -/
def D (chars : Str) (spaces : Bool) (i : Nat) : Str := itcAux chars spaces i i []

/-- `char_index` -/
def ci (spaces : Bool) (i : Nat) : Nat := if spaces then i - 1 else i

/-- the recursion makes progress: always with spaces; with at least two characters otherwise -/
def StepOK (chars : Str) (spaces : Bool) : Prop := spaces = true ∨ 2 ≤ chars.length

theorem ci_div_lt {chars : Str} {spaces : Bool} (h : StepOK chars spaces) {i : Nat} (hi : 0 < i) :
    ci spaces i / chars.length < i := by
  unfold ci
  cases spaces with
  | true =>
    simp only [if_true]
    exact Nat.lt_of_le_of_lt (Nat.div_le_self _ _) (by omega)
  | false =>
    simp only [Bool.false_eq_true, if_false]
    rcases h with h | h
    · cases h
    · exact Nat.div_lt_self hi (by omega)

theorem itcAux_succ (chars : Str) (spaces : Bool) (fuel i : Nat) (st : Str) (hi : i ≠ 0) :
    itcAux chars spaces (fuel + 1) i st =
      itcAux chars spaces fuel (ci spaces i / chars.length) (charAt chars (ci spaces i % chars.length) :: st) := by
  simp [itcAux, hi, ci]

theorem itcAux_zero (chars : Str) (spaces : Bool) (fuel : Nat) (st : Str) :
    itcAux chars spaces fuel 0 st = st := by
  cases fuel <;> simp [itcAux]

theorem itcAux_eq {chars : Str} {spaces : Bool} (h : StepOK chars spaces) :
    ∀ (i fuel : Nat) (st : Str), i ≤ fuel → itcAux chars spaces fuel i st = D chars spaces i ++ st := by
  intro i
  induction i using Nat.strongRecOn with
  | _ i ih =>
    intro fuel st hf
    by_cases hi : i = 0
    · subst hi; simp [itcAux_zero, D]
    · obtain ⟨f, rfl⟩ : ∃ f, fuel = f + 1 := ⟨fuel - 1, by omega⟩
      obtain ⟨i', rfl⟩ : ∃ i', i = i' + 1 := ⟨i - 1, by omega⟩
      have hlt := ci_div_lt h (Nat.succ_pos i')
      unfold D
      rw [itcAux_succ _ _ _ _ _ hi, itcAux_succ _ _ _ _ _ hi,
        ih _ hlt f _ (by omega), ih _ hlt i' _ (by omega)]
      simp

theorem D_zero (chars : Str) (spaces : Bool) : D chars spaces 0 = [] := rfl

theorem D_pos {chars : Str} {spaces : Bool} (h : StepOK chars spaces) {i : Nat} (hi : 0 < i) :
    D chars spaces i = D chars spaces (ci spaces i / chars.length) ++ [charAt chars (ci spaces i % chars.length)] := by
  obtain ⟨i', rfl⟩ : ∃ i', i = i' + 1 := ⟨i - 1, by omega⟩
  have hlt := ci_div_lt h (Nat.succ_pos i')
  conv => lhs; unfold D
  rw [itcAux_succ _ _ _ _ _ (by omega), itcAux_eq h _ i' _ (Nat.lt_succ_iff.mp hlt)]

theorem D_ne_nil {chars : Str} {spaces : Bool} (h : StepOK chars spaces) {i : Nat} (hi : 0 < i) :
    D chars spaces i ≠ [] := by
  rw [D_pos h hi]; simp

theorem getD_eq {l : Str} {k : Nat} (h : k < l.length) : l.getD k ' ' = l[k] := by
  simp [List.getD, h]

theorem charAt_mem {chars : Str} (hpos : 0 < chars.length) (k : Nat) : charAt chars (k % chars.length) ∈ chars := by
  unfold charAt
  have hk : k % chars.length < chars.length := Nat.mod_lt _ hpos
  rw [getD_eq hk]
  exact List.getElem_mem hk

theorem mem_D {chars : Str} {spaces : Bool} (h : StepOK chars spaces) (hpos : 0 < chars.length) :
    ∀ (i : Nat) (c : Char), c ∈ D chars spaces i → c ∈ chars := by
  intro i
  induction i using Nat.strongRecOn with
  | _ i ih =>
    intro c hc
    by_cases hi : i = 0
    · subst hi; simp [D_zero] at hc
    · have hi' : 0 < i := by omega
      rw [D_pos h hi'] at hc
      rcases List.mem_append.mp hc with hc | hc
      · exact ih _ (ci_div_lt h hi') c hc
      · simp only [List.mem_singleton] at hc
        subst hc; exact charAt_mem hpos _

/-! ### a left inverse -/

theorem idxOf_charAt {chars : Str} (hn : chars.Nodup) {k : Nat} (hk : k < chars.length) :
    chars.idxOf (charAt chars k) = k := by
  unfold charAt
  rw [getD_eq hk]
  induction chars generalizing k with
  | nil => simp at hk
  | cons a r ih =>
    cases k with
    | zero => simp
    | succ k =>
      have hk' : k < r.length := by simpa using hk
      have hne : r[k] ≠ a := by
        intro e
        have : a ∈ r := e ▸ List.getElem_mem hk'
        exact (List.nodup_cons.mp hn).1 this
      simp only [List.getElem_cons_succ]
      have hb : (a == r[k]) = false := by simpa using Ne.symm hne
      rw [List.idxOf_cons, hb, cond_false, ih (List.nodup_cons.mp hn).2 hk']

/-- value of a digit string; `o = 1` for the bijective numeration (spaces), `0` for the positional one -/
def val (chars : Str) (o : Nat) (s : Str) : Nat :=
  s.foldl (fun a c => a * chars.length + chars.idxOf c + o) 0

def off (spaces : Bool) : Nat := if spaces then 1 else 0

theorem val_append_singleton (chars : Str) (o : Nat) (s : Str) (c : Char) :
    val chars o (s ++ [c]) = val chars o s * chars.length + chars.idxOf c + o := by
  simp [val, List.foldl_append]

theorem val_D {chars : Str} {spaces : Bool} (h : StepOK chars spaces) (hn : chars.Nodup) (hpos : 0 < chars.length) :
    ∀ i, val chars (off spaces) (D chars spaces i) = i := by
  intro i
  induction i using Nat.strongRecOn with
  | _ i ih =>
    by_cases hi : i = 0
    · subst hi; simp [D_zero, val]
    · have hi' : 0 < i := by omega
      rw [D_pos h hi', val_append_singleton, ih _ (ci_div_lt h hi'),
        idxOf_charAt hn (Nat.mod_lt _ hpos), Nat.div_add_mod']
      unfold ci off
      cases spaces <;> simp <;> omega

/-- leading `chars[0]` padding does not change the positional value -/
theorem val_pad (chars : Str) (c0 : Char) (r : Str) (hc : chars = c0 :: r) (k : Nat) (s : Str) :
    val chars 0 (List.replicate k c0 ++ s) = val chars 0 s := by
  unfold val
  rw [List.foldl_append]
  congr 1
  induction k with
  | zero => rfl
  | succ k ih =>
    rw [List.replicate_succ, List.foldl_cons]
    have : chars.idxOf c0 = 0 := by subst hc; simp
    simp only [this, Nat.zero_mul, Nat.add_zero]
    simpa using ih

/-! ### lengths and capacities -/

/-- number of non-empty strings of length ≤ `L` over `n` characters: `n + n² + … + n^L` -/
def capB (n : Nat) : Nat → Nat
  | 0 => 0
  | L + 1 => n ^ (L + 1) + capB n L

theorem capB_step (n L : Nat) : n * (capB n L + 1) = capB n (L + 1) := by
  induction L with
  | zero => simp [capB]
  | succ L ih =>
    calc n * (capB n (L + 1) + 1) = n * (n ^ (L + 1) + (capB n L + 1)) := by simp [capB, Nat.add_assoc]
      _ = n * n ^ (L + 1) + n * (capB n L + 1) := Nat.mul_add ..
      _ = n ^ (L + 2) + capB n (L + 1) := by rw [ih, Nat.pow_succ n (L + 1), Nat.mul_comm]
      _ = capB n (L + 2) := by simp [capB]

theorem length_D_pos {chars : Str} {spaces : Bool} (h : StepOK chars spaces) {i : Nat} (hi : 0 < i) :
    (D chars spaces i).length = (D chars spaces (ci spaces i / chars.length)).length + 1 := by
  rw [D_pos h hi]; simp

/-- bijective numeration: `i` has at most `L` digits iff `i ≤ n + n² + … + n^L` -/
theorem lenB {chars : Str} (hpos : 0 < chars.length) :
    ∀ (L i : Nat), (D chars true i).length ≤ L ↔ i ≤ capB chars.length L := by
  have h : StepOK chars true := Or.inl rfl
  intro L
  induction L with
  | zero =>
    intro i
    by_cases hi : i = 0
    · subst hi; simp [D_zero, capB]
    · have := D_ne_nil h (i := i) (by omega)
      simp only [capB, Nat.le_zero, List.length_eq_zero_iff]
      constructor
      · intro e; exact absurd e this
      · intro e; exact absurd e hi
  | succ L ih =>
    intro i
    by_cases hi : i = 0
    · subst hi; simp [D_zero]
    · have hi' : 0 < i := by omega
      rw [length_D_pos h hi', Nat.add_le_add_iff_right, ih, ← capB_step]
      simp only [ci, if_true]
      rw [← Nat.lt_succ_iff, Nat.div_lt_iff_lt_mul hpos, Nat.mul_comm]
      generalize chars.length * (capB chars.length L + 1) = P
      omega

/-- positional numeration: `i` has at most `L` digits iff `i < n^L` -/
theorem lenP {chars : Str} (h2 : 2 ≤ chars.length) :
    ∀ (L i : Nat), (D chars false i).length ≤ L ↔ i < chars.length ^ L := by
  have h : StepOK chars false := Or.inr h2
  have hpos : 0 < chars.length := by omega
  intro L
  induction L with
  | zero =>
    intro i
    by_cases hi : i = 0
    · subst hi; simp [D_zero]
    · have := D_ne_nil h (i := i) (by omega)
      simp only [Nat.pow_zero, Nat.lt_one_iff, Nat.le_zero, List.length_eq_zero_iff]
      constructor
      · intro e; exact absurd e this
      · intro e; exact absurd e hi
  | succ L ih =>
    intro i
    by_cases hi : i = 0
    · subst hi; simp [D_zero]; exact Nat.pow_pos hpos
    · have hi' : 0 < i := by omega
      rw [length_D_pos h hi', Nat.add_le_add_iff_right, ih]
      simp only [ci, Bool.false_eq_true, if_false]
      rw [Nat.div_lt_iff_lt_mul hpos, Nat.pow_succ]

end Proofs.Names
