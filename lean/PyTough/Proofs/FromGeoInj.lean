/-
  Proofs for C04, part 6a: the announced block names identify their (layer, column) pair.
-/
import PyTough.Proofs.FromGeoOrigin3
namespace Proofs.FromGeo
open Py Model.FromGeo

/-! ### the announced names identify their (layer, column) pair -/

theorem blockName_det {conv : Nat} {l c n n' : Str} (h : blockName conv l c = .ok n) (h' : blockName conv l c = .ok n') :
    n = n' := by rw [h] at h'; exact Except.ok.inj h'

/-- within one layer -/
theorem layerBlockNames_inj (m : BlockMap) (conv : Nat) (lay : Layer) :
    ∀ (cols : List Column) (ns : List Str), layerBlockNames conv lay cols = .ok ns → (ns.map (applyMap m)).Nodup →
      cols.Nodup ∧ ∀ c ∈ cols, ∀ c' ∈ cols, ∀ n n', blockName conv lay.name c.name = .ok n →
        blockName conv lay.name c'.name = .ok n' → applyMap m n = applyMap m n' → c = c' := by
  intro cols
  induction cols with
  | nil => intro ns _ _; exact ⟨List.nodup_nil, fun c hc => (by cases hc)⟩
  | cons c cs ih =>
    intro ns h hnd
    simp only [layerBlockNames] at h
    split at h
    · cases h
    · rename_i n hn
      split at h
      · cases h
      · rename_i ns' hns
        cases h
        simp only [List.map_cons, List.nodup_cons, List.mem_map, not_exists, not_and] at hnd
        obtain ⟨hnot, hnd'⟩ := hnd
        obtain ⟨i1, i2⟩ := ih ns' hns hnd'
        obtain ⟨m1, _⟩ := layerBlockNames_mem conv lay cs ns' hns
        have key : ∀ c' ∈ cs, ∀ n', blockName conv lay.name c'.name = .ok n' → applyMap m n ≠ applyMap m n' := by
          intro c' hc' n' hn' heq
          obtain ⟨n'', hn''mem, hn''⟩ := m1 c' hc'
          have : n'' = n' := blockName_det hn'' hn'
          subst this
          exact hnot n'' hn''mem heq.symm
        refine ⟨List.nodup_cons.2 ⟨?_, i1⟩, ?_⟩
        · intro hmem
          exact key c hmem n hn rfl
        · intro x hx y hy nx ny hnx hny heq
          rcases List.mem_cons.1 hx with rfl | hx' <;> rcases List.mem_cons.1 hy with rfl | hy'
          · rfl
          · have := blockName_det hn hnx; subst this
            exact absurd heq (key y hy' ny hny)
          · have := blockName_det hn hny; subst this
            exact absurd heq.symm (key x hx' nx hnx)
          · exact i2 x hx' y hy' nx ny hnx hny heq

/-- across layers -/
theorem namesLayerColumn_inj (g : Geo) (m : BlockMap) :
    ∀ (ls : List Layer) (u : List Str), namesLayerColumn g ls = .ok u → (u.map (applyMap m)).Nodup →
      (∀ lay ∈ ls, (layerCols g lay).Nodup) ∧
      ∀ lay ∈ ls, ∀ c ∈ layerCols g lay, ∀ lay' ∈ ls, ∀ c' ∈ layerCols g lay', ∀ n n',
        blockName g.convention lay.name c.name = .ok n → blockName g.convention lay'.name c'.name = .ok n' →
        applyMap m n = applyMap m n' → lay = lay' ∧ c = c' := by
  intro ls
  induction ls with
  | nil => intro u _ _; exact ⟨fun l hl => (by cases hl), fun l hl => (by cases hl)⟩
  | cons l ls ih =>
    intro u h hnd
    simp only [namesLayerColumn] at h
    split at h
    · cases h
    · rename_i ns hns
      split at h
      · cases h
      · rename_i r hr
        cases h
        rw [List.map_append] at hnd
        obtain ⟨hn1, hn2, hdis⟩ := List.nodup_append.1 hnd
        obtain ⟨a1, a2⟩ := layerBlockNames_inj m g.convention l _ _ hns hn1
        obtain ⟨i1, i2⟩ := ih r hr hn2
        obtain ⟨mh, _⟩ := layerBlockNames_mem g.convention l _ _ hns
        obtain ⟨mt, _⟩ := namesLayerColumn_mem g ls r hr
        -- a name of the head layer and a name of a tail layer differ
        have cross : ∀ c ∈ layerCols g l, ∀ lay' ∈ ls, ∀ c' ∈ layerCols g lay', ∀ n n',
            blockName g.convention l.name c.name = .ok n → blockName g.convention lay'.name c'.name = .ok n' →
            applyMap m n ≠ applyMap m n' := by
          intro c hc lay' hl' c' hc' n n' hn hn' heq
          obtain ⟨x, hx, hbx⟩ := mh c hc
          obtain ⟨y, hy, hby⟩ := mt lay' hl' c' hc'
          have := blockName_det hbx hn; subst this
          have := blockName_det hby hn'; subst this
          exact hdis _ (List.mem_map.2 ⟨x, hx, rfl⟩) _ (List.mem_map.2 ⟨y, hy, rfl⟩) heq
        refine ⟨?_, ?_⟩
        · intro lay hlay
          rcases List.mem_cons.1 hlay with rfl | hm
          · exact a1
          · exact i1 lay hm
        · intro lay hlay c hc lay' hlay' c' hc' n n' hn hn' heq
          rcases List.mem_cons.1 hlay with rfl | hm <;> rcases List.mem_cons.1 hlay' with rfl | hm'
          · exact ⟨rfl, a2 c hc c' hc' n n' hn hn' heq⟩
          · exact absurd heq (cross c hc lay' hm' c' hc' n n' hn hn')
          · exact absurd heq.symm (cross c' hc' lay hm c hc n' n hn' hn)
          · exact i2 lay hm c hc lay' hm' c' hc' n n' hn hn' heq

/-! ### dmplex order is a permutation of layer-column order -/

theorem namesDmplexLayer_perm (conv : Nat) (lay : Layer) :
    ∀ (cols : List Column) (h w : List Str), namesDmplexLayer conv lay cols = .ok (h, w) →
      ∃ ns, layerBlockNames conv lay cols = .ok ns ∧ (h ++ w).Perm ns := by
  intro cols
  induction cols with
  | nil => intro h w hh; simp only [namesDmplexLayer] at hh; cases hh; exact ⟨[], rfl, List.Perm.refl _⟩
  | cons c cs ih =>
    intro h w hh
    simp only [namesDmplexLayer] at hh
    split at hh
    · cases hh
    · rename_i n hn
      split at hh
      · cases hh
      · split at hh
        · cases hh
        · rename_i h' w' hr
          obtain ⟨ns', hns', hp⟩ := ih h' w' hr
          simp only [layerBlockNames, hn, hns']
          split at hh
          · cases hh
            exact ⟨n :: ns', rfl, List.Perm.cons n hp⟩
          · cases hh
            exact ⟨n :: ns', rfl, List.perm_middle.trans (List.Perm.cons n hp)⟩

theorem namesDmplex_perm (g : Geo) :
    ∀ (ls : List Layer) (h w : List Str), namesDmplex g ls = .ok (h, w) →
      ∃ u, namesLayerColumn g ls = .ok u ∧ (h ++ w).Perm u := by
  intro ls
  induction ls with
  | nil => intro h w hh; simp only [namesDmplex] at hh; cases hh; exact ⟨[], rfl, List.Perm.refl _⟩
  | cons l ls ih =>
    intro h w hh
    simp only [namesDmplex] at hh
    split at hh
    · cases hh
    · rename_i h1 w1 hl
      split at hh
      · cases hh
      · rename_i h2 w2 hr
        cases hh
        obtain ⟨ns, hns, hp1⟩ := namesDmplexLayer_perm g.convention l _ _ _ hl
        obtain ⟨u, hu, hp2⟩ := ih h2 w2 hr
        simp only [namesLayerColumn, hns, hu]
        refine ⟨ns ++ u, rfl, ?_⟩
        have e : (h1 ++ h2) ++ (w1 ++ w2) = h1 ++ ((h2 ++ w1) ++ w2) := by simp [List.append_assoc]
        have e' : (h1 ++ w1) ++ (h2 ++ w2) = h1 ++ ((w1 ++ h2) ++ w2) := by simp [List.append_assoc]
        have hp : ((h1 ++ h2) ++ (w1 ++ w2)).Perm ((h1 ++ w1) ++ (h2 ++ w2)) := by
          rw [e, e']
          exact List.Perm.append_left _ (List.Perm.append_right _ List.perm_append_comm)
        exact hp.trans (List.Perm.append hp1 hp2)

end Proofs.FromGeo

namespace Proofs.FromGeo
open Py Model.FromGeo

/-- what the two block-name hypotheses give: the announced underground names identify their
    (layer, column) pair, no column is listed twice in a layer, and no atmosphere name
    coincides (after mapping) with an underground name -/
theorem inj_facts (g : Geo) (m : BlockMap) (hf : Fresh g) (hn : (g.blockNames.map (applyMap m)).Nodup) :
    ∃ a u, atmNames g = .ok a ∧ g.blockNames = a ++ u ∧
      (∀ lay ∈ g.layers, (layerCols g lay).Nodup) ∧
      (∀ lay ∈ g.layers, ∀ c ∈ layerCols g lay, ∀ lay' ∈ g.layers, ∀ c' ∈ layerCols g lay', ∀ n n',
        blockName g.convention lay.name c.name = .ok n → blockName g.convention lay'.name c'.name = .ok n' →
        applyMap m n = applyMap m n' → lay = lay' ∧ c = c') ∧
      (∀ x ∈ a, ∀ lay ∈ g.layers, ∀ c ∈ layerCols g lay, ∀ n,
        blockName g.convention lay.name c.name = .ok n → applyMap m x ≠ applyMap m n) ∧
      (∀ lay ∈ g.layers, ∀ c ∈ layerCols g lay, ∀ n, blockName g.convention lay.name c.name = .ok n → n ∈ u) := by
  have hf' := hf
  unfold Fresh blockNameList at hf
  split at hf
  · cases hf
  · rename_i a ha
    split at hf
    · split at hf
      · rename_i u hu
        have hb : g.blockNames = a ++ u := (Except.ok.inj hf).symm
        rw [hb, List.map_append] at hn
        obtain ⟨_, hn2, hdis⟩ := List.nodup_append.1 hn
        obtain ⟨i1, i2⟩ := namesLayerColumn_inj g m _ _ hu hn2
        obtain ⟨mt, _⟩ := namesLayerColumn_mem g _ _ hu
        refine ⟨a, u, ha, hb, i1, i2, ?_, ?_⟩
        · intro x hx lay hl c hc n hbn heq
          obtain ⟨y, hy, hby⟩ := mt lay hl c hc
          have := blockName_det hby hbn; subst this
          exact hdis _ (List.mem_map.2 ⟨x, hx, rfl⟩) _ (List.mem_map.2 ⟨y, hy, rfl⟩) heq
        · intro lay hl c hc n hbn
          obtain ⟨y, hy, hby⟩ := mt lay hl c hc
          have := blockName_det hby hbn; subst this
          exact hy
      · cases hf
    · split at hf
      · split at hf
        · rename_i h w hu
          have hb : g.blockNames = a ++ (h ++ w) := (Except.ok.inj hf).symm
          obtain ⟨u0, hu0, hp⟩ := namesDmplex_perm g _ _ _ hu
          rw [hb, List.map_append] at hn
          obtain ⟨_, hn2, hdis⟩ := List.nodup_append.1 hn
          have hn2' : (u0.map (applyMap m)).Nodup := (List.Perm.nodup_iff (hp.map _)).1 hn2
          obtain ⟨i1, i2⟩ := namesLayerColumn_inj g m _ _ hu0 hn2'
          obtain ⟨mt, _⟩ := namesLayerColumn_mem g _ _ hu0
          refine ⟨a, h ++ w, ha, hb, i1, i2, ?_, ?_⟩
          · intro x hx lay hl c hc n hbn heq
            obtain ⟨y, hy, hby⟩ := mt lay hl c hc
            have := blockName_det hby hbn; subst this
            exact hdis _ (List.mem_map.2 ⟨x, hx, rfl⟩) _ (List.mem_map.2 ⟨y, hp.mem_iff.2 hy, rfl⟩) heq
          · intro lay hl c hc n hbn
            obtain ⟨y, hy, hby⟩ := mt lay hl c hc
            have := blockName_det hby hbn; subst this
            exact hp.mem_iff.2 hy
        · cases hf
      · cases hf

end Proofs.FromGeo
