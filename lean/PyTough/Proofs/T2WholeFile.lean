/-
  C01 proofs, layer 5b: `T2Data.read (T2Data.write d)` for whole objects (in-file mesh, both flavours, no
  extra-precision companion file), from the keyword-loop composition `whole_loop`.
-/
import PyTough.Proofs.T2WholeChain
namespace Proofs.T2
open Py Model Model.T2 Proofs
open Gen.Sections (Rec)

def canonTitle (d : T2Data) : Str := rstripNewline (slice (nl (strip d.title)) 0 80)

/-- the flavours / `write()` arguments covered: a TOUGH2 object (no `simulator`; `write()` then ignores the
    extra-precision arguments), or an AUTOUGH2 object written with `extra_precision=None, echo_extra_precision=None` -/
def FlavourOK (d : T2Data) (cfg : WriteCfg) : Prop := d.simulator = [] ∨ (cfg.xp = none ∧ cfg.echo = none)

/-- `write_extra_precision` does nothing for an object without extra-precision sections and no arguments -/
theorem writeExtraPrecision_off (d : T2Data) (hx : d.extraPrecision = []) :
    writeExtraPrecision d none none = .ok (d, none) := by
  unfold writeExtraPrecision
  simp only [hx, List.isEmpty_nil, if_true, pure, Except.pure]

/-- what `write()` does before the section loop, for the covered flavours: only `update_sections` -/
theorem write_prefix (d : T2Data) (hxp : d.extraPrecision = []) (cfg : WriteCfg) (hfl : FlavourOK d cfg) :
    (if d.updateSections.autough2 then writeExtraPrecision d.updateSections cfg.xp cfg.echo
      else pure (d.updateSections, none)) = .ok (d.updateSections, none) := by
  have hx : d.updateSections.extraPrecision = [] := hxp
  by_cases hs : d.simulator = []
  · have ha : d.updateSections.autough2 = false := by simp [T2Data.autough2, T2Data.updateSections, hs]
    rw [ha]; rfl
  · rcases hfl with h | ⟨h1, h2⟩
    · exact absurd h hs
    · have ha : d.updateSections.autough2 = true := by
        cases hd : d.simulator with
        | nil => exact absurd hd hs
        | cons a b => simp [T2Data.autough2, T2Data.updateSections, hd]
      rw [ha, h1, h2, if_pos rfl]
      exact writeExtraPrecision_off _ hx

theorem write_infile (d : T2Data) (hxp : d.extraPrecision = [])
    (cfg : WriteCfg) (hfl : FlavourOK d cfg) (hcfg : cfg.mesh = .infile) (d' : T2Data) (f : Files) (hw : d.write cfg = .ok (d', f)) :
    d' = d.updateSections ∧ ∃ texts, d'.sections.mapM (writeSection mainTabs d') = .ok texts ∧
      f = { main := [nl (strip d.title)] ++ texts.flatten ++ [nl d.endKeyword], mesh := none, pdat := none } := by
  have hx : d.updateSections.extraPrecision = [] := hxp
  unfold T2Data.write at hw
  have h1 : (MeshKind.infile == MeshKind.ascii) = false := by decide
  have h2 : (MeshKind.infile == MeshKind.infile) = true := by decide
  have hp := write_prefix d hxp cfg hfl
  have hw' : Except.bind (List.mapM (fun kw => writeSection mainTabs d.updateSections kw) d.updateSections.sections)
      (fun v => (.ok (d.updateSections, { main := [nl (strip d.updateSections.title)] ++ v.flatten ++ [nl d.updateSections.endKeyword],
                                           mesh := none, pdat := none }) : Except Exc (T2Data × Files))) = .ok (d', f) := by
    cases ha : d.updateSections.autough2 with
    | false =>
      simpa only [hcfg, ha, h1, h2, Bool.false_eq_true, if_false, if_true, pure, bind, Except.pure, Except.bind, hx,
        List.contains_nil, Bool.not_false, Bool.true_and, Bool.true_or] using hw
    | true =>
      rw [ha, if_pos rfl] at hp
      simpa only [hcfg, ha, hp, h1, h2, Bool.false_eq_true, if_false, if_true, pure, bind, Except.pure, Except.bind, hx,
        List.contains_nil, Bool.not_false, Bool.true_and, Bool.true_or] using hw
  clear hw
  have hw := hw'
  unfold Except.bind at hw
  cases hm : List.mapM (fun kw => writeSection mainTabs d.updateSections kw) d.updateSections.sections with
  | error e => rw [hm] at hw; cases hw
  | ok v =>
    rw [hm] at hw
    cases hw
    exact ⟨rfl, v, hm, rfl⟩

/-- the reader's fresh object once the title line is read -/
def startObj (d : T2Data) : T2Data := { T2Data.empty with title := canonTitle d }

theorem texts_length (d : T2Data) (step : Str → T2Data → T2Data) (Good : Str → T2Data → Prop) (K : Str → Prop)
    (hstep : ∀ kw d0, K kw → XpFree d0 → Good kw d0 → StepRT d kw d0 (step kw d0)) :
    ∀ (kws : List Str) (d0 : T2Data) (texts : List (List Str)),
      (∀ kw ∈ kws, K kw) → XpFree d0 → GoodFrom step Good kws d0 →
      kws.mapM (writeSection mainTabs d) = .ok texts → kws.length ≤ texts.flatten.length := by
  intro kws
  induction kws with
  | nil => intro _ _ _ _ _ _; simp
  | cons kw kws ih =>
    intro d0 texts hKs hxp hgood hw
    obtain ⟨t, ts, hwt, hwts, rfl⟩ := mapM_cons_ok _ _ _ _ hw
    have hrt := hstep kw d0 (hKs kw (by simp)) hxp hgood.1
    obtain ⟨hdr, body, hwb, _, _⟩ := hrt.writes
    rw [hwt] at hwb
    cases hwb
    have := ih { step kw d0 with sections := (step kw d0).sections ++ [kw] } ts (fun k hk => hKs k (List.mem_cons_of_mem _ hk)) hrt.xp hgood.2 hwts
    simp only [List.flatten_cons, List.length_append, List.length_cons]
    omega

/-- **whole objects**: `read (write d)` through the title line, the keyword loop and the end keyword -/
theorem whole_read_write (d : T2Data) (step : Str → T2Data → T2Data) (Good : Str → T2Data → Prop) (K : Str → Prop)
    (hK : ∀ kw, K kw → kw ∈ allSections)
    (hxp : d.extraPrecision = []) (hend : IsEnd d.endKeyword)
    (cfg : WriteCfg) (hfl : FlavourOK d cfg) (hcfg : cfg.mesh = .infile) (d' : T2Data) (f : Files) (hw : d.write cfg = .ok (d', f))
    (hstep : ∀ kw d0, K kw → XpFree d0 → Good kw d0 → StepRT d' kw d0 (step kw d0))
    (hKs : ∀ kw ∈ d'.sections, K kw)
    (hgood : GoodFrom step Good d'.sections (startObj d)) :
    T2Data.read .default f = .ok { canonFrom step d'.sections (startObj d) with endKeyword := d.endKeyword } := by
  obtain ⟨hd', texts, hm, rfl⟩ := write_infile d hxp cfg hfl hcfg d' f hw
  have hlen := texts_length d' step Good K hstep d'.sections (startObj d) texts hKs rfl hgood hm
  have hloop := whole_loop d' step Good K hK hstep d.endKeyword hend d'.sections
    (startObj d) none (texts.flatten ++ [nl d.endKeyword])
    ((texts.flatten ++ [nl d.endKeyword]).length + 2) texts hKs rfl hgood hm (Or.inl ⟨rfl, rfl⟩)
    (by simp only [List.length_append]; omega)
  have hread : T2Data.read .default { main := [nl (strip d.title)] ++ texts.flatten ++ [nl d.endKeyword], mesh := none, pdat := none } =
      (readLoop .default none ((texts.flatten ++ [nl d.endKeyword]).length + 2) (startObj d) none
        (texts.flatten ++ [nl d.endKeyword])).bind (fun v => .ok v) := rfl
  rw [hread, hloop]
  rfl
end Proofs.T2
