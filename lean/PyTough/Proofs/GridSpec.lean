/-
  inv_run, the renaming facts, and the index functions.
-/
import PyTough.Proofs.GridInvStep
namespace Proofs.Grid
open Py Model Model.Grid Model.Grid.World

theorem inv_empty : Grid.Inv World.empty := by
  constructor <;> simp [World.empty]

/-- the same list facts for `rename_blocks` as used in `renameWorld_inv`, exported -/
theorem renameWorld_facts {w : World} (hI : Grid.Inv w) (m : Dict Name Name)
    (hnd : (w.blocklist.map fun b => mapName m (w.bname b)).Nodup) :
    let w' := rebuildConnection (rebuildBlock (renameLoop m w w.blocklist))
    w'.blocklist = w.blocklist ∧ w'.connectionlist = w.connectionlist ∧
    (∀ b ∈ w.blocklist, w'.bname b = mapName m (w.bname b)) ∧
    (∀ n b, dget w'.block n = some b ↔ b ∈ w.blocklist ∧ mapName m (w.bname b) = n) ∧
    (∀ k c, dget w'.connection k = some c ↔ c ∈ w.connectionlist ∧ mapKey m (w.ckey c) = k) ∧
    (∀ b, (w'.bk b).volume = (w.bk b).volume ∧ (w'.bk b).rock = (w.bk b).rock ∧ (w'.bk b).centre = (w.bk b).centre) ∧
    w'.cons = w.cons ∧ w'.rocks = w.rocks := by
  have hB := hI.blockInv
  have hC := hI.conInv
  obtain ⟨e1, e2, e3, e4, e5, e6, e7, e8, e9, e10⟩ := renameLoop_spec m w w.blocklist hB.bl_nodup hB.bl_lt
  generalize hw1 : renameLoop m w w.blocklist = w1 at *
  have hnm : ∀ x ∈ w.blocklist, w1.bname x = mapName m (w.bname x) := by
    intro x hx; simp only [World.bname, e10, hx, if_true]
  have hinj : ∀ x ∈ w.blocklist, ∀ y ∈ w.blocklist, w1.bname x = w1.bname y → x = y := by
    intro x hx y hy e
    rw [hnm x hx, hnm y hy] at e
    exact inj_of_nodup_map (fun b => mapName m (w.bname b)) _ hnd x hx y hy e
  have hcn : ∀ c, w1.cn c = w.cn c := by intro c; simp only [World.cn, e2]
  have hkey : ∀ c ∈ w.connectionlist, w1.ckey c = mapKey m (w.ckey c) := by
    intro c hc
    have ends := hC.c_ends c hc
    simp only [World.ckey, hcn, hnm _ ends.1, hnm _ ends.2.1, mapKey]
  have hkinj : ∀ x ∈ w.connectionlist, ∀ y ∈ w.connectionlist, w1.ckey x = w1.ckey y → x = y := by
    intro x hx y hy e
    have ex := hC.c_ends x hx
    have ey := hC.c_ends y hy
    simp only [World.ckey, hcn, Prod.mk.injEq] at e
    have h0 := hinj _ ex.1 _ ey.1 e.1
    have h1 := hinj _ ex.2.1 _ ey.2.1 e.2
    exact hC.key_inj hx hy (by simp only [World.ckey, h0, h1])
  intro w'
  have f_bd : w'.block = w.blocklist.foldl (fun d b => dset d (w1.bname b) b) [] := by
    simp only [w', rebuildConnection, rebuildBlock, e5]
  have f_cd : w'.connection = w.connectionlist.foldl (fun d c => dset d (w1.ckey c) c) [] := by
    simp only [w', rebuildConnection, rebuildBlock, e7]; rfl
  have f_bk : ∀ x, w'.bk x = w1.bk x := fun x => rfl
  refine ⟨e5, e7, ?_, ?_, ?_, ?_, e2, e1⟩
  · intro b hb; exact hnm b hb
  · intro n b
    rw [f_bd, dget_build _ _ hinj]
    constructor
    · rintro ⟨hb, e⟩; exact ⟨hb, by rw [← hnm b hb]; exact e⟩
    · rintro ⟨hb, e⟩; exact ⟨hb, by rw [hnm b hb]; exact e⟩
  · intro k c
    rw [f_cd, dget_build _ _ hkinj]
    constructor
    · rintro ⟨hc, e⟩; exact ⟨hc, by rw [← hkey c hc]; exact e⟩
    · rintro ⟨hc, e⟩; exact ⟨hc, by rw [hkey c hc]; exact e⟩
  · intro b
    rw [f_bk, e10]
    split <;> exact ⟨rfl, rfl, rfl⟩

/-- `rename_blocks` returns normally when `fix_block_mapping` does, with the state of the three loops -/
theorem renameBlocks_eq {w : World} {m m1 : Dict Name Name} {fix : Bool} (hm : effectiveMap m fix = some m1) :
    step w (.renameBlocks m fix) = { w := rebuildConnection (rebuildBlock (renameLoop m1 w w.blocklist)) } := by
  unfold effectiveMap at hm
  cases fix with
  | false =>
    simp only [Bool.false_eq_true, if_false, Option.some.injEq] at hm; subst hm
    simp only [step, renameBlocks, Bool.false_eq_true, if_false, Out.ofR]
  | true =>
    simp only [if_true] at hm
    cases hf : fixBlockMapping m with
    | error e => rw [hf] at hm; cases hm
    | ok m2 =>
      rw [hf] at hm; simp only [Option.some.injEq] at hm; subst hm
      simp only [step, renameBlocks, if_true, hf, Out.ofR]


/-! ### list.index -/

theorem indexOf?_some {l : List Nat} {x i : Nat} (h : indexOf? l x = some i) : l[i]? = some x := by
  induction l generalizing i with
  | nil => simp [indexOf?] at h
  | cons a r ih =>
    unfold indexOf? at h
    split at h
    · rename_i e; cases h; simp [e]
    · simp only [Option.map_eq_some_iff] at h
      obtain ⟨j, hj, rfl⟩ := h
      simp [ih hj]

theorem indexOf?_of_mem {l : List Nat} {x : Nat} (h : x ∈ l) : ∃ i, indexOf? l x = some i := by
  induction l with
  | nil => cases h
  | cons a r ih =>
    unfold indexOf?
    by_cases e : a = x
    · exact ⟨0, by simp [e]⟩
    · rcases List.mem_cons.mp h with h | h
      · exact absurd h.symm e
      · obtain ⟨i, hi⟩ := ih h
        exact ⟨i + 1, by simp [e, hi]⟩

end Proofs.Grid
