/-
  Proofs about the model of the point-location code (Model/Locate.lean), property C12.
  A. soundness of every search path      B. crossing parity (in_polygon ⇒ in bounding rectangle)
  C. completeness of the plain search; all aids agree under `UniqueAt`
  E. layers and blocks                   D. the quadtree (leaf, sub-rectangles, constructor invariant)
-/
import PyTough.Model.Locate
import Mathlib.Tactic.Linarith
import Mathlib.Tactic.Ring
import Mathlib.Algebra.Order.Field.Basic

namespace Proofs.Locate
open Model.Locate

/-! ## A. soundness of every search path -/

theorem firstContaining_sound {g : Geo} {pos : Pt} {cols : List Nat} {c : Nat}
    (h : firstContaining g pos cols = some c) : g.containsPoint c pos = true := by
  unfold firstContaining at h
  exact (List.find?_some (p := fun c => g.containsPoint c pos) h)

theorem firstContaining_mem {g : Geo} {pos : Pt} {cols : List Nat} {c : Nat}
    (h : firstContaining g pos cols = some c) : c ∈ cols := by
  unfold firstContaining sortByDist at h
  have := List.mem_of_find?_eq_some h
  exact List.mem_mergeSort.mp this

theorem firstContaining_complete {g : Geo} {pos : Pt} {cols : List Nat} {c : Nat}
    (hc : c ∈ cols) (h : g.containsPoint c pos = true) : ∃ c', firstContaining g pos cols = some c' := by
  unfold firstContaining sortByDist
  have hm : c ∈ cols.mergeSort (fun a b => decide (distSq (g.centre a) pos ≤ distSq (g.centre b) pos)) :=
    List.mem_mergeSort.mpr hc
  cases hf : List.find? (fun c => g.containsPoint c pos)
      (cols.mergeSort fun a b => decide (distSq (g.centre a) pos ≤ distSq (g.centre b) pos)) with
  | some c' => exact ⟨c', rfl⟩
  | none =>
    have := List.find?_eq_none.mp hf c hm
    simp [h] at this

theorem searchWaveLoop_sound {g : Geo} {all : List Nat} {b : Rect} {p : Pt} :
    ∀ (fuel : Nat) (todo done : List Nat) (c : Nat),
      searchWaveLoop g all b p fuel todo done = some c → g.containsPoint c p = true := by
  intro fuel
  induction fuel with
  | zero => intro todo done c h; simp [searchWaveLoop] at h
  | succ n ih =>
    intro todo done c h
    cases todo with
    | nil => simp [searchWaveLoop] at h
    | cons e t =>
      simp only [searchWaveLoop] at h
      split at h
      · rename_i hc
        injection h with h; subst h; exact hc
      · exact ih _ _ _ h

theorem search_sound {g : Geo} {q : QT} {p : Pt} {c : Nat} (h : q.search g p = some c) :
    g.containsPoint c p = true := by
  unfold QT.search at h
  split at h
  · exact searchWaveLoop_sound _ _ _ _ h
  · cases h

theorem fullSearch_sound {g : Geo} {pos : Pt} {sc dc : List Nat} {qt : Option QT} {c : Nat}
    (h : fullSearch g pos sc dc qt = some c) : g.containsPoint c pos = true := by
  unfold fullSearch at h
  split at h
  · exact search_sound h
  · exact firstContaining_sound h

theorem guessSearch_sound {g : Geo} {pos : Pt} {sc : List Nat} {gu : Option Nat} {qt : Option QT} {c : Nat}
    (h : guessSearch g pos sc gu qt = some c) : g.containsPoint c pos = true := by
  unfold guessSearch at h
  split at h
  · exact fullSearch_sound h
  · split at h
    · rename_i hg
      injection h with h; subst h; exact hg
    · simp only at h
      split at h
      · rename_i c' hf
        injection h with h; subst h; exact firstContaining_sound hf
      · exact fullSearch_sound h

theorem columnContainingPoint_sound {g : Geo} {pos : Pt} {a : Aids} {c : Nat}
    (h : columnContainingPoint g pos a = some c) : g.containsPoint c pos = true := by
  unfold columnContainingPoint at h
  split at h
  · exact guessSearch_sound h
  · cases h

/-! ## B. crossing parity: `in_polygon` implies "in the bounding rectangle" -/

theorem spans_translate (a v b r : Rat) : spans (a - r) (v - r) (b - r) = spans a v b := by
  unfold spans
  have e1 : decide (a - r ≤ v - r) = decide (a ≤ v) := decide_eq_decide.mpr ⟨fun h => by linarith, fun h => by linarith⟩
  have e2 : decide (v - r < b - r) = decide (v < b) := decide_eq_decide.mpr ⟨fun h => by linarith, fun h => by linarith⟩
  have e3 : decide (b - r ≤ v - r) = decide (b ≤ v) := decide_eq_decide.mpr ⟨fun h => by linarith, fun h => by linarith⟩
  have e4 : decide (v - r < a - r) = decide (v < a) := decide_eq_decide.mpr ⟨fun h => by linarith, fun h => by linarith⟩
  rw [e1, e2, e3, e4]

/-- subtracting `ref = polygon[0]` from the point and the edge changes nothing (exact arithmetic) -/
theorem crossEdge_translate (v p1 p2 r : Pt) :
    crossEdge (v.sub r) (p1.sub r) (p2.sub r) = crossEdge v p1 p2 := by
  unfold crossEdge
  simp only [Pt.sub, spans_translate]
  split
  · have hx : p1.1 - r.1 + (v.2 - r.2 - (p1.2 - r.2)) * (p2.1 - r.1 - (p1.1 - r.1)) / (p2.2 - r.2 - (p1.2 - r.2))
        = (p1.1 + (v.2 - p1.2) * (p2.1 - p1.1) / (p2.2 - p1.2)) - r.1 := by
      have a1 : v.2 - r.2 - (p1.2 - r.2) = v.2 - p1.2 := by ring
      have a2 : p2.1 - r.1 - (p1.1 - r.1) = p2.1 - p1.1 := by ring
      have a3 : p2.2 - r.2 - (p1.2 - r.2) = p2.2 - p1.2 := by ring
      rw [a1, a2, a3]; ring
    apply decide_eq_decide.mpr
    rw [hx]
    constructor <;> intro h <;> linarith
  · rfl

theorem numCrossings_cons (pos ref : Pt) (rest : Poly) :
    numCrossings pos (ref :: rest) =
      ((edges (ref :: rest)).filter fun e => crossEdge pos e.1 e.2).length := by
  unfold numCrossings
  simp only [crossEdge_translate]

theorem crossEdge_spans {v p1 p2 : Pt} (h : crossEdge v p1 p2 = true) : spans p1.2 v.2 p2.2 = true := by
  unfold crossEdge at h
  split at h
  · assumption
  · cases h

/-- the half-open span condition is "exactly one end point is at or below the ordinate" -/
theorem spans_eq_xor (a v b : Rat) : spans a v b = (decide (a ≤ v) != decide (b ≤ v)) := by
  unfold spans
  by_cases h1 : a ≤ v <;> by_cases h2 : b ≤ v
  · have : ¬ v < b := not_lt.mpr h2
    have : ¬ v < a := not_lt.mpr h1
    simp [*]
  · have : v < b := not_le.mp h2
    simp [*]
  · have : v < a := not_le.mp h1
    simp [*]
  · simp [*]

/-- abscissa of the crossing lies between the abscissae of the edge's end points -/
theorem cross_x_le {p1x p2x vy p1y p2y M : Rat} (hs : spans p1y vy p2y = true) (ha : p1x ≤ M) (hb : p2x ≤ M) :
    p1x + (vy - p1y) * (p2x - p1x) / (p2y - p1y) ≤ M := by
  have e : p1x + (vy - p1y) * (p2x - p1x) / (p2y - p1y) = p1x + ((vy - p1y) / (p2y - p1y)) * (p2x - p1x) := by ring
  rw [e]
  unfold spans at hs
  simp only [Bool.or_eq_true, Bool.and_eq_true, decide_eq_true_eq] at hs
  rcases hs with ⟨h1, h2⟩ | ⟨h1, h2⟩
  · have hd : 0 < p2y - p1y := by linarith
    have hs0 : 0 ≤ (vy - p1y) / (p2y - p1y) := div_nonneg (by linarith) hd.le
    have hs1 : (vy - p1y) / (p2y - p1y) ≤ 1 := by rw [div_le_one hd]; linarith
    nlinarith
  · have hd : 0 < p1y - p2y := by linarith
    have e2 : (vy - p1y) / (p2y - p1y) = (p1y - vy) / (p1y - p2y) := by
      rw [← neg_sub p1y vy, ← neg_sub p1y p2y, neg_div_neg_eq]
    rw [e2]
    have hs0 : 0 ≤ (p1y - vy) / (p1y - p2y) := div_nonneg (by linarith) hd.le
    have hs1 : (p1y - vy) / (p1y - p2y) ≤ 1 := by rw [div_le_one hd]; linarith
    nlinarith

theorem cross_x_ge {p1x p2x vy p1y p2y m : Rat} (hs : spans p1y vy p2y = true) (ha : m ≤ p1x) (hb : m ≤ p2x) :
    m ≤ p1x + (vy - p1y) * (p2x - p1x) / (p2y - p1y) := by
  have e : p1x + (vy - p1y) * (p2x - p1x) / (p2y - p1y) = p1x + ((vy - p1y) / (p2y - p1y)) * (p2x - p1x) := by ring
  rw [e]
  unfold spans at hs
  simp only [Bool.or_eq_true, Bool.and_eq_true, decide_eq_true_eq] at hs
  rcases hs with ⟨h1, h2⟩ | ⟨h1, h2⟩
  · have hd : 0 < p2y - p1y := by linarith
    have hs0 : 0 ≤ (vy - p1y) / (p2y - p1y) := div_nonneg (by linarith) hd.le
    have hs1 : (vy - p1y) / (p2y - p1y) ≤ 1 := by rw [div_le_one hd]; linarith
    nlinarith
  · have hd : 0 < p1y - p2y := by linarith
    have e2 : (vy - p1y) / (p2y - p1y) = (p1y - vy) / (p1y - p2y) := by
      rw [← neg_sub p1y vy, ← neg_sub p1y p2y, neg_div_neg_eq]
    rw [e2]
    have hs0 : 0 ≤ (p1y - vy) / (p1y - p2y) := div_nonneg (by linarith) hd.le
    have hs1 : (p1y - vy) / (p1y - p2y) ≤ 1 := by rw [div_le_one hd]; linarith
    nlinarith

/-- a point at or right of both end points is not counted -/
theorem crossEdge_false_of_right {v p1 p2 : Pt} (h1 : p1.1 ≤ v.1) (h2 : p2.1 ≤ v.1) : crossEdge v p1 p2 = false := by
  unfold crossEdge
  split
  · rename_i hs
    simp only [Pt.sub]
    exact decide_eq_false (not_lt.mpr (cross_x_le hs h1 h2))
  · rfl

/-- a point strictly left of both end points is counted exactly when the edge spans its ordinate -/
theorem crossEdge_eq_spans_of_left {v p1 p2 : Pt} (h1 : v.1 < p1.1) (h2 : v.1 < p2.1) :
    crossEdge v p1 p2 = spans p1.2 v.2 p2.2 := by
  unfold crossEdge
  split
  · rename_i hs
    rw [hs]
    simp only [Pt.sub]
    have := cross_x_ge (m := min p1.1 p2.1) hs (min_le_left _ _) (min_le_right _ _)
    have hm : v.1 < min p1.1 p2.1 := lt_min h1 h2
    exact decide_eq_true (by linarith)
  · rename_i hs
    simp only [Bool.not_eq_true] at hs
    rw [hs]

/-! ### parity of the number of changes around a cycle -/

theorem parity_path {α : Type} (f : α → Bool) : ∀ (l : List α) (x a : α),
    (((x :: l).zip (l ++ [a])).filter fun e => f e.1 != f e.2).length % 2 = (if (f x != f a) = true then 1 else 0) := by
  intro l
  induction l with
  | nil =>
    intro x a
    simp only [List.nil_append, List.zip_cons_cons, List.zip_nil_right, List.filter_cons, List.filter_nil]
    split <;> simp
  | cons y t ih =>
    intro x a
    simp only [List.cons_append, List.zip_cons_cons, List.filter_cons]
    have := ih y a
    cases hx : f x <;> cases hy : f y <;> cases ha : f a <;> simp [hy, ha] at this ⊢ <;> omega

theorem edges_cons (p : Pt) (ps : Poly) : edges (p :: ps) = (p :: ps).zip (ps ++ [p]) := rfl

theorem mem_edges {poly : Poly} {e : Pt × Pt} (h : e ∈ edges poly) : e.1 ∈ poly ∧ e.2 ∈ poly := by
  cases poly with
  | nil => simp [edges] at h
  | cons p ps =>
    rw [edges_cons] at h
    have := List.of_mem_zip h
    refine ⟨this.1, ?_⟩
    have h2 := this.2
    simp only [List.mem_append, List.mem_singleton] at h2
    rcases h2 with h2 | h2
    · exact List.mem_cons_of_mem _ h2
    · rw [h2]; exact List.mem_cons_self

/-- the number of edges spanning any ordinate is even -/
theorem spanning_even (vy : Rat) (poly : Poly) :
    ((edges poly).filter fun e => spans e.1.2 vy e.2.2).length % 2 = 0 := by
  cases poly with
  | nil => simp [edges]
  | cons p ps =>
    rw [edges_cons]
    have := parity_path (fun q : Pt => decide (q.2 ≤ vy)) ps p p
    simp only [bne_self_eq_false, Bool.false_eq_true, if_false] at this
    have key : (((p :: ps).zip (ps ++ [p])).filter fun e => spans e.1.2 vy e.2.2)
        = (((p :: ps).zip (ps ++ [p])).filter fun e => decide (e.1.2 ≤ vy) != decide (e.2.2 ≤ vy)) :=
      List.filter_congr (fun e _ => spans_eq_xor _ _ _)
    rw [key]; exact this

/-! ### bounds -/

theorem foldl_min_le (xs : List Rat) : ∀ (x : Rat), xs.foldl min x ≤ x ∧ ∀ y ∈ xs, xs.foldl min x ≤ y := by
  induction xs with
  | nil => intro x; simp
  | cons a t ih =>
    intro x
    simp only [List.foldl_cons]
    have := ih (min x a)
    refine ⟨le_trans this.1 (min_le_left _ _), ?_⟩
    intro y hy
    simp only [List.mem_cons] at hy
    rcases hy with rfl | hy
    · exact le_trans this.1 (min_le_right _ _)
    · exact this.2 y hy

theorem foldl_max_ge (xs : List Rat) : ∀ (x : Rat), x ≤ xs.foldl max x ∧ ∀ y ∈ xs, y ≤ xs.foldl max x := by
  induction xs with
  | nil => intro x; simp
  | cons a t ih =>
    intro x
    simp only [List.foldl_cons]
    have := ih (max x a)
    refine ⟨le_trans (le_max_left _ _) this.1, ?_⟩
    intro y hy
    simp only [List.mem_cons] at hy
    rcases hy with rfl | hy
    · exact le_trans (le_max_right _ _) this.1
    · exact this.2 y hy

/-- every point of a polygon lies in its bounding rectangle -/
theorem bounds_contain {poly : Poly} {q : Pt} (hq : q ∈ poly) :
    (boundsOfPoints poly).1.1 ≤ q.1 ∧ (boundsOfPoints poly).1.2 ≤ q.2 ∧
    q.1 ≤ (boundsOfPoints poly).2.1 ∧ q.2 ≤ (boundsOfPoints poly).2.2 := by
  cases poly with
  | nil => cases hq
  | cons p ps =>
    simp only [boundsOfPoints, minList, maxList]
    simp only [List.mem_cons] at hq
    rcases hq with rfl | hq
    · exact ⟨(foldl_min_le _ _).1, (foldl_min_le _ _).1, (foldl_max_ge _ _).1, (foldl_max_ge _ _).1⟩
    · have m1 : q.1 ∈ ps.map (·.1) := List.mem_map_of_mem hq
      have m2 : q.2 ∈ ps.map (·.2) := List.mem_map_of_mem hq
      exact ⟨(foldl_min_le _ _).2 _ m1, (foldl_min_le _ _).2 _ m2, (foldl_max_ge _ _).2 _ m1, (foldl_max_ge _ _).2 _ m2⟩

theorem filter_length_zero_of_forall_false {α : Type} (p : α → Bool) (l : List α) (h : ∀ e ∈ l, p e = false) :
    (l.filter p).length = 0 := by
  rw [List.length_eq_zero_iff, List.filter_eq_nil_iff]
  intro a ha
  simp [h a ha]

/-- **crossing parity**: a point that `in_polygon` puts inside lies in the bounding rectangle -/
theorem inPolygon_inBounds (pos : Pt) (poly : Poly) (h : inPolygon pos poly = 1) :
    inRectangle pos (boundsOfPoints poly) = true := by
  cases poly with
  | nil => simp [inPolygon, numCrossings] at h
  | cons ref rest =>
    unfold inPolygon at h
    rw [numCrossings_cons] at h
    by_contra hr
    have hb := fun q hq => bounds_contain (poly := ref :: rest) (q := q) hq
    generalize boundsOfPoints (ref :: rest) = B at hr hb
    have hcases : pos.1 < B.1.1 ∨ B.2.1 < pos.1 ∨ pos.2 < B.1.2 ∨ B.2.2 < pos.2 := by
      unfold inRectangle at hr
      simp only [Bool.and_eq_true, decide_eq_true_eq, not_and_or, not_le] at hr
      rcases hr with (h1 | h1) | (h1 | h1)
      · exact Or.inl h1
      · exact Or.inr (Or.inl h1)
      · exact Or.inr (Or.inr (Or.inl h1))
      · exact Or.inr (Or.inr (Or.inr h1))
    rcases hcases with hc | hc | hc | hc
    · -- left of the box: every spanning edge is counted, and their number is even
      have : ((edges (ref :: rest)).filter fun e => crossEdge pos e.1 e.2)
          = ((edges (ref :: rest)).filter fun e => spans e.1.2 pos.2 e.2.2) := by
        apply List.filter_congr
        intro e he
        have hm := mem_edges he
        exact crossEdge_eq_spans_of_left (lt_of_lt_of_le hc (hb _ hm.1).1) (lt_of_lt_of_le hc (hb _ hm.2).1)
      rw [this, spanning_even] at h
      cases h
    · have : ((edges (ref :: rest)).filter fun e => crossEdge pos e.1 e.2).length = 0 := by
        apply filter_length_zero_of_forall_false
        intro e he
        have hm := mem_edges he
        exact crossEdge_false_of_right (le_trans (hb _ hm.1).2.2.1 hc.le) (le_trans (hb _ hm.2).2.2.1 hc.le)
      rw [this] at h; cases h
    · have : ((edges (ref :: rest)).filter fun e => crossEdge pos e.1 e.2).length = 0 := by
        apply filter_length_zero_of_forall_false
        intro e he
        have hm := mem_edges he
        cases hce : crossEdge pos e.1 e.2 with
        | false => rfl
        | true =>
          have hs := crossEdge_spans hce
          unfold spans at hs
          simp only [Bool.or_eq_true, Bool.and_eq_true, decide_eq_true_eq] at hs
          have b1 := (hb _ hm.1).2.1
          have b2 := (hb _ hm.2).2.1
          rcases hs with ⟨s1, _⟩ | ⟨s1, _⟩ <;> linarith
      rw [this] at h; cases h
    · have : ((edges (ref :: rest)).filter fun e => crossEdge pos e.1 e.2).length = 0 := by
        apply filter_length_zero_of_forall_false
        intro e he
        have hm := mem_edges he
        cases hce : crossEdge pos e.1 e.2 with
        | false => rfl
        | true =>
          have hs := crossEdge_spans hce
          unfold spans at hs
          simp only [Bool.or_eq_true, Bool.and_eq_true, decide_eq_true_eq] at hs
          have b1 := (hb _ hm.1).2.2.2
          have b2 := (hb _ hm.2).2.2.2
          rcases hs with ⟨_, s2⟩ | ⟨_, s2⟩ <;> linarith
      rw [this] at h; cases h

/-! ## C. completeness of the plain search; all aids agree -/

/-- at most one column contains the point -/
def UniqueAt (g : Geo) (p : Pt) : Prop :=
  ∀ c1 c2, g.containsPoint c1 p = true → g.containsPoint c2 p = true → c1 = c2

/-- `[c for c in columnlist if c.contains_point(p)][0]` : the exhaustive search -/
def exhaustiveSearch (g : Geo) (p : Pt) : Option Nat := (List.range g.ncols).find? fun c => g.containsPoint c p

theorem containsPoint_lt {g : Geo} {c : Nat} {p : Pt} (h : g.containsPoint c p = true) : c < g.ncols := by
  unfold Geo.containsPoint at h
  simp only [Bool.and_eq_true, decide_eq_true_eq] at h
  exact h.1

/-- the bounding-box pre-filter `near_point` loses nothing -/
theorem containsPoint_near {g : Geo} {c : Nat} {p : Pt} (h : g.containsPoint c p = true) : g.nearPoint c p = true := by
  unfold Geo.containsPoint at h
  simp only [Bool.and_eq_true, decide_eq_true_eq] at h
  unfold Geo.nearPoint Geo.bbox
  exact inPolygon_inBounds _ _ h.2

theorem fullSearch_plain_complete {g : Geo} {pos : Pt} {sc dc : List Nat} {c : Nat}
    (hc : c ∈ sc) (hdc : c ∉ dc) (h : g.containsPoint c pos = true) :
    ∃ c', fullSearch g pos sc dc none = some c' := by
  unfold fullSearch
  simp only
  apply firstContaining_complete (c := c) _ h
  rw [List.mem_filter]
  refine ⟨?_, by simpa using hdc⟩
  rw [List.mem_eraseDups, List.mem_filter]
  exact ⟨hc, containsPoint_near h⟩

theorem guessSearch_complete {g : Geo} {p : Pt} {sc : List Nat} {gu : Option Nat} {c : Nat}
    (hu : UniqueAt g p) (hc : c ∈ sc) (h : g.containsPoint c p = true) :
    guessSearch g p sc gu none = some c := by
  unfold guessSearch
  cases gu with
  | none =>
    simp only
    obtain ⟨c', hc'⟩ := fullSearch_plain_complete (dc := []) hc (by simp) h
    rw [hc', hu c' c (fullSearch_sound hc') h]
  | some gu =>
    simp only
    split
    · rename_i hg
      rw [hu gu c hg h]
    · rename_i hg
      split
      · rename_i c' hf
        rw [hu c' c (firstContaining_sound hf) h]
      · rename_i hf
        have hdc : c ∉ gu :: (g.nbrs gu).filter (fun c => g.nearPoint c p && sc.contains c) := by
          intro hm
          simp only [List.mem_cons] at hm
          rcases hm with rfl | hm
          · exact hg h
          · obtain ⟨c', hc'⟩ := firstContaining_complete hm h
            rw [hc'] at hf; cases hf
        obtain ⟨c', hc'⟩ := fullSearch_plain_complete hc hdc h
        rw [hc', hu c' c (fullSearch_sound hc') h]

theorem mem_searchCols_default {g : Geo} {a : Aids} {c : Nat} (ha : a.columns = none) (hc : c < g.ncols) :
    c ∈ searchCols g a := by
  unfold searchCols; rw [ha]; simp [hc]

theorem exhaustive_some {g : Geo} {p : Pt} {c : Nat} (h : exhaustiveSearch g p = some c) : g.containsPoint c p = true :=
  List.find?_some (p := fun c => g.containsPoint c p) h

theorem exhaustive_none {g : Geo} {p : Pt} (h : exhaustiveSearch g p = none) (c : Nat) : g.containsPoint c p = false := by
  cases hc : g.containsPoint c p with
  | false => rfl
  | true =>
    have := List.find?_eq_none.mp h c (by simp [containsPoint_lt hc])
    simp [hc] at this

/-! ## E. layers and blocks -/

/-- the layers below the atmosphere layer are stacked downwards without overlap
    (`top_i ≤ bottom_{i-1}`; contiguous layers, `top_i = bottom_{i-1}`, are the usual case) and
    none is upside down -/
def Stacked : List Layer → Prop
  | [] => True
  | [l] => l.bottom ≤ l.top
  | a :: b :: r => a.bottom ≤ a.top ∧ b.top ≤ a.bottom ∧ Stacked (b :: r)

theorem Stacked.tail {a : Layer} {r : List Layer} (h : Stacked (a :: r)) : Stacked r := by
  cases r with
  | nil => trivial
  | cons b t => exact h.2.2

theorem Stacked.head {a : Layer} {r : List Layer} (h : Stacked (a :: r)) : a.bottom ≤ a.top := by
  cases r with
  | nil => exact h
  | cons b t => exact h.1

theorem Stacked.below {a : Layer} : ∀ {r : List Layer}, Stacked (a :: r) → ∀ l ∈ r, l.top ≤ a.bottom := by
  intro r
  induction r generalizing a with
  | nil => intro _ l hl; cases hl
  | cons b t ih =>
    intro h l hl
    simp only [List.mem_cons] at hl
    rcases hl with rfl | hl
    · exact h.2.1
    · have := ih h.2.2 l hl
      have hb := Stacked.head h.2.2
      have := h.2.1
      linarith

theorem layerScan_some {z : Rat} : ∀ (ls : List Layer) (i k : Nat), layerScan z i ls = some k →
    ∃ l, i ≤ k ∧ ls[k - i]? = some l ∧ l.containsElevation z = true := by
  intro ls
  induction ls with
  | nil => intro i k h; simp [layerScan] at h
  | cons a t ih =>
    intro i k h
    simp only [layerScan] at h
    split at h
    · rename_i hc
      injection h with h; subst h
      exact ⟨a, le_refl _, by simp, hc⟩
    · obtain ⟨l, hik, hl, hc⟩ := ih (i + 1) k h
      refine ⟨l, by omega, ?_, hc⟩
      have : k - i = (k - (i + 1)) + 1 := by omega
      rw [this, List.getElem?_cons_succ]; exact hl

theorem layerScan_of_strict {z : Rat} : ∀ (ls : List Layer) (i j : Nat) (l : Layer), Stacked ls → ls[j]? = some l →
    l.bottom < z → z < l.top → layerScan z i ls = some (i + j) := by
  intro ls
  induction ls with
  | nil => intro i j l _ h; simp at h
  | cons a t ih =>
    intro i j l hs hl hb ht
    cases j with
    | zero =>
      simp only [List.getElem?_cons_zero, Option.some.injEq] at hl
      subst hl
      simp only [layerScan, Layer.containsElevation, decide_eq_true hb.le, decide_eq_true ht.le, Bool.and_self, if_true, Nat.add_zero]
    | succ j =>
      simp only [List.getElem?_cons_succ] at hl
      have hm : l ∈ t := List.mem_of_getElem? hl
      have hbelow := Stacked.below hs l hm
      have hnot : a.containsElevation z = false := by
        unfold Layer.containsElevation
        have : ¬ a.bottom ≤ z := by intro h; linarith
        simp [this]
      simp only [layerScan, hnot, Bool.false_eq_true, if_false]
      rw [ih (i + 1) j l hs.tail hl hb ht]
      congr 1; omega

theorem layerScan_none {z : Rat} : ∀ (ls : List Layer) (i : Nat), (∀ l ∈ ls, l.containsElevation z = false) →
    layerScan z i ls = none := by
  intro ls
  induction ls with
  | nil => intro i _; rfl
  | cons a t ih =>
    intro i h
    simp only [layerScan, h a List.mem_cons_self, Bool.false_eq_true, if_false]
    exact ih (i + 1) (fun l hl => h l (List.mem_cons_of_mem _ hl))

/-- what a reported block satisfies -/
theorem block_reported_spec {g : Geo} {p : Pt} {z : Rat} {qt : Option QT} {li ci : Nat}
    (h : blockContainingPoint g p z qt = .ok (some (li, ci))) :
    columnContainingPoint g p { qtree := qt } = some ci ∧
    ∃ col lay l0, g.cols[ci]? = some col ∧ g.layers[li]? = some lay ∧ g.layers[0]? = some l0 ∧ 1 ≤ li ∧
      col.surface > lay.bottom ∧
      ((l0.bottom < z ∧ z ≤ col.surface ∧ li = 1) ∨ (lay.bottom ≤ z ∧ z ≤ lay.top)) := by
  unfold blockContainingPoint at h
  split at h
  · cases h
  · rename_i ci' hcol
    split at h
    · rename_i col l0 l1 hc h0 h1
      simp only at h
      split at h
      · cases h
      · rename_i li' hlay
        split at h
        · rename_i lay hl
          split at h
          · rename_i hsurf
            injection h with h; injection h with h
            simp only [Prod.mk.injEq] at h
            obtain ⟨rfl, rfl⟩ := h
            refine ⟨hcol, col, lay, l0, hc, hl, h0, ?_, hsurf, ?_⟩
            · split at hlay
              · injection hlay with hlay; omega
              · unfold layerContainingElevation at hlay
                obtain ⟨l, hik, _, _⟩ := layerScan_some _ _ _ hlay
                exact hik
            · split at hlay
              · rename_i hcond
                simp only [Bool.and_eq_true, decide_eq_true_eq] at hcond
                injection hlay with hlay
                exact Or.inl ⟨hcond.1, hcond.2, hlay.symm⟩
              · unfold layerContainingElevation at hlay
                obtain ⟨l, hik, hl', hce⟩ := layerScan_some _ _ _ hlay
                rw [List.getElem?_drop] at hl'
                have : 1 + (li' - 1) = li' := by omega
                rw [this, hl] at hl'
                injection hl' with hl'; subst hl'
                unfold Layer.containsElevation at hce
                simp only [Bool.and_eq_true, decide_eq_true_eq] at hce
                exact Or.inr hce
          · cases h
        · cases h
    · split at h <;> cases h
    · cases h


/-- no column ⇒ no block -/
theorem block_none_of_no_column {g : Geo} {p : Pt} {z : Rat} {qt : Option QT}
    (h : columnContainingPoint g p { qtree := qt } = none) : blockContainingPoint g p z qt = .ok none := by
  unfold blockContainingPoint; rw [h]

/-- the block of a layer that strictly contains the elevation, at or below ground level -/
theorem block_in_layer {g : Geo} {p : Pt} {z : Rat} {qt : Option QT} {li ci : Nat} {col : Column} {lay l0 : Layer}
    (hcol : columnContainingPoint g p { qtree := qt } = some ci)
    (hc : g.cols[ci]? = some col) (h0 : g.layers[0]? = some l0) (hl : g.layers[li]? = some lay) (hli : 1 ≤ li)
    (hst : Stacked (g.layers.drop 1)) (hground : z ≤ l0.bottom)
    (hb : lay.bottom < z) (ht : z < lay.top) (hs : col.surface > lay.bottom) :
    blockContainingPoint g p z qt = .ok (some (li, ci)) := by
  have h1 : ∃ l1, g.layers[1]? = some l1 := by
    have hlt : li < g.layers.length := (List.getElem?_eq_some_iff.mp hl).1
    exact ⟨g.layers[1], List.getElem?_eq_getElem (by omega)⟩
  obtain ⟨l1, h1⟩ := h1
  have hscan : layerContainingElevation g z = some li := by
    unfold layerContainingElevation
    have hd : (g.layers.drop 1)[li - 1]? = some lay := by
      rw [List.getElem?_drop]
      have : 1 + (li - 1) = li := by omega
      rw [this]; exact hl
    rw [layerScan_of_strict _ 1 (li - 1) lay hst hd hb ht]
    congr 1; omega
  unfold blockContainingPoint
  rw [hcol]
  simp only [hc, h0, h1]
  have hng : ¬ l0.bottom < z := not_lt.mpr hground
  simp only [hng, decide_false, Bool.false_and, Bool.false_eq_true, if_false, hscan, hl, hs, if_true]

/-- between ground level and a raised surface the top layer's block is reported -/
theorem block_raised_surface {g : Geo} {p : Pt} {z : Rat} {qt : Option QT} {ci : Nat} {col : Column} {l0 l1 : Layer}
    (hcol : columnContainingPoint g p { qtree := qt } = some ci)
    (hc : g.cols[ci]? = some col) (h0 : g.layers[0]? = some l0) (h1 : g.layers[1]? = some l1)
    (hz : l0.bottom < z) (hzs : z ≤ col.surface) (hs : col.surface > l1.bottom) :
    blockContainingPoint g p z qt = .ok (some (1, ci)) := by
  unfold blockContainingPoint
  rw [hcol]
  simp only [hc, h0, h1, hz, hzs, decide_true, Bool.and_self, if_true, hs]

/-- an elevation in no layer and not under a raised surface gives no block -/
theorem block_none_of_no_layer {g : Geo} {p : Pt} {z : Rat} {qt : Option QT} {ci : Nat} {col : Column} {l0 : Layer}
    (hcol : columnContainingPoint g p { qtree := qt } = some ci)
    (hc : g.cols[ci]? = some col) (h0 : g.layers[0]? = some l0)
    (hz : ¬ (l0.bottom < z ∧ z ≤ col.surface))
    (hno : ∀ l ∈ g.layers.drop 1, l.containsElevation z = false) :
    blockContainingPoint g p z qt = .ok none := by
  have hscan : layerContainingElevation g z = none := layerScan_none _ _ hno
  have hcond : (decide (l0.bottom < z) && decide (z ≤ col.surface)) = false := by
    cases hd : (decide (l0.bottom < z) && decide (z ≤ col.surface)) with
    | false => rfl
    | true =>
      simp only [Bool.and_eq_true, decide_eq_true_eq] at hd
      exact absurd hd hz
  unfold blockContainingPoint
  rw [hcol]
  cases h1 : g.layers[1]? with
  | none => simp only [hc, h0, hcond, Bool.false_eq_true, if_false]
  | some l1 => simp only [hc, h0, hcond, Bool.false_eq_true, if_false, hscan]

/-- at or below ground level the reported block contains the point in the sense of
    `block_contains_point`.  (Above ground level, under a raised surface, the code's
    `block_contains_point` answers False for the very block it reports: the hypothesis is forced.) -/
theorem reported_block_contains {g : Geo} {p : Pt} {z : Rat} {qt : Option QT} {li ci : Nat} {l0 : Layer}
    (h : blockContainingPoint g p z qt = .ok (some (li, ci))) (h0 : g.layers[0]? = some l0) (hground : z ≤ l0.bottom) :
    blockContainsPoint g li ci p z = true := by
  obtain ⟨hcol, col, lay, l0', hc, hl, h0', _, hs, hcase⟩ := block_reported_spec h
  rw [h0] at h0'; injection h0' with h0'; subst h0'
  have hcp := columnContainingPoint_sound hcol
  unfold blockContainsPoint
  simp only [hc, hl, hs, if_true]
  rcases hcase with ⟨hz, _, _⟩ | ⟨hb, ht⟩
  · exact absurd hz (not_lt.mpr hground)
  · simp only [Layer.containsElevation, hb, ht, decide_true, Bool.and_self, if_true, hcp]

/-- **uniqueness**: any block (below the atmosphere layer) that contains the point in the sense of
    `block_contains_point`, strictly inside its layer and at or below ground level, is the block
    that `block_name_containing_point` reports (plain search). -/
theorem containing_block_is_reported {g : Geo} {p : Pt} {z : Rat} {li ci : Nat} {lay l0 : Layer}
    (hu : UniqueAt g p) (hst : Stacked (g.layers.drop 1))
    (h : blockContainsPoint g li ci p z = true) (hli : 1 ≤ li)
    (hl : g.layers[li]? = some lay) (h0 : g.layers[0]? = some l0)
    (hb : lay.bottom < z) (ht : z < lay.top) (hground : z ≤ l0.bottom) :
    blockContainingPoint g p z none = .ok (some (li, ci)) := by
  unfold blockContainsPoint at h
  cases hc : g.cols[ci]? with
  | none => simp [hc] at h
  | some col =>
    simp only [hc, hl] at h
    split at h
    · rename_i hs
      split at h
      · have hcol : columnContainingPoint g p { qtree := none } = some ci := by
          unfold columnContainingPoint
          simp only [inBounds, if_true]
          exact guessSearch_complete hu (mem_searchCols_default rfl (containsPoint_lt h)) h
        exact block_in_layer hcol hc h0 hl hli hst hground hb ht hs
      · cases h
    · cases h
/-! ## D. the quadtree -/

mutual
/-- `P bounds elements children` holds at every node of the tree -/
def QAll (P : Rect → List Nat → List QTree → Prop) : QTree → Prop
  | .node b e ch => P b e ch ∧ QAllList P ch
def QAllList (P : Rect → List Nat → List QTree → Prop) : List QTree → Prop
  | [] => True
  | c :: cs => QAll P c ∧ QAllList P cs
end

theorem QAllList_of_forall {P : Rect → List Nat → List QTree → Prop} :
    ∀ (l : List QTree), (∀ c ∈ l, QAll P c) → QAllList P l := by
  intro l
  induction l with
  | nil => intro _; simp [QAllList]
  | cons c cs ih =>
    intro h
    simp only [QAllList]
    exact ⟨h c List.mem_cons_self, ih (fun d hd => h d (List.mem_cons_of_mem _ hd))⟩

mutual
theorem leaf_bounds (p : Pt) : ∀ (t l : QTree), t.leaf p = some l → inRectangle p l.bounds = true
  | .node b e ch, l, h => by
    simp only [QTree.leaf] at h
    split at h
    · rename_i hin
      split at h
      · rename_i l' hl
        injection h with h; subst h
        exact leafList_bounds p ch _ hl
      · injection h with h; subst h; exact hin
    · cases h
theorem leafList_bounds (p : Pt) : ∀ (ts : List QTree) (l : QTree), leafList p ts = some l → inRectangle p l.bounds = true
  | [], l, h => by simp [leafList] at h
  | c :: cs, l, h => by
    simp only [leafList] at h
    split at h
    · rename_i l' hl
      injection h with h; subst h
      exact leaf_bounds p c _ hl
    · exact leafList_bounds p cs l h
end

theorem leaf_some (p : Pt) (t : QTree) (h : inRectangle p t.bounds = true) : ∃ l, t.leaf p = some l := by
  cases t with
  | node b e ch =>
    simp only [QTree.bounds] at h
    simp only [QTree.leaf, h, if_true]
    cases leafList p ch with
    | some l => exact ⟨l, rfl⟩
    | none => exact ⟨_, rfl⟩

theorem leaf_none (p : Pt) (t : QTree) (h : inRectangle p t.bounds = false) : t.leaf p = none := by
  cases t with
  | node b e ch =>
    simp only [QTree.bounds] at h
    simp [QTree.leaf, h]

/-! ### sub-rectangles -/

theorem subRect_cover (p : Pt) (r : Rect) (h : inRectangle p r = true) :
    ∃ k, k < 4 ∧ firstRect p (subRectangles r) = some k := by
  unfold firstRect
  have hlen : (subRectangles r).length = 4 := rfl
  cases hf : List.findIdx? (inRectangle p) (subRectangles r) with
  | some k =>
    refine ⟨k, ?_, rfl⟩
    have := (List.findIdx?_eq_some_iff_getElem.mp hf).1
    omega
  | none =>
    exfalso
    rw [List.findIdx?_eq_none_iff] at hf
    unfold inRectangle at h
    simp only [Bool.and_eq_true, decide_eq_true_eq] at h
    obtain ⟨⟨h1, h2⟩, h3, h4⟩ := h
    have e0 := hf (r.1, ((r.1.1 + r.2.1) / 2, (r.1.2 + r.2.2) / 2)) (by simp [subRectangles])
    have e1 := hf ((((r.1.1 + r.2.1) / 2, r.1.2), (r.2.1, (r.1.2 + r.2.2) / 2))) (by simp [subRectangles])
    have e2 := hf (((r.1.1, (r.1.2 + r.2.2) / 2), ((r.1.1 + r.2.1) / 2, r.2.2))) (by simp [subRectangles])
    have e3 := hf ((((r.1.1 + r.2.1) / 2, (r.1.2 + r.2.2) / 2), r.2)) (by simp [subRectangles])
    rcases le_total p.1 ((r.1.1 + r.2.1) / 2) with hx | hx <;> rcases le_total p.2 ((r.1.2 + r.2.2) / 2) with hy | hy
    · have : inRectangle p (r.1, ((r.1.1 + r.2.1) / 2, (r.1.2 + r.2.2) / 2)) = true := by
        simp only [inRectangle, Bool.and_eq_true, decide_eq_true_eq]; exact ⟨⟨h1, hx⟩, h3, hy⟩
      rw [e0] at this; cases this
    · have : inRectangle p ((r.1.1, (r.1.2 + r.2.2) / 2), ((r.1.1 + r.2.1) / 2, r.2.2)) = true := by
        simp only [inRectangle, Bool.and_eq_true, decide_eq_true_eq]; exact ⟨⟨h1, hx⟩, hy, h4⟩
      rw [e2] at this; cases this
    · have : inRectangle p (((r.1.1 + r.2.1) / 2, r.1.2), (r.2.1, (r.1.2 + r.2.2) / 2)) = true := by
        simp only [inRectangle, Bool.and_eq_true, decide_eq_true_eq]; exact ⟨⟨hx, h2⟩, h3, hy⟩
      rw [e1] at this; cases this
    · have : inRectangle p (((r.1.1 + r.2.1) / 2, (r.1.2 + r.2.2) / 2), r.2) = true := by
        simp only [inRectangle, Bool.and_eq_true, decide_eq_true_eq]; exact ⟨⟨hx, h2⟩, hy, h4⟩
      rw [e3] at this; cases this

theorem subRect_inside (q : Pt) (r s : Rect) (hs : s ∈ subRectangles r) (h : inRectangle q s = true) :
    inRectangle q r = true := by
  unfold inRectangle at h ⊢
  simp only [Bool.and_eq_true, decide_eq_true_eq] at h ⊢
  obtain ⟨⟨h1, h2⟩, h3, h4⟩ := h
  simp only [subRectangles, List.mem_cons, List.mem_nil_iff, or_false] at hs
  rcases hs with rfl | rfl | rfl | rfl <;> simp only at h1 h2 h3 h4 <;> refine ⟨⟨?_, ?_⟩, ?_, ?_⟩ <;> linarith

theorem firstRect_in {p : Pt} {rects : List Rect} {k : Nat} (h : firstRect p rects = some k) :
    ∃ s, rects[k]? = some s ∧ inRectangle p s = true := by
  unfold firstRect at h
  obtain ⟨hk, hp, _⟩ := List.findIdx?_eq_some_iff_getElem.mp h
  exact ⟨rects[k], List.getElem?_eq_getElem hk, hp⟩

/-! ### the constructor -/

theorem buildQ_root {g : Geo} : ∀ (fuel : Nat) (b : Rect) (e : List Nat) (t : QTree),
    buildQ g fuel b e = some t → t.bounds = b ∧ t.elements = e := by
  intro fuel b e t h
  cases fuel with
  | zero => simp [buildQ] at h
  | succ n =>
    simp only [buildQ] at h
    split at h
    · split at h
      · injection h with h; subst h; exact ⟨rfl, rfl⟩
      · cases h
    · injection h with h; subst h; exact ⟨rfl, rfl⟩

theorem mapM_build {g : Geo} {fuel : Nat} : ∀ (l : List (Rect × List Nat)) (r : List QTree),
    l.mapM (fun rg => buildQ g fuel rg.1 rg.2) = some r →
      r.map QTree.elements = l.map (·.2) ∧ r.map QTree.bounds = l.map (·.1) ∧
      ∀ c ∈ r, ∃ rg ∈ l, buildQ g fuel rg.1 rg.2 = some c := by
  intro l
  induction l with
  | nil =>
    intro r h
    simp only [List.mapM_nil, Option.pure_def, Option.some.injEq] at h
    subst h; simp
  | cons a t ih =>
    intro r h
    simp only [List.mapM_cons, Option.pure_def, Option.bind_eq_bind] at h
    cases ha : buildQ g fuel a.1 a.2 with
    | none => simp [ha] at h
    | some c =>
      cases ht : t.mapM (fun rg => buildQ g fuel rg.1 rg.2) with
      | none => simp [ha, ht] at h
      | some cs =>
        simp only [ha, ht, Option.bind_some, Option.some.injEq] at h
        subst h
        obtain ⟨i1, i2, i3⟩ := ih cs ht
        obtain ⟨b1, b2⟩ := buildQ_root _ _ _ _ ha
        refine ⟨by simp [i1, b2], by simp [i2, b1], ?_⟩
        intro d hd
        simp only [List.mem_cons] at hd
        rcases hd with rfl | hd
        · exact ⟨a, List.mem_cons_self, ha⟩
        · obtain ⟨rg, hrg, hb⟩ := i3 d hd
          exact ⟨rg, List.mem_cons_of_mem _ hrg, hb⟩

/-- what `quadtree.__init__` guarantees at one node with bounds `b`, elements `e`, children `ch` -/
def NodeOK (g : Geo) (b : Rect) (e : List Nat) (ch : List QTree) : Prop :=
  -- a node with at most one element is a leaf
  (e.length ≤ 1 → ch = []) ∧
  -- a child is non-empty, its elements come from the parent and have their centres in the
  -- child's rectangle, which is one of the four sub-rectangles (hence inside the parent's)
  (∀ c ∈ ch, c.elements ≠ [] ∧ c.bounds ∈ subRectangles b ∧
      ∀ x ∈ c.elements, x ∈ e ∧ inRectangle (g.centre x) c.bounds = true) ∧
  -- an element whose centre is in the node's rectangle goes to exactly one child:
  -- it occurs in the children's element lists as often as in the parent's
  (1 < e.length → ∀ x, inRectangle (g.centre x) b = true →
      ((ch.map QTree.elements).flatten.count x = e.count x))

theorem flatten_filter_nonempty (l : List (List Nat)) :
    (l.filter fun x => decide (x.length > 0)).flatten = l.flatten := by
  induction l with
  | nil => rfl
  | cons a t ih =>
    cases a with
    | nil => simp [ih]
    | cons x xs => simp [ih]

theorem count_filter_ite (p : Nat → Bool) (x : Nat) (l : List Nat) :
    (l.filter p).count x = if p x = true then l.count x else 0 := by
  induction l with
  | nil => simp
  | cons a t ih =>
    by_cases hpa : p a = true
    · rw [List.filter_cons_of_pos hpa, List.count_cons, List.count_cons, ih]
      by_cases hax : a = x
      · subst hax; simp [hpa]
      · have : (a == x) = false := by simp [hax]
        simp [this]
    · rw [List.filter_cons_of_neg hpa, ih, List.count_cons]
      by_cases hax : a = x
      · subst hax; simp [hpa]
      · have : (a == x) = false := by simp [hax]
        simp [this]

theorem buildQ_node {g : Geo} {n : Nat} {b : Rect} {e : List Nat} {t : QTree}
    (h : buildQ g (n + 1) b e = some t) :
    ∃ ch, t = .node b e ch ∧ NodeOK g b e ch ∧ ∀ c ∈ ch, ∃ r es, buildQ g n r es = some c := by
  simp only [buildQ] at h
  split at h
  · rename_i hlen
    split at h
    · rename_i ch hm
      injection h with h; subst h
      obtain ⟨m1, m2, m3⟩ := mapM_build _ _ hm
      refine ⟨ch, rfl, ⟨fun hle => by omega, ?_, ?_⟩, fun c hc => ?_⟩
      · intro c hc
        obtain ⟨rg, hrg, hb⟩ := m3 c hc
        obtain ⟨b1, b2⟩ := buildQ_root _ _ _ _ hb
        rw [List.mem_filter] at hrg
        obtain ⟨hz, hne⟩ := hrg
        have hz' := List.of_mem_zip hz
        refine ⟨?_, ?_, ?_⟩
        · rw [b2]; intro hnil; rw [hnil] at hne; simp at hne
        · rw [b1]; exact hz'.1
        · intro x hx
          rw [b2] at hx
          have hg := hz'.2
          simp only [List.mem_map, List.mem_range] at hg
          obtain ⟨k, hk, hgk⟩ := hg
          rw [← hgk, List.mem_filter] at hx
          obtain ⟨hxe, hfr⟩ := hx
          refine ⟨hxe, ?_⟩
          simp only [beq_iff_eq] at hfr
          obtain ⟨s, hs, hin⟩ := firstRect_in hfr
          -- the rectangle paired with group k is the k-th sub-rectangle
          have hpair : (subRectangles b)[k]? = some rg.1 := by
            have hzip := List.mem_iff_getElem?.mp hz
            obtain ⟨i, hi⟩ := hzip
            rw [List.getElem?_zip_eq_some] at hi
            obtain ⟨hi1, hi2⟩ := hi
            rw [List.getElem?_map] at hi2
            have hir : (List.range 4)[i]? = some i ∨ (List.range 4)[i]? = none := by
              by_cases hlt : i < 4
              · left; simp [hlt]
              · right; simp [hlt]
            rcases hir with hir | hir
            · rw [hir] at hi2
              simp only [Option.map_some, Option.some.injEq] at hi2
              -- group i = group k, and rg.2 is non-empty, so i = k
              have hne' : rg.2 ≠ [] := by intro hnil; rw [hnil] at hne; simp at hne
              obtain ⟨y, hy⟩ := List.exists_mem_of_ne_nil _ hne'
              have hy1 := hy; rw [← hi2, List.mem_filter] at hy1
              have hy2 := hy; rw [← hgk, List.mem_filter] at hy2
              have e1 := hy1.2; have e2 := hy2.2
              simp only [beq_iff_eq] at e1 e2
              rw [e1] at e2; injection e2 with e2; subst e2
              exact hi1
            · rw [hir] at hi2; simp at hi2
          rw [hs] at hpair; injection hpair with hpair
          rw [b1, ← hpair]; exact hin
      · intro _ x hx
        rw [m1]
        -- children element lists are the non-empty groups, in order
        have hsnd : ((subRectangles b).zip ((List.range 4).map fun k => e.filter fun el => firstRect (g.centre el) (subRectangles b) == some k)).map (·.2)
            = (List.range 4).map fun k => e.filter fun el => firstRect (g.centre el) (subRectangles b) == some k := by
          apply List.map_snd_zip
          simp [subRectangles]
        have hfm : (((subRectangles b).zip ((List.range 4).map fun k => e.filter fun el => firstRect (g.centre el) (subRectangles b) == some k)).filter
              fun rg => decide (rg.2.length > 0)).map (·.2)
            = (((List.range 4).map fun k => e.filter fun el => firstRect (g.centre el) (subRectangles b) == some k).filter fun x => decide (x.length > 0)) := by
          rw [← hsnd, List.filter_map]
          rfl
        rw [hfm, flatten_filter_nonempty]
        obtain ⟨k, hk4, hfr⟩ := subRect_cover _ _ hx
        have hr : List.range 4 = [0, 1, 2, 3] := rfl
        simp only [hr, List.map_cons, List.map_nil, List.flatten_cons, List.flatten_nil, List.append_nil, List.count_append,
          count_filter_ite, hfr, beq_iff_eq, Option.some.injEq]
        have : k = 0 ∨ k = 1 ∨ k = 2 ∨ k = 3 := by omega
        rcases this with rfl | rfl | rfl | rfl <;> simp
      · obtain ⟨rg, _, hb⟩ := m3 c hc
        exact ⟨rg.1, rg.2, hb⟩
    · cases h
  · rename_i hlen
    injection h with h; subst h
    refine ⟨[], rfl, ⟨fun _ => rfl, ?_, fun h1 => by omega⟩, ?_⟩
    · intro c hc; cases hc
    · intro c hc; cases hc

/-- **quadtree partition**: every node of a constructed quadtree satisfies `NodeOK` -/
theorem buildQ_all {g : Geo} : ∀ (fuel : Nat) (b : Rect) (e : List Nat) (t : QTree),
    buildQ g fuel b e = some t → QAll (NodeOK g) t := by
  intro fuel
  induction fuel with
  | zero => intro b e t h; simp [buildQ] at h
  | succ n ih =>
    intro b e t h
    obtain ⟨ch, rfl, hok, hch⟩ := buildQ_node h
    simp only [QAll]
    refine ⟨hok, QAllList_of_forall _ ?_⟩
    intro c hc
    obtain ⟨r, es, hb⟩ := hch c hc
    exact ih r es c hb
end Proofs.Locate
