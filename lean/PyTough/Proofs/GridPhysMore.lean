/-
  C09, second round: `reorder` called with an explicit permutation and an explicit reversal subset
  is within its precondition; the block-name leg of a data-file write/read as a `rename_blocks`.
-/
import PyTough.Proofs.GridPhys
import PyTough.Proofs.GridMincAll
import PyTough.Proofs.InconNames
namespace Proofs.Grid
open Py Model Model.Grid Model.Grid.World

/-! ### reorder with an explicit permutation and reversal subset -/

/-- the connection names one passes to `reorder` to get the connection objects in the order `cl`,
    those with `rev c` written with their two block names swapped -/
def reversalNames (w : World) (cl : List Nat) (rev : Nat → Bool) : List CName :=
  cl.map fun c => if rev c = true then ((w.ckey c).2, (w.ckey c).1) else w.ckey c

theorem resolveCon_reversalName {w : World} (hI : Grid.Inv w) {c : Nat} (hc : c ∈ w.connectionlist) (rev : Nat → Bool)
    (hanti : rev c = true → dget w.connection ((w.ckey c).2, (w.ckey c).1) = none) :
    resolveCon w (if rev c = true then ((w.ckey c).2, (w.ckey c).1) else w.ckey c) = some c := by
  have hd := hI.cd_complete c hc
  by_cases hr : rev c = true
  · rw [if_pos hr]
    have e : dget w.connection ((((w.ckey c).2, (w.ckey c).1) : CName).2, (((w.ckey c).2, (w.ckey c).1) : CName).1) = some c := hd
    simp only [resolveCon, hanti hr, e]
  · rw [if_neg hr]
    simp only [resolveCon, hd]

/-- every permutation of the blocks and every permutation of the connections with any subset
    written reversed is within the precondition of `reorder` -/
theorem pre_reorder_of_perm {w : World} (hI : Grid.Inv w) (bl cl : List Nat) (rev : Nat → Bool)
    (hb : bl.Perm w.blocklist) (hc : cl.Perm w.connectionlist)
    (hanti : ∀ c ∈ cl, rev c = true → dget w.connection ((w.ckey c).2, (w.ckey c).1) = none) :
    pre w (.reorder (bl.map w.bname) (reversalNames w cl rev)) = true := by
  simp only [pre, Bool.and_eq_true, Bool.or_eq_true, List.isPerm_iff]
  refine ⟨Or.inr ?_, Or.inr ?_⟩
  · have e : (bl.map w.bname).map (dget w.block) = bl.map some := by
      rw [List.map_map]
      apply List.map_congr_left
      intro b hb'
      exact hI.bd_complete b (hb.mem_iff.mp hb')
    rw [e]; exact hb.map some
  · have e : (reversalNames w cl rev).map (resolveCon w) = cl.map some := by
      unfold reversalNames
      rw [List.map_map]
      apply List.map_congr_left
      intro c hc'
      exact resolveCon_reversalName hI (hc.mem_iff.mp hc') rev (hanti c hc')
    rw [e]; exact hc.map some

/-! ### the block names' trip through a data file -/

/-- the name a block has after the grid was written to a TOUGH2 data file (`unfix_blockname`) and
    read back (`fix_blockname`) — the same function as `Proofs.T2.cycleName` of C01 -/
def fileName (n : Str) : Str :=
  match Names.fixBlockname (Names.unfixBlockname n) with
  | .ok c => c
  | .error _ => n

/-- what the write/read of the names amounts to: every block renamed to the name it comes back with -/
def fileNameMap (w : World) : Dict Name Name := w.blocklist.map fun b => (w.bname b, fileName (w.bname b))

theorem fileName_canonical {n : Str} (h : Proofs.Incon.Canonical n) : fileName n = n := by
  unfold fileName
  rw [Proofs.Incon.fix_unfix_canonical n h]

theorem dget_map_pair {α : Type} (l : List α) (f : α → Name) (g : Name → Name) {a : α} (ha : a ∈ l) :
    dget (l.map fun x => (f x, g (f x))) (f a) = some (g (f a)) := by
  induction l with
  | nil => cases ha
  | cons x r ih =>
    simp only [List.map_cons, dget]
    by_cases e : f x = f a
    · rw [if_pos e, e]
    · rw [if_neg e]
      rcases List.mem_cons.mp ha with h | h
      · exact absurd (h ▸ rfl) e
      · exact ih h

theorem mapName_fileNameMap (w : World) {b : Nat} (hb : b ∈ w.blocklist) :
    mapName (fileNameMap w) (w.bname b) = fileName (w.bname b) := by
  unfold mapName fileNameMap
  rw [dget_map_pair w.blocklist w.bname fileName hb]

theorem fileNames_list (w : World) :
    (w.blocklist.map fun b => mapName (fileNameMap w) (w.bname b)) = w.blocklist.map fun b => fileName (w.bname b) := by
  apply List.map_congr_left
  intro b hb
  exact mapName_fileNameMap w hb

/-- when the names the blocks come back with are distinct, the file leg is a legal rename -/
theorem pre_fileNameMap {w : World} (hnd : (w.blocklist.map fun b => fileName (w.bname b)).Nodup) :
    pre w (.renameBlocks (fileNameMap w) false) = true := by
  simp only [pre, effectiveMap, Bool.false_eq_true, if_false, decide_eq_true_eq]
  rw [fileNames_list]; exact hnd

/-- names the file format can carry come back unchanged, hence distinct -/
theorem fileNames_canonical {w : World} (hcan : ∀ b ∈ w.blocklist, Proofs.Incon.Canonical (w.bname b)) :
    (w.blocklist.map fun b => fileName (w.bname b)) = w.blocklist.map w.bname := by
  apply List.map_congr_left
  intro b hb
  exact fileName_canonical (hcan b hb)

/-- names after `rename_blocks(m, fix_blocknames = False)` -/
theorem rename_false_names {w : World} (hI : Grid.Inv w) (m : Dict Name Name)
    (hpre : pre w (.renameBlocks m false) = true) :
    (worldOf (renameBlocks w m false)).blocklist = w.blocklist ∧
    ∀ b ∈ w.blocklist, (worldOf (renameBlocks w m false)).bname b = mapName m (w.bname b) := by
  simp only [pre, effectiveMap, Bool.false_eq_true, if_false, decide_eq_true_eq] at hpre
  obtain ⟨f1, _, f3, _⟩ := renameWorld_facts hI m hpre
  unfold renameBlocks
  simp only [Bool.false_eq_true, if_false, worldOf_ok]
  exact ⟨f1, f3⟩

end Proofs.Grid
