/-
  C03 proofs, part 14: the `10.2e` header sizes — a value already rounded to `p+1` significant
  digits prints as itself (so `SizesStable` always holds).
-/
import PyTough.Proofs.GeoFileFixpoint2
namespace Proofs.GeoFile
open Py Model Model.GeoFile Proofs

/-- `10^e ≤ n/d < 10^(e+1)`, without division -/
def InDecade (n d : Nat) (e : Int) : Prop :=
  if 0 ≤ e then 10 ^ e.toNat * d ≤ n ∧ n < 10 ^ (e.toNat + 1) * d
  else d ≤ n * 10 ^ (-e).toNat ∧ n * 10 ^ ((-e).toNat - 1) < d

theorem pow10_mono {a b : Nat} (h : a ≤ b) : 10 ^ a ≤ 10 ^ b := Nat.pow_le_pow_right (by decide) h

theorem inDecade_lt_absurd {n d : Nat} (hn : 0 < n) (hd : 0 < d) {e1 e2 : Int} (h1 : InDecade n d e1) (h2 : InDecade n d e2)
    (hlt : e1 < e2) : False := by
  unfold InDecade at h1 h2
  by_cases s1 : 0 ≤ e1
  · have s2 : 0 ≤ e2 := by omega
    rw [if_pos s1] at h1
    rw [if_pos s2] at h2
    have hle : e1.toNat + 1 ≤ e2.toNat := by omega
    have : 10 ^ (e1.toNat + 1) * d ≤ 10 ^ e2.toNat * d := Nat.mul_le_mul_right _ (pow10_mono hle)
    omega
  · rw [if_neg s1] at h1
    by_cases s2 : 0 ≤ e2
    · rw [if_pos s2] at h2
      have h10 : 1 ≤ 10 ^ ((-e1).toNat - 1) := pow10_pos _
      have h11 : 1 ≤ 10 ^ e2.toNat := pow10_pos _
      have a1 : n ≤ n * 10 ^ ((-e1).toNat - 1) := Nat.le_mul_of_pos_right _ h10
      have a2 : d ≤ 10 ^ e2.toNat * d := Nat.le_mul_of_pos_left _ h11
      omega
    · rw [if_neg s2] at h2
      have hle : (-e2).toNat ≤ (-e1).toNat - 1 := by omega
      have : n * 10 ^ (-e2).toNat ≤ n * 10 ^ ((-e1).toNat - 1) := Nat.mul_le_mul_left _ (pow10_mono hle)
      omega

theorem inDecade_unique {n d : Nat} (hn : 0 < n) (hd : 0 < d) {e1 e2 : Int} (h1 : InDecade n d e1) (h2 : InDecade n d e2) :
    e1 = e2 := by
  rcases Int.lt_trichotomy e1 e2 with h | h | h
  · exact absurd (inDecade_lt_absurd hn hd h1 h2 h) id
  · exact h
  · exact absurd (inDecade_lt_absurd hn hd h2 h1 h) id

theorem log10Floor_inDecade (n d : Nat) (hn : 0 < n) (hd : 0 < d) : InDecade n d (log10Floor n d) := by
  rcases log10Floor_spec n d hn hd with ⟨a, ha, h1, h2⟩ | ⟨k, hk, hk2, h1, h2⟩
  · unfold InDecade
    rw [ha, if_pos (by omega)]
    simpa using ⟨h1, h2⟩
  · unfold InDecade
    rw [hk2, if_neg (by omega)]
    have : (-(-(k : Int))).toNat = k := by simp
    rw [this]
    exact ⟨h1, h2⟩

theorem log10Floor_unique {n d : Nat} (hn : 0 < n) (hd : 0 < d) {e : Int} (h : InDecade n d e) : log10Floor n d = e :=
  inDecade_unique hn hd (log10Floor_inDecade n d hn hd) h

/-- `fmtEParts` of a value that is exactly `m·10^(e-p)` with `p+1` digits `m` -/
theorem fmtEParts_exact (p N D m : Nat) (e : Int) (hN : 0 < N) (hD : 0 < D) (hm1 : 10 ^ p ≤ m) (hm2 : m < 10 ^ (p + 1))
    (hdec : InDecade N D e)
    (hval : if (p : Int) - e ≥ 0 then N * 10 ^ ((p : Int) - e).toNat = m * D else N = m * (D * 10 ^ (-((p : Int) - e)).toNat)) :
    fmtEParts p N D = (m, e) := by
  rw [fmtEParts_eq p N D (by omega)]
  have he : log10Floor N D = e := log10Floor_unique hN hD hdec
  have hm0 : eM0 p N D = m := by
    unfold eM0
    simp only [he]
    by_cases hs : (p : Int) - e ≥ 0
    · rw [if_pos hs] at hval ⊢
      rw [hval]
      exact roundHalfEven_exact m D hD
    · rw [if_neg hs] at hval ⊢
      rw [hval]
      exact roundHalfEven_exact m _ (Nat.mul_pos hD (pow10_pos _))
  rw [hm0, if_neg (by omega), he]

theorem pow10_add (a b : Nat) : 10 ^ (a + b) = 10 ^ a * 10 ^ b := Nat.pow_add 10 a b

/-- sign and printed parts of `roundE p x` are those of `x` -/
theorem roundE_parts (p : Nat) (x : Flt) :
    (roundE p x).isNeg = x.isNeg ∧
    fmtEParts p (roundE p x).absNum (roundE p x).den = fmtEParts p x.absNum x.den := by
  have hd := Flt.den_pos x
  by_cases hn : x.absNum = 0
  · -- zero prints as zero
    have hz : fmtEParts p x.absNum x.den = (0, 0) := by rw [hn]; exact fmtEParts_zero p _
    unfold roundE ofDec
    rw [hz]
    simp only [if_true]
    cases hneg : x.isNeg with
    | true => exact ⟨rfl, fmtEParts_zero p 1⟩
    | false => exact ⟨by decide, fmtEParts_zero p 1⟩
  · have hnpos : 0 < x.absNum := by omega
    obtain ⟨hm1, hm2⟩ := fmtEParts_normalised p x.absNum x.den hnpos hd
    generalize hme : fmtEParts p x.absNum x.den = me at hm1 hm2
    obtain ⟨m, e⟩ := me
    simp only at hm1 hm2
    have hm0 : m ≠ 0 := by have := pow10_pos p; omega
    have hmpos : (0 : Int) < m := by omega
    unfold roundE ofDec
    rw [hme]
    simp only [if_neg hm0]
    unfold scale10
    generalize x.isNeg = neg
    by_cases hk : e - (p : Int) ≥ 0
    · -- an integer: ±m·10^K
      rw [if_pos hk]
      obtain ⟨K, hK⟩ : ∃ K : Nat, e - (p : Int) = K := ⟨(e - p).toNat, by omega⟩
      have hKt : (e - (p : Int)).toNat = K := by omega
      rw [hKt]
      have hnum : (((if neg = true then -(m : Int) else (m : Int)) * ((10 ^ K : Nat) : Int) : Int) : Rat).num
          = (if neg = true then -(m : Int) else (m : Int)) * ((10 ^ K : Nat) : Int) := Rat.num_intCast _
      have hden : (((if neg = true then -(m : Int) else (m : Int)) * ((10 ^ K : Nat) : Int) : Int) : Rat).den = 1 :=
        Rat.den_intCast _
      have h10 : (0 : Int) < ((10 ^ K : Nat) : Int) := by have := pow10_pos K; omega
      constructor
      · simp only [Flt.isNeg]
        cases neg with
        | true =>
          apply decide_eq_true
          rw [rat_neg_iff, hnum]
          simp only [if_true]
          have : (m : Int) * ((10 ^ K : Nat) : Int) > 0 := Int.mul_pos hmpos h10
          rw [Int.neg_mul]; omega
        | false =>
          apply decide_eq_false
          rw [rat_neg_iff, hnum]
          simp only [Bool.false_eq_true, if_false]
          have : (m : Int) * ((10 ^ K : Nat) : Int) > 0 := Int.mul_pos hmpos h10
          omega
      · simp only [Flt.absNum, Flt.den]
        rw [hnum, hden]
        have habs : ((if neg = true then -(m : Int) else (m : Int)) * ((10 ^ K : Nat) : Int)).natAbs = m * 10 ^ K := by
          cases neg <;> simp [Int.natAbs_mul]
        rw [habs]
        have he : e = ((p + K : Nat) : Int) := by omega
        apply fmtEParts_exact p (m * 10 ^ K) 1 m e (Nat.mul_pos (by omega) (pow10_pos K)) (by decide) hm1 hm2
        · unfold InDecade
          rw [he, if_pos (by omega)]
          simp only [Int.toNat_natCast, Nat.mul_one]
          constructor
          · calc 10 ^ (p + K) = 10 ^ p * 10 ^ K := pow10_add p K
              _ ≤ m * 10 ^ K := Nat.mul_le_mul_right _ hm1
          · rw [show p + K + 1 = (p + 1) + K from by omega, pow10_add]
            exact Nat.mul_lt_mul_of_pos_right hm2 (pow10_pos K)
        · by_cases hs : (p : Int) - e ≥ 0
          · have hK0 : K = 0 := by omega
            rw [if_pos hs]
            subst hK0
            have : ((p : Int) - e).toNat = 0 := by omega
            rw [this]
            simp
          · rw [if_neg hs]
            have : (-((p : Int) - e)).toNat = K := by omega
            rw [this, Nat.one_mul]
    · -- a proper fraction: ±m / 10^K
      rw [if_neg hk]
      obtain ⟨K, hK, hKpos⟩ : ∃ K : Nat, -(e - (p : Int)) = K ∧ 0 < K := ⟨(-(e - (p : Int))).toNat, by omega, by omega⟩
      have hKt : (-(e - (p : Int))).toNat = K := by omega
      rw [hKt]
      have h10 : (10 ^ K : Nat) ≠ 0 := by have := pow10_pos K; omega
      obtain ⟨j, hj0, ha, hb⟩ := mkRat_parts (if neg = true then -(m : Int) else (m : Int)) (10 ^ K) h10
      generalize hr : mkRat (if neg = true then -(m : Int) else (m : Int)) (10 ^ K) = r at ha hb
      have hjpos : (0 : Int) < j := by omega
      have hjpos' : 0 < j := by omega
      have habs : m = r.num.natAbs * j := by
        have := congrArg Int.natAbs ha
        cases neg
        · simpa [Int.natAbs_mul] using this
        · simpa [Int.natAbs_mul] using this
      constructor
      · simp only [Flt.isNeg]
        cases neg with
        | true =>
          simp only [if_true] at ha
          apply decide_eq_true
          rw [rat_neg_iff]
          by_cases h : r.num < 0
          · exact h
          · have : 0 ≤ r.num * (j : Int) := Int.mul_nonneg (by omega) (by omega)
            omega
        | false =>
          simp only [Bool.false_eq_true, if_false] at ha
          apply decide_eq_false
          rw [rat_neg_iff]
          intro hlt
          have : r.num * (j : Int) < 0 := Int.mul_neg_of_neg_of_pos hlt hjpos
          omega
      · simp only [Flt.absNum, Flt.den]
        have hNpos : 0 < r.num.natAbs := by
          rcases Nat.eq_zero_or_pos r.num.natAbs with h0 | h0
          · rw [h0] at habs; omega
          · exact h0
        apply fmtEParts_exact p r.num.natAbs r.den m e hNpos r.den_pos hm1 hm2
        · -- the decade: multiply through by j
          unfold InDecade
          by_cases hs : 0 ≤ e
          · rw [if_pos hs]
            obtain ⟨E, hE⟩ : ∃ E : Nat, e = E := ⟨e.toNat, by omega⟩
            have hEt : e.toNat = E := by omega
            rw [hEt]
            have hpE : p = E + K := by omega
            constructor
            · apply Nat.le_of_mul_le_mul_right _ hjpos'
              calc 10 ^ E * r.den * j = 10 ^ E * (r.den * j) := Nat.mul_assoc _ _ _
                _ = 10 ^ E * 10 ^ K := by rw [← hb]
                _ = 10 ^ p := by rw [hpE, pow10_add]
                _ ≤ m := hm1
                _ = r.num.natAbs * j := habs
            · apply Nat.lt_of_mul_lt_mul_right (a := j)
              calc r.num.natAbs * j = m := habs.symm
                _ < 10 ^ (p + 1) := hm2
                _ = 10 ^ (E + 1) * 10 ^ K := by rw [hpE, show E + K + 1 = (E + 1) + K from by omega, pow10_add]
                _ = 10 ^ (E + 1) * (r.den * j) := by rw [← hb]
                _ = 10 ^ (E + 1) * r.den * j := (Nat.mul_assoc _ _ _).symm
          · rw [if_neg hs]
            obtain ⟨E, hE, hEpos⟩ : ∃ E : Nat, -e = E ∧ 0 < E := ⟨(-e).toNat, by omega, by omega⟩
            have hEt : (-e).toNat = E := by omega
            rw [hEt]
            have hKE : K = p + E := by omega
            constructor
            · apply Nat.le_of_mul_le_mul_right _ hjpos'
              calc r.den * j = 10 ^ K := hb.symm
                _ = 10 ^ p * 10 ^ E := by rw [hKE, pow10_add]
                _ ≤ m * 10 ^ E := Nat.mul_le_mul_right _ hm1
                _ = r.num.natAbs * j * 10 ^ E := by rw [habs]
                _ = r.num.natAbs * 10 ^ E * j := by
                  simp only [Nat.mul_assoc, Nat.mul_comm, Nat.mul_left_comm]
            · apply Nat.lt_of_mul_lt_mul_right (a := j)
              calc r.num.natAbs * 10 ^ (E - 1) * j = r.num.natAbs * j * 10 ^ (E - 1) := by
                    simp only [Nat.mul_assoc, Nat.mul_comm, Nat.mul_left_comm]
                _ = m * 10 ^ (E - 1) := by rw [habs]
                _ < 10 ^ (p + 1) * 10 ^ (E - 1) := Nat.mul_lt_mul_of_pos_right hm2 (pow10_pos _)
                _ = 10 ^ K := by rw [← pow10_add, hKE]; congr 1; omega
                _ = r.den * j := hb
        · have hs : (p : Int) - e ≥ 0 := by omega
          rw [if_pos hs]
          have : ((p : Int) - e).toNat = K := by omega
          rw [this, hb, habs]
          simp only [Nat.mul_assoc, Nat.mul_comm, Nat.mul_left_comm]

theorem textE_roundE (w p : Nat) (x : Flt) : textE w p (roundE p x) = textE w p x := by
  unfold textE fmtEBody
  obtain ⟨h1, h2⟩ := roundE_parts p x
  rw [h1, h2]

/-- the `10.2e` header sizes reprint identically: `SizesStable` holds for every geometry whose
    sizes fit their fields -/
theorem sizesStable_of_fits (g : Geo) (h1 : fitsB fE g.hdr.atmosVolume.toVal = true)
    (h2 : fitsB fE g.hdr.atmosConnection.toVal = true) : SizesStable g = true := by
  have key : ∀ x : Flt, fitsB fE x.toVal = true → writeField fE (roundE 2 x).toVal = writeField fE x.toVal := by
    intro x hx
    have hr := fieldRT_e x hx
    have hf : fmtVal fE (roundE 2 x).toVal = .ok (textE 10 2 x) := by
      rw [fmtVal_e_flt (f := fE) rfl, ← textE_roundE 10 2 x]
      rfl
    rw [hr.w]
    exact writeField_of_fits (toVal_ne_none _) (by decide) hf (by rw [hr.len]; exact Nat.le_refl _)
  unfold SizesStable
  rw [key _ h1, key _ h2]
  simp

end Proofs.GeoFile
