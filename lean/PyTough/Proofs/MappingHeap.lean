/-
  C19: t2incon.transfer_from on the object heap leaves every pre-existing object — in
  particular the source's — untouched, and the receiving object holds only new objects.
-/
import PyTough.Proofs.MappingGen
namespace Proofs.Mapping
open Py Model.Mapping

theorem modifyAt_length (h : Heap) (id : Nat) (f : Obj → Obj) : (modifyAt h id f).length = h.length := by
  induction h generalizing id with
  | nil => rfl
  | cons o r ih =>
    cases id with
    | zero => rfl
    | succ n => simp [modifyAt, ih]

theorem modifyAt_get_ne (h : Heap) (id i : Nat) (f : Obj → Obj) (hne : i ≠ id) :
    (modifyAt h id f)[i]? = h[i]? := by
  induction h generalizing id i with
  | nil => rfl
  | cons o r ih =>
    cases id with
    | zero =>
      cases i with
      | zero => exact absurd rfl hne
      | succ j => rfl
    | succ n =>
      cases i with
      | zero => rfl
      | succ j =>
        simp only [modifyAt, List.getElem?_cons_succ]
        exact ih n j (fun e => hne (by rw [e]))

/-- the invariant: the first `n` objects are those of `h0`, and the dict holds ids ≥ n only -/
def Kept (n : Nat) (h0 : Heap) (st : Heap × InconH) : Prop :=
  n ≤ st.1.length ∧ (∀ i, i < n → st.1[i]? = h0[i]?) ∧ ∀ p ∈ st.2, n ≤ p.2

theorem mem_dset {β : Type} (d : Dict β) (k : Str) (v : β) (p : Str × β) (hp : p ∈ dset d k v) :
    p ∈ d ∨ p = (k, v) := by
  unfold dset at hp
  split at hp
  · obtain ⟨q, hq, he⟩ := List.mem_map.mp hp
    split at he
    · exact Or.inr he.symm
    · exact Or.inl (he ▸ hq)
  · rcases List.mem_append.mp hp with h | h
    · exact Or.inl h
    · exact Or.inr (by simpa using h)

theorem kept_setItem_new (n : Nat) (h0 : Heap) (h : Heap) (d : InconH) (o : Obj) (key : Str)
    (hk : Kept n h0 (h, d)) : Kept n h0 (setItem (h ++ [o], d) key h.length) := by
  obtain ⟨h1, h2, h3⟩ := hk
  refine ⟨?_, ?_, ?_⟩
  · simp only [setItem, modifyAt_length, List.length_append, List.length_cons, List.length_nil]
    simp only at h1; omega
  · intro i hi
    simp only [setItem]
    simp only at h1
    rw [modifyAt_get_ne _ _ _ _ (by omega), List.getElem?_append_left (by omega)]
    exact h2 i hi
  · intro p hp
    simp only [setItem] at hp
    rcases mem_dset d key h.length p hp with hp | hp
    · exact h3 p hp
    · rw [hp]; simpa using h1

theorem kept_assignCopy (n : Nat) (h0 : Heap) (st st' : Heap × InconH) (key : Str) (id : Nat)
    (hk : Kept n h0 st) (h : assignCopy st key id = .ok st') : Kept n h0 st' := by
  unfold assignCopy at h
  split at h
  · cases h
  · rename_i o _
    simp only [Heap.alloc] at h
    cases h
    exact kept_setItem_new n h0 st.1 st.2 o key hk

theorem kept_assignNew (n : Nat) (h0 : Heap) (st : Heap × InconH) (key : Str) (v : IncVal)
    (hk : Kept n h0 st) : Kept n h0 (assignNew st key v) := by
  simp only [assignNew, Heap.alloc]
  exact kept_setItem_new n h0 st.1 st.2 _ key hk

theorem foldE_inv {α β : Type} (P : β → Prop) (f : β → α → Except Exc β)
    (hstep : ∀ b a b', P b → f b a = .ok b' → P b') (l : List α) (b b' : β)
    (hb : P b) (h : foldE f b l = .ok b') : P b' := by
  induction l generalizing b with
  | nil => simp [foldE] at h; exact h ▸ hb
  | cons a as ih =>
    unfold foldE at h
    split at h
    · cases h
    · rename_i b1 hb1
      exact ih b1 (hstep b a b1 hb hb1) h

theorem kept_stepUnder (n : Nat) (h0 : Heap) (src : InconH) (m : Dict Str) (st st' : Heap × InconH) (blk : Str)
    (hk : Kept n h0 st) (h : stepUnder src m st blk = .ok st') : Kept n h0 st' := by
  unfold stepUnder at h
  split at h
  · cases h
  · split at h
    · cases h
    · exact kept_assignCopy n h0 st st' blk _ hk h

theorem kept_stepBroadcast (n : Nat) (h0 : Heap) (geo : Geo) (src : InconH) (st st' : Heap × InconH) (c : Col)
    (hk : Kept n h0 st) (h : stepBroadcast geo src st c = .ok st') : Kept n h0 st' := by
  unfold stepBroadcast at h
  split at h
  · cases h
  · split at h
    · cases h
    · split at h
      · cases h
      · exact kept_assignCopy n h0 st st' _ _ hk h

theorem kept_stepPerColumn (n : Nat) (h0 : Heap) (sgeo geo : Geo) (src : InconH) (cm : Dict Str)
    (st st' : Heap × InconH) (c : Col)
    (hk : Kept n h0 st) (h : stepPerColumn sgeo geo src cm st c = .ok st') : Kept n h0 st' := by
  unfold stepPerColumn at h
  split at h
  · cases h
  · split at h
    · cases h
    · split at h
      · cases h
      · split at h
        · cases h
        · split at h
          · cases h
          · split at h
            · cases h
            · exact kept_assignCopy n h0 st st' _ _ hk h

theorem kept_stepDefault (n : Nat) (h0 : Heap) (geo : Geo) (dflt : Nat) (st st' : Heap × InconH) (c : Col)
    (hk : Kept n h0 st) (h : stepDefault geo dflt st c = .ok st') : Kept n h0 st' := by
  unfold stepDefault at h
  split at h
  · cases h
  · split at h
    · cases h
    · exact kept_assignCopy n h0 st st' _ _ hk h

theorem kept_transferAtmH (n : Nat) (h0 : Heap) (src : InconH) (sgeo geo : Geo) (cm : Dict Str) (dflt : Nat)
    (st st' : Heap × InconH) (hk : Kept n h0 st) (h : transferAtmH src sgeo geo cm dflt st = .ok st') :
    Kept n h0 st' := by
  unfold transferAtmH at h
  split at h
  · split at h
    · cases h
    · split at h
      · cases h
      · split at h
        · split at h
          · cases h
          · exact kept_assignCopy n h0 st st' _ _ hk h
        · split at h
          · split at h
            · cases h
            · split at h
              · cases h
              · split at h
                · cases h
                · split at h
                  · cases h
                  · cases h
                    exact kept_assignNew n h0 st _ _ hk
          · exact kept_assignCopy n h0 st st' _ _ hk h
  · split at h
    · split at h
      · exact foldE_inv (Kept n h0) _ (fun b a b' hb hf => kept_stepBroadcast n h0 geo src b b' a hb hf) _ _ _ hk h
      · split at h
        · exact foldE_inv (Kept n h0) _ (fun b a b' hb hf => kept_stepPerColumn n h0 sgeo geo src cm b b' a hb hf) _ _ _ hk h
        · exact foldE_inv (Kept n h0) _ (fun b a b' hb hf => kept_stepDefault n h0 geo dflt b b' a hb hf) _ _ _ hk h
    · cases h; exact hk

/-- `transfer_from` alters no object that existed before the call (so not the source's), and
    every object of the receiving `t2incon` is a new one -/
theorem transferFromH_frame (q : List (Rat × Rat) → Rat × Rat → Nat) (h : Heap) (src : InconH) (s t : Geo)
    (mp cmp : Dict Str) (h' : Heap) (self' : InconH)
    (hr : transferFromH q h src s t mp cmp = .ok (h', self')) :
    h.length ≤ h'.length ∧ (∀ i, i < h.length → h'[i]? = h[i]?) ∧ ∀ p ∈ self', h.length ≤ p.2 := by
  unfold transferFromH at hr
  split at hr
  · cases hr
  · simp only [Heap.alloc] at hr
    have hk0 : Kept h.length h (h ++ [⟨[], defaultAtm⟩], []) := by
      refine ⟨by simp, ?_, ?_⟩
      · intro i hi
        simp only
        rw [List.getElem?_append_left hi]
      · intro p hp; cases hp
    split at hr
    · cases hr
    · rename_i st hst
      have hk1 := kept_transferAtmH h.length h src s t _ _ _ st hk0 hst
      split at hr
      · cases hr
      · split at hr
        · cases hr
        · have := foldE_inv (Kept h.length h) _ (fun b a b' hb hf => kept_stepUnder h.length h src _ b b' a hb hf) _ _ _ hk1 hr
          exact this

end Proofs.Mapping
