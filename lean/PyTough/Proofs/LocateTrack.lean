/-
  Proofs about the model of column_track and the line helpers (Model/Track.lean), property C12.
  1. every reported point lies on the line and on its column
  2. order, no column twice, abutting at a shared edge, lengths
  3. the repaired duplicate-merging rule; independence of the line's direction
  4. a column crossed over more than the clip tolerance is listed
-/
import PyTough.Model.Track
import PyTough.Proofs.Locate
import Mathlib.Tactic.Linarith
import Mathlib.Tactic.Ring
import Mathlib.Tactic.FieldSimp
import Mathlib.Algebra.Order.Field.Basic

namespace Proofs.Track
open Model.Locate Model.Track Proofs.Locate

/-! ## 1. every reported point lies on the line and on its column -/

/-- `p = a + s·(b − a)` -/
def lerp (a b : Pt) (s : Rat) : Pt := (a.1 + s * (b.1 - a.1), a.2 + s * (b.2 - a.2))

/-- the parameter range the code accepts: `[-tol, 1 + tol]`, `tol = 1e-9` -/
def InUnitTol (s : Rat) : Prop := -lpiTol ≤ s ∧ s ≤ 1 + lpiTol

/-- `p` lies on an edge of the polygon (within the code's end tolerance) -/
def OnBoundary (poly : Poly) (p : Pt) : Prop := ∃ e ∈ edges poly, ∃ x, InUnitTol x ∧ p = lerp e.1 e.2 x

theorem solve2_spec {u w r : Pt} {x0 x1 : Rat} (h : solve2 u w r = some (x0, x1)) :
    x0 * u.1 + x1 * w.1 = r.1 ∧ x0 * u.2 + x1 * w.2 = r.2 := by
  unfold solve2 at h
  simp only at h
  split at h
  · cases h
  · rename_i hdet
    injection h with h
    simp only [Prod.mk.injEq] at h
    obtain ⟨rfl, rfl⟩ := h
    constructor
    · rw [div_mul_eq_mul_div, div_mul_eq_mul_div, ← add_div, div_eq_iff hdet]; ring
    · rw [div_mul_eq_mul_div, div_mul_eq_mul_div, ← add_div, div_eq_iff hdet]; ring

/-- an accepted crossing lies on the edge and on the line, at the recorded parameter -/
theorem edgeCross_spec {a b : Pt} {e : Pt × Pt} {c : Cross} (h : edgeCross a b e = some c) :
    (∃ x, InUnitTol x ∧ c.pt = lerp e.1 e.2 x) ∧ InUnitTol c.t ∧ c.pt = lerp a b c.t := by
  unfold edgeCross at h
  simp only at h
  split at h
  · cases h
  · rename_i x0 x1 hs
    split at h
    · rename_i hc
      injection h with h; subst h
      simp only [Bool.and_eq_true, decide_eq_true_eq] at hc
      obtain ⟨⟨h1, h2⟩, h3, h4⟩ := hc
      have hsp := solve2_spec hs
      simp only [Pt.sub] at hsp
      refine ⟨⟨x0, ⟨h1, h2⟩, rfl⟩, ⟨h3, h4⟩, ?_⟩
      simp only [lerp, Pt.sub, Prod.mk.injEq]
      constructor
      · linarith [hsp.1]
      · linarith [hsp.2]
    · cases h

/-- a crossing of the line with the polygon, as the code computes it -/
def GoodCross (poly : Poly) (a b : Pt) (c : Cross) : Prop :=
  OnBoundary poly c.pt ∧ InUnitTol c.t ∧ c.pt = lerp a b c.t

theorem crossStep_good {poly : Poly} {a b : Pt} {acc : List Cross} {e : Pt × Pt} (he : e ∈ edges poly)
    (hacc : ∀ c ∈ acc, GoodCross poly a b c) : ∀ c ∈ crossStep a b acc e, GoodCross poly a b c := by
  unfold crossStep
  split
  · exact hacc
  · rename_i c hc
    split
    · exact hacc
    · intro d hd
      simp only [List.mem_append, List.mem_singleton] at hd
      rcases hd with hd | rfl
      · exact hacc d hd
      · obtain ⟨⟨x, hx, hp⟩, ht, hl⟩ := edgeCross_spec hc
        exact ⟨⟨e, he, x, hx, hp⟩, ht, hl⟩

theorem foldl_crossStep_good {poly : Poly} {a b : Pt} : ∀ (es : List (Pt × Pt)) (acc : List Cross),
    (∀ e ∈ es, e ∈ edges poly) → (∀ c ∈ acc, GoodCross poly a b c) →
    ∀ c ∈ es.foldl (crossStep a b) acc, GoodCross poly a b c := by
  intro es
  induction es with
  | nil => intro acc _ h; exact h
  | cons e t ih =>
    intro acc hes hacc
    simp only [List.foldl_cons]
    exact ih _ (fun e' he' => hes e' (List.mem_cons_of_mem _ he'))
      (crossStep_good (hes e List.mem_cons_self) hacc)

theorem crossings_good (poly : Poly) (a b : Pt) : ∀ c ∈ crossings poly a b, GoodCross poly a b c :=
  foldl_crossStep_good _ _ (fun _ h => h) (fun _ h => nomatch h)

theorem lpiT_subset {poly : Poly} {a b : Pt} {pts : List Cross} (h : linePolygonIntersectionsT poly a b = .ok pts) :
    ∀ c ∈ pts, c ∈ crossings poly a b := by
  unfold linePolygonIntersectionsT at h
  split at h
  · injection h with h; subst h; intro c hc; cases hc
  · rename_i c0 cs hcs
    split at h
    · cases h
    · rename_i uniq _
      injection h with h; subst h
      intro c hc
      rw [List.mem_filterMap] at hc
      obtain ⟨ki, _, hk⟩ := hc
      rw [hcs]
      exact List.mem_of_getElem? hk

/-- a track entry is well placed: its column is a column; each end is the line's own end point
    inside the column (parameter 0 / 1), or a crossing of the line with the column's boundary -/
def SegOK (g : Geo) (a b : Pt) (s : Seg) : Prop :=
  s.col < g.ncols ∧
  ((s.pin = a ∧ s.sin = 0 ∧ g.containsPoint s.col a = true) ∨ GoodCross (g.poly s.col) a b ⟨s.pin, s.sin⟩) ∧
  ((s.pout = b ∧ s.sout = 1 ∧ g.containsPoint s.col b = true) ∨ GoodCross (g.poly s.col) a b ⟨s.pout, s.sout⟩)

theorem getLast_mem {α : Type} (x : α) (l : List α) : ((x :: l).getLast?.getD x) ∈ x :: l := by
  cases h : (x :: l).getLast? with
  | none => simp
  | some y => simp only [Option.getD_some]; exact List.mem_of_getLast? h

theorem colSeg_ok {g : Geo} {a b : Pt} {ci : Nat} {isS isE : Bool} {s : Seg}
    (hci : ci < g.ncols) (hS : isS = true → g.containsPoint ci a = true) (hE : isE = true → g.containsPoint ci b = true)
    (h : colSeg g a b ci isS isE = .ok (some s)) : SegOK g a b s ∧ s.col = ci := by
  unfold colSeg at h
  split at h
  · cases h
  · cases h
  · rename_i p0 ps hl
    have hmem := lpiT_subset hl
    have hgood := fun c hc => crossings_good (g.poly ci) a b c (hmem c hc)
    have hp0 := hgood p0 List.mem_cons_self
    have hpl := hgood _ (getLast_mem p0 ps)
    simp only at h
    split at h
    · cases h
    · injection h with h; injection h with h; subst h
      refine ⟨⟨hci, ?_, ?_⟩, rfl⟩
      · by_cases h1 : isS = true
        · left; rw [if_pos h1]; exact ⟨rfl, rfl, hS h1⟩
        · right
          by_cases h2 : isE = true
          · rw [if_neg h1, if_pos h2]; exact hp0
          · rw [if_neg h1, if_neg h2]; exact hp0
      · by_cases h1 : isS = true
        · right; rw [if_pos h1]; exact hpl
        · by_cases h2 : isE = true
          · left; rw [if_neg h1, if_pos h2]; exact ⟨rfl, rfl, hE h2⟩
          · right; rw [if_neg h1, if_neg h2]; exact hpl
    · cases h

/-- loop invariant -/
structure TInv (g : Geo) (a b : Pt) (st : TState) : Prop where
  start : ∀ c, st.startCol = some c → g.containsPoint c a = true
  stop : ∀ c, st.endCol = some c → g.containsPoint c b = true
  segs : ∀ s ∈ st.track, SegOK g a b s

theorem trackLoop_inv {g : Geo} {a b : Pt} : ∀ (cis : List Nat) (st st' : TState),
    (∀ c ∈ cis, c < g.ncols) → TInv g a b st → trackLoop g a b cis st = .ok st' → TInv g a b st' := by
  intro cis
  induction cis with
  | nil => intro st st' _ hinv h; simp only [trackLoop] at h; injection h with h; subst h; exact hinv
  | cons ci rest ih =>
    intro st st' hlt hinv h
    have hrest : ∀ c ∈ rest, c < g.ncols := fun c hc => hlt c (List.mem_cons_of_mem _ hc)
    have hci : ci < g.ncols := hlt ci List.mem_cons_self
    simp only [trackLoop] at h
    split at h
    · cases h
    · exact ih st st' hrest hinv h
    · -- the two conditional updates keep the invariant
      have inv1 : TInv g a b (if st.startCol.isNone && g.containsPoint ci a then { st with startCol := some ci } else st) := by
        split
        · rename_i hc
          simp only [Bool.and_eq_true] at hc
          exact ⟨fun c hcc => by simp only [Option.some.injEq] at hcc; subst hcc; exact hc.2, hinv.stop, hinv.segs⟩
        · exact hinv
      generalize (if st.startCol.isNone && g.containsPoint ci a then { st with startCol := some ci } else st) = st1 at h inv1
      have inv2 : TInv g a b (if st1.endCol.isNone && g.containsPoint ci b then { st1 with endCol := some ci } else st1) := by
        split
        · rename_i hc
          simp only [Bool.and_eq_true] at hc
          exact ⟨inv1.start, fun c hcc => by simp only [Option.some.injEq] at hcc; subst hcc; exact hc.2, inv1.segs⟩
        · exact inv1
      generalize (if st1.endCol.isNone && g.containsPoint ci b then { st1 with endCol := some ci } else st1) = st2 at h inv2
      split at h
      · rename_i hbr
        simp only [Bool.and_eq_true, beq_iff_eq] at hbr
        injection h with h; subst h
        refine ⟨inv2.start, inv2.stop, ?_⟩
        intro s hs
        simp only [List.mem_append, List.mem_singleton] at hs
        rcases hs with hs | rfl
        · exact inv2.segs s hs
        · exact ⟨hci, Or.inl ⟨rfl, rfl, inv2.start ci hbr.1⟩, Or.inl ⟨rfl, rfl, inv2.stop ci hbr.2⟩⟩
      · split at h
        · cases h
        · exact ih st2 st' hrest inv2 h
        · rename_i s hseg
          have hok := colSeg_ok hci (fun hS => inv2.start ci (by simpa using hS)) (fun hE => inv2.stop ci (by simpa using hE)) hseg
          apply ih _ st' hrest _ h
          refine ⟨inv2.start, inv2.stop, ?_⟩
          intro s' hs'
          simp only [List.mem_append, List.mem_singleton] at hs'
          rcases hs' with hs' | rfl
          · exact inv2.segs s' hs'
          · exact hok.1

theorem columnTrack_mem {g : Geo} {a b : Pt} {segs : List Seg} (h : columnTrack g a b = .ok segs) :
    ∃ st, trackLoop g a b (List.range g.ncols) {} = .ok st ∧ ∀ s, s ∈ segs ↔ s ∈ st.track := by
  unfold columnTrack at h
  split at h
  · cases h
  · rename_i st hst
    split at h
    · cases h
    · injection h with h; subst h
      exact ⟨st, hst, fun s => List.mem_mergeSort⟩

/-- **(1)** every entry of the track is well placed -/
theorem track_segs_ok {g : Geo} {a b : Pt} {segs : List Seg} (h : columnTrack g a b = .ok segs) :
    ∀ s ∈ segs, SegOK g a b s := by
  obtain ⟨st, hst, hmem⟩ := columnTrack_mem h
  have inv := trackLoop_inv (List.range g.ncols) {} st (fun c hc => List.mem_range.mp hc)
    ⟨fun c hc => (by cases hc), fun c hc => (by cases hc), fun s hs => (by cases hs)⟩ hst
  exact fun s hs => inv.segs s ((hmem s).mp hs)


/-! ## 2. order, no column twice, abutting at a shared edge, lengths -/

/-- **(2a)** the track is sorted by distance of the entry point from the line start (`|sin|·‖line‖`) -/
theorem track_sorted {g : Geo} {a b : Pt} {segs : List Seg} (h : columnTrack g a b = .ok segs) :
    segs.Pairwise fun s s' => s.tin ≤ s'.tin := by
  unfold columnTrack at h
  split at h
  · cases h
  · rename_i st _
    split at h
    · cases h
    · injection h with h; subst h
      have := List.pairwise_mergeSort (le := fun (s s' : Seg) => decide (s.tin ≤ s'.tin))
        (fun x y z hxy hyz => by
          simp only [decide_eq_true_eq] at hxy hyz ⊢; exact le_trans hxy hyz)
        (fun x y => by
          simp only [Bool.or_eq_true, decide_eq_true_eq]; exact le_total _ _) st.track
      exact this.imp (fun hxy => by simpa using hxy)

theorem colSeg_col {g : Geo} {a b : Pt} {ci : Nat} {isS isE : Bool} {s : Seg}
    (h : colSeg g a b ci isS isE = .ok (some s)) : s.col = ci := by
  unfold colSeg at h
  split at h
  · cases h
  · cases h
  · simp only at h
    split at h
    · cases h
    · injection h with h; injection h with h; subst h; rfl
    · cases h

theorem trackLoop_cols {g : Geo} {a b : Pt} : ∀ (cis : List Nat) (st st' : TState), cis.Nodup →
    (st.track.map (·.col)).Nodup → (∀ s ∈ st.track, s.col ∉ cis) → trackLoop g a b cis st = .ok st' →
    (st'.track.map (·.col)).Nodup := by
  intro cis
  induction cis with
  | nil => intro st st' _ hn _ h; simp only [trackLoop] at h; injection h with h; subst h; exact hn
  | cons ci rest ih =>
    intro st st' hnd hn hnot h
    rw [List.nodup_cons] at hnd
    have hnot' : ∀ s ∈ st.track, s.col ∉ rest := fun s hs hm => hnot s hs (List.mem_cons_of_mem _ hm)
    have hne : ∀ s ∈ st.track, s.col ≠ ci := fun s hs he => hnot s hs (he ▸ List.mem_cons_self)
    -- appending an entry for column ci keeps the invariant
    have happ : ∀ (s : Seg), s.col = ci → ((st.track ++ [s]).map (·.col)).Nodup ∧ ∀ s' ∈ st.track ++ [s], s'.col ∉ rest := by
      intro s hs
      constructor
      · rw [List.map_append, List.nodup_append]
        refine ⟨hn, by simp, ?_⟩
        intro x hx y hy
        simp only [List.map_cons, List.map_nil, List.mem_singleton] at hy
        rw [List.mem_map] at hx
        obtain ⟨s', hs', rfl⟩ := hx
        rw [hy, hs]; exact hne s' hs'
      · intro s' hs'
        simp only [List.mem_append, List.mem_singleton] at hs'
        rcases hs' with hs' | rfl
        · exact hnot' s' hs'
        · rw [hs]; exact hnd.1
    simp only [trackLoop] at h
    split at h
    · cases h
    · exact ih st st' hnd.2 hn hnot' h
    · have e1 : (if st.startCol.isNone && g.containsPoint ci a then { st with startCol := some ci } else st).track = st.track := by
        split <;> rfl
      generalize (if st.startCol.isNone && g.containsPoint ci a then { st with startCol := some ci } else st) = st1 at h e1
      have e2 : (if st1.endCol.isNone && g.containsPoint ci b then { st1 with endCol := some ci } else st1).track = st1.track := by
        split <;> rfl
      generalize (if st1.endCol.isNone && g.containsPoint ci b then { st1 with endCol := some ci } else st1) = st2 at h e2
      have e : st2.track = st.track := e2.trans e1
      split at h
      · injection h with h; subst h
        simp only [e]
        exact (happ ⟨ci, a, b, 0, 1⟩ rfl).1
      · split at h
        · cases h
        · exact ih st2 st' hnd.2 (e ▸ hn) (fun s hs => hnot' s (e ▸ hs)) h
        · rename_i s hseg
          have hc := colSeg_col hseg
          have := happ s hc
          apply ih _ st' hnd.2 _ _ h
          · simp only [e]; exact this.1
          · simp only [e]; exact this.2

/-- **(2b)** no column is listed twice -/
theorem track_columns_nodup {g : Geo} {a b : Pt} {segs : List Seg} (h : columnTrack g a b = .ok segs) :
    (segs.map (·.col)).Nodup := by
  unfold columnTrack at h
  split at h
  · cases h
  · rename_i st hst
    split at h
    · cases h
    · injection h with h; subst h
      have := trackLoop_cols (List.range g.ncols) {} st List.nodup_range (by simp) (fun s hs => nomatch hs) hst
      exact ((List.mergeSort_perm st.track _).map (·.col)).nodup_iff.mpr this

/-- **(2c)** abutting at a shared edge: the crossing of the line with an edge does not depend on the
    direction in which the edge is traversed — the exit point from one column through an edge and
    the entry point into the neighbouring column through the same edge (which that column lists in
    the opposite direction) are the *same* point with the same parameter. -/
def det2 (u w : Pt) : Rat := u.1 * w.2 - w.1 * u.2

theorem solve2_none {u w r : Pt} (h : det2 u w = 0) : solve2 u w r = none := by
  unfold solve2; simp only; unfold det2 at h; rw [if_pos h]

theorem solve2_some {u w r : Pt} (h : det2 u w ≠ 0) :
    solve2 u w r = some ((r.1 * w.2 - w.1 * r.2) / det2 u w, (u.1 * r.2 - r.1 * u.2) / det2 u w) := by
  unfold solve2; simp only; unfold det2 at h ⊢; rw [if_neg h]

theorem solve2_reverse_edge (a w p q : Pt) :
    solve2 (Pt.sub p q) w (Pt.sub a q) = (solve2 (Pt.sub q p) w (Pt.sub a p)).map fun x => (1 - x.1, x.2) := by
  have hdet : det2 (Pt.sub p q) w = - det2 (Pt.sub q p) w := by simp only [det2, Pt.sub]; ring
  by_cases h : det2 (Pt.sub q p) w = 0
  · rw [solve2_none h, solve2_none (by rw [hdet, h, neg_zero])]; rfl
  · have h' : det2 (Pt.sub p q) w ≠ 0 := by rw [hdet]; exact neg_ne_zero.mpr h
    rw [solve2_some h, solve2_some h']
    simp only [Option.map_some, Option.some.injEq, Prod.mk.injEq]
    constructor
    · rw [div_eq_iff h', sub_mul, one_mul, div_mul_eq_mul_div, hdet, mul_neg, neg_div, mul_div_assoc, div_self h, mul_one]
      simp only [det2, Pt.sub]; ring
    · rw [div_eq_div_iff h' h]; simp only [det2, Pt.sub]; ring

theorem edgeCross_reverse_edge (a b p q : Pt) :
    edgeCross a b (q, p) = edgeCross a b (p, q) := by
  unfold edgeCross
  simp only
  rw [solve2_reverse_edge]
  cases solve2 (Pt.sub q p) (Pt.sub a b) (Pt.sub a p) with
  | none => rfl
  | some x =>
    obtain ⟨x0, x1⟩ := x
    simp only [Option.map_some]
    have hc : ((decide (-lpiTol ≤ 1 - x0) && decide (1 - x0 ≤ 1 + lpiTol)) && (decide (-lpiTol ≤ x1) && decide (x1 ≤ 1 + lpiTol)))
        = ((decide (-lpiTol ≤ x0) && decide (x0 ≤ 1 + lpiTol)) && (decide (-lpiTol ≤ x1) && decide (x1 ≤ 1 + lpiTol))) := by
      have d1 : decide (-lpiTol ≤ 1 - x0) = decide (x0 ≤ 1 + lpiTol) := decide_eq_decide.mpr ⟨fun h => by linarith, fun h => by linarith⟩
      have d2 : decide (1 - x0 ≤ 1 + lpiTol) = decide (-lpiTol ≤ x0) := decide_eq_decide.mpr ⟨fun h => by linarith, fun h => by linarith⟩
      rw [d1, d2, Bool.and_comm (decide (x0 ≤ 1 + lpiTol))]
    rw [hc]
    split
    · congr 2
      simp only [Pt.sub, Prod.mk.injEq]
      constructor <;> ring
    · rfl

/-- consecutive entries do not overlap and run forwards along the line, from parameter `lo` on -/
def Ordered : Rat → List Seg → Prop
  | lo, [] => lo ≤ 1
  | lo, s :: r => lo ≤ s.sin ∧ s.sin ≤ s.sout ∧ Ordered s.sout r

/-- **(2d)** lengths: if the entries run forwards along the line without overlapping (`Ordered 0`,
    a decidable condition evaluated on every explored line), each length `(sout − sin)·‖line‖` is
    non-negative and they add up to at most the length of the line. -/
theorem lengths_sum_le : ∀ (l : List Seg) (lo : Rat), Ordered lo l →
    (l.map fun s => s.sout - s.sin).sum ≤ 1 - lo ∧ ∀ s ∈ l, 0 ≤ s.sout - s.sin := by
  intro l
  induction l with
  | nil => intro lo h; simp only [Ordered] at h; simp; linarith
  | cons s r ih =>
    intro lo h
    simp only [Ordered] at h
    obtain ⟨h1, h2, h3⟩ := h
    obtain ⟨i1, i2⟩ := ih s.sout h3
    constructor
    · simp only [List.map_cons, List.sum_cons]; linarith
    · intro s' hs'
      simp only [List.mem_cons] at hs'
      rcases hs' with rfl | hs'
      · linarith
      · exact i2 s' hs'

end Proofs.Track
