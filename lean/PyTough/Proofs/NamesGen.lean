/-
  The name generators of `mulgrid` (C17): `column_/node_/layer_name_from_number` are total up to
  the capacity of the convention, raise the naming error beyond it, and have a left inverse.
-/
import PyTough.Proofs.NamesDigits
import PyTough.Proofs.StrLemmas
set_option linter.unusedSimpArgs false
namespace Proofs.Names
open Py Model.Names

/-- An alphabet as the generators use it: duplicate-free (what `uniqstring` returns), without
    blanks or digits (e.g. letters), non-empty, and with at least two characters when names may
    not contain spaces (a one-character alphabet then makes `int_to_chars` recurse for ever). -/
structure AlphabetOK (chars : Str) (spaces : Bool) : Prop where
  nodup : chars.Nodup
  clean : ∀ c ∈ chars, c ≠ ' ' ∧ isDigit c = false
  size : if spaces = true then 1 ≤ chars.length else 2 ≤ chars.length

theorem AlphabetOK.stepOK {chars : Str} {spaces : Bool} (h : AlphabetOK chars spaces) : StepOK chars spaces := by
  have := h.size
  cases spaces
  · right; simpa using this
  · left; rfl

theorem AlphabetOK.pos {chars : Str} {spaces : Bool} (h : AlphabetOK chars spaces) : 0 < chars.length := by
  have := h.size
  cases spaces <;> simp at this <;> omega

/-- what `pad_to_length` does to the digit string when it applies (`length and not spaces`) -/
def padS (chars : Str) (spaces : Bool) (L : Nat) (s : Str) : Str :=
  if L ≠ 0 ∧ spaces = false then List.replicate (L - s.length) (chars.headD ' ') ++ s else s

theorem intToChars_ok {chars : Str} {spaces : Bool} (h : AlphabetOK chars spaces) (i L : Nat) :
    intToChars i [] chars spaces L = .ok (padS chars spaces L (D chars spaces i)) := by
  have hpos := h.pos
  obtain ⟨c0, r, hc⟩ : ∃ c0 r, chars = c0 :: r := by
    cases chars with
    | nil => simp at hpos
    | cons a r => exact ⟨a, r, rfl⟩
  have hsz := h.size
  unfold intToChars padS
  by_cases hi : i = 0
  · subst hi
    by_cases hp : L ≠ 0 ∧ spaces = false
    · obtain ⟨h1, h2⟩ := hp
      subst h2
      simp [h1, hc, padToLength, D_zero]
    · have : (L ≠ 0 && !spaces) = false := by
        cases spaces <;> simp at hp ⊢ <;> simp [hp]
      simp [this, hp, D_zero]
  · have hn0 : chars.length ≠ 0 := by omega
    have hn1 : (chars.length = 1 && !spaces) = false := by
      cases spaces
      · simp at hsz ⊢; omega
      · simp
    simp only [hi, if_false, hn0, hn1, Bool.false_eq_true]
    have hD : itcAux chars spaces i i [] = D chars spaces i := rfl
    rw [hD]
    by_cases hp : L ≠ 0 ∧ spaces = false
    · obtain ⟨h1, h2⟩ := hp
      subst h2
      simp [h1, hc, padToLength]
    · have : (L ≠ 0 && !spaces) = false := by
        cases spaces <;> simp at hp ⊢ <;> simp [hp]
      simp [this, hp]

theorem length_just (left : Bool) (s : Str) (n : Nat) : (just left s n).length = max n s.length := by
  unfold just ljust rjust
  cases left <;> simp <;> omega

theorem length_padS (chars : Str) (spaces : Bool) (L : Nat) (s : Str) :
    max L (padS chars spaces L s).length = max L s.length := by
  unfold padS
  split <;> simp <;> omega

theorem filter_just {left : Bool} {s : Str} (n : Nat) (hs : ∀ c ∈ s, c ≠ ' ') :
    (just left s n).filter (· != ' ') = s := by
  have h1 : s.filter (· != ' ') = s := by
    rw [List.filter_eq_self]; intro c hc; simpa using hs c hc
  unfold just ljust rjust
  cases left <;> simp [List.filter_append, h1, List.filter_replicate]

theorem mem_just {left : Bool} {s : Str} {n : Nat} {c : Char} (h : c ∈ just left s n) : c ∈ s ∨ c = ' ' := by
  unfold just ljust rjust at h
  cases left <;> simp at h <;> rcases h with h | h
  · right; exact h.2
  · left; exact h
  · left; exact h
  · right; exact h.2

/-! ### alphabetic names -/

/-- the name made from number `k`: `justfn(int_to_chars(k, chars, spaces, length = L), L)` -/
def alphaName (chars : Str) (spaces left : Bool) (L k : Nat) : Str :=
  just left (padS chars spaces L (D chars spaces k)) L

/-- largest number whose alphabetic name fits `L` characters -/
def capA (n : Nat) (spaces : Bool) (L : Nat) : Nat := if spaces = true then capB n L else n ^ L - 1

def decodeA (chars : Str) (spaces : Bool) (name : Str) : Nat :=
  val chars (off spaces) (name.filter (· != ' '))

theorem alphaName_length {chars : Str} {spaces : Bool} (h : AlphabetOK chars spaces) (left : Bool) (L k : Nat) :
    (k ≤ capA chars.length spaces L → (alphaName chars spaces left L k).length = L) ∧
    (capA chars.length spaces L < k → L < (alphaName chars spaces left L k).length) := by
  have hlen : (alphaName chars spaces left L k).length = max L (D chars spaces k).length := by
    unfold alphaName; rw [length_just, length_padS]
  rw [hlen]
  have hsz := h.size
  cases spaces with
  | true =>
    have := lenB h.pos L k
    simp only [capA, if_true]
    constructor <;> intro hk <;> omega
  | false =>
    simp only [Bool.false_eq_true, if_false] at hsz
    have := lenP hsz L k
    have hp : 0 < chars.length ^ L := Nat.pow_pos h.pos
    simp only [capA, Bool.false_eq_true, if_false]
    constructor <;> intro hk <;> omega

theorem mem_padS {chars : Str} {spaces : Bool} (h : AlphabetOK chars spaces) (L k : Nat) (c : Char)
    (hc : c ∈ padS chars spaces L (D chars spaces k)) : c ∈ chars := by
  unfold padS at hc
  split at hc
  · rcases List.mem_append.mp hc with hc | hc
    · have := (List.mem_replicate.mp hc).2
      subst this
      have hpos := h.pos
      cases chars with
      | nil => simp at hpos
      | cons a r => simp
    · exact mem_D h.stepOK h.pos _ _ hc
  · exact mem_D h.stepOK h.pos _ _ hc

theorem alphaName_chars {chars : Str} {spaces : Bool} (h : AlphabetOK chars spaces) (left : Bool) (L k : Nat) :
    ∀ c ∈ alphaName chars spaces left L k, c ∈ chars ∨ c = ' ' := by
  intro c hc
  rcases mem_just hc with hc | hc
  · left; exact mem_padS h L k c hc
  · right; exact hc

theorem decodeA_alphaName {chars : Str} {spaces : Bool} (h : AlphabetOK chars spaces) (left : Bool) (L k : Nat) :
    decodeA chars spaces (alphaName chars spaces left L k) = k := by
  unfold decodeA alphaName
  rw [filter_just L (fun c hc => (h.clean c (mem_padS h L k c hc)).1)]
  unfold padS
  split
  · rename_i hp
    obtain ⟨_, h2⟩ := hp
    subst h2
    have hpos := h.pos
    cases hch : chars with
    | nil => simp [hch] at hpos
    | cons a r =>
      have := val_pad chars a r hch (L - (D chars false k).length) (D chars false k)
      simp only [List.headD_cons]
      rw [← hch]
      simp only [off, Bool.false_eq_true, if_false]
      rw [this]
      exact val_D h.stepOK h.nodup h.pos k
  · exact val_D h.stepOK h.nodup h.pos k

/-! ### decimal names -/

theorem decChars_nodup : decChars.Nodup := by decide
theorem decChars_len : decChars.length = 10 := rfl
theorem decChars_step : StepOK decChars false := Or.inr (by decide)

theorem mem_decChars {c : Char} (h : c ∈ decChars) : isDigit c = true ∧ c ≠ ' ' := by
  simp only [decChars, List.mem_cons, List.not_mem_nil, or_false] at h
  rcases h with h|h|h|h|h|h|h|h|h|h <;> subst h <;> decide

theorem natStr_pos {k : Nat} (hk : k ≠ 0) : natStr k = D decChars false k := by
  simp [natStr, hk, D]

theorem mem_natStr (k : Nat) : ∀ c ∈ natStr k, isDigit c = true ∧ c ≠ ' ' := by
  intro c hc
  by_cases hk : k = 0
  · subst hk
    simp only [natStr, if_true, List.mem_singleton] at hc
    subst hc; decide
  · rw [natStr_pos hk] at hc
    exact mem_decChars (mem_D decChars_step (by decide) k c hc)

theorem val_natStr (k : Nat) : val decChars 0 (natStr k) = k := by
  by_cases hk : k = 0
  · subst hk; decide
  · rw [natStr_pos hk]
    exact val_D decChars_step decChars_nodup (by decide) k

theorem length_natStr_le {L : Nat} (hL : 0 < L) (k : Nat) : (natStr k).length ≤ L ↔ k < 10 ^ L := by
  by_cases hk : k = 0
  · subst hk
    have : 0 < 10 ^ L := Nat.pow_pos (by decide)
    simp [natStr]; omega
  · rw [natStr_pos hk]
    exact lenP (chars := decChars) (by decide) L k

/-- `justfn(str(k), L)` -/
def numName (left : Bool) (L k : Nat) : Str := just left (natStr k) L

def decodeN (name : Str) : Nat := val decChars 0 (name.filter (· != ' '))

theorem numName_length (left : Bool) {L : Nat} (hL : 0 < L) (k : Nat) :
    (k ≤ 10 ^ L - 1 → (numName left L k).length = L) ∧ (10 ^ L - 1 < k → L < (numName left L k).length) := by
  have hlen : (numName left L k).length = max L (natStr k).length := length_just _ _ _
  have := length_natStr_le hL k
  have hp : 0 < 10 ^ L := Nat.pow_pos (by decide)
  rw [hlen]
  constructor <;> intro hk <;> omega

theorem numName_chars (left : Bool) (L k : Nat) : ∀ c ∈ numName left L k, isDigit c = true ∨ c = ' ' := by
  intro c hc
  rcases mem_just hc with hc | hc
  · left; exact (mem_natStr k c hc).1
  · right; exact hc

theorem decodeN_numName (left : Bool) (L k : Nat) : decodeN (numName left L k) = k := by
  unfold decodeN numName
  rw [filter_just L (fun c hc => (mem_natStr k c hc).2)]
  exact val_natStr k

/-! ### a generator with a capacity -/

/-- `g` returns a name of length `L` made of acceptable characters for every number up to `cap`,
    raises the naming error beyond, and `dec` recovers the number from the name -/
structure GenSpec (g : Nat → Except Exc Str) (L cap : Nat) (dec : Str → Nat) (okc : Char → Prop) : Prop where
  ok : ∀ k, k ≤ cap → ∃ name, g k = .ok name ∧ name.length = L ∧ ∀ c ∈ name, okc c
  err : ∀ k, cap < k → g k = .error .naming
  dec : ∀ k name, g k = .ok name → dec name = k

theorem GenSpec.inj {g L cap dec okc} (h : GenSpec g L cap dec okc) {k1 k2 : Nat} {name : Str}
    (h1 : g k1 = .ok name) (h2 : g k2 = .ok name) : k1 = k2 := by
  rw [← h.dec k1 name h1, ← h.dec k2 name h2]

theorem GenSpec.ok_or_naming {g L cap dec okc} (h : GenSpec g L cap dec okc) (k : Nat) :
    (∃ name, g k = .ok name ∧ name.length = L ∧ k ≤ cap) ∨ (g k = .error .naming ∧ cap < k) := by
  by_cases hk : k ≤ cap
  · obtain ⟨name, h1, h2, _⟩ := h.ok k hk
    exact Or.inl ⟨name, h1, h2, hk⟩
  · exact Or.inr ⟨h.err k (by omega), by omega⟩

/-- the `if len(name) > L: raise NamingConventionError` wrapper -/
def limited (L : Nat) (name : Str) : Except Exc Str := if name.length > L then .error .naming else .ok name

theorem genSpec_alpha {chars : Str} {spaces : Bool} (h : AlphabetOK chars spaces) (left : Bool) (L : Nat) :
    GenSpec (fun k => limited L (alphaName chars spaces left L k)) L (capA chars.length spaces L)
      (decodeA chars spaces) (fun c => c ∈ chars ∨ c = ' ') := by
  constructor
  · intro k hk
    have := (alphaName_length h left L k).1 hk
    exact ⟨_, by simp [limited, this], this, alphaName_chars h left L k⟩
  · intro k hk
    have := (alphaName_length h left L k).2 hk
    simp [limited, this]
  · intro k name hn
    unfold limited at hn
    split at hn
    · cases hn
    · cases hn; exact decodeA_alphaName h left L k

theorem genSpec_num (left : Bool) {L : Nat} (hL : 0 < L) :
    GenSpec (fun k => limited L (numName left L k)) L (10 ^ L - 1) decodeN (fun c => isDigit c = true ∨ c = ' ') := by
  constructor
  · intro k hk
    have := (numName_length left hL k).1 hk
    exact ⟨_, by simp [limited, this], this, numName_chars left L k⟩
  · intro k hk
    have := (numName_length left hL k).2 hk
    simp [limited, this]
  · intro k name hn
    unfold limited at hn
    split at hn
    · cases hn
    · cases hn; exact decodeN_numName left L k

end Proofs.Names

namespace Proofs.Names
open Py Model.Names

/-! ### the three generators of `mulgrid` -/

def colAlpha (conv : Nat) : Bool := Gen.Conventions.alphaColumnConventions.contains conv
def layNum (conv : Nat) : Bool := Gen.Conventions.numericLayerConventions.contains conv

theorem GenSpec.mono {g L cap dec} {okc okc' : Char → Prop} (h : GenSpec g L cap dec okc)
    (hm : ∀ c, okc c → okc' c) : GenSpec g L cap dec okc' :=
  ⟨fun k hk => by
      obtain ⟨n, h1, h2, h3⟩ := h.ok k hk
      exact ⟨n, h1, h2, fun c hc => hm c (h3 c hc)⟩,
   h.err, h.dec⟩

theorem columnNameFromNumber_eq {chars : Str} {spaces : Bool} (h : AlphabetOK chars spaces) (conv k : Nat) (left : Bool) :
    columnNameFromNumber conv k left chars spaces =
      if colAlpha conv = true then limited (colnameLength conv) (alphaName chars spaces left (colnameLength conv) k)
      else limited (colnameLength conv) (numName false (colnameLength conv) k) := by
  unfold columnNameFromNumber nodeColNameFromNumber colAlpha
  rw [intToChars_ok h]
  by_cases hc : Gen.Conventions.alphaColumnConventions.contains conv = true
  · simp only [hc, if_true]; rfl
  · simp only [hc, if_false]; rfl

theorem nodeNameFromNumber_eq (conv k : Nat) (left : Bool) (chars : Str) (spaces : Bool) :
    nodeNameFromNumber conv k left chars spaces = columnNameFromNumber conv k left chars spaces := rfl

theorem layerNameFromNumber_eq {chars : Str} {spaces : Bool} (h : AlphabetOK chars spaces) (conv k : Nat) (left : Bool) :
    layerNameFromNumber conv k left chars spaces =
      if layNum conv = true then limited (layernameLength conv) (numName left (layernameLength conv) k)
      else limited (layernameLength conv) (alphaName chars spaces left (layernameLength conv) k) := by
  unfold layerNameFromNumber layNum
  rw [intToChars_ok h]
  by_cases hc : Gen.Conventions.numericLayerConventions.contains conv = true
  · simp only [hc, if_true]; rfl
  · simp only [hc, if_false]; rfl

/-- largest column / node number that has a name under the convention -/
def columnCapacity (conv n : Nat) (spaces : Bool) : Nat :=
  if colAlpha conv = true then capA n spaces (colnameLength conv) else 10 ^ colnameLength conv - 1

/-- largest layer number that has a name under the convention -/
def layerCapacity (conv n : Nat) (spaces : Bool) : Nat :=
  if layNum conv = true then 10 ^ layernameLength conv - 1 else capA n spaces (layernameLength conv)

def columnDecode (conv : Nat) (chars : Str) (spaces : Bool) : Str → Nat :=
  if colAlpha conv = true then decodeA chars spaces else decodeN
def layerDecode (conv : Nat) (chars : Str) (spaces : Bool) : Str → Nat :=
  if layNum conv = true then decodeN else decodeA chars spaces

/-- characters of a generated name: from the alphabet, a blank, or a decimal digit -/
def NameChar (chars : Str) (c : Char) : Prop := c ∈ chars ∨ c = ' ' ∨ isDigit c = true

theorem genSpec_column {chars : Str} {spaces : Bool} (h : AlphabetOK chars spaces) (conv : Nat)
    (hL : 0 < colnameLength conv) (left : Bool) :
    GenSpec (fun k => columnNameFromNumber conv k left chars spaces) (colnameLength conv)
      (columnCapacity conv chars.length spaces) (columnDecode conv chars spaces) (NameChar chars) := by
  have e : (fun k => columnNameFromNumber conv k left chars spaces) = fun k =>
      if colAlpha conv = true then limited (colnameLength conv) (alphaName chars spaces left (colnameLength conv) k)
      else limited (colnameLength conv) (numName false (colnameLength conv) k) := by
    funext k; exact columnNameFromNumber_eq h conv k left
  rw [e]
  unfold columnCapacity columnDecode
  by_cases ha : colAlpha conv = true
  · simp only [ha, if_true]
    exact (genSpec_alpha h left _).mono (fun c hc => by
      rcases hc with hc | hc
      · exact Or.inl hc
      · exact Or.inr (Or.inl hc))
  · simp only [ha, if_false]
    exact (genSpec_num false hL).mono (fun c hc => by
      rcases hc with hc | hc
      · exact Or.inr (Or.inr hc)
      · exact Or.inr (Or.inl hc))

theorem genSpec_layer {chars : Str} {spaces : Bool} (h : AlphabetOK chars spaces) (conv : Nat)
    (hL : 0 < layernameLength conv) (left : Bool) :
    GenSpec (fun k => layerNameFromNumber conv k left chars spaces) (layernameLength conv)
      (layerCapacity conv chars.length spaces) (layerDecode conv chars spaces) (NameChar chars) := by
  have e : (fun k => layerNameFromNumber conv k left chars spaces) = fun k =>
      if layNum conv = true then limited (layernameLength conv) (numName left (layernameLength conv) k)
      else limited (layernameLength conv) (alphaName chars spaces left (layernameLength conv) k) := by
    funext k; exact layerNameFromNumber_eq h conv k left
  rw [e]
  unfold layerCapacity layerDecode
  by_cases ha : layNum conv = true
  · simp only [ha, if_true]
    exact (genSpec_num left hL).mono (fun c hc => by
      rcases hc with hc | hc
      · exact Or.inr (Or.inr hc)
      · exact Or.inr (Or.inl hc))
  · simp only [ha, if_false]
    exact (genSpec_alpha h left _).mono (fun c hc => by
      rcases hc with hc | hc
      · exact Or.inl hc
      · exact Or.inr (Or.inl hc))

theorem conv_cases {conv : Nat} (h : conv < 4) : conv = 0 ∨ conv = 1 ∨ conv = 2 ∨ conv = 3 := by omega

theorem colnameLength_pos {conv : Nat} (h : conv < 4) : 0 < colnameLength conv := by
  rcases conv_cases h with rfl | rfl | rfl | rfl <;> decide

theorem layernameLength_pos {conv : Nat} (h : conv < 4) : 0 < layernameLength conv := by
  rcases conv_cases h with rfl | rfl | rfl | rfl <;> decide

/-! ### `new_dict_key` -/

theorem pigeon (f : Nat → Str) (a : Nat) : ∀ (m : Nat) (d : List Str),
    (∀ j, a ≤ j → j < a + m → f j ∈ d) →
    (∀ j1 j2, a ≤ j1 → j1 < a + m → a ≤ j2 → j2 < a + m → f j1 = f j2 → j1 = j2) → m ≤ d.length := by
  intro m
  induction m with
  | zero => intros; omega
  | succ m ih =>
    intro d hmem hinj
    have hx : f (a + m) ∈ d := hmem (a + m) (by omega) (by omega)
    have hlen := List.length_erase_of_mem hx
    have hpos : 0 < d.length := List.length_pos_of_mem hx
    have := ih (d.erase (f (a + m)))
      (fun j h1 h2 => by
        have hne : f j ≠ f (a + m) := fun e => by
          have := hinj j (a + m) h1 (by omega) (by omega) (by omega) e
          omega
        exact (List.mem_erase_of_ne hne).mpr (hmem j h1 (by omega)))
      (fun j1 j2 h1 h2 h3 h4 e => hinj j1 j2 h1 (by omega) h3 (by omega) e)
    omega

theorem newDictKeyLoop_spec {chars : Str} {spaces : Bool} (h : AlphabetOK chars spaces) (d : List Str)
    (left : Bool) (length : Nat) : ∀ (fuel i : Nat),
    (∃ j, i < j ∧ j ≤ i + fuel ∧ alphaName chars spaces left length j ∉ d) →
    ∃ j, newDictKeyLoop d left length chars spaces fuel i = .ok (alphaName chars spaces left length j, j) ∧
      i < j ∧ j ≤ i + fuel ∧ alphaName chars spaces left length j ∉ d ∧
      ∀ m, i < m → m < j → alphaName chars spaces left length m ∈ d := by
  intro fuel
  induction fuel with
  | zero => rintro i ⟨j, h1, h2, _⟩; omega
  | succ fuel ih =>
    rintro i ⟨j, h1, h2, h3⟩
    unfold newDictKeyLoop
    rw [intToChars_ok h]
    by_cases hin : alphaName chars spaces left length (i + 1) ∈ d
    · have hc : d.contains (just left (padS chars spaces length (D chars spaces (i + 1))) length) = true := by
        simpa [alphaName] using hin
      simp only [hc, if_true]
      have hj : j ≠ i + 1 := fun e => h3 (e ▸ hin)
      obtain ⟨j', e1, e2, e3, e4, e5⟩ := ih (i + 1) ⟨j, by omega, by omega, h3⟩
      refine ⟨j', e1, by omega, by omega, e4, ?_⟩
      intro m hm1 hm2
      by_cases hm : m = i + 1
      · subst hm; exact hin
      · exact e5 m (by omega) hm2
    · have hc : d.contains (just left (padS chars spaces length (D chars spaces (i + 1))) length) = false := by
        simpa [alphaName] using hin
      simp only [hc, Bool.false_eq_true, if_false]
      exact ⟨i + 1, rfl, by omega, by omega, hin, fun m hm1 hm2 => by omega⟩

theorem newDictKey_spec {chars : Str} {spaces : Bool} (h : AlphabetOK chars spaces) (d : List Str)
    (istart : Nat) (left : Bool) (length : Nat) :
    ∃ j, newDictKey d istart left length chars spaces = .ok (alphaName chars spaces left length j, j) ∧
      istart < j ∧ j ≤ istart + d.length + 1 ∧ alphaName chars spaces left length j ∉ d ∧
      ∀ m, istart < m → m < j → alphaName chars spaces left length m ∈ d := by
  unfold newDictKey
  have hex : ∃ j, istart < j ∧ j ≤ istart + (d.length + 1) ∧ alphaName chars spaces left length j ∉ d := by
    refine Classical.byContradiction fun hno => ?_
    have hall : ∀ j, istart + 1 ≤ j → j < istart + 1 + (d.length + 1) → alphaName chars spaces left length j ∈ d := by
      intro j h1 h2
      refine Classical.byContradiction fun hn => hno ⟨j, by omega, by omega, hn⟩
    have := pigeon (alphaName chars spaces left length) (istart + 1) (d.length + 1) d hall
      (fun j1 j2 _ _ _ _ e => by
        rw [← decodeA_alphaName h left length j1, ← decodeA_alphaName h left length j2, e])
    omega
  obtain ⟨j, e1, e2, e3, e4, e5⟩ := newDictKeyLoop_spec h d left length (d.length + 1) istart hex
  exact ⟨j, e1, e2, by omega, e4, e5⟩

end Proofs.Names
