/-
  `add_column` preserves the structural invariant (reversing a polygon negates its shoelace sum).
-/
import PyTough.Proofs.GeoConnDel
namespace Proofs.Geo
open Model.Geo Model.Geo.Geo Py Proofs.Refine

/-! ### reversing a polygon negates its shoelace sum -/

/-- sum of `f` over consecutive pairs (open path) -/
def pathSum {α} (f : α × α → Rat) : List α → Rat
  | [] => 0
  | [_] => 0
  | x :: y :: r => f (x, y) + pathSum f (y :: r)

theorem pathSum_append_single {α} (f : α × α → Rat) : ∀ (l : List α) (x : α),
    pathSum f (l ++ [x]) = pathSum f l + (match l.getLast? with | some y => f (y, x) | none => 0)
  | [], x => by simp [pathSum]; grind
  | [a], x => by simp [pathSum]; grind
  | a :: b :: r, x => by
    have ih := pathSum_append_single f (b :: r) x
    simp only [List.cons_append, pathSum] at ih ⊢
    rw [ih]
    simp only [List.getLast?_cons_cons]
    grind

theorem pathSum_reverse {α} (f : α × α → Rat) : ∀ (l : List α),
    pathSum f l.reverse = pathSum (fun e => f (e.2, e.1)) l
  | [] => rfl
  | [a] => rfl
  | a :: b :: r => by
    have ih := pathSum_reverse f (b :: r)
    rw [List.reverse_cons, pathSum_append_single, ih]
    simp only [List.getLast?_reverse, List.head?_cons, pathSum]
    grind

theorem esum_cycGo {α} (f : α × α → Rat) (first : α) : ∀ (l : List α) (a : α),
    esum f (cycGo first (a :: l)) = pathSum f (a :: l) + f ((l.getLast?).getD a, first)
  | [], a => by simp [cycGo, esum, sumRat, pathSum]; grind
  | b :: r, a => by
    have ih := esum_cycGo f first r b
    simp only [cycGo, esum_cons, pathSum, ih]
    have : ((b :: r).getLast?).getD a = (r.getLast?).getD b := by
      cases r with
      | nil => rfl
      | cons c r' =>
        simp only [List.getLast?_cons_cons]
        cases h : (c :: r').getLast? with
        | none => simp at h
        | some v => rfl
    rw [this]; grind

theorem esum_cyc_reverse {α} (f : α × α → Rat) (l : List α) :
    esum f (cyc l.reverse) = esum (fun e => f (e.2, e.1)) (cyc l) := by
  cases l with
  | nil => rfl
  | cons a t =>
    cases hbs : (a :: t).reverse with
    | nil => simp at hbs
    | cons b s =>
      simp only [cyc]
      rw [esum_cycGo, esum_cycGo, ← hbs, pathSum_reverse]
      have h1 : (s.getLast?).getD b = a := by
        have : (b :: s).getLast? = some a := by rw [← hbs]; simp
        cases s with
        | nil => simpa using this
        | cons c s' => simp only [List.getLast?_cons_cons] at this; simp [this]
      have h2 : (t.getLast?).getD a = b := by
        have := congrArg List.head? hbs
        simpa [List.head?_reverse] using this
      rw [h1, h2]

theorem shoelace2_reverse (p : List Pt) : shoelace2 p.reverse = - shoelace2 p := by
  have h := esum_cyc_reverse (fun e : Pt × Pt => Pt.cross e.1 e.2) p
  simp only [shoelace2]
  have e1 : sumRat ((cyc p.reverse).map fun e => Pt.cross e.1 e.2) = esum (fun e : Pt × Pt => Pt.cross e.1 e.2) (cyc p.reverse) := rfl
  rw [e1, h]
  have e2 : (fun e : Pt × Pt => Pt.cross e.2 e.1) = fun e => - Pt.cross e.1 e.2 := by
    funext e; simp only [Pt.cross]; grind
  simp only [esum, e2]
  have : ((cyc p).map fun e => - Pt.cross e.1 e.2) = ((cyc p).map fun e => Pt.cross e.1 e.2).map ((-1 : Rat) * ·) := by
    simp only [List.map_map]; apply List.map_congr_left; intro e _; simp only [Function.comp]; grind
  rw [this, sumRat_map_mul]; grind

end Proofs.Geo

namespace Proofs.Geo
open Model.Geo Model.Geo.Geo Py Proofs.Refine

theorem regOK_congr {κ} [DecidableEq κ] (l : List Nat) (d : Dict κ) (nm nm' : Nat → κ)
    (hnm : ∀ j ∈ l, nm' j = nm j) (h : regOK l d nm = true) : regOK l d nm' = true := by
  simp only [regOK, Bool.and_eq_true, decide_eq_true_eq, List.all_eq_true, beq_iff_eq, List.contains_eq_mem] at h ⊢
  obtain ⟨⟨⟨⟨h1, h2⟩, h3⟩, h4⟩, h5⟩ := h
  refine ⟨⟨⟨⟨h1, ?_⟩, h3⟩, ?_⟩, ?_⟩
  · rw [List.map_congr_left hnm]; exact h2
  · intro j hj; rw [hnm j hj]; exact h4 j hj
  · intro p hp; exact ⟨(h5 p hp).1, by rw [hnm _ (h5 p hp).1]; exact (h5 p hp).2⟩

/-- the node heap after `for node in col.node: node.column.add(col)` -/
theorem mem_cols_after_register (i : Nat) : ∀ (nodes : List Nat) (N : Array Node) (n y : Nat),
    (∀ m ∈ nodes, m < N.size) →
    (y ∈ ((nodes.foldl (fun N m => N.modify m fun nd => { nd with cols := setAdd nd.cols i }) N)[n]!).cols ↔
      y ∈ (N[n]!).cols ∨ (y = i ∧ n ∈ nodes))
  | [], N, n, y, _ => by simp
  | m :: t, N, n, y, hb => by
    have hm : m < N.size := hb m List.mem_cons_self
    have ih := mem_cols_after_register i t (N.modify m fun nd => { nd with cols := setAdd nd.cols i }) n y
      (by intro x hx; simpa using hb x (List.mem_cons_of_mem _ hx))
    simp only [List.foldl_cons]
    rw [ih, getElem!_modify _ _ _ _ hm]
    by_cases e : m = n
    · subst e
      simp only [if_true, mem_setAdd, List.mem_cons, true_or, and_true]
      constructor
      · rintro ((h | h) | ⟨h, _⟩)
        · exact Or.inl h
        · exact Or.inr h
        · exact Or.inr h
      · rintro (h | h)
        · exact Or.inl (Or.inl h)
        · exact Or.inl (Or.inr h)
    · simp only [e, if_false, List.mem_cons]
      constructor
      · rintro (h | ⟨h1, h2⟩)
        · exact Or.inl h
        · exact Or.inr ⟨h1, Or.inr h2⟩
      · rintro (h | ⟨h1, h2 | h2⟩)
        · exact Or.inl h
        · exact absurd h2.symm e
        · exact Or.inr ⟨h1, h2⟩

/-- what `add_column` builds for a column record `c` with a new name -/
def addColFresh (g : Geo) (c : Column) : Geo :=
  { g with C := g.C.push c, columnlist := g.columnlist ++ [g.C.size], columnD := g.columnD.set c.name g.C.size,
           N := c.nodes.foldl (fun N m => N.modify m fun nd => { nd with cols := setAdd nd.cols g.C.size }) g.N }

theorem addColumnRec_eq (g : Geo) (c : Column) (hf : g.columnD.contains c.name = false) :
    g.addColumnRec c = addColFresh g c := by
  simp only [addColumnRec, allocColumn, registerColumn, Geo.col, getElem!_push_eq, hf, Bool.false_eq_true, if_false,
    foldl_updNode, addColFresh]

end Proofs.Geo

namespace Proofs.Geo
open Model.Geo Model.Geo.Geo Py Proofs.Refine

/-- a well-formed new column record: fresh name, nodes of the geometry, counter-clockwise with positive area,
    no back-references yet -/
structure NewColumn (g : Geo) (c : Column) : Prop where
  fresh : g.columnD.contains c.name = false
  nodes : ∀ n ∈ c.nodes, n ∈ g.nodelist
  ccw : 0 < shoelace2 (g.polygon c.nodes)
  area : 0 < c.area
  nbrs : c.nbrs = []
  cons : c.cons = []

theorem addColFresh_geoInv0 (g : Geo) (c : Column) (hc : NewColumn g c) (h : g.geoInv0 = true) :
    (addColFresh g c).geoInv0 = true := by
  simp only [geoInv0, Bool.and_eq_true] at h ⊢
  obtain ⟨⟨⟨⟨⟨⟨hh, hr⟩, hnc⟩, hcc⟩, hnb⟩, hcn⟩, ho⟩ := h
  have hr' := hr
  simp only [registriesOK, Bool.and_eq_true] at hr'
  have hclt := heapOK_cols hh
  have hnlt := heapOK_nodes hh
  have hnotin : g.C.size ∉ g.columnlist := fun hm => Nat.lt_irrefl _ (hclt _ hm)
  have hcc' := (colConsOK_iff g).mp hcc
  have hnodesIn := nodeColsOK_nodes hnc
  -- accessors of the new state
  have hcold : ∀ j, j < g.C.size → (addColFresh g c).col j = g.col j := by
    intro j hj; simp only [Geo.col, addColFresh]; exact getElem!_push_lt _ _ _ hj
  have hcnew : (addColFresh g c).col g.C.size = c := by
    simp only [Geo.col, addColFresh]; exact getElem!_push_eq _ _
  have hcon : ∀ k, (addColFresh g c).con k = g.con k := fun _ => rfl
  have hnname : ∀ n, ((addColFresh g c).node n).name = (g.node n).name := by
    intro n; simp only [Geo.node, addColFresh]
    exact foldl_modify_proj (fun nd : Node => { nd with cols := setAdd nd.cols g.C.size }) (·.name) (fun _ => rfl) c.nodes g.N n
  have hnpos : ∀ n, ((addColFresh g c).node n).pos = (g.node n).pos := by
    intro n; simp only [Geo.node, addColFresh]
    exact foldl_modify_proj (fun nd : Node => { nd with cols := setAdd nd.cols g.C.size }) (·.pos) (fun _ => rfl) c.nodes g.N n
  have hncols : ∀ n y, y ∈ ((addColFresh g c).node n).cols ↔ y ∈ (g.node n).cols ∨ (y = g.C.size ∧ n ∈ c.nodes) := by
    intro n y; simp only [Geo.node, addColFresh]
    exact mem_cols_after_register g.C.size c.nodes g.N n y (fun m hm => hnlt m (hc.nodes m hm))
  have hpoly : ∀ l, (addColFresh g c).polygon l = g.polygon l := by
    intro l; simp only [Geo.polygon, hnpos]
  have hcl : (addColFresh g c).columnlist = g.columnlist ++ [g.C.size] := rfl
  have hnotouch : ∀ k ∈ g.connlist, (g.con k).c0 ≠ g.C.size ∧ (g.con k).c1 ≠ g.C.size := by
    intro k hk
    exact ⟨fun e => hnotin (e ▸ (hcc'.1 k hk).1), fun e => hnotin (e ▸ (hcc'.1 k hk).2)⟩
  refine ⟨⟨⟨⟨⟨⟨?_, ?_⟩, ?_⟩, ?_⟩, ?_⟩, ?_⟩, ?_⟩
  · -- heapOK
    simp only [heapOK, Bool.and_eq_true, List.all_eq_true, decide_eq_true_eq] at hh ⊢
    refine ⟨⟨⟨⟨?_, ?_⟩, hh.1.1.2⟩, hh.1.2⟩, hh.2⟩
    · intro n hn
      have : (addColFresh g c).N.size = g.N.size := by simp only [addColFresh]; exact foldl_modify_size _ _ _
      rw [this]; exact hh.1.1.1.1 n hn
    · intro j hj
      have : (addColFresh g c).C.size = g.C.size + 1 := by simp [addColFresh]
      rw [this]
      rcases List.mem_append.mp hj with hj | hj
      · exact Nat.lt_succ_of_lt (hclt j hj)
      · simp at hj; omega
  · -- registries
    simp only [registriesOK, Bool.and_eq_true]
    refine ⟨⟨⟨⟨?_, ?_⟩, hr'.1.1.2⟩, hr'.1.2⟩, ?_⟩
    · have : (fun i => ((addColFresh g c).node i).name) = fun i => (g.node i).name := funext hnname
      show regOK g.nodelist g.nodeD (fun i => ((addColFresh g c).node i).name) = true
      rw [this]; exact hr'.1.1.1.1
    · show regOK (g.columnlist ++ [g.C.size]) (g.columnD.set c.name g.C.size) (fun i => ((addColFresh g c).col i).name) = true
      rw [Dict.set_fresh _ _ _ hc.fresh]
      apply regOK_append g.columnlist g.columnD (fun i => (g.col i).name) _ g.C.size c.name hr'.1.1.1.2 hnotin hc.fresh
      · simp only [hcnew]
      · intro j hj; simp only [hcold j (hclt j hj)]
    · show regOK g.connlist g.connD (addColFresh g c).conKey = true
      apply regOK_congr g.connlist g.connD g.conKey _ _ hr'.2
      intro k hk
      simp only [Geo.conKey, hcon, hcold _ (hclt _ (hcc'.1 k hk).1), hcold _ (hclt _ (hcc'.1 k hk).2)]
  · -- nodeColsOK
    simp only [nodeColsOK, Bool.and_eq_true, List.all_eq_true, List.contains_eq_mem, decide_eq_true_eq,
      Bool.or_eq_true, Bool.not_eq_true', decide_eq_false_iff_not] at hnc ⊢
    refine ⟨?_, ?_⟩
    · intro j hj n hn
      rcases List.mem_append.mp hj with hj | hj
      · rw [hcold j (hclt j hj)] at hn; exact hnc.1 j hj n hn
      · simp at hj; subst hj; rw [hcnew] at hn; exact hc.nodes n hn
    · intro n hn
      refine ⟨?_, ?_⟩
      · intro y hy
        rcases (hncols n y).mp hy with hy' | ⟨hy1, hy2⟩
        · have := (hnc.2 n hn).1 y hy'
          exact ⟨List.mem_append_left _ this.1, by rw [hcold y (hclt y this.1)]; exact this.2⟩
        · subst hy1
          exact ⟨List.mem_append_right _ (List.mem_singleton.mpr rfl), by rw [hcnew]; exact hy2⟩
      · intro j hj
        rcases List.mem_append.mp hj with hj | hj
        · rw [hcold j (hclt j hj)]
          rcases (hnc.2 n hn).2 j hj with h' | h'
          · exact Or.inl h'
          · exact Or.inr ((hncols n j).mpr (Or.inl h'))
        · simp at hj; subst hj
          rw [hcnew]
          by_cases hm : n ∈ c.nodes
          · exact Or.inr ((hncols n _).mpr (Or.inr ⟨rfl, hm⟩))
          · exact Or.inl hm
  · -- colConsOK
    rw [colConsOK_iff]
    rw [hcl]
    refine ⟨?_, ?_⟩
    · intro k hk
      rw [hcon]; exact ⟨List.mem_append_left _ (hcc'.1 k hk).1, List.mem_append_left _ (hcc'.1 k hk).2⟩
    · intro j hj
      rcases List.mem_append.mp hj with hj | hj
      · rw [hcold j (hclt j hj)]
        simp only [hcon]
        exact hcc'.2 j hj
      · simp at hj; subst hj
        rw [hcnew, hc.cons]
        refine ⟨by simp, ?_⟩
        intro k hk hor
        rw [hcon] at hor
        rcases hor with e | e
        · exact absurd e (hnotouch k hk).1
        · exact absurd e (hnotouch k hk).2
  · -- nbrsOK
    have hj' : ∀ a b, (addColFresh g c).joined a b = g.joined a b := fun _ _ => rfl
    have hnotj : ∀ d, g.joined g.C.size d = false ∧ g.joined d g.C.size = false := by
      intro d
      constructor
      · cases hjd : g.joined g.C.size d
        · rfl
        · obtain ⟨k, hk, hor⟩ := (joined_iff _ _ _).mp hjd
          rcases hor with ⟨e, _⟩ | ⟨_, e⟩
          · exact absurd e (hnotouch k hk).1
          · exact absurd e (hnotouch k hk).2
      · cases hjd : g.joined d g.C.size
        · rfl
        · obtain ⟨k, hk, hor⟩ := (joined_iff _ _ _).mp hjd
          rcases hor with ⟨_, e⟩ | ⟨e, _⟩
          · exact absurd e (hnotouch k hk).2
          · exact absurd e (hnotouch k hk).1
    have hnb' := (nbrsOK_iff g).mp hnb
    rw [nbrsOK_iff, hcl]
    intro j hj
    rcases List.mem_append.mp hj with hj | hj
    · rw [hcold j (hclt j hj)]
      simp only [hj']
      refine ⟨(hnb' j hj).1, ?_⟩
      intro d hd hjd
      rcases List.mem_append.mp hd with hd | hd
      · exact (hnb' j hj).2 d hd hjd
      · simp at hd; subst hd
        rw [(hnotj j).2] at hjd; cases hjd
    · simp at hj; subst hj
      rw [hcnew, hc.nbrs]
      simp only [hj']
      refine ⟨by simp, ?_⟩
      intro d _ hjd
      rw [(hnotj d).1] at hjd; cases hjd
  · -- conNodesOK
    rw [conNodesOK_iff] at hcn ⊢
    intro k hk
    rw [hcon, hcold _ (hclt _ (hcc'.1 k hk).1), hcold _ (hclt _ (hcc'.1 k hk).2)]
    exact hcn k hk
  · -- orientOK
    simp only [orientOK, List.all_eq_true, Bool.and_eq_true, decide_eq_true_eq] at ho ⊢
    rw [hcl]
    intro j hj
    rcases List.mem_append.mp hj with hj | hj
    · rw [hcold j (hclt j hj), hpoly]; exact ho j hj
    · simp at hj; subst hj
      rw [hcnew, hpoly]; exact ⟨hc.ccw, hc.area⟩

end Proofs.Geo

namespace Proofs.Geo
open Model.Geo Model.Geo.Geo Py Proofs.Refine

/-- `add_column(column(name, nodes, centre, surface))` with a new name, nodes of the geometry and a
    non-degenerate polygon (either orientation: the constructor reverses a clockwise node list) keeps the
    structural invariant -/
theorem addColumn_geoInv0 (g g' : Geo) (name : Name) (nodes : List Nat) (centre : Option Pt) (surface : Option Rat)
    (nl : Int) (hd : g.addColumn name nodes centre surface nl = .ok g')
    (hfresh : g.columnD.contains name = false) (hnodes : ∀ n ∈ nodes, n ∈ g.nodelist)
    (harea : polygonArea (g.polygon nodes) ≠ 0) (h : g.geoInv0 = true) : g'.geoInv0 = true := by
  unfold addColumn at hd
  cases hm : g.mkColumn name nodes centre surface with
  | none => rw [hm] at hd; cases hd
  | some c =>
    rw [hm] at hd
    simp only [Except.ok.injEq] at hd
    subst hd
    unfold mkColumn at hm
    simp only at hm
    split at hm
    · cases hm
    · rename_i ctr _
      simp only [Option.some.injEq] at hm
      subst hm
      rw [addColumnRec_eq _ _ hfresh]
      apply addColFresh_geoInv0 _ _ _ h
      have ha := polygonArea_eq (g.polygon nodes)
      constructor
      · exact hfresh
      · intro n hn
        simp only at hn
        split at hn
        · exact hnodes n (List.mem_reverse.mp hn)
        · exact hnodes n hn
      · simp only
        split
        · rename_i hneg
          have : g.polygon nodes.reverse = (g.polygon nodes).reverse := by simp [Geo.polygon]
          rw [this, shoelace2_reverse]
          rw [ha] at hneg; grind
        · rename_i hneg
          rw [ha] at hneg harea; grind
      · simp only
        split
        · rename_i hneg; grind
        · rename_i hneg; grind
      · rfl
      · rfl

end Proofs.Geo
