/-
  Grid addition (`__add__`): the sum of two consistent grids over the same heap.
-/
import PyTough.Proofs.GridReg
namespace Proofs.Grid
open Py Model Model.Grid Model.Grid.World

theorem addRocktype_eq_reg (w : World) (r : Nat) :
    addRocktype w r = match Reg.add w.rname ⟨w.rocktypelist, w.rocktype⟩ r with
      | none => .error (.valueError, w)
      | some R => .ok { w with rocktypelist := R.list, rocktype := R.dict } := by
  cases hd : dget w.rocktype (w.rname r) with
  | none => simp only [addRocktype, Reg.add, hd]
  | some old =>
    cases hl : replaceFirst w.rocktypelist old r <;> simp only [addRocktype, Reg.add, hd, hl]

theorem addBlock_eq_reg (w : World) (b : Nat) :
    addBlock w b = match Reg.add w.bname ⟨w.blocklist, w.block⟩ b with
      | none => .error (.valueError, w)
      | some R => .ok { w with blocklist := R.list, block := R.dict } := by
  cases hd : dget w.block (w.bname b) with
  | none => simp only [addBlock, Reg.add, hd]
  | some old =>
    cases hl : replaceFirst w.blocklist old b <;> simp only [addBlock, Reg.add, hd, hl]

theorem set_getD_self {α} [Inhabited α] (l : List α) (i : Nat) : l.set i (l.getD i default) = l := by
  apply List.ext_getElem?
  intro j
  rw [List.getElem?_set]
  by_cases h : i = j
  · subst h
    by_cases h2 : i < l.length
    · simp [h2, List.getD_eq_getElem?_getD]
    · simp [h2]
  · simp [h]

/-- `connection_name.add(k)` when the block already records `k` -/
theorem connAdd_noop (w : World) (b : Nat) (k : CName) (hk : k ∈ (w.bk b).conn) : w.connAdd b k = w := by
  unfold World.connAdd sadd
  simp only [hk, if_true]
  show w.setBlk b (w.bk b) = w
  unfold World.setBlk World.bk
  rw [set_getD_self]

theorem connAdd2_noop (w : World) (b0 b1 : Nat) (k : CName) (h0 : k ∈ (w.bk b0).conn) (h1 : k ∈ (w.bk b1).conn) :
    (w.connAdd b0 k).connAdd b1 k = w := by
  rw [connAdd_noop w b0 k h0, connAdd_noop w b1 k h1]

/-- `add_connection(c)` for a connection whose two blocks already record its key (a connection that
    comes from another consistent grid): only list and dictionary change -/
theorem addConnection_eq_reg (w : World) (c : Nat)
    (h0 : w.ckey c ∈ (w.bk (w.cn c).b0).conn) (h1 : w.ckey c ∈ (w.bk (w.cn c).b1).conn) :
    addConnection w c = match Reg.add w.ckey ⟨w.connectionlist, w.connection⟩ c with
      | none => .error (.valueError, w)
      | some R => .ok { w with connectionlist := R.list, connection := R.dict } := by
  cases hd : dget w.connection (w.ckey c) with
  | none =>
    simp only [addConnection, Reg.add, hd]
    rw [connAdd2_noop _ _ _ _ (by exact h0) (by exact h1)]
  | some old =>
    cases hl : replaceFirst w.connectionlist old c with
    | none => simp only [addConnection, Reg.add, hd, hl]
    | some l =>
      simp only [addConnection, Reg.add, hd, hl]
      rw [connAdd2_noop _ _ _ _ (by exact h0) (by exact h1)]

theorem foldR_addRocktype (l : List Nat) : ∀ {w : World} {R' : Reg Name},
    Reg.addAll w.rname ⟨w.rocktypelist, w.rocktype⟩ l = some R' →
    foldR addRocktype w l = .ok { w with rocktypelist := R'.list, rocktype := R'.dict } := by
  induction l with
  | nil => intro w R' h; simp only [Reg.addAll, Option.some.injEq] at h; subst h; rfl
  | cons x r ih =>
    intro w R' h
    simp only [Reg.addAll] at h
    cases h1 : Reg.add w.rname ⟨w.rocktypelist, w.rocktype⟩ x with
    | none => rw [h1] at h; cases h
    | some R1 =>
      rw [h1] at h
      simp only [foldR, addRocktype_eq_reg, h1]
      exact ih (w := { w with rocktypelist := R1.list, rocktype := R1.dict }) h

theorem foldR_addBlock (l : List Nat) : ∀ {w : World} {R' : Reg Name},
    Reg.addAll w.bname ⟨w.blocklist, w.block⟩ l = some R' →
    foldR addBlock w l = .ok { w with blocklist := R'.list, block := R'.dict } := by
  induction l with
  | nil => intro w R' h; simp only [Reg.addAll, Option.some.injEq] at h; subst h; rfl
  | cons x r ih =>
    intro w R' h
    simp only [Reg.addAll] at h
    cases h1 : Reg.add w.bname ⟨w.blocklist, w.block⟩ x with
    | none => rw [h1] at h; cases h
    | some R1 =>
      rw [h1] at h
      simp only [foldR, addBlock_eq_reg, h1]
      exact ih (w := { w with blocklist := R1.list, block := R1.dict }) h

theorem foldR_addConnection (l : List Nat) : ∀ {w : World} {R' : Reg CName},
    (∀ c ∈ l, w.ckey c ∈ (w.bk (w.cn c).b0).conn ∧ w.ckey c ∈ (w.bk (w.cn c).b1).conn) →
    Reg.addAll w.ckey ⟨w.connectionlist, w.connection⟩ l = some R' →
    foldR addConnection w l = .ok { w with connectionlist := R'.list, connection := R'.dict } := by
  induction l with
  | nil => intro w R' _ h; simp only [Reg.addAll, Option.some.injEq] at h; subst h; rfl
  | cons x r ih =>
    intro w R' hk h
    simp only [Reg.addAll] at h
    cases h1 : Reg.add w.ckey ⟨w.connectionlist, w.connection⟩ x with
    | none => rw [h1] at h; cases h
    | some R1 =>
      rw [h1] at h
      have hx := hk x List.mem_cons_self
      simp only [foldR, addConnection_eq_reg w x hx.1 hx.2, h1]
      exact ih (w := { w with connectionlist := R1.list, connection := R1.dict })
        (fun c hc => hk c (List.mem_cons_of_mem _ hc)) h

/-- what one round of `__add__` (`for rt in grid.rocktypelist: …; for blk …; for con …`) does to the
    three registries of the result, for an operand `g` that is consistent over the same heap and
    shares no object with the result so far -/
theorem addFrom_spec {w : World} {g : Grid}
    (hR : RegInv w.rname ⟨w.rocktypelist, w.rocktype⟩)
    (hB : RegInv w.bname ⟨w.blocklist, w.block⟩)
    (hC : RegInv w.ckey ⟨w.connectionlist, w.connection⟩)
    (hg : Grid.Inv (w.withGrid g))
    (dR : ∀ x ∈ g.rocktypelist, x ∉ w.rocktypelist) (dB : ∀ x ∈ g.blocklist, x ∉ w.blocklist)
    (dC : ∀ x ∈ g.connectionlist, x ∉ w.connectionlist) :
    ∃ RR RB RC, addFrom w g = .ok { w with rocktypelist := RR.list, rocktype := RR.dict, blocklist := RB.list, block := RB.dict, connectionlist := RC.list, connection := RC.dict } ∧
      RegInv w.rname RR ∧ RegInv w.bname RB ∧ RegInv w.ckey RC ∧
      (∀ y, y ∈ RR.list ↔ y ∈ g.rocktypelist ∨ (y ∈ w.rocktypelist ∧ ∀ x ∈ g.rocktypelist, w.rname y ≠ w.rname x)) ∧
      (∀ y, y ∈ RB.list ↔ y ∈ g.blocklist ∨ (y ∈ w.blocklist ∧ ∀ x ∈ g.blocklist, w.bname y ≠ w.bname x)) ∧
      (∀ y, y ∈ RC.list ↔ y ∈ g.connectionlist ∨ (y ∈ w.connectionlist ∧ ∀ x ∈ g.connectionlist, w.ckey y ≠ w.ckey x)) := by
  have hgR := hg.rockInv
  have hgB := hg.blockInv
  have hgC := hg.conInv
  obtain ⟨RR, eR, iR, mR, _, _⟩ := Reg.addAll_spec (key := w.rname) g.rocktypelist hR hgR.rl_nodup dR
    (fun x hx y hy e => hgR.name_inj hx hy e)
  obtain ⟨RB, eB, iB, mB, _, _⟩ := Reg.addAll_spec (key := w.bname) g.blocklist hB hgB.bl_nodup dB
    (fun x hx y hy e => hgB.name_inj hx hy e)
  obtain ⟨RC, eC, iC, mC, _, _⟩ := Reg.addAll_spec (key := w.ckey) g.connectionlist hC hgC.cl_nodup dC
    (fun x hx y hy e => hgC.key_inj hx hy e)
  refine ⟨RR, RB, RC, ?_, iR, iB, iC, mR, mB, mC⟩
  unfold addFrom
  rw [foldR_addRocktype g.rocktypelist eR]
  simp only []
  rw [foldR_addBlock g.blocklist (w := { w with rocktypelist := RR.list, rocktype := RR.dict }) eB]
  simp only []
  rw [foldR_addConnection g.connectionlist
        (w := { w with rocktypelist := RR.list, rocktype := RR.dict, blocklist := RB.list, block := RB.dict }) ?_ eC]
  intro c hc
  have ends := hg.c_ends c hc
  exact ⟨(hg.conn_iff _ ends.1 _).mpr ⟨c, hc, rfl, Or.inl rfl⟩, (hg.conn_iff _ ends.2.1 _).mpr ⟨c, hc, rfl, Or.inr rfl⟩⟩

/-- **Grid addition.**  `g1 + g2` for two grids that are consistent over the same heap, share no
    object and no block name, and where a rock type of `g1` whose name also occurs in `g2` is used by
    no block of `g1` (else: known finding F2): the result is consistent, nothing in the heap
    changes, and its blocks / connections are those of the two operands. -/
theorem addGrids_inv {w : World} {g1 g2 : Grid}
    (h1 : Grid.Inv (w.withGrid g1)) (h2 : Grid.Inv (w.withGrid g2))
    (oR : ∀ x ∈ g1.rocktypelist, x ∉ g2.rocktypelist) (oB : ∀ x ∈ g1.blocklist, x ∉ g2.blocklist)
    (oC : ∀ x ∈ g1.connectionlist, x ∉ g2.connectionlist)
    (nB : ∀ x ∈ g1.blocklist, ∀ y ∈ g2.blocklist, w.bname x ≠ w.bname y)
    (nR : ∀ x ∈ g1.rocktypelist, ∀ y ∈ g2.rocktypelist, w.rname x = w.rname y → ∀ b ∈ g1.blocklist, (w.bk b).rock ≠ x) :
    ∃ w', addGrids w g1 g2 = .ok w' ∧ Grid.Inv w' ∧ w'.rocks = w.rocks ∧ w'.blks = w.blks ∧ w'.cons = w.cons ∧
      (∀ y, y ∈ w'.blocklist ↔ y ∈ g1.blocklist ∨ y ∈ g2.blocklist) ∧ w'.blocklist.Nodup ∧
      (∀ y, y ∈ w'.connectionlist ↔ y ∈ g1.connectionlist ∨ y ∈ g2.connectionlist) := by
  -- first operand into the empty grid
  have e0R : RegInv (w.withGrid ⟨[], [], [], [], [], []⟩).rname ⟨[], []⟩ := ⟨List.nodup_nil, by simp, by simp⟩
  have e0B : RegInv (w.withGrid ⟨[], [], [], [], [], []⟩).bname ⟨[], []⟩ := ⟨List.nodup_nil, by simp, by simp⟩
  have e0C : RegInv (w.withGrid ⟨[], [], [], [], [], []⟩).ckey ⟨[], []⟩ := ⟨List.nodup_nil, by simp, by simp⟩
  obtain ⟨RR1, RB1, RC1, eA, iR1, iB1, iC1, mR1, mB1, mC1⟩ :=
    addFrom_spec (w := w.withGrid ⟨[], [], [], [], [], []⟩) (g := g1) e0R e0B e0C h1 (by simp [World.withGrid]) (by simp [World.withGrid]) (by simp [World.withGrid])
  simp only [World.withGrid, List.not_mem_nil, false_and, or_false] at mR1 mB1 mC1
  generalize hwA : ({ w.withGrid ⟨[], [], [], [], [], []⟩ with rocktypelist := RR1.list, rocktype := RR1.dict, blocklist := RB1.list, block := RB1.dict, connectionlist := RC1.list, connection := RC1.dict } : World) = wA at eA
  have hA_heap : wA.rocks = w.rocks ∧ wA.blks = w.blks ∧ wA.cons = w.cons := by subst hwA; exact ⟨rfl, rfl, rfl⟩
  have hA_rl : wA.rocktypelist = RR1.list := by subst hwA; rfl
  have hA_rd : wA.rocktype = RR1.dict := by subst hwA; rfl
  have hA_bl : wA.blocklist = RB1.list := by subst hwA; rfl
  have hA_bd : wA.block = RB1.dict := by subst hwA; rfl
  have hA_cl : wA.connectionlist = RC1.list := by subst hwA; rfl
  have hA_cd : wA.connection = RC1.dict := by subst hwA; rfl
  have hA_rname : ∀ x, wA.rname x = w.rname x := by intro x; simp only [World.rname, World.rk, hA_heap.1]
  have hA_bk : ∀ x, wA.bk x = w.bk x := by intro x; simp only [World.bk, hA_heap.2.1]
  have hA_bname : ∀ x, wA.bname x = w.bname x := by intro x; simp only [World.bname, hA_bk]
  have hA_cn : ∀ x, wA.cn x = w.cn x := by intro x; simp only [World.cn, hA_heap.2.2]
  have hA_ckey : ∀ x, wA.ckey x = w.ckey x := by intro x; simp only [World.ckey, hA_bname, hA_cn]
  have hfunR : wA.rname = w.rname := funext hA_rname
  have hfunB : wA.bname = w.bname := funext hA_bname
  have hfunC : wA.ckey = w.ckey := funext hA_ckey
  have h2A : Grid.Inv (wA.withGrid g2) := by
    have : wA.withGrid g2 = w.withGrid g2 := by
      simp only [World.withGrid, hA_heap.1, hA_heap.2.1, hA_heap.2.2]
    rw [this]; exact h2
  obtain ⟨RR2, RB2, RC2, eB, iR2, iB2, iC2, mR2, mB2, mC2⟩ :=
    addFrom_spec (w := wA) (g := g2)
      (by rw [hfunR, hA_rl, hA_rd]; exact iR1) (by rw [hfunB, hA_bl, hA_bd]; exact iB1) (by rw [hfunC, hA_cl, hA_cd]; exact iC1)
      h2A (fun x hx hx' => oR x ((mR1 x).mp (hA_rl ▸ hx')) hx) (fun x hx hx' => oB x ((mB1 x).mp (hA_bl ▸ hx')) hx)
      (fun x hx hx' => oC x ((mC1 x).mp (hA_cl ▸ hx')) hx)
  rw [hfunR] at iR2; rw [hfunB] at iB2; rw [hfunC] at iC2
  simp only [hA_rl, hA_bl, hA_cl, mR1, mB1, mC1, hA_rname, hA_bname, hA_ckey] at mR2 mB2 mC2
  generalize hw' : ({ wA with rocktypelist := RR2.list, rocktype := RR2.dict, blocklist := RB2.list, block := RB2.dict, connectionlist := RC2.list, connection := RC2.dict } : World) = w' at eB
  have f_rocks : w'.rocks = w.rocks := by subst hw'; exact hA_heap.1
  have f_blks : w'.blks = w.blks := by subst hw'; exact hA_heap.2.1
  have f_cons : w'.cons = w.cons := by subst hw'; exact hA_heap.2.2
  have f_rl : w'.rocktypelist = RR2.list := by subst hw'; rfl
  have f_rd : w'.rocktype = RR2.dict := by subst hw'; rfl
  have f_bl : w'.blocklist = RB2.list := by subst hw'; rfl
  have f_bd : w'.block = RB2.dict := by subst hw'; rfl
  have f_cl : w'.connectionlist = RC2.list := by subst hw'; rfl
  have f_cd : w'.connection = RC2.dict := by subst hw'; rfl
  have f_rname : ∀ x, w'.rname x = w.rname x := by intro x; simp only [World.rname, World.rk, f_rocks]
  have f_bk : ∀ x, w'.bk x = w.bk x := by intro x; simp only [World.bk, f_blks]
  have f_bname : ∀ x, w'.bname x = w.bname x := by intro x; simp only [World.bname, f_bk]
  have f_cn : ∀ x, w'.cn x = w.cn x := by intro x; simp only [World.cn, f_cons]
  have f_ckey : ∀ x, w'.ckey x = w.ckey x := by intro x; simp only [World.ckey, f_bname, f_cn]
  -- members of the result
  have memB : ∀ y, y ∈ RB2.list ↔ y ∈ g1.blocklist ∨ y ∈ g2.blocklist := by
    intro y; rw [mB2]
    constructor
    · rintro (h | ⟨h, _⟩)
      · exact Or.inr h
      · exact Or.inl h
    · rintro (h | h)
      · exact Or.inr ⟨h, fun x hx => nB y h x hx⟩
      · exact Or.inl h
  -- keys of connections of different operands differ (their blocks have different names)
  have keyne : ∀ c1 ∈ g1.connectionlist, ∀ c2 ∈ g2.connectionlist, w.ckey c1 ≠ w.ckey c2 := by
    intro c1 hc1 c2 hc2 e
    have e1 := h1.c_ends c1 hc1
    have e2 := h2.c_ends c2 hc2
    simp only [World.ckey, Prod.mk.injEq] at e
    exact nB _ e1.1 _ e2.1 e.1
  have memC : ∀ y, y ∈ RC2.list ↔ y ∈ g1.connectionlist ∨ y ∈ g2.connectionlist := by
    intro y; rw [mC2]
    constructor
    · rintro (h | ⟨h, _⟩)
      · exact Or.inr h
      · exact Or.inl h
    · rintro (h | h)
      · exact Or.inr ⟨h, fun x hx => keyne y h x hx⟩
      · exact Or.inl h
  refine ⟨w', ?_, ?_, f_rocks, f_blks, f_cons, by rw [f_bl]; exact memB, by rw [f_bl]; exact iB2.nodup, by rw [f_cl]; exact memC⟩
  · unfold addGrids; rw [eA]; exact eB
  refine Inv.mk' ⟨?_, ?_, ?_, ?_⟩ ⟨?_, ?_, ?_, ?_⟩ ⟨?_, ?_, ?_, ?_, ?_⟩ ?_ ⟨?_, ?_⟩
  · intro x hx; rw [f_rl] at hx; rw [f_rocks]
    rcases (mR2 x).mp hx with h | ⟨h, _⟩
    · exact h2.rl_lt x h
    · exact h1.rl_lt x h
  · rw [f_rl]; exact iR2.nodup
  · intro n x hx; rw [f_rd] at hx; rw [f_rl, f_rname]; exact iR2.sound n x hx
  · intro x hx; rw [f_rl] at hx; rw [f_rd, f_rname]; exact iR2.complete x hx
  · intro x hx; rw [f_bl] at hx; rw [f_blks]
    rcases (memB x).mp hx with h | h
    · exact h1.bl_lt x h
    · exact h2.bl_lt x h
  · rw [f_bl]; exact iB2.nodup
  · intro n x hx; rw [f_bd] at hx; rw [f_bl, f_bname]; exact iB2.sound n x hx
  · intro x hx; rw [f_bl] at hx; rw [f_bd, f_bname]; exact iB2.complete x hx
  · intro x hx; rw [f_cl] at hx; rw [f_cons]
    rcases (memC x).mp hx with h | h
    · exact h1.cl_lt x h
    · exact h2.cl_lt x h
  · rw [f_cl]; exact iC2.nodup
  · intro k x hx; rw [f_cd] at hx; rw [f_cl, f_ckey]; exact iC2.sound k x hx
  · intro x hx; rw [f_cl] at hx; rw [f_cd, f_ckey]; exact iC2.complete x hx
  · intro x hx; rw [f_cl] at hx; rw [f_cn, f_bl]
    rcases (memC x).mp hx with h | h
    · have := h1.c_ends x h; exact ⟨(memB _).mpr (Or.inl this.1), (memB _).mpr (Or.inl this.2.1), this.2.2⟩
    · have := h2.c_ends x h; exact ⟨(memB _).mpr (Or.inr this.1), (memB _).mpr (Or.inr this.2.1), this.2.2⟩
  · intro b hb; rw [f_bl] at hb; rw [f_bk, f_rl, mR2]
    rcases (memB b).mp hb with h | h
    · have hr := h1.b_rock b h
      refine Or.inr ⟨hr, ?_⟩
      intro x hx e
      exact nR _ hr x hx e b h rfl
    · exact Or.inl (h2.b_rock b h)
  · intro b hb; rw [f_bl] at hb; rw [f_bk]
    rcases (memB b).mp hb with h | h
    · exact h1.conn_nodup b h
    · exact h2.conn_nodup b h
  · intro b hb k; rw [f_bl] at hb; rw [f_bk, f_cl]
    simp only [f_ckey, f_cn]
    rcases (memB b).mp hb with h | h
    · rw [show (k ∈ (w.bk b).conn ↔ _) from h1.conn_iff b h k]
      constructor
      · rintro ⟨c, hc, e, hm⟩; exact ⟨c, (memC c).mpr (Or.inl hc), e, hm⟩
      · rintro ⟨c, hc, e, hm⟩
        rcases (memC c).mp hc with hc1 | hc2
        · exact ⟨c, hc1, e, hm⟩
        · have ends := h2.c_ends c hc2
          rcases hm with hm | hm
          · exact absurd (show b ∈ g2.blocklist from hm ▸ ends.1) (oB b h)
          · exact absurd (show b ∈ g2.blocklist from hm ▸ ends.2.1) (oB b h)
    · rw [show (k ∈ (w.bk b).conn ↔ _) from h2.conn_iff b h k]
      constructor
      · rintro ⟨c, hc, e, hm⟩; exact ⟨c, (memC c).mpr (Or.inr hc), e, hm⟩
      · rintro ⟨c, hc, e, hm⟩
        rcases (memC c).mp hc with hc1 | hc2
        · have ends := h1.c_ends c hc1
          rcases hm with hm | hm
          · exact absurd h (oB b (hm ▸ ends.1))
          · exact absurd h (oB b (hm ▸ ends.2.1))
        · exact ⟨c, hc2, e, hm⟩

end Proofs.Grid
