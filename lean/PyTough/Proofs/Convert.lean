/-
  Helper lemmas for C20 (flavour conversion): section bookkeeping, generator deletion,
  lookup consistency, MOP conversion pointwise, and the closed form of convert_to_TOUGH2.
  Core Lean only.
-/
import PyTough.Model.Convert
namespace Proofs.Convert
open Py Model.Convert Gen.ConvertTables

/-! ### section list -/

theorem mem_listInsert (l : List Str) (i : Nat) (x k : Str) :
    k ∈ listInsert l i x ↔ k = x ∨ k ∈ l := by
  unfold listInsert
  constructor
  · intro h
    rcases List.mem_append.mp h with h | h
    · exact Or.inr (List.mem_of_mem_take h)
    · rcases List.mem_cons.mp h with h | h
      · exact Or.inl h
      · exact Or.inr (List.mem_of_mem_drop h)
  · intro h
    rcases h with h | h
    · exact List.mem_append.mpr (Or.inr (List.mem_cons.mpr (Or.inl h)))
    · have : k ∈ l.take i ++ l.drop i := by rw [List.take_append_drop]; exact h
      rcases List.mem_append.mp this with h | h
      · exact List.mem_append.mpr (Or.inl h)
      · exact List.mem_append.mpr (Or.inr (List.mem_cons.mpr (Or.inr h)))

theorem mem_insertSectionL (secs : List Str) (s k : Str) :
    k ∈ insertSectionL secs s ↔ k = s ∨ k ∈ secs := by
  unfold insertSectionL
  split
  · rename_i h
    have hs : s ∈ secs := by simpa using h
    constructor
    · exact Or.inr
    · rintro (h | h)
      · exact h ▸ hs
      · exact h
  · exact mem_listInsert _ _ _ _

theorem mem_foldl_insert (xs secs : List Str) (k : Str) :
    k ∈ xs.foldl insertSectionL secs ↔ k ∈ xs ∨ k ∈ secs := by
  induction xs generalizing secs with
  | nil => simp
  | cons x r ih =>
    simp only [List.foldl_cons, ih, mem_insertSectionL, List.mem_cons]
    constructor
    · rintro (h | h | h)
      · exact Or.inl (Or.inr h)
      · exact Or.inl (Or.inl h)
      · exact Or.inr h
    · rintro ((h | h) | h)
      · exact Or.inr (Or.inl h)
      · exact Or.inl h
      · exact Or.inr (Or.inr h)

theorem count_foldl_erase (xs l : List Str) (k : Str) :
    (xs.foldl deleteSectionL l).count k = l.count k - xs.count k := by
  induction xs generalizing l with
  | nil => simp
  | cons x r ih =>
    simp only [List.foldl_cons, ih, deleteSectionL, List.count_erase, List.count_cons]
    split <;> omega

/-- after `update_sections` the section list holds exactly the keywords whose data is present -/
theorem mem_updateSectionsL (present secs : List Str) (k : Str) :
    k ∈ updateSectionsL present secs ↔ k ∈ present := by
  unfold updateSectionsL
  simp only []
  rw [← List.count_pos_iff, count_foldl_erase]
  have hs1 : ∀ k, k ∈ (List.filter (fun k => !secs.contains k) present).foldl insertSectionL secs ↔ (k ∈ present ∨ k ∈ secs) := by
    intro k
    rw [mem_foldl_insert, List.mem_filter]
    constructor
    · rintro (⟨h, _⟩ | h)
      · exact Or.inl h
      · exact Or.inr h
    · rintro (h | h)
      · by_cases hk : k ∈ secs
        · exact Or.inr hk
        · exact Or.inl ⟨h, by simpa using hk⟩
      · exact Or.inr h
  generalize hS : (List.filter (fun k => !secs.contains k) present).foldl insertSectionL secs = s1 at *
  by_cases hp : k ∈ present
  · have h0 : (s1.filter (fun k => !present.contains k)).count k = 0 := by
      apply List.count_eq_zero.mpr
      intro hm
      have := (List.mem_filter.mp hm).2
      simp [hp] at this
    have := List.count_pos_iff.mpr ((hs1 k).mpr (Or.inl hp))
    simp only [hp, iff_true]
    omega
  · have h0 : (s1.filter (fun k => !present.contains k)).count k = s1.count k := by
      apply List.count_filter
      simpa using hp
    simp only [hp, iff_false]
    omega



@[simp] theorem convGen_id (g : Gener) : (convGen g).id = g.id := by
  unfold convGen; split <;> rfl
@[simp] theorem convGen_block (g : Gener) : (convGen g).block = g.block := by
  unfold convGen; split <;> rfl
@[simp] theorem convGen_name (g : Gener) : (convGen g).name = g.name := by
  unfold convGen; split <;> rfl
@[simp] theorem convGen_payload (g : Gener) : (convGen g).payload = g.payload := by
  unfold convGen; split <;> rfl

theorem eraseP_id_eq_filter (l : List Gener) (gid : Nat) (h : (l.map (·.id)).Nodup) :
    l.eraseP (·.id == gid) = l.filter (·.id != gid) := by
  induction l with
  | nil => rfl
  | cons x r ih =>
    simp only [List.map_cons] at h
    have hn := List.nodup_cons.mp h
    by_cases hx : x.id = gid
    · have hr : r.filter (·.id != gid) = r := by
        apply List.filter_eq_self.mpr
        intro a ha
        have : a.id ≠ gid := by
          intro h'
          apply hn.1
          rw [hx, ← h']
          exact List.mem_map.mpr ⟨a, ha, rfl⟩
        simpa using this
      simp [hx, hr]
    · simp [hx, ih hn.2]

theorem nodup_ids_filter (l : List Gener) (p : Gener → Bool) (h : (l.map (·.id)).Nodup) :
    ((l.filter p).map (·.id)).Nodup :=
  List.Nodup.sublist (List.Sublist.map _ List.filter_sublist) h

theorem foldl_removeObj (dl l : List Gener) (h : (l.map (·.id)).Nodup) :
    dl.foldl (fun l g => removeObj l g.id) l = l.filter (fun x => dl.all (fun g => g.id != x.id)) := by
  induction dl generalizing l with
  | nil =>
    simp only [List.foldl_nil, List.all_nil]
    exact (List.filter_eq_self.mpr (fun _ _ => rfl)).symm
  | cons g r ih =>
    rw [List.foldl_cons]
    show List.foldl (fun l g => removeObj l g.id) (l.eraseP (·.id == g.id)) r = _
    rw [eraseP_id_eq_filter l g.id h, ih _ (nodup_ids_filter l _ h), List.filter_filter]
    apply List.filter_congr
    intro x _
    simp only [List.all_cons]
    have e : (x.id != g.id) = (g.id != x.id) := by
      by_cases hx : x.id = g.id
      · rw [hx]
      · have : ¬ g.id = x.id := fun h => hx h.symm
        rw [bne_iff_ne.mpr hx, bne_iff_ne.mpr this]
    rw [e, Bool.and_comm]

theorem gener_eq_of_id {l : List Gener} (h : (l.map (·.id)).Nodup) {a b : Gener}
    (ha : a ∈ l) (hb : b ∈ l) (hid : a.id = b.id) : a = b := by
  induction l with
  | nil => cases ha
  | cons x r ih =>
    simp only [List.map_cons] at h
    have hn := List.nodup_cons.mp h
    rcases List.mem_cons.mp ha with ha | ha <;> rcases List.mem_cons.mp hb with hb | hb
    · rw [ha, hb]
    · exfalso; apply hn.1; rw [← ha, hid]; exact List.mem_map.mpr ⟨b, hb, rfl⟩
    · exfalso; apply hn.1; rw [← hb, ← hid]; exact List.mem_map.mpr ⟨a, ha, rfl⟩
    · exact ih hn.2 ha hb

/-- the generator list after conversion: the generators that are not deleted, converted, in their order -/
theorem convertGenerators_gens (d : T2) (h : (d.gens.map (·.id)).Nodup) :
    (convertGenerators d).gens = (d.gens.filter (fun g => !toDelete g)).map convGen := by
  unfold convertGenerators convGensList
  simp only []
  rw [foldl_removeObj _ _ (by simpa [List.map_map, Function.comp_def] using h), List.filter_map]
  congr 1
  apply List.filter_congr
  intro x hx
  simp only [Function.comp_def, convGen_id]
  cases hk : toDelete x
  · apply List.all_eq_true.mpr
    intro g hg
    have hg' := List.mem_filter.mp hg
    simp only [bne_iff_ne, ne_eq]
    intro hid
    have : g = x := gener_eq_of_id h hg'.1 hx hid
    subst this
    rw [hk] at hg'
    exact Bool.noConfusion hg'.2
  · apply Bool.eq_false_iff.mpr
    intro hall
    have := List.all_eq_true.mp hall x (List.mem_filter.mpr ⟨hx, hk⟩)
    simp at this



abbrev GDict := List ((Str × Str) × Nat)

theorem lookup_of_mem_nodup (dc : GDict) (h : (dc.map (·.1)).Nodup) (k : Str × Str) (v : Nat)
    (hm : (k, v) ∈ dc) : dc.lookup k = some v := by
  induction dc with
  | nil => cases hm
  | cons x r ih =>
    simp only [List.map_cons] at h
    have hn := List.nodup_cons.mp h
    rcases List.mem_cons.mp hm with hm' | hm'
    · subst hm'; simp
    · have hm := hm'
      have hne : ¬ k = x.1 := by
        intro hk
        apply hn.1
        rw [← hk]
        exact List.mem_map.mpr ⟨(k, v), hm, rfl⟩
      have : (k == x.1) = false := by simpa using hne
      have ihh := ih hn.2 hm
      obtain ⟨x1, x2⟩ := x
      simp only [List.lookup_cons, this]
      exact ihh

theorem mem_dictStep (dc : GDict) (g : Gener) (hk : (dc.map (·.1)).Nodup)
    (hwf : ∀ e ∈ dc, g.id = e.2 → (g.block, g.name) = e.1) (e : (Str × Str) × Nat) :
    e ∈ dictStep dc g ↔ e ∈ dc ∧ g.id ≠ e.2 := by
  unfold dictStep
  split
  · rename_i hl
    have hl : dc.lookup (g.block, g.name) = some g.id := by simpa using hl
    rw [List.mem_filter]
    constructor
    · rintro ⟨hm, hne⟩
      refine ⟨hm, ?_⟩
      intro hid
      have := hwf e hm hid
      simp [this] at hne
    · rintro ⟨hm, hne⟩
      refine ⟨hm, ?_⟩
      simp only [bne_iff_ne, ne_eq]
      intro hk'
      have : dc.lookup e.1 = some e.2 := lookup_of_mem_nodup dc hk e.1 e.2 hm
      rw [hk', hl] at this
      exact hne (Option.some.inj this)
  · rename_i hl
    constructor
    · intro hm
      refine ⟨hm, ?_⟩
      intro hid
      have hkey := hwf e hm hid
      have : dc.lookup e.1 = some e.2 := lookup_of_mem_nodup dc hk e.1 e.2 hm
      rw [← hkey, ← hid] at this
      exact hl (by simp [this])
    · exact fun h => h.1

theorem nodup_keys_dictStep (dc : GDict) (g : Gener) (hk : (dc.map (·.1)).Nodup) :
    ((dictStep dc g).map (·.1)).Nodup := by
  unfold dictStep
  split
  · exact List.Nodup.sublist (List.Sublist.map _ List.filter_sublist) hk
  · exact hk

theorem mem_foldl_dictStep (dl : List Gener) (dc : GDict) (hk : (dc.map (·.1)).Nodup)
    (hwf : ∀ e ∈ dc, ∀ g ∈ dl, g.id = e.2 → (g.block, g.name) = e.1) (e : (Str × Str) × Nat) :
    e ∈ dl.foldl dictStep dc ↔ e ∈ dc ∧ ∀ g ∈ dl, g.id ≠ e.2 := by
  induction dl generalizing dc with
  | nil => simp
  | cons g r ih =>
    rw [List.foldl_cons, ih _ (nodup_keys_dictStep dc g hk)]
    · rw [mem_dictStep dc g hk (fun e he => hwf e he g (List.mem_cons_self ..))]
      simp only [List.mem_cons, forall_eq_or_imp]
      constructor
      · rintro ⟨⟨a, b⟩, c⟩; exact ⟨a, b, c⟩
      · rintro ⟨a, b, c⟩; exact ⟨⟨a, b⟩, c⟩
    · intro e' he' g' hg'
      have := (mem_dictStep dc g hk (fun e he => hwf e he g (List.mem_cons_self ..)) e').mp he'
      exact hwf e' this.1 g' (List.mem_cons_of_mem _ hg')

/-- the lookup after conversion: exactly the former entries that do not point to a deleted generator -/
theorem convertGenerators_lookup (d : T2) (hk : (d.gendict.map (·.1)).Nodup)
    (hwf : ∀ e ∈ d.gendict, ∀ g ∈ d.gens, g.id = e.2 → (g.block, g.name) = e.1) (e : (Str × Str) × Nat) :
    e ∈ (convertGenerators d).gendict ↔ e ∈ d.gendict ∧ ∀ g ∈ d.gens, toDelete g = true → g.id ≠ e.2 := by
  have : (convertGenerators d).gendict = (d.gens.filter toDelete).foldl dictStep d.gendict := rfl
  rw [this, mem_foldl_dictStep _ _ hk (fun e he g hg => hwf e he g (List.mem_filter.mp hg).1)]
  constructor
  · rintro ⟨a, b⟩; exact ⟨a, fun g hg hd => b g (List.mem_filter.mpr ⟨hg, hd⟩)⟩
  · rintro ⟨a, b⟩; exact ⟨a, fun g hg => b g (List.mem_filter.mp hg).1 (List.mem_filter.mp hg).2⟩



/-- what AUTOUGH2→TOUGH2 leaves at MOP position `i` when it held `x` -/
def specA2T (mp : Bool) (st : Int) (i : Nat) (x : Int) : Int :=
  if i = 10 ∨ i = 12 then (if x = 2 then 0 else x)
  else if i = 21 then (if mp then 0 else st)
  else if i = 22 ∨ i = 23 ∨ i = 24 then (if x > 0 then 0 else x)
  else if mp = true ∧ (i = 14 ∨ i = 17 ∨ i = 20) then (if x > 0 then 0 else x)
  else x

/-- what TOUGH2→AUTOUGH2 leaves at MOP position `i` -/
def specT2A (mp : Bool) (i : Nat) (x : Int) : Int :=
  if i = 12 then (if x = 2 then 0 else x)
  else if i = 21 ∨ i = 22 ∨ i = 23 ∨ i = 24 then 0
  else if mp = true ∧ (i = 14 ∨ i = 17 ∨ i = 20) then (if x > 0 then 0 else x)
  else x

theorem special_or_not (i : Nat) :
    i = 10 ∨ i = 12 ∨ i = 14 ∨ i = 17 ∨ i = 20 ∨ i = 21 ∨ i = 22 ∨ i = 23 ∨ i = 24 ∨
    (¬ 10 = i ∧ ¬ 12 = i ∧ ¬ 14 = i ∧ ¬ 17 = i ∧ ¬ 20 = i ∧ ¬ 21 = i ∧ ¬ 22 = i ∧ ¬ 23 = i ∧ ¬ 24 = i ∧
     ¬ i = 10 ∧ ¬ i = 12 ∧ ¬ i = 14 ∧ ¬ i = 17 ∧ ¬ i = 20 ∧ ¬ i = 21 ∧ ¬ i = 22 ∧ ¬ i = 23 ∧ ¬ i = 24) := by omega

theorem mopA2T_pointwise (mp : Bool) (st : Int) (opt : List Int) (i : Nat) :
    (mopA2T mp st opt)[i]? = (opt[i]?).map (specA2T mp st i) := by
  unfold mopA2T setIf
  cases mp <;> simp only [List.getElem?_modify, Bool.false_eq_true, if_false, if_true] <;>
    rcases opt[i]? with _ | x <;> simp only [Option.map_none, Option.map_some, Functor.map] <;>
    rcases special_or_not i with rfl | rfl | rfl | rfl | rfl | rfl | rfl | rfl | rfl | h <;>
    simp [specA2T, *]

theorem mopT2A_pointwise (mp : Bool) (opt : List Int) (i : Nat) :
    (mopT2A mp opt)[i]? = (opt[i]?).map (specT2A mp i) := by
  unfold mopT2A setIf
  cases mp <;> simp only [List.getElem?_modify, Bool.false_eq_true, if_false, if_true] <;>
    rcases opt[i]? with _ | x <;> simp only [Option.map_none, Option.map_some, Functor.map] <;>
    rcases special_or_not i with rfl | rfl | rfl | rfl | rfl | rfl | rfl | rfl | rfl | h <;>
    simp [specT2A, *]



/-- the object `convert_to_TOUGH2` leaves when it does not raise -/
def tough2Of (mp : Bool) (st : Int) (d : T2) : T2 :=
  { filename := if mp then INFILE else d.filename
    simulator := []
    sections := (d.sections.erase SIMUL).erase LINEQ
    multi := multiA2T d.multi
    lineq := []
    solver := d.solver
    option := mopA2T mp st d.option
    rocks := Nat.repeat scaleRocks (if optAt d.option 10 == 2 then 1 else 0) d.rocks
    gens := convGensList d.gens
    gendict := convDict d.gens d.gendict
    short := {}
    histBlock := d.short.block.getD d.histBlock
    histCon := d.short.con.getD d.histCon
    histGen := d.short.gen.getD d.histGen
    other := d.other
    blocks := d.blocks }

theorem condCount_nil (a b : Int) : condCount [] a b = if a == 2 then 1 else 0 := by
  unfold condCount
  have h1 : AUTOUGH2.isPrefixOf ([] : Str) = false := by decide
  have h2 : (['M','U','L','K','O','M'] : Str).isPrefixOf ([] : Str) = false := by decide
  simp [h1, h2]

theorem convertToTough2_eq (mp : Bool) (d : T2) :
    convertToTough2 mp d =
      match solverTypeOfLineq d.lineq with
      | .ok st => (tough2Of mp st d, none)
      | .error e => ({ (if mp then { d with filename := INFILE } else d) with
                         simulator := [], sections := d.sections.erase SIMUL, multi := multiA2T d.multi }, some e) := by
  unfold convertToTough2 convParamsA2T
  cases mp <;> simp only [deleteSection, deleteSectionL, Bool.false_eq_true, if_false, if_true] <;>
    cases h : solverTypeOfLineq d.lineq <;>
    simp [tough2Of, shortToHistory, convertGenerators, condCount_nil]


end Proofs.Convert
