/-
  C01 proofs, layer 5e: the concrete canonical update (`stepCanon`) and side condition (`GoodStep`) per section
  kind, and `step_ok`: every kind in `wholeKinds` has the uniform round-trip shape `StepRT`.
-/
import PyTough.Proofs.T2Whole2Kinds
namespace Proofs.T2
open Py Model Model.T2 Proofs Proofs.Incon
open Gen.Sections (Rec)

/-! ### the concrete canonical update and side condition per kind -/

/-- the section kinds composed: all 23 -/
def wholeKinds : List Str :=
  [c!"ROCKS", c!"PARAM", c!"MOMOP", c!"START", c!"NOVER", c!"ELEME", c!"CONNE", c!"GENER", c!"LINEQ", c!"SOLVR",
   c!"RPCAP", c!"TIMES", c!"SELEC", c!"INCON", c!"INDOM",
   c!"MULTI", c!"DIFFU", c!"FOFT", c!"GOFT", c!"COFT", c!"MESHM", c!"SHORT", c!"SIMUL"]

/-- what reading the section `kw` written for `d` does to the reader's object `d0` -/
def stepCanon (d : T2Data) (kw : Str) (d0 : T2Data) : T2Data :=
  if kw = c!"ROCKS" then { d0 with rocks := canonRocks d.rocks }
  else if kw = c!"PARAM" then canonParam d d0
  else if kw = c!"MOMOP" then { d0 with moreOption := d.moreOption }
  else if kw = c!"START" then { d0 with start := true }
  else if kw = c!"NOVER" then { d0 with noversion := true }
  else if kw = c!"ELEME" then { d0 with blocks := canonBlocks d.blocks }
  else if kw = c!"CONNE" then { d0 with conns := canonConns d.conns }
  else if kw = c!"GENER" then { d0 with gens := canonGeners d.gens }
  else if kw = c!"LINEQ" then { d0 with lineq := canonDict c!"lineq" d.lineq d0.lineq }
  else if kw = c!"SOLVR" then { d0 with solver := canonDict c!"solver" d.solver d0.solver }
  else if kw = c!"RPCAP" then
    { d0 with rpcap := ⟨d.rpcap.rp.map (canonRP (fieldAt mainTabs c!"relative_permeability" 0) (fieldAt mainTabs c!"relative_permeability" 2)),
                        d.rpcap.cp.map (canonRP (fieldAt mainTabs c!"capillarity" 0) (fieldAt mainTabs c!"capillarity" 2))⟩ }
  else if kw = c!"TIMES" then { d0 with outputTimes := canonTimes d.outputTimes d0.outputTimes (d.outputTimes.time.getD []) }
  else if kw = c!"SELEC" then { d0 with selection := d.selection.map canonSelection }
  else if kw = c!"INCON" then { d0 with incon := canonIncons (writtenIncons d) d0.incon }
  else if kw = c!"INDOM" then { d0 with indom := canonIndom d.indom d0.indom }
  else if kw = c!"MULTI" then
    { d0 with multi := match stripEos (canonDict (multiName d) d.multi d0.multi) with | .ok m => m | .error _ => d0.multi }
  else if kw = c!"DIFFU" then { d0 with diffusion := canonDiffusion d.diffusion d0.diffusion }
  else if kw = c!"FOFT" then { d0 with historyBlock := canonHistory d.historyBlock d0.blocks }
  else if kw = c!"GOFT" then { d0 with historyGen := canonHistory d.historyGen d0.blocks }
  else if kw = c!"COFT" then
    { d0 with historyConn := d.historyConn.map (fun i => { isObj := false, n1 := cycleName i.n1, n2 := cycleName i.n2 }) }
  else if kw = c!"MESHM" then { d0 with meshmaker := d0.meshmaker ++ canonMeshMaker d.meshmaker }
  else if kw = c!"SHORT" then
    { d0 with short := (gsOf d.short).foldl ShortGrp.apply { d0.short with frequency := some (canonFreq d.short) } }
  else if kw = c!"SIMUL" then { d0 with simulator := canonSimulator d }
  else d0

/-- the side conditions of the section `kw` of `d` (those of its `section_roundtrip_…` theorem), on the reader's
    object `d0` at the moment the section is met -/
def GoodStep (d : T2Data) (kw : Str) (d0 : T2Data) : Prop :=
  if kw = c!"ROCKS" then (∀ rt ∈ d.rocks, GoodRock (fieldAt mainTabs c!"rocks1" 1) rt) ∧ (∀ rt ∈ d.rocks, ∃ ls, writeRock mainTabs rt = .ok ls)
  else if kw = c!"PARAM" then GoodParam (pr1 d) pr2 fts fdi d d0 ∧ (∃ lines, writeParameters mainTabs d = .ok lines) ∧ ParamCont d
  else if kw = c!"MOMOP" then GoodOptions 21 d.moreOption ∧ ∃ lines, writeMoreOptions mainTabs d = .ok lines
  else if kw = c!"START" then d.start = true
  else if kw = c!"NOVER" then d.noversion = true
  else if kw = c!"ELEME" then (∀ b ∈ d.blocks, GoodBlock d0.rocks b) ∧ (∀ b ∈ d.blocks, ∃ l, writeBlock mainTabs b = .ok l)
  else if kw = c!"CONNE" then (∀ c ∈ d.conns, GoodConn d0.blocks c) ∧ (∀ c ∈ d.conns, ∃ l, writeConn mainTabs c = .ok l)
  else if kw = c!"GENER" then d.gens ≠ [] ∧
    (∀ g ∈ d.gens, GoodGener (fun i => fieldAt mainTabs c!"generator" i) (fieldAt mainTabs c!"generation_times" 0)
            (fieldAt mainTabs c!"generation_rates" 0) (fieldAt mainTabs c!"generation_enthalpy" 0) g) ∧
    (∀ g ∈ d.gens, ∃ ls, writeGener mainTabs g = .ok ls)
  else if kw = c!"LINEQ" then d.lineq ≠ [] ∧ ∃ lines, writeDictSection mainTabs c!"LINEQ" c!"lineq" d.lineq = .ok lines
  else if kw = c!"SOLVR" then d.solver ≠ [] ∧ ∃ lines, writeDictSection mainTabs c!"SOLVR" c!"solver" d.solver = .ok lines
  else if kw = c!"RPCAP" then ∃ rp cp, d.rpcap = ⟨some rp, some cp⟩ ∧ rp.params.length ≤ 7 ∧ cp.params.length ≤ 7 ∧
    ∃ lines, writeRPCap mainTabs ⟨some rp, some cp⟩ = .ok lines
  else if kw = c!"TIMES" then ∃ ts, d.outputTimes.time = some ts ∧
    d.outputTimes.d.get c!"num_times_specified" = some (.int (Int.ofNat ts.length)) ∧
    (canonTimes d.outputTimes d0.outputTimes ts).d.get c!"num_times_specified" = some (.int (Int.ofNat ts.length)) ∧
    (∀ x ∈ ts, canonV (fieldAt mainTabs c!"output_times2" 0) x ≠ Val.none) ∧
    ∃ lines, writeTimes mainTabs d.outputTimes = .ok lines
  else if kw = c!"SELEC" then ∃ s, d.selection = some s ∧ GoodSelection (fieldAt mainTabs c!"selec1" 0) s ∧
    ∃ lines, writeSelection mainTabs (some s) = .ok lines
  else if kw = c!"INCON" then d.incon ≠ [] ∧ (∀ e ∈ writtenIncons d, GoodName e.name) ∧
    (∀ e ∈ writtenIncons d, ∃ ls, writeIncon mainTabs e = .ok ls)
  else if kw = c!"INDOM" then d.indom ≠ [] ∧ (∀ e ∈ d.indom, GoodIndom (fieldAt mainTabs c!"indom2" 0) e) ∧
    (∀ e ∈ d.indom, ∃ ls, writeIndomEntry mainTabs e = .ok ls)
  else if kw = c!"MULTI" then d0.autough2 = d.autough2 ∧ d.multi ≠ [] ∧
    (∃ lines, writeDictSection mainTabs c!"MULTI" (multiName d) d.multi = .ok lines) ∧
    ∃ m, stripEos (canonDict (multiName d) d.multi d0.multi) = .ok m
  else if kw = c!"DIFFU" then d.diffusion ≠ [] ∧ ∃ np,
    d0.multi.get c!"num_components" = some (.int (Int.ofNat d.diffusion.length)) ∧
    d0.multi.get c!"num_phases" = some (.int (Int.ofNat np)) ∧ (∀ row ∈ d.diffusion, row.length = np ∧ np ≤ 8) ∧
    ∃ lines, writeDiffusion mainTabs d.diffusion = .ok lines
  else if kw = c!"FOFT" then d.historyBlock ≠ [] ∧ ∀ i ∈ d.historyBlock, Visible i.name
  else if kw = c!"GOFT" then d.historyGen ≠ [] ∧ ∀ i ∈ d.historyGen, Visible i.name
  else if kw = c!"COFT" then d.historyConn ≠ [] ∧ (∀ i ∈ d.historyConn, Visible i.n1 ∧ i.n2.length = 5) ∧
    d0.blocks = [] ∧ d0.conns = []
  else if kw = c!"MESHM" then d.meshmaker ≠ [] ∧ (∀ m ∈ d.meshmaker, GoodMeshEntry m) ∧
    ∃ lss, d.meshmaker.mapM (writeMeshEntry mainTabs) = .ok lss
  else if kw = c!"SHORT" then GoodShort d0.blocks d0.conns d0.gens d.short
  else if kw = c!"SIMUL" then d.simulator ≠ [] ∧ canonSimulator d ≠ []
  else True

theorem wholeKinds_sections : ∀ kw, kw ∈ wholeKinds → kw ∈ allSections := by decide +kernel

theorem step_ok (d : T2Data) (kw : Str) (d0 : T2Data) (hk : kw ∈ wholeKinds) (hxp : XpFree d0) (hg : GoodStep d kw d0) :
    StepRT d kw d0 (stepCanon d kw d0) := by
  simp only [wholeKinds, List.mem_cons, List.not_mem_nil, or_false] at hk
  rcases hk with rfl | rfl | rfl | rfl | rfl | rfl | rfl | rfl | rfl | rfl | rfl | rfl | rfl | rfl | rfl | rfl | rfl | rfl | rfl | rfl | rfl | rfl | rfl
  · exact stepRT_ROCKS d d0 hxp hg.1 hg.2
  · exact stepRT_PARAM d d0 hxp hg.1 hg.2.1 hg.2.2
  · exact stepRT_MOMOP d d0 hxp hg.1 hg.2
  · exact stepRT_START d d0 hxp hg
  · exact stepRT_NOVER d d0 hxp hg
  · exact stepRT_ELEME d d0 hxp hg.1 hg.2
  · exact stepRT_CONNE d d0 hxp hg.1 hg.2
  · exact stepRT_GENER d d0 hxp hg.1 hg.2.1 hg.2.2
  · exact stepRT_LINEQ d d0 hxp hg.1 hg.2
  · exact stepRT_SOLVR d d0 hxp hg.1 hg.2
  · obtain ⟨rp, cp, hrp, h1, h2, hw⟩ := hg
    have : stepCanon d c!"RPCAP" d0 = { d0 with rpcap := canonRPCap rp cp } := by
      show { d0 with rpcap := ⟨d.rpcap.rp.map _, d.rpcap.cp.map _⟩ } = _
      rw [hrp]; rfl
    rw [this]
    exact stepRT_RPCAP d d0 hxp rp cp hrp h1 h2 hw
  · obtain ⟨ts, ht, hn, hkeep, hx, hw⟩ := hg
    have : stepCanon d c!"TIMES" d0 = { d0 with outputTimes := canonTimes d.outputTimes d0.outputTimes ts } := by
      show { d0 with outputTimes := canonTimes d.outputTimes d0.outputTimes (d.outputTimes.time.getD []) } = _
      rw [ht]; rfl
    rw [this]
    exact stepRT_TIMES d d0 hxp ts ht hn hkeep hx hw
  · obtain ⟨s, hs, hgs, hw⟩ := hg
    have : stepCanon d c!"SELEC" d0 = { d0 with selection := some (canonSelection s) } := by
      show { d0 with selection := d.selection.map canonSelection } = _
      rw [hs]; rfl
    rw [this]
    exact stepRT_SELEC d d0 hxp s hs hgs hw
  · exact stepRT_INCON d d0 hxp hg.1 hg.2.1 hg.2.2
  · exact stepRT_INDOM d d0 hxp hg.1 hg.2.1 hg.2.2
  · obtain ⟨hfl, hne, hw, m, hm⟩ := hg
    have : stepCanon d c!"MULTI" d0 = { d0 with multi := m } := by
      show { d0 with multi := match stripEos (canonDict (multiName d) d.multi d0.multi) with | .ok m => m | .error _ => d0.multi } = _
      rw [hm]
    rw [this]
    exact stepRT_MULTI d d0 hxp hfl hne hw m hm
  · obtain ⟨hne, np, hnc, hnp, hrow, hw⟩ := hg
    exact stepRT_DIFFU d d0 hxp hne np hnc hnp hrow hw
  · exact stepRT_FOFT d d0 hxp hg.1 hg.2
  · exact stepRT_GOFT d d0 hxp hg.1 hg.2
  · exact stepRT_COFT d d0 hxp hg.1 hg.2.1 hg.2.2.1 hg.2.2.2
  · exact stepRT_MESHM d d0 hxp hg.1 hg.2.1 hg.2.2
  · exact stepRT_SHORT d d0 hxp hg
  · exact stepRT_SIMUL d d0 hxp hg.1 hg.2

theorem stepCanon_sections (d : T2Data) (kw : Str) (d0 : T2Data) : (stepCanon d kw d0).sections = d0.sections := by
  simp only [stepCanon, apply_ite T2Data.sections, canonParam, ite_self]

theorem canonFrom_sections (step : Str → T2Data → T2Data) (h : ∀ kw d0, (step kw d0).sections = d0.sections) :
    ∀ (kws : List Str) (d0 : T2Data), (canonFrom step kws d0).sections = d0.sections ++ kws := by
  intro kws
  induction kws with
  | nil => intro d0; simp [canonFrom]
  | cons kw kws ih => intro d0; simp only [canonFrom, ih, h, List.append_assoc, List.singleton_append]

/-- a field that only the section `kw` sets, and sets to a value that does not depend on the reader's state: after
    the sections `kws` it holds that value if `kw` is among them, else what it held before -/
theorem canonFrom_proj {α : Type} (π : T2Data → α) (step : Str → T2Data → T2Data) (kw : Str) (v : α)
    (hsec : ∀ x s, π { x with sections := s } = π x)
    (hstep : ∀ k d0, π (step k d0) = if k = kw then v else π d0) :
    ∀ (kws : List Str) (d0 : T2Data), π (canonFrom step kws d0) = if kw ∈ kws then v else π d0 := by
  intro kws
  induction kws with
  | nil => intro d0; simp [canonFrom]
  | cons k ks ih =>
    intro d0
    simp only [canonFrom, ih, hsec, hstep, List.mem_cons]
    by_cases h1 : kw ∈ ks
    · simp [h1]
    · by_cases h2 : k = kw
      · simp [h2]
      · have h3 : ¬ kw = k := fun h => h2 h.symm
        simp [h1, h2, h3]

theorem stepCanon_rocks (d : T2Data) (k : Str) (d0 : T2Data) :
    (stepCanon d k d0).rocks = if k = c!"ROCKS" then canonRocks d.rocks else d0.rocks := by
  simp only [stepCanon, apply_ite T2Data.rocks, canonParam, ite_self]

theorem stepCanon_blocks (d : T2Data) (k : Str) (d0 : T2Data) :
    (stepCanon d k d0).blocks = if k = c!"ELEME" then canonBlocks d.blocks else d0.blocks := by
  simp only [stepCanon, apply_ite T2Data.blocks, canonParam, ite_self]
  by_cases h : k = c!"ELEME"
  · subst h; simp (config := { decide := true }) only [if_true, if_false]
  · simp only [h, if_false, ite_self]

theorem stepCanon_conns (d : T2Data) (k : Str) (d0 : T2Data) :
    (stepCanon d k d0).conns = if k = c!"CONNE" then canonConns d.conns else d0.conns := by
  simp only [stepCanon, apply_ite T2Data.conns, canonParam, ite_self]
  by_cases h : k = c!"CONNE"
  · subst h; simp (config := { decide := true }) only [if_true, if_false]
  · simp only [h, if_false, ite_self]

theorem stepCanon_gens (d : T2Data) (k : Str) (d0 : T2Data) :
    (stepCanon d k d0).gens = if k = c!"GENER" then canonGeners d.gens else d0.gens := by
  simp only [stepCanon, apply_ite T2Data.gens, canonParam, ite_self]
  by_cases h : k = c!"GENER"
  · subst h; simp (config := { decide := true }) only [if_true, if_false]
  · simp only [h, if_false, ite_self]

theorem stepCanon_option (d : T2Data) (k : Str) (d0 : T2Data) :
    (stepCanon d k d0).option = if k = c!"PARAM" then d.option else d0.option := by
  simp only [stepCanon, apply_ite T2Data.option, canonParam, ite_self]
  by_cases h : k = c!"PARAM"
  · subst h; simp (config := { decide := true }) only [if_true, if_false]
  · simp only [h, if_false, ite_self]

theorem stepCanon_defaultIncons (d : T2Data) (k : Str) (d0 : T2Data) :
    (stepCanon d k d0).defaultIncons = if k = c!"PARAM" then d.defaultIncons.map (canonV fdi) else d0.defaultIncons := by
  simp only [stepCanon, apply_ite T2Data.defaultIncons, canonParam, ite_self]
  by_cases h : k = c!"PARAM"
  · subst h; simp (config := { decide := true }) only [if_true, if_false]
  · simp only [h, if_false, ite_self]

theorem stepCanon_moreOption (d : T2Data) (k : Str) (d0 : T2Data) :
    (stepCanon d k d0).moreOption = if k = c!"MOMOP" then d.moreOption else d0.moreOption := by
  simp only [stepCanon, apply_ite T2Data.moreOption, canonParam, ite_self]
  by_cases h : k = c!"MOMOP"
  · subst h; simp (config := { decide := true }) only [if_true, if_false]
  · simp only [h, if_false, ite_self]

theorem stepCanon_title (d : T2Data) (k : Str) (d0 : T2Data) : (stepCanon d k d0).title = d0.title := by
  simp only [stepCanon, apply_ite T2Data.title, canonParam, ite_self]

theorem canonFrom_keep {α : Type} (π : T2Data → α) (step : Str → T2Data → T2Data)
    (hsec : ∀ x s, π { x with sections := s } = π x) (hstep : ∀ k d0, π (step k d0) = π d0) :
    ∀ (kws : List Str) (d0 : T2Data), π (canonFrom step kws d0) = π d0 := by
  intro kws
  induction kws with
  | nil => intro d0; rfl
  | cons k ks ih => intro d0; simp only [canonFrom, ih, hsec, hstep]

end Proofs.T2
