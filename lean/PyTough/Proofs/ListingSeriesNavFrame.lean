/-
  Frame facts about the navigation instance of the whole-file listing model (`Model.Listing.fileNav`):
  `read_tables` and everything below it never assigns `self._index`, so `load j` leaves the index at `j`.
-/
import PyTough.Model.ListingHistory
import PyTough.Proofs.ListingNav
import PyTough.Proofs.ListingFile
namespace Proofs.SeriesNav
open Py Model Model.Listing

/-- started with index `i`, a successful run of `m` ends with index `i` -/
structure MKeepsI {α} (i : Int) (m : M α) : Prop where
  h : ∀ s a s', s.index = i → m s = .ok (a, s') → s'.index = i
structure CKeepsI {α} (i : Int) (c : C α) : Prop where
  h : ∀ env cur a cur', cur.index = i → c env cur = .ok (a, cur') → cur'.index = i

def MKeeps {α} (m : M α) : Prop := ∀ s a s', m s = .ok (a, s') → s'.index = s.index
def CKeeps {α} (c : C α) : Prop := ∀ env cur a cur', c env cur = .ok (a, cur') → cur'.index = cur.index

theorem MKeeps_of {α} {m : M α} (h : ∀ i, MKeepsI i m) : MKeeps m := fun s a s' hm => (h s.index).h s a s' rfl hm
theorem CKeeps_of {α} {c : C α} (h : ∀ i, CKeepsI i c) : CKeeps c := fun env cur a cur' hm => (h cur.index).h env cur a cur' rfl hm

section M
variable {α β : Type} {i : Int}

theorem m_pure (a : α) : MKeepsI i (pure a : M α) := by
  constructor
  intro s b s' hs h
  cases h; exact hs

theorem m_throw (e : LErr) : MKeepsI i (throw e : M α) := by
  constructor
  intro s b s' hs h
  cases h

theorem m_bind {m : M α} {f : α → M β} (hm : MKeepsI i m) (hf : ∀ a, MKeepsI i (f a)) : MKeepsI i (m >>= f) := by
  constructor
  intro s b s' hs h
  cases hms : m s with
  | error e =>
    simp only [bind, StateT.bind, Except.bind, hms] at h
    cases h
  | ok v =>
    obtain ⟨a, s1⟩ := v
    simp only [bind, StateT.bind, Except.bind, hms] at h
    exact (hf a).h s1 b s' (hm.h s a s1 hs hms) h

theorem m_get_bind {f : Rd → M β} (hf : ∀ s, s.index = i → MKeepsI i (f s)) : MKeepsI i ((get : M Rd) >>= f) := by
  constructor
  intro s b s' hs h
  exact (hf s hs).h s b s' hs h

theorem m_set {s0 : Rd} (h0 : s0.index = i) : MKeepsI i (set s0 : M PUnit) := by
  constructor
  intro s b s' hs h
  cases h; exact h0

theorem m_modify {f : Rd → Rd} (hf : ∀ s, s.index = i → (f s).index = i) : MKeepsI i (modify f : M PUnit) := by
  constructor
  intro s b s' hs h
  cases h; exact hf s hs

theorem m_raise (e : Exc) : MKeepsI i (Model.Listing.raise e : M α) := m_throw _

theorem m_liftE (x : Except Exc α) : MKeepsI i (Model.Listing.liftE x : M α) := by
  cases x with
  | ok v => exact m_pure v
  | error e => exact m_throw _

theorem m_liftC {c : C α} (hc : CKeepsI i c) : MKeepsI i (liftC c) := by
  constructor
  intro s a s' hs h
  unfold liftC at h
  split at h
  · rename_i a' cur hcur
    cases h
    exact hc.h s ⟨s.pos, s.index⟩ _ _ hs hcur
  · cases h

end M

section C
variable {α β : Type} {i : Int}

theorem c_pure (a : α) : CKeepsI i (pure a : C α) := by
  constructor
  intro env cur b cur' hs h
  cases h; exact hs

theorem c_throw (e : LErr) : CKeepsI i (throw e : C α) := by
  constructor
  intro env cur b cur' hs h
  cases h

theorem c_bind {m : C α} {f : α → C β} (hm : CKeepsI i m) (hf : ∀ a, CKeepsI i (f a)) : CKeepsI i (m >>= f) := by
  constructor
  intro env cur b cur' hs h
  cases hms : m env cur with
  | error e =>
    simp only [bind, ReaderT.bind, StateT.bind, Except.bind, hms] at h
    cases h
  | ok v =>
    obtain ⟨a, s1⟩ := v
    simp only [bind, ReaderT.bind, StateT.bind, Except.bind, hms] at h
    exact (hf a).h env s1 b cur' (hm.h env cur a s1 hs hms) h

theorem c_get_bind {f : Cur → C β} (hf : ∀ s, s.index = i → CKeepsI i (f s)) : CKeepsI i ((get : C Cur) >>= f) := by
  constructor
  intro env cur b cur' hs h
  exact (hf cur hs).h env cur b cur' hs h

theorem c_read_bind {f : Rd → C β} (hf : ∀ s, CKeepsI i (f s)) : CKeepsI i ((read : C Rd) >>= f) := by
  constructor
  intro env cur b cur' hs h
  exact (hf env).h env cur b cur' hs h

theorem c_set {s0 : Cur} (h0 : s0.index = i) : CKeepsI i (set s0 : C PUnit) := by
  constructor
  intro env cur b cur' hs h
  cases h; exact h0

theorem c_modify {f : Cur → Cur} (hf : ∀ s, s.index = i → (f s).index = i) : CKeepsI i (modify f : C PUnit) := by
  constructor
  intro env cur b cur' hs h
  cases h; exact hf cur hs

theorem c_raise (e : Exc) : CKeepsI i (Cu.raise e : C α) := c_throw _

theorem c_liftE (x : Except Exc α) : CKeepsI i (Cu.liftE x : C α) := by
  cases x with
  | ok v => exact c_pure v
  | error e => exact c_throw _

end C

/-- leaves: lemmas about model functions already proved (extended by `macro_rules` below) -/
syntax "keeps_leaf" : tactic
macro_rules | `(tactic| keeps_leaf) => `(tactic| fail "no leaf")

syntax "keeps_step" : tactic
macro_rules | `(tactic| keeps_step) => `(tactic| first
  | intro _
  | assumption
  | with_reducible first
    | exact m_pure _ | exact c_pure _ | exact m_throw _ | exact c_throw _
    | exact m_raise _ | exact c_raise _ | exact m_liftE _ | exact c_liftE _
    | keeps_leaf
    | apply m_set | apply c_set | apply m_modify | apply c_modify
    | apply m_get_bind | apply c_get_bind | apply c_read_bind
    | apply m_bind | apply c_bind
    | apply m_liftC
  | dsimp only
  | split)

macro "keeps" : tactic => `(tactic| repeat' keeps_step)

theorem cu_readline (i : Int) : CKeepsI i Cu.readline := by
  unfold Cu.readline
  keeps

macro_rules | `(tactic| keeps_leaf) => `(tactic| exact cu_readline _)

theorem cu_tell (i : Int) : CKeepsI i Cu.tell := by unfold Cu.tell; keeps
macro_rules | `(tactic| keeps_leaf) => `(tactic| exact cu_tell _)

theorem cu_seek (i : Int) (p : Pos) : CKeepsI i (Cu.seek p) := by unfold Cu.seek; keeps
macro_rules | `(tactic| keeps_leaf) => `(tactic| exact cu_seek _ _)

theorem cu_seek0 (i : Int) : CKeepsI i Cu.seek0 := by unfold Cu.seek0; keeps
macro_rules | `(tactic| keeps_leaf) => `(tactic| exact cu_seek0 _)

theorem cu_skiplines (i : Int) (n : Nat) : CKeepsI i (Cu.skiplines n) := by
  induction n with
  | zero => unfold Cu.skiplines; keeps
  | succ k ih => unfold Cu.skiplines; keeps
macro_rules | `(tactic| keeps_leaf) => `(tactic| exact cu_skiplines _ _)

theorem cu_skipto (i : Int) (kws : List Str) (start : Nat) : CKeepsI i (Cu.skipto kws start) := by unfold Cu.skipto; keeps
macro_rules | `(tactic| keeps_leaf) => `(tactic| exact cu_skipto _ _ _)

theorem cu_skipto1 (i : Int) (kw : String) (start : Nat) : CKeepsI i (Cu.skipto1 kw start) := by unfold Cu.skipto1; keeps
macro_rules | `(tactic| keeps_leaf) => `(tactic| exact cu_skipto1 _ _ _)

theorem cu_skipToNonblank (i : Int) : CKeepsI i Cu.skipToNonblank := by unfold Cu.skipToNonblank; keeps
macro_rules | `(tactic| keeps_leaf) => `(tactic| exact cu_skipToNonblank _)

theorem cu_skipToBlank (i : Int) : CKeepsI i Cu.skipToBlank := by unfold Cu.skipToBlank; keeps
macro_rules | `(tactic| keeps_leaf) => `(tactic| exact cu_skipToBlank _)

theorem cu_readUntil (i : Int) (stop : Str → Bool) (e : Bool) : CKeepsI i (Cu.readUntil stop e) := by unfold Cu.readUntil; keeps
macro_rules | `(tactic| keeps_leaf) => `(tactic| exact cu_readUntil _ _ _)

theorem cu_tableTypeTOUGH2 (i : Int) (h : List Str) : CKeepsI i (Cu.tableTypeTOUGH2 h) := by unfold Cu.tableTypeTOUGH2; keeps
macro_rules | `(tactic| keeps_leaf) => `(tactic| exact cu_tableTypeTOUGH2 _ _)

theorem cu_tableTypePlus (i : Int) (h : List Str) : CKeepsI i (Cu.tableTypePlus h) := by unfold Cu.tableTypePlus; keeps
macro_rules | `(tactic| keeps_leaf) => `(tactic| exact cu_tableTypePlus _ _)

theorem cu_pastThisResult (i : Int) (p : Pos) : CKeepsI i (Cu.pastThisResult p) := by unfold Cu.pastThisResult; keeps
macro_rules | `(tactic| keeps_leaf) => `(tactic| exact cu_pastThisResult _ _)

theorem cu_tableType (i : Int) (x : List Str) : CKeepsI i (Cu.tableType x) := by unfold Cu.tableType; keeps
macro_rules | `(tactic| keeps_leaf) => `(tactic| exact cu_tableType _ _)

theorem cu_nextTableAUTOUGH2 (i : Int) : CKeepsI i Cu.nextTableAUTOUGH2 := by unfold Cu.nextTableAUTOUGH2; keeps
macro_rules | `(tactic| keeps_leaf) => `(tactic| exact cu_nextTableAUTOUGH2 _)

theorem cu_nextTableTOUGH2_loop (i : Int) (f : Nat) : CKeepsI i (Cu.nextTableTOUGH2.loop f) := by
  induction f with
  | zero => unfold Cu.nextTableTOUGH2.loop; keeps
  | succ k ih => unfold Cu.nextTableTOUGH2.loop; keeps
macro_rules | `(tactic| keeps_leaf) => `(tactic| exact cu_nextTableTOUGH2_loop _ _)

theorem cu_nextTableTOUGH2 (i : Int) : CKeepsI i Cu.nextTableTOUGH2 := by unfold Cu.nextTableTOUGH2; keeps
macro_rules | `(tactic| keeps_leaf) => `(tactic| exact cu_nextTableTOUGH2 _)

theorem cu_nextTablePlus (i : Int) : CKeepsI i Cu.nextTablePlus := by unfold Cu.nextTablePlus; keeps
macro_rules | `(tactic| keeps_leaf) => `(tactic| exact cu_nextTablePlus _)

theorem cu_nextTable (i : Int) : CKeepsI i Cu.nextTable := by unfold Cu.nextTable; keeps
macro_rules | `(tactic| keeps_leaf) => `(tactic| exact cu_nextTable _)

/-! ### the reader level -/

theorem m_readline (i : Int) : MKeepsI i Model.Listing.readline := by unfold Model.Listing.readline; keeps
macro_rules | `(tactic| keeps_leaf) => `(tactic| exact m_readline _)

theorem m_tell (i : Int) : MKeepsI i Model.Listing.tell := by unfold Model.Listing.tell; keeps
macro_rules | `(tactic| keeps_leaf) => `(tactic| exact m_tell _)

theorem m_seek (i : Int) (p : Pos) : MKeepsI i (Model.Listing.seek p) := by unfold Model.Listing.seek; keeps
macro_rules | `(tactic| keeps_leaf) => `(tactic| exact m_seek _ _)

theorem m_seek0 (i : Int) : MKeepsI i Model.Listing.seek0 := by unfold Model.Listing.seek0; keeps
macro_rules | `(tactic| keeps_leaf) => `(tactic| exact m_seek0 _)

theorem m_skiplines (i : Int) (n : Nat) : MKeepsI i (Model.Listing.skiplines n) := by unfold Model.Listing.skiplines; keeps
macro_rules | `(tactic| keeps_leaf) => `(tactic| exact m_skiplines _ _)

theorem m_skipto (i : Int) (kws : List Str) (start : Nat) : MKeepsI i (Model.Listing.skipto kws start) := by unfold Model.Listing.skipto; keeps
macro_rules | `(tactic| keeps_leaf) => `(tactic| exact m_skipto _ _ _)

theorem m_skipto1 (i : Int) (kw : String) (start : Nat) : MKeepsI i (Model.Listing.skipto1 kw start) := by unfold Model.Listing.skipto1; keeps
macro_rules | `(tactic| keeps_leaf) => `(tactic| exact m_skipto1 _ _ _)

theorem m_skipToNonblank (i : Int) : MKeepsI i Model.Listing.skipToNonblank := by unfold Model.Listing.skipToNonblank; keeps
macro_rules | `(tactic| keeps_leaf) => `(tactic| exact m_skipToNonblank _)

theorem m_skipToBlank (i : Int) : MKeepsI i Model.Listing.skipToBlank := by unfold Model.Listing.skipToBlank; keeps
macro_rules | `(tactic| keeps_leaf) => `(tactic| exact m_skipToBlank _)

theorem m_readUntil (i : Int) (stop : Str → Bool) (e : Bool) : MKeepsI i (Model.Listing.readUntil stop e) := by unfold Model.Listing.readUntil; keeps
macro_rules | `(tactic| keeps_leaf) => `(tactic| exact m_readUntil _ _ _)

theorem m_getTable (i : Int) (n : String) : MKeepsI i (Model.Listing.getTable n) := by unfold Model.Listing.getTable; keeps
macro_rules | `(tactic| keeps_leaf) => `(tactic| exact m_getTable _ _)

theorem m_hasTable (i : Int) (n : String) : MKeepsI i (Model.Listing.hasTable n) := by unfold Model.Listing.hasTable; keeps
macro_rules | `(tactic| keeps_leaf) => `(tactic| exact m_hasTable _ _)

theorem m_putTable (i : Int) (n : String) (t : Table) : MKeepsI i (Model.Listing.putTable n t) := by unfold Model.Listing.putTable; keeps
macro_rules | `(tactic| keeps_leaf) => `(tactic| exact m_putTable _ _ _)

theorem m_isPlus (i : Int) : MKeepsI i Model.Listing.isPlus := by unfold Model.Listing.isPlus; keeps
macro_rules | `(tactic| keeps_leaf) => `(tactic| exact m_isPlus _)

theorem m_isAutough2 (i : Int) : MKeepsI i Model.Listing.isAutough2 := by unfold Model.Listing.isAutough2; keeps
macro_rules | `(tactic| keeps_leaf) => `(tactic| exact m_isAutough2 _)

theorem m_nextTable (i : Int) : MKeepsI i Model.Listing.nextTable := by unfold Model.Listing.nextTable; keeps
macro_rules | `(tactic| keeps_leaf) => `(tactic| exact m_nextTable _)

theorem m_readTitle (i : Int) : MKeepsI i Model.Listing.readTitle := by unfold Model.Listing.readTitle; keeps
macro_rules | `(tactic| keeps_leaf) => `(tactic| exact m_readTitle _)

theorem m_readHeaderAUTOUGH2 (i : Int) : MKeepsI i Model.Listing.readHeaderAUTOUGH2 := by unfold Model.Listing.readHeaderAUTOUGH2; keeps
macro_rules | `(tactic| keeps_leaf) => `(tactic| exact m_readHeaderAUTOUGH2 _)

theorem m_readHeaderTOUGH2 (i : Int) : MKeepsI i Model.Listing.readHeaderTOUGH2 := by unfold Model.Listing.readHeaderTOUGH2; keeps
macro_rules | `(tactic| keeps_leaf) => `(tactic| exact m_readHeaderTOUGH2 _)

theorem m_readHeader (i : Int) : MKeepsI i Model.Listing.readHeader := by unfold Model.Listing.readHeader; keeps
macro_rules | `(tactic| keeps_leaf) => `(tactic| exact m_readHeader _)

theorem m_readTableAUTOUGH2_loop (i : Int) (start : Option Int) (kw : Str) (f : Nat) (line : Str) (row : Nat) (t : Table) :
    MKeepsI i (Model.Listing.readTableAUTOUGH2.loop start kw f line row t) := by
  induction f generalizing line row t with
  | zero => unfold Model.Listing.readTableAUTOUGH2.loop; keeps
  | succ k ih => unfold Model.Listing.readTableAUTOUGH2.loop; keeps; all_goals apply ih
macro_rules | `(tactic| keeps_leaf) => `(tactic| exact m_readTableAUTOUGH2_loop _ _ _ _ _ _ _)

theorem m_readTableAUTOUGH2 (i : Int) (tn : String) : MKeepsI i (Model.Listing.readTableAUTOUGH2 tn) := by unfold Model.Listing.readTableAUTOUGH2; keeps
macro_rules | `(tactic| keeps_leaf) => `(tactic| exact m_readTableAUTOUGH2 _ _)

theorem m_skipTableAUTOUGH2 (i : Int) (tn : String) : MKeepsI i (Model.Listing.skipTableAUTOUGH2 tn) := by unfold Model.Listing.skipTableAUTOUGH2; keeps
macro_rules | `(tactic| keeps_leaf) => `(tactic| exact m_skipTableAUTOUGH2 _ _)

theorem m_readTableTOUGH2 (i : Int) (tn : String) : MKeepsI i (Model.Listing.readTableTOUGH2 tn) := by unfold Model.Listing.readTableTOUGH2; keeps
macro_rules | `(tactic| keeps_leaf) => `(tactic| exact m_readTableTOUGH2 _ _)

theorem m_skipTableTOUGH2 (i : Int) (tn : String) : MKeepsI i (Model.Listing.skipTableTOUGH2 tn) := by unfold Model.Listing.skipTableTOUGH2; keeps
macro_rules | `(tactic| keeps_leaf) => `(tactic| exact m_skipTableTOUGH2 _ _)

theorem m_readTable (i : Int) (tn : String) : MKeepsI i (Model.Listing.readTable tn) := by unfold Model.Listing.readTable; keeps
macro_rules | `(tactic| keeps_leaf) => `(tactic| exact m_readTable _ _)

theorem m_skipTable (i : Int) (tn : String) : MKeepsI i (Model.Listing.skipTable tn) := by unfold Model.Listing.skipTable; keeps
macro_rules | `(tactic| keeps_leaf) => `(tactic| exact m_skipTable _ _)

theorem m_tablesLoop (i : Int) (act : String → M Unit) (hact : ∀ tn, MKeepsI i (act tn)) (he ce : Bool) (f : Nat) (tn : String) (nelt : Nat) :
    MKeepsI i (Model.Listing.tablesLoop act he ce f tn nelt) := by
  induction f generalizing tn nelt with
  | zero => unfold Model.Listing.tablesLoop; keeps
  | succ k ih => unfold Model.Listing.tablesLoop; keeps; all_goals (first | apply ih | apply hact)

theorem m_readTables (i : Int) : MKeepsI i Model.Listing.readTables := by
  unfold Model.Listing.readTables
  keeps
  all_goals (apply m_tablesLoop; keeps)

/-! ### `load j` leaves the index at `j` -/

/-- whatever the start, a successful run of `m` ends with index `i` -/
structure MEnds {α} (i : Int) (m : M α) : Prop where
  h : ∀ s a s', m s = .ok (a, s') → s'.index = i

theorem ends_bind {α β} {i : Int} {m : M α} {f : α → M β} (hf : ∀ a, MEnds i (f a)) : MEnds i (m >>= f) := by
  constructor
  intro s b s' h
  cases hms : m s with
  | error e =>
    simp only [bind, StateT.bind, Except.bind, hms] at h
    cases h
  | ok v =>
    obtain ⟨a, s1⟩ := v
    simp only [bind, StateT.bind, Except.bind, hms] at h
    exact (hf a).h s1 b s' h

theorem ends_bind_keeps {α β} {i : Int} {m : M α} {f : α → M β} (hm : MEnds i m) (hf : ∀ a, MKeepsI i (f a)) : MEnds i (m >>= f) := by
  constructor
  intro s b s' h
  cases hms : m s with
  | error e =>
    simp only [bind, StateT.bind, Except.bind, hms] at h
    cases h
  | ok v =>
    obtain ⟨a, s1⟩ := v
    simp only [bind, StateT.bind, Except.bind, hms] at h
    exact (hf a).h s1 b s' (hm.h s a s1 hms) h

theorem ends_throw {α} {i : Int} (e : LErr) : MEnds i (throw e : M α) := ⟨fun _ _ _ h => by cases h⟩

theorem ends_modify {i : Int} {f : Rd → Rd} (hf : ∀ s, (f s).index = i) : MEnds i (modify f : M PUnit) := by
  constructor
  intro s a s' h
  cases h; exact hf s

theorem loadResult_ends (j : Nat) : MEnds (j : Int) (loadResult j) := by
  unfold loadResult
  apply ends_bind
  intro s
  split
  · exact ends_throw _
  · apply ends_bind
    intro _
    apply ends_bind_keeps
    · apply ends_modify
      intro s; rfl
    · intro _; exact m_readTables _

/-- `read_tables` (with every method it calls, for every simulator family) leaves `self._index` alone -/
theorem readTables_keeps : MKeeps readTables := MKeeps_of m_readTables

theorem loadResult_index (j : Nat) (s : Rd) (a : Unit) (s' : Rd) (h : (loadResult j).run s = .ok (a, s')) : s'.index = (j : Int) :=
  (loadResult_ends j).h s a s' h

/-- GOAL 1: loading result `j` leaves the index at `j` -/
theorem fileNav_loadSetsIndex (rd : Rd) : Proofs.Nav.LoadSetsIndex (Model.Listing.fileNav rd) := by
  intro j v v' h
  simp only [fileNav] at h ⊢
  split at h
  · rename_i a s' hr
    cases h
    exact loadResult_index j v a _ hr
  · cases h

/-! ### `load j` does not look at the previous position or index -/

theorem loadResult_unfold (j : Nat) (s : Rd) :
    loadResult j s = match s.fullpos[j]? with
      | none => .error (.py .indexError)
      | some p => readTables ({ s with pos := p, index := (j : Int) } : Rd) := by
  unfold loadResult
  show (match s.fullpos[j]? with
      | none => Model.Listing.raise .indexError
      | some p => (do Model.Listing.seek p; modify fun (s : Rd) => { s with index := j }; readTables : M Unit)) s = _
  cases s.fullpos[j]? with
  | none => rfl
  | some p => rfl

theorem loadResult_ignores_pos_index (j : Nat) (s : Rd) (p : Pos) (i : Int) :
    loadResult j ({ s with pos := p, index := i } : Rd) = loadResult j s := by
  rw [loadResult_unfold, loadResult_unfold]

/-- GOAL 2: the result of `load j` is the same from any position and any index -/
theorem load_ignores_pos_index (rd : Rd) (j : Nat) (s : Rd) (p : Pos) (i : Int) :
    (fileNav rd).load j { s with pos := p, index := i } = (fileNav rd).load j s := by
  show (match (loadResult j).run ({ s with pos := p, index := i } : Rd) with
      | .ok (_, s') => Except.ok s'
      | .error e => .error e) = (match (loadResult j).run s with
      | .ok (_, s') => Except.ok s'
      | .error e => .error e)
  show (match (loadResult j) ({ s with pos := p, index := i } : Rd) with
      | .ok (_, s') => Except.ok s'
      | .error e => .error e) = (match (loadResult j) s with
      | .ok (_, s') => Except.ok s'
      | .error e => .error e)
  rw [loadResult_ignores_pos_index]

/-! ### `load j` does not look at the previous time or step

  `TS m`: `m` neither reads nor writes `time`/`step` (it commutes with overwriting them);
  `Abs m`: `m` overwrites both before it reads either (its outcome does not depend on them);
  `CEnv c`: the cursor computation `c` does not read them from the reader. -/

def upd (s : Rd) (t : FVal) (st : Step) : Rd := { s with time := t, step := st }

structure TS {α} (m : M α) : Prop where
  h : ∀ s t st, m (upd s t st) = Except.map (fun p => (p.1, upd p.2 t st)) (m s)
structure Abs {α} (m : M α) : Prop where
  h : ∀ s t st, m (upd s t st) = m s
structure CEnv {α} (c : C α) : Prop where
  h : ∀ env t st cur, c (upd env t st) cur = c env cur

section TSlemmas
variable {α β : Type}

theorem bind_run (m : M α) (f : α → M β) (x : Rd) :
    (m >>= f) x = match m x with | .ok (a, s1) => f a s1 | .error e => .error e := by
  simp only [bind, StateT.bind, Except.bind]
  cases m x with
  | error e => rfl
  | ok v => obtain ⟨a, s1⟩ := v; rfl

theorem cbind_run (m : C α) (f : α → C β) (env : Rd) (x : Cur) :
    (m >>= f) env x = match m env x with | .ok (a, s1) => f a env s1 | .error e => .error e := by
  simp only [bind, ReaderT.bind, StateT.bind, Except.bind]
  cases m env x with
  | error e => rfl
  | ok v => obtain ⟨a, s1⟩ := v; rfl

theorem ts_pure (a : α) : TS (pure a : M α) := ⟨fun _ _ _ => rfl⟩
theorem ts_throw (e : LErr) : TS (throw e : M α) := ⟨fun _ _ _ => rfl⟩
theorem ts_raise (e : Exc) : TS (Model.Listing.raise e : M α) := ts_throw _
theorem ts_liftE (x : Except Exc α) : TS (Model.Listing.liftE x : M α) := by
  cases x with
  | ok v => exact ts_pure v
  | error e => exact ts_throw _

theorem ts_bind {m : M α} {f : α → M β} (hm : TS m) (hf : ∀ a, TS (f a)) : TS (m >>= f) := by
  constructor
  intro s t st
  rw [bind_run, bind_run, hm.h]
  cases m s with
  | error e => rfl
  | ok v => obtain ⟨a, s1⟩ := v; exact (hf a).h s1 t st

/-- the continuation reads neither field of the state it is given -/
theorem ts_get_bind {f : Rd → M β} (h1 : ∀ s t st, f (upd s t st) = f s) (h2 : ∀ s, TS (f s)) : TS ((get : M Rd) >>= f) := by
  constructor
  intro s t st
  show f (upd s t st) (upd s t st) = Except.map _ (f s s)
  rw [h1]; exact (h2 s).h s t st

theorem ts_modify {f : Rd → Rd} (hf : ∀ s t st, f (upd s t st) = upd (f s) t st) : TS (modify f : M PUnit) := by
  constructor
  intro s t st
  show Except.ok (PUnit.unit, f (upd s t st)) = _
  rw [hf]; rfl

theorem abs_throw (e : LErr) : Abs (throw e : M α) := ⟨fun _ _ _ => rfl⟩
theorem abs_raise (e : Exc) : Abs (Model.Listing.raise e : M α) := abs_throw _

theorem abs_modify {f : Rd → Rd} (hf : ∀ s t st, f (upd s t st) = f s) : Abs (modify f : M PUnit) := by
  constructor
  intro s t st
  show Except.ok (PUnit.unit, f (upd s t st)) = _
  rw [hf]; rfl

theorem abs_bind_ts {m : M α} {f : α → M β} (hm : TS m) (hf : ∀ a, Abs (f a)) : Abs (m >>= f) := by
  constructor
  intro s t st
  rw [bind_run, bind_run, hm.h]
  cases m s with
  | error e => rfl
  | ok v => obtain ⟨a, s1⟩ := v; exact (hf a).h s1 t st

theorem abs_bind {m : M α} {f : α → M β} (hm : Abs m) : Abs (m >>= f) := by
  constructor
  intro s t st
  rw [bind_run, bind_run, hm.h]

theorem abs_get_bind {f : Rd → M β} (h1 : ∀ s t st, f (upd s t st) = f s) (h2 : ∀ s, Abs (f s)) : Abs ((get : M Rd) >>= f) := by
  constructor
  intro s t st
  show f (upd s t st) (upd s t st) = f s s
  rw [h1]; exact (h2 s).h s t st

theorem ce_pure (a : α) : CEnv (pure a : C α) := ⟨fun _ _ _ _ => rfl⟩
theorem ce_throw (e : LErr) : CEnv (throw e : C α) := ⟨fun _ _ _ _ => rfl⟩
theorem ce_raise (e : Exc) : CEnv (Cu.raise e : C α) := ce_throw _
theorem ce_liftE (x : Except Exc α) : CEnv (Cu.liftE x : C α) := by
  cases x with
  | ok v => exact ce_pure v
  | error e => exact ce_throw _
theorem ce_set (s0 : Cur) : CEnv (set s0 : C PUnit) := ⟨fun _ _ _ _ => rfl⟩
theorem ce_modify (f : Cur → Cur) : CEnv (modify f : C PUnit) := ⟨fun _ _ _ _ => rfl⟩

theorem ce_bind {m : C α} {f : α → C β} (hm : CEnv m) (hf : ∀ a, CEnv (f a)) : CEnv (m >>= f) := by
  constructor
  intro env t st cur
  rw [cbind_run, cbind_run, hm.h]
  cases m env cur with
  | error e => rfl
  | ok v => obtain ⟨a, s1⟩ := v; exact (hf a).h env t st s1

theorem ce_get_bind {f : Cur → C β} (hf : ∀ s, CEnv (f s)) : CEnv ((get : C Cur) >>= f) := by
  constructor
  intro env t st cur
  exact (hf cur).h env t st cur

theorem ce_read_bind {f : Rd → C β} (h1 : ∀ s t st, f (upd s t st) = f s) (h2 : ∀ s, CEnv (f s)) : CEnv ((read : C Rd) >>= f) := by
  constructor
  intro env t st cur
  show f (upd env t st) (upd env t st) cur = f env env cur
  rw [h1]; exact (h2 env).h env t st cur

theorem ts_liftC {c : C α} (hc : CEnv c) : TS (liftC c) := by
  constructor
  intro s t st
  unfold liftC
  show (match c (upd s t st) ⟨s.pos, s.index⟩ with
    | .ok (a, cur) => Except.ok (a, upd { s with pos := cur.pos, index := cur.index } t st)
    | .error e => .error e) = _
  rw [hc.h]
  cases c s ⟨s.pos, s.index⟩ with
  | error e => rfl
  | ok v => obtain ⟨a, s1⟩ := v; rfl

end TSlemmas

syntax "fr_leaf" : tactic
macro_rules | `(tactic| fr_leaf) => `(tactic| fail "no leaf")

/-- side goals `f (upd s t st) = f s` and `f (upd s t st) = upd (f s) t st` -/
syntax "fr_side" : tactic
macro_rules | `(tactic| fr_side) => `(tactic| (intro s t st; first | rfl | (dsimp only [upd]; first | rfl | (split <;> rfl))))

syntax "fr_step" : tactic
macro_rules | `(tactic| fr_step) => `(tactic| first
  | intro _
  | assumption
  | with_reducible first
    | exact ts_pure _ | exact ce_pure _ | exact ts_throw _ | exact ce_throw _
    | exact ts_raise _ | exact ce_raise _ | exact ts_liftE _ | exact ce_liftE _
    | exact ce_set _ | exact ce_modify _
    | fr_leaf
    | apply ce_get_bind
  | ((with_reducible apply ts_modify); fr_side)
  | ((with_reducible apply ts_get_bind); fr_side)
  | ((with_reducible apply ce_read_bind); fr_side)
  | with_reducible first
    | apply ts_bind | apply ce_bind
    | apply ts_liftC
  | dsimp only
  | split)

macro "frame" : tactic => `(tactic| repeat' fr_step)

theorem ce_readline : CEnv Cu.readline := by unfold Cu.readline; frame
macro_rules | `(tactic| fr_leaf) => `(tactic| exact ce_readline )

theorem ce_tell : CEnv Cu.tell := by unfold Cu.tell; frame
macro_rules | `(tactic| fr_leaf) => `(tactic| exact ce_tell )

theorem ce_seek (p : Pos) : CEnv (Cu.seek p) := by unfold Cu.seek; frame
macro_rules | `(tactic| fr_leaf) => `(tactic| exact ce_seek _)

theorem ce_seek0 : CEnv Cu.seek0 := by unfold Cu.seek0; frame
macro_rules | `(tactic| fr_leaf) => `(tactic| exact ce_seek0 )

theorem ce_skiplines (n : Nat) : CEnv (Cu.skiplines n) := by
  induction n with
  | zero => unfold Cu.skiplines; frame
  | succ k ih => unfold Cu.skiplines; frame
macro_rules | `(tactic| fr_leaf) => `(tactic| exact ce_skiplines _)

theorem ce_skipto (kws : List Str) (start : Nat) : CEnv (Cu.skipto kws start) := by unfold Cu.skipto; frame
macro_rules | `(tactic| fr_leaf) => `(tactic| exact ce_skipto _ _)

theorem ce_skipto1 (kw : String) (start : Nat) : CEnv (Cu.skipto1 kw start) := by unfold Cu.skipto1; frame
macro_rules | `(tactic| fr_leaf) => `(tactic| exact ce_skipto1 _ _)

theorem ce_skipToNonblank : CEnv Cu.skipToNonblank := by unfold Cu.skipToNonblank; frame
macro_rules | `(tactic| fr_leaf) => `(tactic| exact ce_skipToNonblank )

theorem ce_skipToBlank : CEnv Cu.skipToBlank := by unfold Cu.skipToBlank; frame
macro_rules | `(tactic| fr_leaf) => `(tactic| exact ce_skipToBlank )

theorem ce_readUntil (stop : Str → Bool) (e : Bool) : CEnv (Cu.readUntil stop e) := by unfold Cu.readUntil; frame
macro_rules | `(tactic| fr_leaf) => `(tactic| exact ce_readUntil _ _)

theorem ce_tableTypeTOUGH2 (h : List Str) : CEnv (Cu.tableTypeTOUGH2 h) := by unfold Cu.tableTypeTOUGH2; frame
macro_rules | `(tactic| fr_leaf) => `(tactic| exact ce_tableTypeTOUGH2 _)

theorem ce_tableTypePlus (h : List Str) : CEnv (Cu.tableTypePlus h) := by unfold Cu.tableTypePlus; frame
macro_rules | `(tactic| fr_leaf) => `(tactic| exact ce_tableTypePlus _)

theorem ce_pastThisResult (p : Pos) : CEnv (Cu.pastThisResult p) := by unfold Cu.pastThisResult; frame
macro_rules | `(tactic| fr_leaf) => `(tactic| exact ce_pastThisResult _)

theorem ce_tableType (x : List Str) : CEnv (Cu.tableType x) := by unfold Cu.tableType; frame
macro_rules | `(tactic| fr_leaf) => `(tactic| exact ce_tableType _)

theorem ce_nextTableAUTOUGH2 : CEnv Cu.nextTableAUTOUGH2 := by unfold Cu.nextTableAUTOUGH2; frame
macro_rules | `(tactic| fr_leaf) => `(tactic| exact ce_nextTableAUTOUGH2 )

theorem ce_nextTableTOUGH2_loop (f : Nat) : CEnv (Cu.nextTableTOUGH2.loop f) := by
  induction f with
  | zero => unfold Cu.nextTableTOUGH2.loop; frame
  | succ k ih => unfold Cu.nextTableTOUGH2.loop; frame
macro_rules | `(tactic| fr_leaf) => `(tactic| exact ce_nextTableTOUGH2_loop _)

theorem ce_nextTableTOUGH2 : CEnv Cu.nextTableTOUGH2 := by unfold Cu.nextTableTOUGH2; frame
macro_rules | `(tactic| fr_leaf) => `(tactic| exact ce_nextTableTOUGH2 )

theorem ce_nextTablePlus : CEnv Cu.nextTablePlus := by unfold Cu.nextTablePlus; frame
macro_rules | `(tactic| fr_leaf) => `(tactic| exact ce_nextTablePlus )

theorem ce_nextTable : CEnv Cu.nextTable := by unfold Cu.nextTable; frame
macro_rules | `(tactic| fr_leaf) => `(tactic| exact ce_nextTable )

theorem ts_readline : TS Model.Listing.readline := by unfold Model.Listing.readline; frame
macro_rules | `(tactic| fr_leaf) => `(tactic| exact ts_readline )

theorem ts_tell : TS Model.Listing.tell := by unfold Model.Listing.tell; frame
macro_rules | `(tactic| fr_leaf) => `(tactic| exact ts_tell )

theorem ts_seek (p : Pos) : TS (Model.Listing.seek p) := by unfold Model.Listing.seek; frame
macro_rules | `(tactic| fr_leaf) => `(tactic| exact ts_seek _)

theorem ts_seek0 : TS Model.Listing.seek0 := by unfold Model.Listing.seek0; frame
macro_rules | `(tactic| fr_leaf) => `(tactic| exact ts_seek0 )

theorem ts_skiplines (n : Nat) : TS (Model.Listing.skiplines n) := by unfold Model.Listing.skiplines; frame
macro_rules | `(tactic| fr_leaf) => `(tactic| exact ts_skiplines _)

theorem ts_skipto (kws : List Str) (start : Nat) : TS (Model.Listing.skipto kws start) := by unfold Model.Listing.skipto; frame
macro_rules | `(tactic| fr_leaf) => `(tactic| exact ts_skipto _ _)

theorem ts_skipto1 (kw : String) (start : Nat) : TS (Model.Listing.skipto1 kw start) := by unfold Model.Listing.skipto1; frame
macro_rules | `(tactic| fr_leaf) => `(tactic| exact ts_skipto1 _ _)

theorem ts_skipToNonblank : TS Model.Listing.skipToNonblank := by unfold Model.Listing.skipToNonblank; frame
macro_rules | `(tactic| fr_leaf) => `(tactic| exact ts_skipToNonblank )

theorem ts_skipToBlank : TS Model.Listing.skipToBlank := by unfold Model.Listing.skipToBlank; frame
macro_rules | `(tactic| fr_leaf) => `(tactic| exact ts_skipToBlank )

theorem ts_readUntil (stop : Str → Bool) (e : Bool) : TS (Model.Listing.readUntil stop e) := by unfold Model.Listing.readUntil; frame
macro_rules | `(tactic| fr_leaf) => `(tactic| exact ts_readUntil _ _)

theorem ts_getTable (n : String) : TS (Model.Listing.getTable n) := by unfold Model.Listing.getTable; frame
macro_rules | `(tactic| fr_leaf) => `(tactic| exact ts_getTable _)

theorem ts_hasTable (n : String) : TS (Model.Listing.hasTable n) := by unfold Model.Listing.hasTable; frame
macro_rules | `(tactic| fr_leaf) => `(tactic| exact ts_hasTable _)

theorem ts_putTable (n : String) (t : Table) : TS (Model.Listing.putTable n t) := by unfold Model.Listing.putTable; frame
macro_rules | `(tactic| fr_leaf) => `(tactic| exact ts_putTable _ _)

theorem ts_isPlus : TS Model.Listing.isPlus := by unfold Model.Listing.isPlus; frame
macro_rules | `(tactic| fr_leaf) => `(tactic| exact ts_isPlus )

theorem ts_nextTable : TS Model.Listing.nextTable := by unfold Model.Listing.nextTable; frame
macro_rules | `(tactic| fr_leaf) => `(tactic| exact ts_nextTable )

theorem ts_readTitle : TS Model.Listing.readTitle := by unfold Model.Listing.readTitle; frame
macro_rules | `(tactic| fr_leaf) => `(tactic| exact ts_readTitle )

syntax "abs_leaf" : tactic
macro_rules | `(tactic| abs_leaf) => `(tactic| fail "no leaf")

syntax "abs_step" : tactic
macro_rules | `(tactic| abs_step) => `(tactic| first
  | intro _
  | assumption
  | with_reducible first
    | exact abs_throw _ | exact abs_raise _
    | abs_leaf
  | ((with_reducible apply abs_modify); fr_side)
  | ((with_reducible apply abs_get_bind); fr_side)
  | ((with_reducible apply abs_bind); first | exact abs_raise _ | exact abs_throw _ | (with_reducible abs_leaf) | ((with_reducible apply abs_modify); fr_side))
  | with_reducible apply abs_bind_ts
  | fr_step)

macro "absorb" : tactic => `(tactic| repeat' abs_step)

theorem abs_readHeaderAUTOUGH2 : Abs Model.Listing.readHeaderAUTOUGH2 := by unfold Model.Listing.readHeaderAUTOUGH2; absorb
macro_rules | `(tactic| abs_leaf) => `(tactic| exact abs_readHeaderAUTOUGH2)

theorem ts_readTableAUTOUGH2_loop (start : Option Int) (kw : Str) (f : Nat) (line : Str) (row : Nat) (t : Table) :
    TS (Model.Listing.readTableAUTOUGH2.loop start kw f line row t) := by
  induction f generalizing line row t with
  | zero => unfold Model.Listing.readTableAUTOUGH2.loop; frame
  | succ k ih => unfold Model.Listing.readTableAUTOUGH2.loop; frame; all_goals apply ih
macro_rules | `(tactic| fr_leaf) => `(tactic| exact ts_readTableAUTOUGH2_loop _ _ _ _ _ _)

theorem ts_readTableAUTOUGH2 (tn : String) : TS (Model.Listing.readTableAUTOUGH2 tn) := by unfold Model.Listing.readTableAUTOUGH2; frame
macro_rules | `(tactic| fr_leaf) => `(tactic| exact ts_readTableAUTOUGH2 _)

theorem ts_skipTableAUTOUGH2 (tn : String) : TS (Model.Listing.skipTableAUTOUGH2 tn) := by unfold Model.Listing.skipTableAUTOUGH2; frame
macro_rules | `(tactic| fr_leaf) => `(tactic| exact ts_skipTableAUTOUGH2 _)

theorem ts_skipTableTOUGH2 (tn : String) : TS (Model.Listing.skipTableTOUGH2 tn) := by unfold Model.Listing.skipTableTOUGH2; frame
macro_rules | `(tactic| fr_leaf) => `(tactic| exact ts_skipTableTOUGH2 _)

theorem ts_skipTable (tn : String) : TS (Model.Listing.skipTable tn) := by unfold Model.Listing.skipTable; frame
macro_rules | `(tactic| fr_leaf) => `(tactic| exact ts_skipTable _)

theorem ts_tablesLoop (act : String → M Unit) (hact : ∀ tn, TS (act tn)) (ce : Bool) (f : Nat) (tn : String) (nelt : Nat) :
    TS (Model.Listing.tablesLoop act false ce f tn nelt) := by
  induction f generalizing tn nelt with
  | zero => unfold Model.Listing.tablesLoop; frame
  | succ k ih => unfold Model.Listing.tablesLoop; frame; all_goals (first | apply ih | apply hact | contradiction)

theorem abs_readHeaderTOUGH2 : Abs Model.Listing.readHeaderTOUGH2 := by
  unfold Model.Listing.readHeaderTOUGH2
  absorb
macro_rules | `(tactic| abs_leaf) => `(tactic| exact abs_readHeaderTOUGH2)

theorem abs_readHeader : Abs Model.Listing.readHeader := by unfold Model.Listing.readHeader; absorb
macro_rules | `(tactic| abs_leaf) => `(tactic| exact abs_readHeader)

theorem abs_tablesLoop (act : String → M Unit) (ce : Bool) (f : Nat) (tn : String) (nelt : Nat) :
    Abs (Model.Listing.tablesLoop act true ce (f + 1) tn nelt) := by
  unfold Model.Listing.tablesLoop
  absorb
  all_goals contradiction


theorem ts_get_bind_pt {β} {f : Rd → M β}
    (h : ∀ s t st, f (upd s t st) (upd s t st) = Except.map (fun p => (p.1, upd p.2 t st)) (f s s)) : TS ((get : M Rd) >>= f) :=
  ⟨fun s t st => h s t st⟩

theorem ts_readTableTOUGH2 (tn : String) : TS (Model.Listing.readTableTOUGH2 tn) := by
  unfold Model.Listing.readTableTOUGH2
  apply ts_bind (ts_getTable _)
  intro tb
  apply ts_bind (ts_skiplines _)
  intro _
  apply ts_get_bind_pt
  intro s t st
  dsimp only [upd]
  generalize readRowsL tb.keyPos tb.cols.length tb.numpos tb.skips s.pos.rest tb = r
  cases r with
  | error e => rfl
  | ok v =>
    obtain ⟨t', rest'⟩ := v
    dsimp only
    rw [bind_run, bind_run]
    exact (ts_putTable tn t').h ({ s with pos := ⟨s.pos.no + (s.pos.rest.length - rest'.length), rest'⟩ } : Rd) t st
macro_rules | `(tactic| fr_leaf) => `(tactic| exact ts_readTableTOUGH2 _)

theorem ts_readTable (tn : String) : TS (Model.Listing.readTable tn) := by unfold Model.Listing.readTable; frame
macro_rules | `(tactic| fr_leaf) => `(tactic| exact ts_readTable _)

theorem abs_readTables : Abs Model.Listing.readTables := by
  unfold Model.Listing.readTables
  absorb
  rename_i s _ _
  exact abs_tablesLoop _ _ (s.pos.rest.length + 1) _ _

theorem loadResult_ignores_time_step (j : Nat) (s : Rd) (t : FVal) (st : Step) :
    loadResult j ({ s with time := t, step := st } : Rd) = loadResult j s := by
  rw [loadResult_unfold, loadResult_unfold]
  dsimp only
  cases s.fullpos[j]? with
  | none => rfl
  | some p => exact abs_readTables.h { s with pos := p, index := (j : Int) } t st

/-- GOAL 3: the result of `load j` does not depend on the time and step shown before
    (`read_header` overwrites both before anything reads them) -/
theorem load_ignores_time_step (rd : Rd) (j : Nat) (s : Rd) (t : FVal) (st : Step) :
    (fileNav rd).load j { s with time := t, step := st } = (fileNav rd).load j s := by
  show (match (loadResult j) ({ s with time := t, step := st } : Rd) with
      | .ok (_, s') => Except.ok s'
      | .error e => .error e) = (match (loadResult j) s with
      | .ok (_, s') => Except.ok s'
      | .error e => .error e)
  rw [loadResult_ignores_time_step]


end Proofs.SeriesNav
