/-
  Proofs for C04, part 6b: the announced connection pairs are distinct and join two different
  announced blocks -- derived from the block-name hypotheses, the layer stack and the geometry's
  connection registry.
-/
import PyTough.Proofs.FromGeoInj
import PyTough.Proofs.FromGeoTotal
namespace Proofs.FromGeo
open Py Model.FromGeo

/-! ### the announced connection pairs are distinct -/

/-- shape of the pairs of the vertical loop -/
theorem vertNames_spec (g : Geo) (first : Bool) (above lay : Layer) :
    ∀ (cols : List Column) (v : List (Str × Str)), vertNames g first above lay cols = .ok v →
      (∃ ns, layerBlockNames g.convention lay cols = .ok ns ∧ (v.map (·.1)).Sublist ns) ∧
      ∀ p ∈ v, ∃ col ∈ cols, blockName g.convention lay.name col.name = .ok p.1 ∧
        ((g.atmType = 0 ∧ g.blockNames.head? = some p.2) ∨
         (g.atmType = 1 ∧ blockName g.convention g.layer0.name col.name = .ok p.2) ∨
         (first = false ∧ ¬ col.surface ≤ lay.top ∧ blockName g.convention above.name col.name = .ok p.2)) := by
  intro cols
  induction cols with
  | nil => intro v h; simp only [vertNames] at h; cases h; exact ⟨⟨[], rfl, List.Sublist.refl _⟩, fun p hp => (by cases hp)⟩
  | cons col rest ih =>
    intro v h
    simp only [vertNames] at h
    cases ho : vertName g first above lay col with
    | error e => rw [ho] at h; cases h
    | ok o =>
      rw [ho] at h
      simp only at h
      cases hr : vertNames g first above lay rest with
      | error e => rw [hr] at h; cases h
      | ok r =>
        rw [hr] at h
        cases h
        obtain ⟨⟨ns', hns', hsub⟩, hshape⟩ := ih r hr
        -- the head column
        unfold vertName at ho
        cases hthis : blockName g.convention lay.name col.name with
        | error e => rw [hthis] at ho; cases ho
        | ok this =>
          rw [hthis] at ho
          simp only at ho
          have hhead : ∀ p ∈ o.toList, p.1 = this ∧
              ((g.atmType = 0 ∧ g.blockNames.head? = some p.2) ∨
               (g.atmType = 1 ∧ blockName g.convention g.layer0.name col.name = .ok p.2) ∨
               (first = false ∧ ¬ col.surface ≤ lay.top ∧ blockName g.convention above.name col.name = .ok p.2)) := by
            intro p hp
            by_cases hc : (first = true ∨ col.surface ≤ lay.top)
            · simp only [hc, if_true] at ho
              by_cases h0 : g.atmType = 0
              · simp only [h0, if_true] at ho
                cases hh : g.blockNames.head? with
                | none => rw [hh] at ho; cases ho
                | some a =>
                  rw [hh] at ho; cases ho
                  simp only [Option.toList_some, List.mem_singleton] at hp
                  subst hp
                  exact ⟨rfl, Or.inl ⟨h0, rfl⟩⟩
              · by_cases h1 : g.atmType = 1
                · simp only [h1, if_true, if_false, Nat.one_ne_zero] at ho
                  cases ha : blockName g.convention g.layer0.name col.name with
                  | error e => rw [ha] at ho; cases ho
                  | ok a =>
                    rw [ha] at ho; cases ho
                    simp only [Option.toList_some, List.mem_singleton] at hp
                    subst hp
                    exact ⟨rfl, Or.inr (Or.inl ⟨h1, rfl⟩)⟩
                · simp only [h0, h1, if_false] at ho
                  cases ho
                  cases hp
            · simp only [hc, if_false] at ho
              cases ha : blockName g.convention above.name col.name with
              | error e => rw [ha] at ho; cases ho
              | ok a =>
                rw [ha] at ho; cases ho
                simp only [Option.toList_some, List.mem_singleton] at hp
                subst hp
                have hc' := not_or.1 hc
                exact ⟨rfl, Or.inr (Or.inr ⟨by simpa using hc'.1, hc'.2, rfl⟩)⟩
          refine ⟨⟨this :: ns', by simp [layerBlockNames, hthis, hns'], ?_⟩, ?_⟩
          · rw [List.map_append]
            cases o with
            | none => simpa using hsub.cons this
            | some p =>
              have hp1 := (hhead p (by simp)).1
              simp only [Option.toList_some, List.map_cons, List.map_nil, List.singleton_append, hp1]
              exact hsub.cons_cons this
          · intro p hp
            rcases List.mem_append.1 hp with hp | hp
            · obtain ⟨h1, h2⟩ := hhead p hp
              exact ⟨col, List.mem_cons_self, h1 ▸ hthis, h2⟩
            · obtain ⟨c, hc, h1, h2⟩ := hshape p hp
              exact ⟨c, List.mem_cons_of_mem _ hc, h1, h2⟩

theorem horizNames_spec (conv : Nat) (lay : Layer) :
    ∀ (ks : List Conn) (h : List (Str × Str)), horizNames conv lay ks = .ok h →
      ∀ p ∈ h, ∃ k ∈ ks, blockName conv lay.name k.col0.name = .ok p.1 ∧ blockName conv lay.name k.col1.name = .ok p.2 := by
  intro ks
  induction ks with
  | nil => intro h hh; simp only [horizNames] at hh; cases hh; intro p hp; cases hp
  | cons k rest ih =>
    intro h hh
    simp only [horizNames, horizName] at hh
    split at hh
    · cases hh
    · rename_i pr hpr
      split at hpr
      · cases hpr
      · rename_i a ha
        split at hpr
        · cases hpr
        · rename_i b hb
          cases hpr
          split at hh
          · cases hh
          · rename_i r hr
            cases hh
            intro p hp
            rcases List.mem_cons.1 hp with rfl | hp'
            · exact ⟨k, List.mem_cons_self, ha, hb⟩
            · obtain ⟨k', hk', h1, h2⟩ := ih r hr p hp'
              exact ⟨k', List.mem_cons_of_mem _ hk', h1, h2⟩

/-- the pairs of the horizontal loop of one layer are distinct -/
theorem horizNames_nodup (m : BlockMap) (conv : Nat) (lay : Layer) (lcols : List Column)
    (hinj : ∀ c ∈ lcols, ∀ c' ∈ lcols, ∀ n n', blockName conv lay.name c.name = .ok n →
      blockName conv lay.name c'.name = .ok n' → applyMap m n = applyMap m n' → c = c') :
    ∀ (ks : List Conn) (h : List (Str × Str)), horizNames conv lay ks = .ok h →
      (ks.map (fun k => (k.col0, k.col1))).Nodup → (∀ k ∈ ks, k.col0 ∈ lcols ∧ k.col1 ∈ lcols) →
      (h.map (mapPair m)).Nodup := by
  intro ks
  induction ks with
  | nil => intro h hh _ _; simp only [horizNames] at hh; cases hh; exact List.nodup_nil
  | cons k rest ih =>
    intro h hh hnd hmem
    have hspec := horizNames_spec conv lay (k :: rest) h hh
    simp only [horizNames, horizName] at hh
    split at hh
    · cases hh
    · rename_i pr hpr
      split at hpr
      · cases hpr
      · rename_i a ha
        split at hpr
        · cases hpr
        · rename_i b hb
          cases hpr
          split at hh
          · cases hh
          · rename_i r hr
            cases hh
            simp only [List.map_cons, List.nodup_cons] at hnd ⊢
            refine ⟨?_, ih r hr hnd.2 (fun k' hk' => hmem k' (List.mem_cons_of_mem _ hk'))⟩
            intro hin
            rw [List.mem_map] at hin
            obtain ⟨q, hq, hqe⟩ := hin
            obtain ⟨k', hk', h1, h2⟩ := horizNames_spec conv lay rest r hr q hq
            simp only [mapPair, Prod.mk.injEq] at hqe
            have hk := hmem k List.mem_cons_self
            have hk'm := hmem k' (List.mem_cons_of_mem _ hk')
            have e0 := hinj k'.col0 hk'm.1 k.col0 hk.1 _ _ h1 ha hqe.1
            have e1 := hinj k'.col1 hk'm.2 k.col1 hk.2 _ _ h2 hb hqe.2
            apply hnd.1
            rw [List.mem_map]
            exact ⟨k', hk', by rw [e0, e1]⟩

end Proofs.FromGeo

namespace Proofs.FromGeo
open Py Model.FromGeo

theorem nodup_of_map {α β} (f : α → β) : ∀ (l : List α), (l.map f).Nodup → l.Nodup := by
  intro l
  induction l with
  | nil => intro _; exact List.nodup_nil
  | cons a l ih =>
    intro h
    simp only [List.map_cons, List.nodup_cons, List.mem_map, not_exists, not_and] at h
    exact List.nodup_cons.2 ⟨fun hm => h.1 a hm rfl, ih h.2⟩

theorem layerBlockNames_nodup (m : BlockMap) (conv : Nat) (lay : Layer) :
    ∀ (cols : List Column) (ns : List Str), layerBlockNames conv lay cols = .ok ns → cols.Nodup →
      (∀ c ∈ cols, ∀ c' ∈ cols, ∀ n n', blockName conv lay.name c.name = .ok n →
        blockName conv lay.name c'.name = .ok n' → applyMap m n = applyMap m n' → c = c') →
      (ns.map (applyMap m)).Nodup := by
  intro cols
  induction cols with
  | nil => intro ns h _ _; simp only [layerBlockNames] at h; cases h; exact List.nodup_nil
  | cons c cs ih =>
    intro ns h hnd hinj
    simp only [layerBlockNames] at h
    split at h
    · cases h
    · rename_i n hn
      split at h
      · cases h
      · rename_i ns' hns
        cases h
        obtain ⟨hc, hcs⟩ := List.nodup_cons.1 hnd
        simp only [List.map_cons, List.nodup_cons]
        refine ⟨?_, ih ns' hns hcs (fun x hx y hy => hinj x (List.mem_cons_of_mem _ hx) y (List.mem_cons_of_mem _ hy))⟩
        intro hin
        rw [List.mem_map] at hin
        obtain ⟨n', hn', he⟩ := hin
        obtain ⟨c', hc', hb'⟩ := (layerBlockNames_mem conv lay cs ns' hns).2 n' hn'
        have := hinj c' (List.mem_cons_of_mem _ hc') c List.mem_cons_self n' n hb' hn he
        exact hc (this ▸ hc')

theorem sub_layers (g : Geo) (pre : List Layer) (above : Layer) (ls : List Layer)
    (hll : g.layerlist = pre ++ above :: ls) : ∀ x ∈ ls, x ∈ g.layers := by
  intro x hx
  cases pre with
  | nil =>
    simp only [Geo.layerlist, List.nil_append, List.cons.injEq] at hll
    rw [hll.2]; exact hx
  | cons p pre' =>
    simp only [Geo.layerlist, List.cons_append, List.cons.injEq] at hll
    rw [hll.2]; simp [hx]

theorem connNamesFrom_nodup (g : Geo) (m : BlockMap) (hf : Fresh g)
    (hn : (g.blockNames.map (applyMap m)).Nodup) (hwf : LayersWF g) (hcw : ConnsWF g) :
    ∀ (ls : List Layer) (first : Bool) (above : Layer) (pre : List Layer) (L : List (Str × Str)),
      g.layerlist = pre ++ above :: ls → first = decide (pre = []) →
      connNamesFrom g first above ls = .ok L →
      (L.map (mapPair m)).Nodup ∧
      ∀ p ∈ L, ∃ lay ∈ ls, ∃ col ∈ layerCols g lay, blockName g.convention lay.name col.name = .ok p.1 := by
  obtain ⟨a, u, ha, hb, I3, I1, I2, _⟩ := inj_facts g m hf hn
  have hlnd : g.layerlist.Nodup := nodup_of_map _ _ hwf.2.2
  intro ls
  induction ls with
  | nil =>
    intro first above pre L _ _ h
    simp only [connNamesFrom] at h; cases h
    exact ⟨List.nodup_nil, fun p hp => (by cases hp)⟩
  | cons lay ls ih =>
    intro first above pre L hll hfirst h
    simp only [connNamesFrom] at h
    cases hv : vertNames g first above lay (layerCols g lay) with
    | error e => rw [hv] at h; cases h
    | ok v =>
      rw [hv] at h
      simp only at h
      cases hh : horizNames g.convention lay (layerConns g (layerCols g lay)) with
      | error e => rw [hh] at h; cases h
      | ok hz =>
        rw [hh] at h
        simp only at h
        cases hr : connNamesFrom g false lay ls with
        | error e => rw [hr] at h; cases h
        | ok r =>
          rw [hr] at h
          cases h
          have hll' : g.layerlist = (pre ++ [above]) ++ lay :: ls := by rw [hll]; simp
          obtain ⟨rnd, rshape⟩ := ih false lay (pre ++ [above]) r hll' (by simp) hr
          obtain ⟨hadj, _, hlay⟩ := chain_adjacent g.layers g.layer0 hwf.2.1 pre above lay ls (by simpa [Geo.layerlist] using hll)
          have hsub := sub_layers g (pre ++ [above]) lay ls hll'
          -- the layer list has no repetition
          have hnd' := hlnd
          rw [hll] at hnd'
          obtain ⟨_, hnd2, _⟩ := List.nodup_append.1 hnd'
          obtain ⟨habove_notin, hnd3⟩ := List.nodup_cons.1 hnd2
          obtain ⟨hlay_notin, _⟩ := List.nodup_cons.1 hnd3
          have habove_ne : above ≠ lay := fun e => habove_notin (e ▸ List.mem_cons_self)
          -- injectivity inside this layer
          have hinjL : ∀ c ∈ layerCols g lay, ∀ c' ∈ layerCols g lay, ∀ n n',
              blockName g.convention lay.name c.name = .ok n → blockName g.convention lay.name c'.name = .ok n' →
              applyMap m n = applyMap m n' → c = c' :=
            fun c hc c' hc' n n' h1 h2 he => (I1 lay hlay c hc lay hlay c' hc' n n' h1 h2 he).2
          obtain ⟨⟨ns, hns, hsubl⟩, vshape⟩ := vertNames_spec g first above lay _ v hv
          have hspec := horizNames_spec g.convention lay _ hz hh
          have hkm : ∀ k ∈ layerConns g (layerCols g lay), k.col0 ∈ layerCols g lay ∧ k.col1 ∈ layerCols g lay := by
            intro k hk
            unfold layerConns at hk
            rw [List.mem_filter] at hk
            have := hk.2
            simp only [Bool.and_eq_true, List.contains_iff_mem] at this
            exact this
          -- the three segments are duplicate-free
          have vnd : (v.map (mapPair m)).Nodup := by
            have h1 : ((v.map (·.1)).map (applyMap m)).Nodup :=
              (layerBlockNames_nodup m g.convention lay _ ns hns (I3 lay hlay) hinjL).sublist (hsubl.map _)
            apply nodup_of_map Prod.fst
            have e : (v.map (mapPair m)).map Prod.fst = (v.map (·.1)).map (applyMap m) := by
              simp [List.map_map, Function.comp, mapPair]
            rw [e]; exact h1
          have hnd_z : (hz.map (mapPair m)).Nodup := by
            apply horizNames_nodup m g.convention lay (layerCols g lay) hinjL _ hz hh _ hkm
            unfold layerConns
            exact hcw.1.sublist ((List.filter_sublist).map _)
          refine ⟨?_, ?_⟩
          · rw [List.map_append, List.map_append]
            apply List.nodup_append.2
            refine ⟨List.nodup_append.2 ⟨vnd, hnd_z, ?_⟩, rnd, ?_⟩
            · -- vertical vs horizontal of the same layer: the second components differ
              intro x hx y hy hxy
              rw [List.mem_map] at hx hy
              obtain ⟨p, hp, rfl⟩ := hx
              obtain ⟨q, hq, rfl⟩ := hy
              obtain ⟨col, hcol, hp1, hp2⟩ := vshape p hp
              obtain ⟨k, hk, hq1, hq2⟩ := hspec q hq
              simp only [mapPair, Prod.mk.injEq] at hxy
              obtain ⟨hk0, hk1⟩ := hkm k hk
              rcases hp2 with ⟨h0, hhead⟩ | ⟨h1, hatm⟩ | ⟨hfalse, hnle, habv⟩
              · -- single atmosphere block
                have hmem : p.2 ∈ a := by
                  unfold atmNames at ha
                  simp only [h0, if_true] at ha
                  split at ha
                  · rename_i n0 _
                    cases ha
                    rw [hb] at hhead
                    simp only [List.cons_append, List.head?_cons, Option.some.injEq] at hhead
                    rw [← hhead]; exact List.mem_cons_self
                  · cases ha
                exact I2 p.2 hmem lay hlay k.col1 hk1 q.2 hq2 hxy.2
              · have hmem : p.2 ∈ a := by
                  unfold atmNames at ha
                  simp only [h1, if_true, if_false, Nat.one_ne_zero] at ha
                  obtain ⟨n', hn', hbn'⟩ := (layerBlockNames_mem g.convention g.layer0 _ _ ha).1 col (layerCols_sub g lay col hcol).1
                  have := blockName_det hbn' hatm; subst this
                  exact hn'
                exact I2 p.2 hmem lay hlay k.col1 hk1 q.2 hq2 hxy.2
              · -- interior: the upper block lies in another layer
                have hpre : pre ≠ [] := by
                  intro e; rw [hfirst, e] at hfalse; simp at hfalse
                have habove : above ∈ g.layers := by
                  cases pre with
                  | nil => exact absurd rfl hpre
                  | cons p0 pre' =>
                    simp only [Geo.layerlist, List.cons_append, List.cons.injEq] at hll
                    rw [hll.2]; simp
                have hcola : col ∈ layerCols g above :=
                  mem_layerCols g above col (layerCols_sub g lay col hcol).1 (by rw [← hadj]; exact not_le.1 hnle)
                exact habove_ne (I1 above habove col hcola lay hlay k.col1 hk1 p.2 q.2 habv hq2 hxy.2).1
            · -- this layer vs the layers below: the first components belong to different layers
              intro x hx y hy hxy
              rw [List.mem_map] at hy
              obtain ⟨q, hq, rfl⟩ := hy
              obtain ⟨lay', hl', col', hc', hq1⟩ := rshape q hq
              have hfirstcomp : ∃ p col, col ∈ layerCols g lay ∧ blockName g.convention lay.name col.name = .ok p ∧
                  x.1 = applyMap m p := by
                rcases List.mem_append.1 hx with hx | hx
                · rw [List.mem_map] at hx
                  obtain ⟨p, hp, rfl⟩ := hx
                  obtain ⟨col, hcol, hp1, _⟩ := vshape p hp
                  exact ⟨p.1, col, hcol, hp1, rfl⟩
                · rw [List.mem_map] at hx
                  obtain ⟨p, hp, rfl⟩ := hx
                  obtain ⟨k, hk, hp1, _⟩ := hspec p hp
                  exact ⟨p.1, k.col0, (hkm k hk).1, hp1, rfl⟩
              obtain ⟨p, col, hcol, hp1, hx1⟩ := hfirstcomp
              have he : applyMap m p = applyMap m q.1 := by
                rw [← hx1, hxy]; rfl
              have := (I1 lay hlay col hcol lay' (hsub lay' hl') col' hc' p q.1 hp1 hq1 he).1
              exact hlay_notin (this ▸ hl')
          · intro p hp
            rcases List.mem_append.1 hp with hp | hp
            · rcases List.mem_append.1 hp with hp | hp
              · obtain ⟨col, hcol, hp1, _⟩ := vshape p hp
                exact ⟨lay, List.mem_cons_self, col, hcol, hp1⟩
              · obtain ⟨k, hk, hp1, _⟩ := hspec p hp
                exact ⟨lay, List.mem_cons_self, k.col0, (hkm k hk).1, hp1⟩
            · obtain ⟨lay', hl', col', hc', hq1⟩ := rshape p hp
              exact ⟨lay', List.mem_cons_of_mem _ hl', col', hc', hq1⟩

/-- both ends of an announced pair are announced block names, and they differ (after mapping) -/
theorem connNamesFrom_ends (g : Geo) (m : BlockMap) (hf : Fresh g)
    (hn : (g.blockNames.map (applyMap m)).Nodup) (hwf : LayersWF g) (hcw : ConnsWF g) :
    ∀ (ls : List Layer) (first : Bool) (above : Layer) (pre : List Layer) (L : List (Str × Str)),
      g.layerlist = pre ++ above :: ls → first = decide (pre = []) →
      connNamesFrom g first above ls = .ok L →
      ∀ p ∈ L, p.1 ∈ g.blockNames ∧ p.2 ∈ g.blockNames ∧ applyMap m p.1 ≠ applyMap m p.2 := by
  obtain ⟨a, u, ha, hb, I3, I1, I2, Imem⟩ := inj_facts g m hf hn
  have hlnd : g.layerlist.Nodup := nodup_of_map _ _ hwf.2.2
  intro ls
  induction ls with
  | nil =>
    intro first above pre L _ _ h
    simp only [connNamesFrom] at h; cases h
    intro p hp; cases hp
  | cons lay ls ih =>
    intro first above pre L hll hfirst h
    simp only [connNamesFrom] at h
    cases hv : vertNames g first above lay (layerCols g lay) with
    | error e => rw [hv] at h; cases h
    | ok v =>
      rw [hv] at h
      simp only at h
      cases hh : horizNames g.convention lay (layerConns g (layerCols g lay)) with
      | error e => rw [hh] at h; cases h
      | ok hz =>
        rw [hh] at h
        simp only at h
        cases hr : connNamesFrom g false lay ls with
        | error e => rw [hr] at h; cases h
        | ok r =>
          rw [hr] at h
          cases h
          have hll' : g.layerlist = (pre ++ [above]) ++ lay :: ls := by rw [hll]; simp
          have ihr := ih false lay (pre ++ [above]) r hll' (by simp) hr
          obtain ⟨hadj, _, hlay⟩ := chain_adjacent g.layers g.layer0 hwf.2.1 pre above lay ls (by simpa [Geo.layerlist] using hll)
          have hnd' := hlnd
          rw [hll] at hnd'
          obtain ⟨_, hnd2, _⟩ := List.nodup_append.1 hnd'
          obtain ⟨habove_notin, _⟩ := List.nodup_cons.1 hnd2
          have habove_ne : above ≠ lay := fun e => habove_notin (e ▸ List.mem_cons_self)
          obtain ⟨_, vshape⟩ := vertNames_spec g first above lay _ v hv
          have hspec := horizNames_spec g.convention lay _ hz hh
          have hkm : ∀ k ∈ layerConns g (layerCols g lay), k ∈ g.conns ∧ k.col0 ∈ layerCols g lay ∧ k.col1 ∈ layerCols g lay := by
            intro k hk
            unfold layerConns at hk
            rw [List.mem_filter] at hk
            have := hk.2
            simp only [Bool.and_eq_true, List.contains_iff_mem] at this
            exact ⟨hk.1, this⟩
          intro p hp
          rcases List.mem_append.1 hp with hp | hp
          · rcases List.mem_append.1 hp with hp | hp
            · obtain ⟨col, hcol, hp1, hp2⟩ := vshape p hp
              have m1 : p.1 ∈ g.blockNames := by rw [hb]; exact List.mem_append_right _ (Imem lay hlay col hcol p.1 hp1)
              rcases hp2 with ⟨h0, hhead⟩ | ⟨h1, hatm⟩ | ⟨hfalse, hnle, habv⟩
              · have hmem : p.2 ∈ a := by
                  unfold atmNames at ha
                  simp only [h0, if_true] at ha
                  split at ha
                  · cases ha
                    rw [hb] at hhead
                    simp only [List.cons_append, List.head?_cons, Option.some.injEq] at hhead
                    rw [← hhead]; exact List.mem_cons_self
                  · cases ha
                exact ⟨m1, by rw [hb]; exact List.mem_append_left _ hmem, fun e => I2 p.2 hmem lay hlay col hcol p.1 hp1 e.symm⟩
              · have hmem : p.2 ∈ a := by
                  unfold atmNames at ha
                  simp only [h1, if_true, if_false, Nat.one_ne_zero] at ha
                  obtain ⟨n', hn', hbn'⟩ := (layerBlockNames_mem g.convention g.layer0 _ _ ha).1 col (layerCols_sub g lay col hcol).1
                  have := blockName_det hbn' hatm; subst this
                  exact hn'
                exact ⟨m1, by rw [hb]; exact List.mem_append_left _ hmem, fun e => I2 p.2 hmem lay hlay col hcol p.1 hp1 e.symm⟩
              · have hpre : pre ≠ [] := by
                  intro e; rw [hfirst, e] at hfalse; simp at hfalse
                have habove : above ∈ g.layers := by
                  cases pre with
                  | nil => exact absurd rfl hpre
                  | cons p0 pre' =>
                    simp only [Geo.layerlist, List.cons_append, List.cons.injEq] at hll
                    rw [hll.2]; simp
                have hcola : col ∈ layerCols g above :=
                  mem_layerCols g above col (layerCols_sub g lay col hcol).1 (by rw [← hadj]; exact not_le.1 hnle)
                exact ⟨m1, by rw [hb]; exact List.mem_append_right _ (Imem above habove col hcola p.2 habv),
                  fun e => habove_ne (I1 lay hlay col hcol above habove col hcola p.1 p.2 hp1 habv e).1.symm⟩
            · obtain ⟨k, hk, hp1, hp2⟩ := hspec p hp
              obtain ⟨hkc, hk0, hk1⟩ := hkm k hk
              exact ⟨by rw [hb]; exact List.mem_append_right _ (Imem lay hlay k.col0 hk0 p.1 hp1),
                by rw [hb]; exact List.mem_append_right _ (Imem lay hlay k.col1 hk1 p.2 hp2),
                fun e => hcw.2 k hkc (I1 lay hlay k.col0 hk0 lay hlay k.col1 hk1 p.1 p.2 hp1 hp2 e).2⟩
          · exact ihr p hp

/-- the announced connection pairs are distinct (after mapping) -/
theorem connNames_nodup (g : Geo) (m : BlockMap) (hf : Fresh g) (hn : (g.blockNames.map (applyMap m)).Nodup)
    (hwf : LayersWF g) (hcw : ConnsWF g) (L : List (Str × Str)) (hL : blockConnectionNameList g = .ok L) :
    (L.map (mapPair m)).Nodup :=
  (connNamesFrom_nodup g m hf hn hwf hcw g.layers true g.layer0 [] L rfl (by simp) hL).1

end Proofs.FromGeo
