/-
  The saturation line: `sat` and `tsat` solve the same implicit equation (IAPWS-IF97 eq. 29), and
  `tsat` inverts `sat` wherever `tsat`'s range test accepts the pressure and the branch conditions hold.
-/
import PyTough.Proofs.ThermoIapws

namespace Proofs.Iapws
open Gen.Iapws Model.Thermo Proofs.Thermo

/-- the implicit saturation equation in `β = (p/p*)^¼` and `ϑ = T + n₉/(T − n₁₀)` -/
noncomputable def satPoly (β ϑ : ℝ) : ℝ :=
  β ^ 2 * ϑ ^ 2 + nr4_0 * β ^ 2 * ϑ + nr4_1 * β ^ 2 + nr4_2 * β * ϑ ^ 2 + nr4_3 * β * ϑ + nr4_4 * β
    + nr4_5 * ϑ ^ 2 + nr4_6 * ϑ + nr4_7

noncomputable def thetaOf (T : ℝ) : ℝ := T + nr4_8 / (T - nr4_9)
noncomputable def satA (ϑ : ℝ) : ℝ := ϑ * ϑ + nr4_0 * ϑ + nr4_1
noncomputable def satB (ϑ : ℝ) : ℝ := nr4_2 * (ϑ * ϑ) + nr4_3 * ϑ + nr4_4
noncomputable def satC (ϑ : ℝ) : ℝ := nr4_5 * (ϑ * ϑ) + nr4_6 * ϑ + nr4_7
noncomputable def satDisc (ϑ : ℝ) : ℝ := satB ϑ * satB ϑ - 4 * satA ϑ * satC ϑ
noncomputable def satDen (ϑ : ℝ) : ℝ := -(satB ϑ) + Real.sqrt (satDisc ϑ)
/-- the root `β` of `A β² + B β + C = 0` that `sat` takes -/
noncomputable def satBeta (ϑ : ℝ) : ℝ := 2 * satC ϑ / satDen ϑ

/-- `sat` as a closed expression inside its range `0 ≤ t ≤ tcritical` -/
theorem sat_eq (t : ℝ) (h0 : 0 ≤ t) (h1 : t ≤ tcritical) :
    sat t = Ret.num (pstar4 * (satBeta (thetaOf (t + tc_k)) * satBeta (thetaOf (t + tc_k)))
      * (satBeta (thetaOf (t + tc_k)) * satBeta (thetaOf (t + tc_k)))) := by
  have g : (decide ((0 : ℝ) ≤ t) && decide (t ≤ (tcritical : ℝ))) = true := by simp [h0, h1]
  unfold sat satBeta satDen satDisc satA satB satC thetaOf
  simp only [tf_add, tf_sub, tf_mul, tf_div, tf_neg, tf_le', tf_sqrt]
  simp only [tf_lit]
  norm_num only []
  rw [if_pos g]

theorem quad_root_form (A B C d : ℝ) (hd : d ≠ 0) (key : A * (2 * C) ^ 2 + B * (2 * C) * d + C * d ^ 2 = 0) :
    A * (2 * C / d) ^ 2 + B * (2 * C / d) + C = 0 := by
  have : A * (2 * C / d) ^ 2 + B * (2 * C / d) + C = (A * (2 * C) ^ 2 + B * (2 * C) * d + C * d ^ 2) / d ^ 2 := by
    field_simp
  rw [this, key, zero_div]

theorem satPoly_quadratic_in_beta (β ϑ : ℝ) : satPoly β ϑ = satA ϑ * β ^ 2 + satB ϑ * β + satC ϑ := by
  unfold satPoly satA satB satC; ring

/-- the value `sat` computes is a root of the implicit equation -/
theorem satPoly_satBeta (ϑ : ℝ) (hΔ : 0 ≤ satDisc ϑ) (hD : satDen ϑ ≠ 0) : satPoly (satBeta ϑ) ϑ = 0 := by
  rw [satPoly_quadratic_in_beta]
  have hs : Real.sqrt (satDisc ϑ) * Real.sqrt (satDisc ϑ) = satDisc ϑ := Real.mul_self_sqrt hΔ
  have key : satA ϑ * (2 * satC ϑ) ^ 2 + satB ϑ * (2 * satC ϑ) * satDen ϑ + satC ϑ * satDen ϑ ^ 2 = 0 := by
    unfold satDen
    have e : satA ϑ * (2 * satC ϑ) ^ 2 + satB ϑ * (2 * satC ϑ) * (-(satB ϑ) + Real.sqrt (satDisc ϑ))
        + satC ϑ * (-(satB ϑ) + Real.sqrt (satDisc ϑ)) ^ 2
        = satC ϑ * (4 * satA ϑ * satC ϑ - satB ϑ * satB ϑ + Real.sqrt (satDisc ϑ) * Real.sqrt (satDisc ϑ)) := by ring
    rw [e, hs]; unfold satDisc; ring
  unfold satBeta
  exact quad_root_form _ _ _ _ hD key

/-! ### `tsat` -/

noncomputable def tsE (b2 b : ℝ) : ℝ := b2 + nr4_2 * b + nr4_5
noncomputable def tsF (b2 b : ℝ) : ℝ := nr4_0 * b2 + nr4_3 * b + nr4_6
noncomputable def tsG (b2 b : ℝ) : ℝ := nr4_1 * b2 + nr4_4 * b + nr4_7
noncomputable def tsDisc (b2 b : ℝ) : ℝ := tsF b2 b * tsF b2 b - 4 * tsE b2 b * tsG b2 b
noncomputable def tsDen (b2 b : ℝ) : ℝ := -(tsF b2 b) - Real.sqrt (tsDisc b2 b)
/-- the root `ϑ` of `E ϑ² + F ϑ + G = 0` that `tsat` takes -/
noncomputable def tsTheta (b2 b : ℝ) : ℝ := 2 * tsG b2 b / tsDen b2 b
noncomputable def tsDisc2 (ϑ : ℝ) : ℝ := (nr4_9 + ϑ) * (nr4_9 + ϑ) - 4 * (nr4_8 + nr4_9 * ϑ)
/-- the root `T` of `T² − (n₁₀ + ϑ) T + n₉ + n₁₀ ϑ = 0` that `tsat` takes -/
noncomputable def tsT (ϑ : ℝ) : ℝ := 1 / 2 * (nr4_9 + ϑ - Real.sqrt (tsDisc2 ϑ))
/-- lower limit of `tsat` (the double nearest 611.213) -/
noncomputable def pmin : ℝ := 2688143202191409 / 4398046511104

theorem tsat_eq (p : ℝ) (h0 : pmin ≤ p) (h1 : p ≤ pcritical) :
    tsat p = Ret.num (tsT (tsTheta (Real.sqrt (p / pstar4)) (Real.sqrt (Real.sqrt (p / pstar4)))) - tc_k) := by
  have g : (decide ((2688143202191409 / 4398046511104 : ℝ) ≤ p) && decide (p ≤ (pcritical : ℝ))) = true := by
    unfold pmin at h0; simp [h0, h1]
  unfold tsat tsT tsDisc2 tsTheta tsDen tsDisc tsE tsF tsG
  simp only [tf_add, tf_sub, tf_mul, tf_div, tf_neg, tf_le', tf_sqrt]
  simp only [tf_lit]
  norm_num only []
  rw [if_pos g]

theorem tsat_none (p : ℝ) (h : ¬(pmin ≤ p ∧ p ≤ pcritical)) : tsat p = Ret.none := by
  have g : ¬ ((decide ((2688143202191409 / 4398046511104 : ℝ) ≤ p) && decide (p ≤ (pcritical : ℝ))) = true) := by
    unfold pmin at h; simpa using h
  unfold tsat
  simp only [tf_le']
  simp only [tf_lit]
  norm_num only []
  rw [if_neg g]

theorem satPoly_quadratic_in_theta (β ϑ : ℝ) :
    satPoly β ϑ = tsE (β * β) β * ϑ ^ 2 + tsF (β * β) β * ϑ + tsG (β * β) β := by
  unfold satPoly tsE tsF tsG; ring

/-- the `ϑ` that `tsat` computes is a root of the same implicit equation -/
theorem satPoly_tsTheta (β : ℝ) (hΔ : 0 ≤ tsDisc (β * β) β) (hD : tsDen (β * β) β ≠ 0) :
    satPoly β (tsTheta (β * β) β) = 0 := by
  rw [satPoly_quadratic_in_theta]
  set E := tsE (β * β) β
  set F := tsF (β * β) β
  set G := tsG (β * β) β
  have hs : Real.sqrt (tsDisc (β * β) β) * Real.sqrt (tsDisc (β * β) β) = tsDisc (β * β) β := Real.mul_self_sqrt hΔ
  have key : E * (2 * G) ^ 2 + F * (2 * G) * tsDen (β * β) β + G * tsDen (β * β) β ^ 2 = 0 := by
    unfold tsDen
    have e : E * (2 * G) ^ 2 + F * (2 * G) * (-F - Real.sqrt (tsDisc (β * β) β))
        + G * (-F - Real.sqrt (tsDisc (β * β) β)) ^ 2
        = G * (4 * E * G - F * F + Real.sqrt (tsDisc (β * β) β) * Real.sqrt (tsDisc (β * β) β)) := by ring
    rw [e, hs]; unfold tsDisc; ring
  unfold tsTheta
  exact quad_root_form _ _ _ _ hD key

/-- and the temperature it returns satisfies `ϑ = T + n₉ / (T − n₁₀)` in cleared form -/
theorem tsT_root (ϑ : ℝ) (h : 0 ≤ tsDisc2 ϑ) :
    tsT ϑ * tsT ϑ - (nr4_9 + ϑ) * tsT ϑ + (nr4_8 + nr4_9 * ϑ) = 0 := by
  have hs : Real.sqrt (tsDisc2 ϑ) * Real.sqrt (tsDisc2 ϑ) = tsDisc2 ϑ := Real.mul_self_sqrt h
  unfold tsT
  have e : 1 / 2 * (nr4_9 + ϑ - Real.sqrt (tsDisc2 ϑ)) * (1 / 2 * (nr4_9 + ϑ - Real.sqrt (tsDisc2 ϑ)))
      - (nr4_9 + ϑ) * (1 / 2 * (nr4_9 + ϑ - Real.sqrt (tsDisc2 ϑ))) + (nr4_8 + nr4_9 * ϑ)
      = 1 / 4 * (Real.sqrt (tsDisc2 ϑ) * Real.sqrt (tsDisc2 ϑ)) - 1 / 4 * ((nr4_9 + ϑ) * (nr4_9 + ϑ)) + (nr4_8 + nr4_9 * ϑ) := by
    ring
  rw [e, hs]; unfold tsDisc2; ring

theorem thetaOf_of_root (T ϑ : ℝ) (hT : T - nr4_9 ≠ 0)
    (h : T * T - (nr4_9 + ϑ) * T + (nr4_8 + nr4_9 * ϑ) = 0) : ϑ = thetaOf T := by
  unfold thetaOf
  field_simp
  linear_combination (-1 : ℝ) * h

/-! ### `tsat` inverts `sat` -/

theorem nr4_8_neg : (nr4_8 : ℝ) < 0 := by unfold nr4_8; rw [tf_lit]; norm_num
theorem pstar4_pos : (0 : ℝ) < pstar4 := by unfold pstar4; rw [tf_lit]; norm_num

/-- the last square root of `tsat` never fails: its argument is `(ϑ − n₁₀)² − 4 n₉` with `n₉ < 0` -/
theorem tsDisc2_nonneg (ϑ : ℝ) : 0 ≤ tsDisc2 ϑ := by
  have h := nr4_8_neg
  have e : tsDisc2 ϑ = (ϑ - nr4_9) ^ 2 + (-4) * nr4_8 := by unfold tsDisc2; ring
  rw [e]
  have := sq_nonneg (ϑ - nr4_9)
  nlinarith

theorem T_lt_nr4_9 (t : ℝ) (h1 : t ≤ tcritical) : t + tc_k - nr4_9 < 0 := by
  unfold tcritical at h1
  unfold tc_k nr4_9
  rw [tf_lit] at h1
  rw [tf_lit, tf_lit]
  norm_num at h1 ⊢
  linarith

/-- **`tsat (sat t) = t`** over the reals, for every `t` in `sat`'s range whose saturation pressure is
    accepted by `tsat`'s range test (this is what fails within 1.2e-9 K of the critical temperature,
    where `sat t > pcritical`), under the branch conditions: the discriminant of `sat`'s quadratic is
    non-negative, its denominator non-zero, the root `β` it takes is non-negative, and `ϑ` lies on
    the branch `2 E ϑ + F ≥ 0`, `E ϑ + F ≠ 0` of `tsat`'s quadratic. -/
theorem sat_tsat_inverse (t : ℝ) (h0 : 0 ≤ t) (h1 : t ≤ tcritical)
    (hΔ : 0 ≤ satDisc (thetaOf (t + tc_k))) (hD : satDen (thetaOf (t + tc_k)) ≠ 0)
    (hβ : 0 ≤ satBeta (thetaOf (t + tc_k)))
    (hbr : 0 ≤ 2 * tsE (satBeta (thetaOf (t + tc_k)) * satBeta (thetaOf (t + tc_k))) (satBeta (thetaOf (t + tc_k))) * thetaOf (t + tc_k)
      + tsF (satBeta (thetaOf (t + tc_k)) * satBeta (thetaOf (t + tc_k))) (satBeta (thetaOf (t + tc_k))))
    (hne : tsE (satBeta (thetaOf (t + tc_k)) * satBeta (thetaOf (t + tc_k))) (satBeta (thetaOf (t + tc_k))) * thetaOf (t + tc_k)
      + tsF (satBeta (thetaOf (t + tc_k)) * satBeta (thetaOf (t + tc_k))) (satBeta (thetaOf (t + tc_k))) ≠ 0)
    (hg : pmin ≤ (sat t).toK ∧ (sat t).toK ≤ pcritical) :
    tsat (sat t).toK = Ret.num t := by
  set T := t + tc_k with hT
  set ϑ := thetaOf T with hϑ
  set β := satBeta ϑ with hβd
  have hsat := sat_eq t h0 h1
  rw [← hT, ← hϑ, ← hβd] at hsat
  have hp : (sat t).toK = pstar4 * (β * β) * (β * β) := by rw [hsat]; rfl
  rw [hp] at hg ⊢
  rw [tsat_eq _ hg.1 hg.2]
  -- the two square roots give back β² and β
  have hpp := pstar4_pos
  have e1 : pstar4 * (β * β) * (β * β) / pstar4 = (β * β) * (β * β) := by field_simp
  have r1 : Real.sqrt (pstar4 * (β * β) * (β * β) / pstar4) = β * β := by
    rw [e1]; exact Real.sqrt_mul_self (mul_self_nonneg β)
  have r2 : Real.sqrt (β * β) = β := Real.sqrt_mul_self hβ
  rw [r1, r2]
  set E := tsE (β * β) β with hE
  set F := tsF (β * β) β with hF
  set G := tsG (β * β) β with hG
  -- ϑ is a root of E ϑ² + F ϑ + G
  have root : E * ϑ ^ 2 + F * ϑ + G = 0 := by
    rw [← satPoly_quadratic_in_theta]; exact satPoly_satBeta ϑ hΔ hD
  -- hence tsat's discriminant is a square and its root is ϑ
  have hdisc : tsDisc (β * β) β = (2 * E * ϑ + F) ^ 2 := by
    unfold tsDisc; rw [← hE, ← hF, ← hG]; linear_combination (-4 * E) * root
  have hsq : Real.sqrt (tsDisc (β * β) β) = 2 * E * ϑ + F := by rw [hdisc]; exact Real.sqrt_sq hbr
  have hth : tsTheta (β * β) β = ϑ := by
    unfold tsTheta tsDen
    rw [hsq, ← hF, ← hG]
    have hden : -F - (2 * E * ϑ + F) ≠ 0 := by
      intro h; apply hne; linear_combination (-1 / 2 : ℝ) * h
    rw [div_eq_iff hden]
    linear_combination (2 : ℝ) * root
  rw [hth]
  -- the last square root
  have hw : T - nr4_9 < 0 := T_lt_nr4_9 t h1
  have hwne : T - nr4_9 ≠ 0 := ne_of_lt hw
  have hn8 := nr4_8_neg
  have hquad : T * T - (nr4_9 + ϑ) * T + (nr4_8 + nr4_9 * ϑ) = 0 := by
    rw [hϑ]; unfold thetaOf; field_simp; ring
  have hd2 : tsDisc2 ϑ = (nr4_9 + ϑ - 2 * T) ^ 2 := by
    unfold tsDisc2; linear_combination (-4 : ℝ) * hquad
  have hpos : 0 ≤ nr4_9 + ϑ - 2 * T := by
    have : nr4_9 + ϑ - 2 * T = -(T - nr4_9) + nr4_8 / (T - nr4_9) := by rw [hϑ]; unfold thetaOf; ring
    rw [this]
    have : 0 < nr4_8 / (T - nr4_9) := div_pos_of_neg_of_neg hn8 hw
    linarith
  have hsq2 : Real.sqrt (tsDisc2 ϑ) = nr4_9 + ϑ - 2 * T := by rw [hd2]; exact Real.sqrt_sq hpos
  have hTT : tsT ϑ = T := by unfold tsT; rw [hsq2]; ring
  rw [hTT, hT]
  congr 1; ring

/-- **`sat (tsat p) = p`** over the reals, for every `p` of `tsat`'s range whose saturation
    temperature is accepted by `sat`'s range test, on the branch of the two quadratics the routines
    take (`tsat`: discriminants ≥ 0, denominator ≠ 0; `sat`: `2Aβ + B ≤ 0`, `Aβ + B ≠ 0`). -/
theorem tsat_sat_inverse (p : ℝ) (h0 : pmin ≤ p) (h1 : p ≤ pcritical)
    (hΔ : 0 ≤ tsDisc (Real.sqrt (Real.sqrt (p / pstar4)) * Real.sqrt (Real.sqrt (p / pstar4))) (Real.sqrt (Real.sqrt (p / pstar4))))
    (hD : tsDen (Real.sqrt (Real.sqrt (p / pstar4)) * Real.sqrt (Real.sqrt (p / pstar4))) (Real.sqrt (Real.sqrt (p / pstar4))) ≠ 0)
    (hbr : 2 * satA (tsTheta (Real.sqrt (Real.sqrt (p / pstar4)) * Real.sqrt (Real.sqrt (p / pstar4))) (Real.sqrt (Real.sqrt (p / pstar4))))
        * Real.sqrt (Real.sqrt (p / pstar4))
      + satB (tsTheta (Real.sqrt (Real.sqrt (p / pstar4)) * Real.sqrt (Real.sqrt (p / pstar4))) (Real.sqrt (Real.sqrt (p / pstar4)))) ≤ 0)
    (hne : satA (tsTheta (Real.sqrt (Real.sqrt (p / pstar4)) * Real.sqrt (Real.sqrt (p / pstar4))) (Real.sqrt (Real.sqrt (p / pstar4))))
        * Real.sqrt (Real.sqrt (p / pstar4))
      + satB (tsTheta (Real.sqrt (Real.sqrt (p / pstar4)) * Real.sqrt (Real.sqrt (p / pstar4))) (Real.sqrt (Real.sqrt (p / pstar4)))) ≠ 0)
    (hg : 0 ≤ (tsat p).toK ∧ (tsat p).toK ≤ tcritical) :
    sat (tsat p).toK = Ret.num p := by
  set β := Real.sqrt (Real.sqrt (p / pstar4)) with hβ
  set ϑ := tsTheta (β * β) β with hϑ
  have hpp := pstar4_pos
  have hp0 : 0 ≤ p / pstar4 := by
    have : (0 : ℝ) ≤ pmin := by unfold pmin; norm_num
    exact div_nonneg (by linarith) (le_of_lt hpp)
  have hb2 : β * β = Real.sqrt (p / pstar4) := Real.mul_self_sqrt (Real.sqrt_nonneg _)
  have hb4 : β * β * (β * β) = p / pstar4 := by rw [hb2]; exact Real.mul_self_sqrt hp0
  have hts : tsat p = Ret.num (tsT ϑ - tc_k) := by
    rw [tsat_eq p h0 h1, ← hβ, ← hb2]
  have htk : (tsat p).toK = tsT ϑ - tc_k := by rw [hts]; rfl
  rw [htk] at hg ⊢
  set T := tsT ϑ with hT
  have hTT : T - tc_k + tc_k = T := by ring
  have hw : T - nr4_9 < 0 := by have := T_lt_nr4_9 (T - tc_k) hg.2; rwa [hTT] at this
  have hroot := tsT_root ϑ (tsDisc2_nonneg ϑ)
  rw [← hT] at hroot
  have hth : ϑ = thetaOf T := thetaOf_of_root T ϑ (ne_of_lt hw) hroot
  rw [sat_eq _ hg.1 hg.2, hTT, ← hth]
  -- sat's β is the β we started from
  have root : satA ϑ * β ^ 2 + satB ϑ * β + satC ϑ = 0 := by
    rw [← satPoly_quadratic_in_beta]; exact satPoly_tsTheta β hΔ hD
  have hdisc : satDisc ϑ = (2 * satA ϑ * β + satB ϑ) ^ 2 := by
    unfold satDisc; linear_combination (-4 * satA ϑ) * root
  have hsq : Real.sqrt (satDisc ϑ) = -(2 * satA ϑ * β + satB ϑ) := by
    rw [hdisc, ← neg_sq]; exact Real.sqrt_sq (by linarith)
  have hbeta : satBeta ϑ = β := by
    unfold satBeta satDen
    rw [hsq]
    have hden : -satB ϑ + -(2 * satA ϑ * β + satB ϑ) ≠ 0 := by
      intro h; apply hne; linear_combination (-1 / 2 : ℝ) * h
    rw [div_eq_iff hden]
    linear_combination (2 : ℝ) * root
  rw [hbeta, mul_assoc, hb4]
  congr 1
  field_simp

/-! ### the critical end: the inverse fails there -/

/-- `ϑ` at the critical temperature -/
noncomputable def thC : ℝ := thetaOf (tcritical + tc_k)
/-- a rational strictly between `(pcritical/p*)^¼ = 2.16731013659529…` and the `β` that `sat` computes at
    the critical temperature, `2.16731013660316…` -/
noncomputable def rC : ℝ := 21673101366 / 10000000000

theorem crit_f1 : satB thC < 0 := by
  unfold satB thC thetaOf tcritical tc_k nr4_8 nr4_9 nr4_2 nr4_3 nr4_4
  simp only [tf_lit]; norm_num
theorem crit_f2 : 0 < satC thC := by
  unfold satC thC thetaOf tcritical tc_k nr4_8 nr4_9 nr4_5 nr4_6 nr4_7
  simp only [tf_lit]; norm_num
theorem crit_f3 : 0 < 2 * satC thC / rC + satB thC := by
  unfold satC satB thC rC thetaOf tcritical tc_k nr4_8 nr4_9 nr4_2 nr4_3 nr4_4 nr4_5 nr4_6 nr4_7
  simp only [tf_lit]; norm_num
theorem crit_f5 : 0 ≤ satDisc thC := by
  unfold satDisc satA satC satB thC thetaOf tcritical tc_k nr4_8 nr4_9 nr4_0 nr4_1 nr4_2 nr4_3 nr4_4 nr4_5 nr4_6 nr4_7
  simp only [tf_lit]; norm_num
theorem crit_f4 : satDisc thC < (2 * satC thC / rC + satB thC) ^ 2 := by
  unfold satDisc satA satC satB thC rC thetaOf tcritical tc_k nr4_8 nr4_9 nr4_0 nr4_1 nr4_2 nr4_3 nr4_4 nr4_5 nr4_6 nr4_7
  simp only [tf_lit]; norm_num
theorem crit_f6 : (pcritical : ℝ) ≤ pstar4 * (rC * rC) * (rC * rC) := by
  unfold pcritical pstar4 rC
  simp only [tf_lit]; norm_num

theorem tcritical_nonneg : (0 : ℝ) ≤ tcritical := by unfold tcritical; rw [tf_lit]; norm_num

/-- **The critical end.**  Over the reals (exact arithmetic on the code's constants) the saturation
    pressure at the code's critical temperature exceeds the code's critical pressure … -/
theorem sat_critical_exceeds : (pcritical : ℝ) < (sat (tcritical : ℝ)).toK := by
  have hs := sat_eq tcritical tcritical_nonneg (le_refl _)
  have hk : (sat tcritical).toK = pstar4 * (satBeta thC * satBeta thC) * (satBeta thC * satBeta thC) := by
    rw [hs]; rfl
  rw [hk]
  have f1 := crit_f1; have f2 := crit_f2; have f3 := crit_f3; have f4 := crit_f4; have f5 := crit_f5; have f6 := crit_f6
  have hr : (0 : ℝ) < rC := by unfold rC; norm_num
  have hsq : Real.sqrt (satDisc thC) < 2 * satC thC / rC + satB thC := (Real.sqrt_lt' f3).mpr f4
  have hden0 : 0 < satDen thC := by
    unfold satDen; have := Real.sqrt_nonneg (satDisc thC); linarith
  have hden1 : satDen thC < 2 * satC thC / rC := by unfold satDen; linarith
  have hβ : rC < satBeta thC := by
    unfold satBeta
    rw [lt_div_iff₀ hden0]
    have := mul_lt_mul_of_pos_left hden1 hr
    have e : rC * (2 * satC thC / rC) = 2 * satC thC := by field_simp
    linarith
  have hpp := pstar4_pos
  have h2 : rC * rC < satBeta thC * satBeta thC := mul_lt_mul'' hβ hβ (le_of_lt hr) (le_of_lt hr)
  have h4 : rC * rC * (rC * rC) < satBeta thC * satBeta thC * (satBeta thC * satBeta thC) :=
    mul_lt_mul'' h2 h2 (le_of_lt (mul_pos hr hr)) (le_of_lt (mul_pos hr hr))
  calc (pcritical : ℝ) ≤ pstar4 * (rC * rC) * (rC * rC) := f6
    _ = pstar4 * (rC * rC * (rC * rC)) := by ring
    _ < pstar4 * (satBeta thC * satBeta thC * (satBeta thC * satBeta thC)) := mul_lt_mul_of_pos_left h4 hpp
    _ = pstar4 * (satBeta thC * satBeta thC) * (satBeta thC * satBeta thC) := by ring

/-- … hence `tsat (sat tcritical)` is `None`: the two routines are **not** inverse at the critical end. -/
theorem tsat_sat_critical_none : tsat (sat (tcritical : ℝ)).toK = Ret.none :=
  tsat_none _ (fun h => absurd h.2 (not_le.mpr sat_critical_exceeds))

end Proofs.Iapws
