/-
  C19: t2incon.transfer_from — every target block receives the state of its mapped source
  block; atmosphere blocks follow the 3 x 3 table.
-/
import PyTough.Proofs.MappingProps
namespace Proofs.Mapping
open Py Model.Mapping

theorem dget_single {β : Type} (k : Str) (v : β) : dget [(k, v)] k = .ok v := by
  simp [dget]

/-- what a successful `transfer_from` consists of -/
theorem transferFrom_ok (q : List (Rat × Rat) → Rat × Rat → Nat) (src : Incon) (s t : Geo)
    (mp cmp : Dict Str) (res : Incon) (h : transferFrom q src s t mp cmp = .ok res) :
    ∃ m cm atmPart names na ps,
      effectiveMaps q s t mp cmp = .ok (m, cm) ∧ transferAtm src s t cm = .ok atmPart ∧
      t.blockNameList = .ok names ∧ t.numAtmBlocks = .ok na ∧
      mapE (incUnder src m) (names.drop na) = .ok ps ∧
      res = ps.foldl (fun d p => dset d p.1 p.2) atmPart := by
  unfold transferFrom at h
  split at h
  · cases h
  · rename_i m cm hmaps
    split at h
    · cases h
    · rename_i atmPart hatm
      split at h
      · cases h
      · rename_i names hnames
        split at h
        · cases h
        · rename_i na hna
          split at h
          · cases h
          · rename_i ps hps
            cases h
            exact ⟨m, cm, atmPart, names, na, ps, hmaps, hatm, hnames, hna, hps, rfl⟩

theorem incUnder_ok (src : Incon) (m : Dict Str) (blk : Str) (p : Str × IncVal)
    (h : incUnder src m blk = .ok p) : p.1 = blk ∧ ∃ sb, dget m blk = .ok sb ∧ dget src sb = .ok p.2 := by
  unfold incUnder at h
  split at h
  · cases h
  · rename_i sb hsb
    split at h
    · cases h
    · rename_i v hv
      cases h
      exact ⟨rfl, sb, hsb, hv⟩

/-- Every underground target block receives exactly the state of its mapped source block
    (no hypothesis other than that the call returned). -/
theorem incon_underground (q : List (Rat × Rat) → Rat × Rat → Nat) (src : Incon) (s t : Geo)
    (mp cmp : Dict Str) (res : Incon) (h : transferFrom q src s t mp cmp = .ok res) :
    ∃ m cm names na, effectiveMaps q s t mp cmp = .ok (m, cm) ∧ t.blockNameList = .ok names ∧
      t.numAtmBlocks = .ok na ∧
      ∀ blk ∈ names.drop na, ∃ sb v, dget m blk = .ok sb ∧ dget src sb = .ok v ∧ dget res blk = .ok v := by
  obtain ⟨m, cm, atmPart, names, na, ps, h1, _, h3, h4, h5, rfl⟩ := transferFrom_ok q src s t mp cmp res h
  refine ⟨m, cm, names, na, h1, h3, h4, ?_⟩
  intro blk hblk
  obtain ⟨p, hp, hf⟩ := mapE_mem_left h5 blk hblk
  obtain ⟨hk, sb, hsb, hv⟩ := incUnder_ok src m blk p hf
  refine ⟨sb, p.2, hsb, hv, ?_⟩
  rw [dget_foldl]
  apply foldl_pick_fun
  · exact ⟨p, hp, hk⟩
  · intro p' hp' hk'
    obtain ⟨blk', _, hf'⟩ := mapE_mem_right h5 p' hp'
    obtain ⟨hk'', _⟩ := incUnder_ok src m blk' p' hf'
    have : blk' = blk := by rw [← hk'', hk']
    subst this
    rw [hf] at hf'
    exact congrArg Prod.snd (Except.ok.inj hf').symm

/-- a key that is not an underground block keeps the value of the atmosphere part -/
theorem incon_atm_key (q : List (Rat × Rat) → Rat × Rat → Nat) (src : Incon) (s t : Geo)
    (mp cmp : Dict Str) (res : Incon) (h : transferFrom q src s t mp cmp = .ok res) :
    ∃ m cm atmPart names na, effectiveMaps q s t mp cmp = .ok (m, cm) ∧ transferAtm src s t cm = .ok atmPart ∧
      t.blockNameList = .ok names ∧ t.numAtmBlocks = .ok na ∧
      ∀ k, k ∉ names.drop na → dget res k = dget atmPart k := by
  obtain ⟨m, cm, atmPart, names, na, ps, h1, h2, h3, h4, h5, rfl⟩ := transferFrom_ok q src s t mp cmp res h
  refine ⟨m, cm, atmPart, names, na, h1, h2, h3, h4, ?_⟩
  intro k hk
  rw [dget_foldl]
  apply foldl_pick_none
  intro p hp hpk
  obtain ⟨blk, hblk, hf⟩ := mapE_mem_right h5 p hp
  obtain ⟨hk', _⟩ := incUnder_ok src m blk p hf
  rw [← hpk, hk'] at hk
  exact hk hblk

/-! ### target geometry: atmosphere block names differ from underground block names -/

theorem tgt_names_split (t : Geo) (ht : TgtWF t) (g0 : Lay) (grest : List Lay) (hg : t.lays = g0 :: grest) :
    ∃ an un na, t.atmNames = .ok an ∧ t.underNames = .ok un ∧ t.blockNameList = .ok (an ++ un) ∧
      t.numAtmBlocks = .ok na ∧ (an ++ un).drop na = un ∧
      (∀ cn, cn ∈ atmColName t.conv :: t.cols.map (·.name) → rawName t.conv g0.name cn ∉ un) ∧
      (t.atm = 0 → an = [rawName t.conv g0.name (atmColName t.conv)]) := by
  obtain ⟨an, han, han0, han1, han2⟩ := atmNames_spec t ht.names g0 grest hg
  obtain ⟨un, hun, hunm⟩ := underNames_spec t ht.names ht.dmplex
  have hlen : an.length = (match t.atm with | 0 => 1 | 1 => t.cols.length | _ => 0) := by
    by_cases h0 : t.atm = 0
    · obtain ⟨n, _, e⟩ := han0 h0
      rw [e, h0]; rfl
    · by_cases h1 : t.atm = 1
      · have := han
        unfold Geo.atmNames at this
        rw [hg] at this
        simp only [if_neg h0, if_pos h1] at this
        rw [mapE_length this, h1]
        rfl
      · rw [han2 h0 h1]
        match hh : t.atm with
        | 0 => exact absurd hh h0
        | 1 => exact absurd hh h1
        | n + 2 => rfl
  have hna : ∃ na, t.numAtmBlocks = .ok na ∧ na = an.length := by
    unfold Geo.numAtmBlocks
    have := ht.atm
    match hh : t.atm with
    | 0 => rw [hh] at hlen; exact ⟨1, rfl, hlen.symm⟩
    | 1 => rw [hh] at hlen; exact ⟨_, rfl, hlen.symm⟩
    | 2 => rw [hh] at hlen; exact ⟨0, rfl, hlen.symm⟩
    | n + 3 => omega
  obtain ⟨na, hna, hnal⟩ := hna
  refine ⟨an, un, na, han, hun, blockNameList_eq t g0 grest hg an un han hun, hna, ?_, ?_, ?_⟩
  · rw [hnal]; simp
  · intro cn hcn hmem
    obtain ⟨p, hp, hn⟩ := (hunm _).mp hmem
    rw [tgt_under_name t ht p.1 p.2 hp] at hn
    have heq := Except.ok.inj hn
    obtain ⟨hl, hc, _⟩ := (mem_underPairs t p.1 p.2).mp hp
    have hl' : p.1 ∈ grest := by rw [hg] at hl; exact hl
    have hne : p.1.name ≠ g0.name := by
      have := ht.names.layNodup
      rw [hg] at this
      exact (nodupB_tail (fun (l : Lay) => l.name) g0 grest this).2 p.1 hl'
    have hcnlen : cn.length = colLen t.conv := by
      rcases List.mem_cons.mp hcn with rfl | hcn
      · exact atmColName_length _
      · obtain ⟨c, hc', rfl⟩ := List.mem_map.mp hcn
        exact ht.names.colLen c hc'
    have h1 := layerName_rawName t.conv p.1.name p.2.name (ht.names.layLen _ (mem_drop_one _ _ hl)) (ht.names.colLen _ hc)
    have h2 := layerName_rawName t.conv g0.name cn (ht.names.layLen g0 (by rw [hg]; simp)) hcnlen
    rw [heq, h2] at h1
    exact hne h1.symm
  · intro h0
    obtain ⟨n, hn, e⟩ := han0 h0
    rw [tgt_atm_name t ht g0 grest hg _ (by simp)] at hn
    cases hn
    exact e

/-! ### the atmosphere table -/

/-- Target with a single atmosphere block: it receives the first source state (source type
    0: that is the source's atmosphere block), the average over the source's atmosphere
    blocks (type 1), or the default state (no source atmosphere). -/
theorem incon_atm_single (q : List (Rat × Rat) → Rat × Rat → Nat) (src : Incon) (s t : Geo)
    (mp cmp : Dict Str) (res : Incon) (ht : tgtOK t = true) (h0 : t.atm = 0)
    (h : transferFrom q src s t mp cmp = .ok res) :
    ∃ atmblk, t.atmNames = .ok [atmblk] ∧
      (s.atm = 0 → ∃ v, firstInc src = .ok v ∧ dget res atmblk = .ok v) ∧
      (s.atm = 1 → ∃ v, atmAverage s src = .ok v ∧ dget res atmblk = .ok v) ∧
      (s.atm ≠ 0 → s.atm ≠ 1 → dget res atmblk = .ok defaultAtm) := by
  have htw := tgtWF_of t ht
  obtain ⟨g0, grest, hg⟩ := htw.lays
  obtain ⟨an, un, na, han, hun, hnames, hna, hdrop, hnot, han0⟩ := tgt_names_split t htw g0 grest hg
  obtain ⟨m, cm, atmPart, names, na', _, hatm, hnames', hna', hkey⟩ := incon_atm_key q src s t mp cmp res h
  rw [hnames] at hnames'; cases hnames'
  rw [hna] at hna'; cases hna'
  rw [hdrop] at hkey
  have hk := hkey _ (hnot (atmColName t.conv) (by simp))
  refine ⟨_, by rw [han, han0 h0], ?_⟩
  unfold transferAtm at hatm
  have hl0 : t.lay0 = .ok g0 := by unfold Geo.lay0; rw [hg]
  simp only [if_pos h0, hl0, tgt_atm_name t htw g0 grest hg _ (List.mem_cons_self ..)] at hatm
  split at hatm
  · cases hatm
  · rename_i v hv
    cases hatm
    rw [dget_single] at hk
    refine ⟨fun hs0 => ?_, fun hs1 => ?_, fun hn0 hn1 => ?_⟩
    · rw [if_pos hs0] at hv; exact ⟨v, hv, hk⟩
    · have hs0 : ¬ s.atm = 0 := by omega
      rw [if_neg hs0, if_pos hs1] at hv; exact ⟨v, hv, hk⟩
    · rw [if_neg hn0, if_neg hn1] at hv; cases hv; exact hk

/-- Target with one atmosphere block per column: the block over column `c` receives the first
    source state (source type 0), the state of the source's atmosphere block over the column
    that `c` is mapped to (type 1), or the default state (no source atmosphere). -/
theorem incon_atm_percolumn (q : List (Rat × Rat) → Rat × Rat → Nat) (src : Incon) (s t : Geo)
    (mp cmp : Dict Str) (res : Incon) (ht : tgtOK t = true) (h1 : t.atm = 1)
    (h : transferFrom q src s t mp cmp = .ok res) :
    ∃ m cm g0, effectiveMaps q s t mp cmp = .ok (m, cm) ∧ t.lay0 = .ok g0 ∧
      ∀ c ∈ t.cols, ∃ blk, blockName t.conv g0.name c.name = .ok blk ∧
        (s.atm = 0 → ∃ v, firstInc src = .ok v ∧ dget res blk = .ok v) ∧
        (s.atm = 1 → ∃ mc s0 old v, dget cm c.name = .ok mc ∧ s.lay0 = .ok s0 ∧
            blockName s.conv s0.name mc = .ok old ∧ dget src old = .ok v ∧ dget res blk = .ok v) ∧
        (s.atm ≠ 0 → s.atm ≠ 1 → dget res blk = .ok defaultAtm) := by
  have htw := tgtWF_of t ht
  obtain ⟨g0, grest, hg⟩ := htw.lays
  obtain ⟨an, un, na, han, hun, hnames, hna, hdrop, hnot, _⟩ := tgt_names_split t htw g0 grest hg
  obtain ⟨m, cm, atmPart, names, na', hmaps, hatm, hnames', hna', hkey⟩ := incon_atm_key q src s t mp cmp res h
  rw [hnames] at hnames'; cases hnames'
  rw [hna] at hna'; cases hna'
  rw [hdrop] at hkey
  have hl0 : t.lay0 = .ok g0 := by unfold Geo.lay0; rw [hg]
  refine ⟨m, cm, g0, hmaps, hl0, ?_⟩
  intro c hc
  have hcn : c.name ∈ atmColName t.conv :: t.cols.map (·.name) := List.mem_cons_of_mem _ (List.mem_map.mpr ⟨c, hc, rfl⟩)
  have hnm := tgt_atm_name t htw g0 grest hg c.name hcn
  have hk := hkey _ (hnot c.name hcn)
  refine ⟨_, hnm, ?_⟩
  have h0 : ¬ t.atm = 0 := by omega
  unfold transferAtm at hatm
  simp only [if_neg h0, if_pos h1] at hatm
  split at hatm
  · cases hatm
  · rename_i ps hps
    cases hatm
    -- the pair made for column c
    obtain ⟨p, hp, hf⟩ := mapE_mem_left hps c hc
    -- every pair with this key was made for c
    have hfun : ∀ f : Col → Except Exc (Str × IncVal),
        (∀ c' p', f c' = .ok p' → p'.1 = rawName t.conv g0.name c'.name ∨ c' ∉ t.cols) →
        mapE f t.cols = .ok ps → f c = .ok p → dget (dictOf ps) (rawName t.conv g0.name c.name) = .ok p.2 := by
      intro f hkeyf hps' hf'
      apply dget_dictOf_fun
      · refine ⟨p, hp, ?_⟩
        rcases hkeyf c p hf' with h | h
        · exact h
        · exact absurd hc h
      · intro p' hp' hk'
        obtain ⟨c', hc', hf''⟩ := mapE_mem_right hps' p' hp'
        rcases hkeyf c' p' hf'' with h | h
        · rw [h] at hk'
          have e1 := columnName_rawName t.conv g0.name c'.name (htw.names.layLen g0 (by rw [hg]; simp)) (htw.names.colLen c' hc')
          have e2 := columnName_rawName t.conv g0.name c.name (htw.names.layLen g0 (by rw [hg]; simp)) (htw.names.colLen c hc)
          rw [hk', e2] at e1
          have : c' = c := nodupB_inj (fun (c : Col) => c.name) t.cols htw.names.colNodup c' hc' c hc e1.symm
          subst this
          rw [hf'] at hf''
          exact congrArg Prod.snd (Except.ok.inj hf'').symm
        · exact absurd hc' h
    refine ⟨fun hs0 => ?_, fun hs1 => ?_, fun hn0 hn1 => ?_⟩
    · rw [if_pos hs0] at hps hf
      have hshape : ∀ c' p', atmBroadcast t src c' = .ok p' → p'.1 = rawName t.conv g0.name c'.name ∨ c' ∉ t.cols := by
        intro c' p' hc'
        by_cases hmem : c' ∈ t.cols
        · left
          unfold atmBroadcast at hc'
          rw [hl0] at hc'
          simp only [tgt_atm_name t htw g0 grest hg c'.name (List.mem_cons_of_mem _ (List.mem_map.mpr ⟨c', hmem, rfl⟩))] at hc'
          split at hc'
          · cases hc'
          · cases hc'; rfl
        · exact Or.inr hmem
      have := hfun _ hshape hps hf
      rw [hk, this]
      unfold atmBroadcast at hf
      rw [hl0] at hf
      simp only [hnm] at hf
      split at hf
      · cases hf
      · rename_i v hv; cases hf; exact ⟨v, hv, rfl⟩
    · have hs0 : ¬ s.atm = 0 := by omega
      rw [if_neg hs0, if_pos hs1] at hps hf
      have hshape : ∀ c' p', atmPerColumn s t src cm c' = .ok p' → p'.1 = rawName t.conv g0.name c'.name ∨ c' ∉ t.cols := by
        intro c' p' hc'
        by_cases hmem : c' ∈ t.cols
        · left
          unfold atmPerColumn at hc'
          rw [hl0] at hc'
          simp only [tgt_atm_name t htw g0 grest hg c'.name (List.mem_cons_of_mem _ (List.mem_map.mpr ⟨c', hmem, rfl⟩))] at hc'
          split at hc'
          · cases hc'
          · split at hc'
            · cases hc'
            · split at hc'
              · cases hc'
              · split at hc'
                · cases hc'
                · cases hc'; rfl
        · exact Or.inr hmem
      have := hfun _ hshape hps hf
      rw [hk, this]
      unfold atmPerColumn at hf
      rw [hl0] at hf
      simp only [hnm] at hf
      split at hf
      · cases hf
      · rename_i mc hmc
        split at hf
        · cases hf
        · rename_i s0 hs0'
          split at hf
          · cases hf
          · rename_i old hold
            split at hf
            · cases hf
            · rename_i v hv
              cases hf
              exact ⟨mc, s0, old, v, hmc, hs0', hold, hv, rfl⟩
    · rw [if_neg hn0, if_neg hn1] at hps hf
      have hshape : ∀ c' p', atmDefaultCol t c' = .ok p' → p'.1 = rawName t.conv g0.name c'.name ∨ c' ∉ t.cols := by
        intro c' p' hc'
        by_cases hmem : c' ∈ t.cols
        · left
          unfold atmDefaultCol at hc'
          rw [hl0] at hc'
          simp only [tgt_atm_name t htw g0 grest hg c'.name (List.mem_cons_of_mem _ (List.mem_map.mpr ⟨c', hmem, rfl⟩))] at hc'
          cases hc'; rfl
        · exact Or.inr hmem
      have := hfun _ hshape hps hf
      rw [hk, this]
      unfold atmDefaultCol at hf
      rw [hl0] at hf
      simp only [hnm] at hf
      cases hf; rfl

end Proofs.Mapping
