/-
  GENERATED ONCE by an adaptive subdivision (exact rational arithmetic); every number below is re-checked by Lean.
  Pieces 22..43 of the cover of the saturation interval: 460.105045 K .. 638.28705054 K.
-/
import PyTough.Proofs.ThermoSatPiece
namespace Proofs.Iapws.Cover
open Gen.Iapws Model.Thermo Proofs.Thermo Proofs.Iapws

noncomputable def P22 : Piece := { a := (460106300091 / 1000000000 : ℝ), b := (475685166731 / 1000000000 : ℝ), Alo := (6113171 / 250 : ℝ), Ahi := (28606303 / 500 : ℝ), Blo := (-1377835271 / 1000 : ℝ), Bhi := (-263238763 / 200 : ℝ), Clo := (1343394243 / 1000 : ℝ), Chi := (185711774 / 125 : ℝ), ACmax := (85000436444 : ℝ), ACmin := (32849594911 : ℝ), slo := (5899924603 / 5000 : ℝ), shi := (13292974289 / 10000 : ℝ), βlo := (992484958753 / 1000000000000 : ℝ), βhi := (1190374848413 / 1000000000000 : ℝ), Mg := (-1256657 / 250 : ℝ), Mh := (3869747 / 1000 : ℝ) }
theorem P22_ok : P22.ok := by
  unfold Piece.ok P22 satA satB satC nr4_0 nr4_1 nr4_2 nr4_3 nr4_4 nr4_5 nr4_6 nr4_7 pmin pstar4 pcritical
  simp only [tf_lit]
  norm_num
theorem T22 (T : ℝ) (h1 : (92021009 / 200000 : ℝ) ≤ T) (h2 : T ≤ (1141641119 / 2400000 : ℝ)) : Branch (thetaOf T) :=
  P22.branchT P22_ok (92021009 / 200000 : ℝ) (1141641119 / 2400000 : ℝ) (by unfold nr4_9; rw [tf_lit]; norm_num)
    (by unfold P22 thetaOf nr4_8 nr4_9; simp only [tf_lit]; norm_num) (by unfold P22 thetaOf nr4_8 nr4_9; simp only [tf_lit]; norm_num) T h1 h2

noncomputable def P23 : Piece := { a := (47568516673 / 100000000 : ℝ), b := (24563202767 / 50000000 : ℝ), Alo := (11442521 / 200 : ℝ), Ahi := (3618319 / 40 : ℝ), Blo := (-723882257 / 500 : ℝ), Bhi := (-137783527 / 100 : ℝ), Clo := (1485694191 / 1000 : ℝ), Chi := (1635234183 / 1000 : ℝ), ACmax := (147919972845 : ℝ), ACmin := (85000434900 : ℝ), slo := (5715658623 / 5000 : ℝ), shi := (13251491797 / 10000 : ℝ), βlo := (1071576222783 / 1000000000000 : ℝ), βhi := (648653547033 / 500000000000 : ℝ), Mg := (-6168319 / 1000 : ℝ), Mh := (3893097 / 1000 : ℝ) }
theorem P23_ok : P23.ok := by
  unfold Piece.ok P23 satA satB satC nr4_0 nr4_1 nr4_2 nr4_3 nr4_4 nr4_5 nr4_6 nr4_7 pmin pstar4 pcritical
  simp only [tf_lit]
  norm_num
theorem T23 (T : ℝ) (h1 : (1141641119 / 2400000 : ℝ) ≤ T) (h2 : T ≤ (117903013 / 240000 : ℝ)) : Branch (thetaOf T) :=
  P23.branchT P23_ok (1141641119 / 2400000 : ℝ) (117903013 / 240000 : ℝ) (by unfold nr4_9; rw [tf_lit]; norm_num)
    (by unfold P23 thetaOf nr4_8 nr4_9; simp only [tf_lit]; norm_num) (by unfold P23 thetaOf nr4_8 nr4_9; simp only [tf_lit]; norm_num) T h1 h2

noncomputable def P24 : Piece := { a := (491264055339 / 1000000000 : ℝ), b := (126710743271 / 250000000 : ℝ), Alo := (45228987 / 500 : ℝ), Ahi := (31047203 / 250 : ℝ), Blo := (-190747702 / 125 : ℝ), Bhi := (-1447764513 / 1000 : ℝ), Clo := (817617091 / 500 : ℝ), Chi := (1792014319 / 1000 : ℝ), ACmax := (222548129364 : ℝ), ACmin := (147919971119 : ℝ), slo := (10981027127 / 10000 : ℝ), shi := (2635860397 / 2000 : ℝ), βlo := (22999787457 / 20000000000 : ℝ), βhi := (351945753673 / 250000000000 : ℝ), Mg := (-3721259 / 500 : ℝ), Mh := (3872089 / 1000 : ℝ) }
theorem P24_ok : P24.ok := by
  unfold Piece.ok P24 satA satB satC nr4_0 nr4_1 nr4_2 nr4_3 nr4_4 nr4_5 nr4_6 nr4_7 pmin pstar4 pcritical
  simp only [tf_lit]
  norm_num
theorem T24 (T : ℝ) (h1 : (117903013 / 240000 : ℝ) ≤ T) (h2 : T ≤ (405473047 / 800000 : ℝ)) : Branch (thetaOf T) :=
  P24.branchT P24_ok (117903013 / 240000 : ℝ) (405473047 / 800000 : ℝ) (by unfold nr4_9; rw [tf_lit]; norm_num)
    (by unfold P24 thetaOf nr4_8 nr4_9; simp only [tf_lit]; norm_num) (by unfold P24 thetaOf nr4_8 nr4_9; simp only [tf_lit]; norm_num) T h1 h2

noncomputable def P25 : Piece := { a := (506842973083 / 1000000000 : ℝ), b := (522421930619 / 1000000000 : ℝ), Alo := (124188811 / 1000 : ℝ), Ahi := (79202571 / 500 : ℝ), Blo := (-1612486687 / 1000 : ℝ), Bhi := (-305196323 / 200 : ℝ), Clo := (896007159 / 500 : ℝ), Chi := (978017379 / 500 : ℝ), ACmax := (309845963598 : ℝ), ACmin := (222548127447 : ℝ), slo := (5218323569 / 5000 : ℝ), shi := (6538197011 / 5000 : ℝ), βlo := (1227354068461 / 1000000000000 : ℝ), βhi := (304483108991 / 200000000000 : ℝ), Mg := (-8858449 / 1000 : ℝ), Mh := (1903057 / 500 : ℝ) }
theorem P25_ok : P25.ok := by
  unfold Piece.ok P25 satA satB satC nr4_0 nr4_1 nr4_2 nr4_3 nr4_4 nr4_5 nr4_6 nr4_7 pmin pstar4 pcritical
  simp only [tf_lit]
  norm_num
theorem T25 (T : ℝ) (h1 : (405473047 / 800000 : ℝ) ≤ T) (h2 : T ≤ (156726019 / 300000 : ℝ)) : Branch (thetaOf T) :=
  P25.branchT P25_ok (405473047 / 800000 : ℝ) (156726019 / 300000 : ℝ) (by unfold nr4_9; rw [tf_lit]; norm_num)
    (by unfold P25 thetaOf nr4_8 nr4_9; simp only [tf_lit]; norm_num) (by unfold P25 thetaOf nr4_8 nr4_9; simp only [tf_lit]; norm_num) T h1 h2

noncomputable def P26 : Piece := { a := (261210965309 / 500000000 : ℝ), b := (269000472263 / 500000000 : ℝ), Alo := (158405141 / 1000 : ℝ), Ahi := (96553503 / 500 : ℝ), Blo := (-341455979 / 200 : ℝ), Bhi := (-806243343 / 500 : ℝ), Clo := (1956034757 / 1000 : ℝ), Chi := (106364787 / 50 : ℝ), ACmax := (410795711228 : ℝ), ACmin := (309845961483 : ℝ), slo := (9782282287 / 10000 : ℝ), shi := (12943804673 / 10000 : ℝ), βlo := (651650926789 / 500000000000 : ℝ), βhi := (821123052919 / 500000000000 : ℝ), Mg := (-5214679 / 500 : ℝ), Mh := (3694963 / 1000 : ℝ) }
theorem P26_ok : P26.ok := by
  unfold Piece.ok P26 satA satB satC nr4_0 nr4_1 nr4_2 nr4_3 nr4_4 nr4_5 nr4_6 nr4_7 pmin pstar4 pcritical
  simp only [tf_lit]
  norm_num
theorem T26 (T : ℝ) (h1 : (156726019 / 300000 : ℝ) ≤ T) (h2 : T ≤ (1291197163 / 2400000 : ℝ)) : Branch (thetaOf T) :=
  P26.branchT P26_ok (156726019 / 300000 : ℝ) (1291197163 / 2400000 : ℝ) (by unfold nr4_9; rw [tf_lit]; norm_num)
    (by unfold P26 thetaOf nr4_8 nr4_9; simp only [tf_lit]; norm_num) (by unfold P26 thetaOf nr4_8 nr4_9; simp only [tf_lit]; norm_num) T h1 h2

noncomputable def P27 : Piece := { a := (21520037781 / 40000000 : ℝ), b := (553580042077 / 1000000000 : ℝ), Alo := (38621401 / 200 : ℝ), Ahi := (28536809 / 125 : ℝ), Blo := (-1810361517 / 1000 : ℝ), Bhi := (-853639947 / 500 : ℝ), Clo := (2127295739 / 1000 : ℝ), Chi := (2305797663 / 1000 : ℝ), ACmax := (526400860014 : ℝ), ACmin := (410795708907 : ℝ), slo := (8995561107 / 10000 : ℝ), shi := (12783684863 / 10000 : ℝ), βlo := (1377456583597 / 1000000000000 : ℝ), βhi := (884519647129 / 500000000000 : ℝ), Mg := (-12175691 / 1000 : ℝ), Mh := (3538801 / 1000 : ℝ) }
theorem P27_ok : P27.ok := by
  unfold Piece.ok P27 satA satB satC nr4_0 nr4_1 nr4_2 nr4_3 nr4_4 nr4_5 nr4_6 nr4_7 pmin pstar4 pcritical
  simp only [tf_lit]
  norm_num
theorem T27 (T : ℝ) (h1 : (1291197163 / 2400000 : ℝ) ≤ T) (h2 : T ≤ (221431029 / 400000 : ℝ)) : Branch (thetaOf T) :=
  P27.branchT P27_ok (1291197163 / 2400000 : ℝ) (221431029 / 400000 : ℝ) (by unfold nr4_9; rw [tf_lit]; norm_num)
    (by unfold P27 thetaOf nr4_8 nr4_9; simp only [tf_lit]; norm_num) (by unfold P27 thetaOf nr4_8 nr4_9; simp only [tf_lit]; norm_num) T h1 h2

noncomputable def P28 : Piece := { a := (138395010519 / 250000000 : ℝ), b := (569159271523 / 1000000000 : ℝ), Alo := (228294471 / 1000 : ℝ), Ahi := (263967659 / 1000 : ℝ), Blo := (-960866023 / 500 : ℝ), Bhi := (-452590379 / 250 : ℝ), Clo := (1152898831 / 500 : ℝ), Chi := (249154123 / 100 : ℝ), ACmax := (657686305786 : ℝ), ACmin := (526400857479 : ℝ), slo := (64332317 / 80 : ℝ), shi := (2519881447 / 2000 : ℝ), βlo := (724712385291 / 500000000000 : ℝ), βhi := (4764824019 / 2500000000 : ℝ), Mg := (-2826361 / 200 : ℝ), Mh := (66763 / 20 : ℝ) }
theorem P28_ok : P28.ok := by
  unfold Piece.ok P28 satA satB satC nr4_0 nr4_1 nr4_2 nr4_3 nr4_4 nr4_5 nr4_6 nr4_7 pmin pstar4 pcritical
  simp only [tf_lit]
  norm_num
theorem T28 (T : ℝ) (h1 : (221431029 / 400000 : ℝ) ≤ T) (h2 : T ≤ (273195037 / 480000 : ℝ)) : Branch (thetaOf T) :=
  P28.branchT P28_ok (221431029 / 400000 : ℝ) (273195037 / 480000 : ℝ) (by unfold nr4_9; rw [tf_lit]; norm_num)
    (by unfold P28 thetaOf nr4_8 nr4_9; simp only [tf_lit]; norm_num) (by unfold P28 thetaOf nr4_8 nr4_9; simp only [tf_lit]; norm_num) T h1 h2

noncomputable def P29 : Piece := { a := (284579635761 / 500000000 : ℝ), b := (584738727061 / 1000000000 : ℝ), Alo := (131983829 / 500 : ℝ), Ahi := (150063399 / 500 : ℝ), Blo := (-51034811 / 25 : ℝ), Bhi := (-384346409 / 200 : ℝ), Clo := (2491541229 / 1000 : ℝ), Chi := (2684527813 / 1000 : ℝ), ACmax := (805698736658 : ℝ), ACmin := (657686303029 : ℝ), slo := (1371508813 / 2000 : ℝ), shi := (12395716527 / 10000 : ℝ), βlo := (1518786038861 / 1000000000000 : ℝ), βhi := (32173319293 / 15625000000 : ℝ), Mg := (-2045362 / 125 : ℝ), Mh := (386737 / 125 : ℝ) }
theorem P29_ok : P29.ok := by
  unfold Piece.ok P29 satA satB satC nr4_0 nr4_1 nr4_2 nr4_3 nr4_4 nr4_5 nr4_6 nr4_7 pmin pstar4 pcritical
  simp only [tf_lit]
  norm_num
theorem T29 (T : ℝ) (h1 : (273195037 / 480000 : ℝ) ≤ T) (h2 : T ≤ (350841049 / 600000 : ℝ)) : Branch (thetaOf T) :=
  P29.branchT P29_ok (273195037 / 480000 : ℝ) (350841049 / 600000 : ℝ) (by unfold nr4_9; rw [tf_lit]; norm_num)
    (by unfold P29 thetaOf nr4_8 nr4_9; simp only [tf_lit]; norm_num) (by unfold P29 thetaOf nr4_8 nr4_9; simp only [tf_lit]; norm_num) T h1 h2

noncomputable def P30 : Piece := { a := (29236936353 / 50000000 : ℝ), b := (296264298447 / 500000000 : ℝ), Alo := (300126797 / 1000 : ℝ), Ahi := (159194371 / 500 : ℝ), Blo := (-2104331919 / 1000 : ℝ), Bhi := (-2041392439 / 1000 : ℝ), Clo := (671131953 / 250 : ℝ), Chi := (278373807 / 100 : ℝ), ACmax := (886310862165 : ℝ), ACmin := (805698733672 : ℝ), slo := (315477959 / 400 : ℝ), shi := (439166099 / 400 : ℝ), βlo := (838326235427 / 500000000000 : ℝ), βhi := (1967245345469 / 1000000000000 : ℝ), Mg := (-16156319 / 1000 : ℝ), Mh := (798121 / 250 : ℝ) }
theorem P30_ok : P30.ok := by
  unfold Piece.ok P30 satA satB satC nr4_0 nr4_1 nr4_2 nr4_3 nr4_4 nr4_5 nr4_6 nr4_7 pmin pstar4 pcritical
  simp only [tf_lit]
  norm_num
theorem T30 (T : ℝ) (h1 : (350841049 / 600000 : ℝ) ≤ T) (h2 : T ≤ (7406555737 / 12500000 : ℝ)) : Branch (thetaOf T) :=
  P30.branchT P30_ok (350841049 / 600000 : ℝ) (7406555737 / 12500000 : ℝ) (by unfold nr4_9; rw [tf_lit]; norm_num)
    (by unfold P30 thetaOf nr4_8 nr4_9; simp only [tf_lit]; norm_num) (by unfold P30 thetaOf nr4_8 nr4_9; simp only [tf_lit]; norm_num) T h1 h2

noncomputable def P31 : Piece := { a := (592528596893 / 1000000000 : ℝ), b := (300159310307 / 500000000 : ℝ), Alo := (318388741 / 1000 : ℝ), Ahi := (168386207 / 500 : ℝ), Blo := (-271168107 / 125 : ℝ), Bhi := (-1052165959 / 500 : ℝ), Clo := (2783738069 / 1000 : ℝ), Chi := (2884760501 / 1000 : ℝ), ACmax := (971507757734 : ℝ), ACmin := (886310859062 : ℝ), slo := (1472659893 / 2000 : ℝ), shi := (10774106311 / 10000 : ℝ), βlo := (857390733629 / 500000000000 : ℝ), βhi := (2031048142021 / 1000000000000 : ℝ), Mg := (-17220591 / 1000 : ℝ), Mh := (3037009 / 1000 : ℝ) }
theorem P31_ok : P31.ok := by
  unfold Piece.ok P31 satA satB satC nr4_0 nr4_1 nr4_2 nr4_3 nr4_4 nr4_5 nr4_6 nr4_7 pmin pstar4 pcritical
  simp only [tf_lit]
  norm_num
theorem T31 (T : ℝ) (h1 : (7406555737 / 12500000 : ℝ) ≤ T) (h2 : T ≤ (480251069 / 800000 : ℝ)) : Branch (thetaOf T) :=
  P31.branchT P31_ok (7406555737 / 12500000 : ℝ) (480251069 / 800000 : ℝ) (by unfold nr4_9; rw [tf_lit]; norm_num)
    (by unfold P31 thetaOf nr4_8 nr4_9; simp only [tf_lit]; norm_num) (by unfold P31 thetaOf nr4_8 nr4_9; simp only [tf_lit]; norm_num) T h1 h2

noncomputable def P32 : Piece := { a := (600318620613 / 1000000000 : ℝ), b := (608108883697 / 1000000000 : ℝ), Alo := (336772413 / 1000 : ℝ), Ahi := (14211121 / 40 : ℝ), Blo := (-2236432121 / 1000 : ℝ), Bhi := (-433868971 / 200 : ℝ), Clo := (5769521 / 2 : ℝ), Chi := (2987596349 / 1000 : ℝ), ACmax := (1061427330370 : ℝ), ACmin := (971507754512 : ℝ), slo := (1356978671 / 2000 : ℝ), shi := (5281092723 / 5000 : ℝ), βlo := (1752242064509 / 1000000000000 : ℝ), βhi := (419630659533 / 200000000000 : ℝ), Mg := (-18347703 / 1000 : ℝ), Mh := (2870289 / 1000 : ℝ) }
theorem P32_ok : P32.ok := by
  unfold Piece.ok P32 satA satB satC nr4_0 nr4_1 nr4_2 nr4_3 nr4_4 nr4_5 nr4_6 nr4_7 pmin pstar4 pcritical
  simp only [tf_lit]
  norm_num
theorem T32 (T : ℝ) (h1 : (480251069 / 800000 : ℝ) ≤ T) (h2 : T ≤ (30405160677 / 50000000 : ℝ)) : Branch (thetaOf T) :=
  P32.branchT P32_ok (480251069 / 800000 : ℝ) (30405160677 / 50000000 : ℝ) (by unfold nr4_9; rw [tf_lit]; norm_num)
    (by unfold P32 thetaOf nr4_8 nr4_9; simp only [tf_lit]; norm_num) (by unfold P32 thetaOf nr4_8 nr4_9; simp only [tf_lit]; norm_num) T h1 h2

noncomputable def P33 : Piece := { a := (38006805231 / 62500000 : ℝ), b := (61200415079 / 100000000 : ℝ), Alo := (44409753 / 125 : ℝ), Ahi := (364576671 / 1000 : ℝ), Blo := (-567688523 / 250 : ℝ), Bhi := (-55910803 / 25 : ℝ), Clo := (746899087 / 250 : ℝ), Chi := (3039694973 / 1000 : ℝ), ACmax := (1108201874112 : ℝ), ACmin := (1061427327027 : ℝ), slo := (7542023143 / 10000 : ℝ), shi := (4771307049 / 5000 : ℝ), βlo := (2315955029 / 1250000000 : ℝ), βhi := (3176264769 / 1562500000 : ℝ), Mg := (-3609337 / 200 : ℝ), Mh := (363966 / 125 : ℝ) }
theorem P33_ok : P33.ok := by
  unfold Piece.ok P33 satA satB satC nr4_0 nr4_1 nr4_2 nr4_3 nr4_4 nr4_5 nr4_6 nr4_7 pmin pstar4 pcritical
  simp only [tf_lit]
  norm_num
theorem T33 (T : ℝ) (h1 : (30405160677 / 50000000 : ℝ) ≤ T) (h2 : T ≤ (61199790219 / 100000000 : ℝ)) : Branch (thetaOf T) :=
  P33.branchT P33_ok (30405160677 / 50000000 : ℝ) (61199790219 / 100000000 : ℝ) (by unfold nr4_9; rw [tf_lit]; norm_num)
    (by unfold P33 thetaOf nr4_8 nr4_9; simp only [tf_lit]; norm_num) (by unfold P33 thetaOf nr4_8 nr4_9; simp only [tf_lit]; norm_num) T h1 h2

noncomputable def P34 : Piece := { a := (612004150789 / 1000000000 : ℝ), b := (123179909861 / 200000000 : ℝ), Alo := (36457667 / 100 : ℝ), Ahi := (373905979 / 1000 : ℝ), Blo := (-18444763 / 8 : ℝ), Bhi := (-2270754091 / 1000 : ℝ), Clo := (759923743 / 250 : ℝ), Chi := (1546123997 / 500 : ℝ), ACmax := (1156210013508 : ℝ), ACmin := (1108201870707 : ℝ), slo := (91128694 / 125 : ℝ), shi := (9396608699 / 10000 : ℝ), βlo := (1873315844797 / 1000000000000 : ℝ), βhi := (515411836653 / 250000000000 : ℝ), Mg := (-18576937 / 1000 : ℝ), Mh := (1409717 / 500 : ℝ) }
theorem P34_ok : P34.ok := by
  unfold Piece.ok P34 satA satB satC nr4_0 nr4_1 nr4_2 nr4_3 nr4_4 nr4_5 nr4_6 nr4_7 pmin pstar4 pcritical
  simp only [tf_lit]
  norm_num
theorem T34 (T : ℝ) (h1 : (61199790219 / 100000000 : ℝ) ≤ T) (h2 : T ≤ (739071109 / 1200000 : ℝ)) : Branch (thetaOf T) :=
  P34.branchT P34_ok (61199790219 / 100000000 : ℝ) (739071109 / 1200000 : ℝ) (by unfold nr4_9; rw [tf_lit]; norm_num)
    (by unfold P34 thetaOf nr4_8 nr4_9; simp only [tf_lit]; norm_num) (by unfold P34 thetaOf nr4_8 nr4_9; simp only [tf_lit]; norm_num) T h1 h2

noncomputable def P35 : Piece := { a := (76987443663 / 125000000 : ℝ), b := (77474391223 / 125000000 : ℝ), Alo := (186952989 / 500 : ℝ), Ahi := (47908259 / 125 : ℝ), Blo := (-1170478241 / 500 : ℝ), Bhi := (-1152797687 / 500 : ℝ), Clo := (3092247993 / 1000 : ℝ), Chi := (62905123 / 20 : ℝ), ACmax := (1205469970045 : ℝ), ACmin := (1156210010041 : ℝ), slo := (7027731841 / 10000 : ℝ), shi := (9247903603 / 10000 : ℝ), βlo := (946873147957 / 500000000000 : ℝ), βhi := (1045502267843 / 500000000000 : ℝ), Mg := (-19119623 / 1000 : ℝ), Mh := (108969 / 40 : ℝ) }
theorem P35_ok : P35.ok := by
  unfold Piece.ok P35 satA satB satC nr4_0 nr4_1 nr4_2 nr4_3 nr4_4 nr4_5 nr4_6 nr4_7 pmin pstar4 pcritical
  simp only [tf_lit]
  norm_num
theorem T35 (T : ℝ) (h1 : (739071109 / 1200000 : ℝ) ≤ T) (h2 : T ≤ (15494681987 / 25000000 : ℝ)) : Branch (thetaOf T) :=
  P35.branchT P35_ok (739071109 / 1200000 : ℝ) (15494681987 / 25000000 : ℝ) (by unfold nr4_9; rw [tf_lit]; norm_num)
    (by unfold P35 thetaOf nr4_8 nr4_9; simp only [tf_lit]; norm_num) (by unfold P35 thetaOf nr4_8 nr4_9; simp only [tf_lit]; norm_num) T h1 h2

noncomputable def P36 : Piece := { a := (619795129783 / 1000000000 : ℝ), b := (623690972467 / 1000000000 : ℝ), Alo := (383266071 / 1000 : ℝ), Ahi := (7853143 / 20 : ℝ), Blo := (-297104779 / 125 : ℝ), Bhi := (-2340956481 / 1000 : ℝ), Clo := (3145256149 / 1000 : ℝ), Chi := (3198720609 / 1000 : ℝ), ACmax := (1256000517977 : ℝ), ACmin := (1205469966515 : ℝ), slo := (6753333799 / 10000 : ℝ), shi := (4548296701 / 5000 : ℝ), βlo := (1914047450151 / 1000000000000 : ℝ), βhi := (1060481835803 / 500000000000 : ℝ), Mg := (-9837861 / 500 : ℝ), Mh := (328264 / 125 : ℝ) }
theorem P36_ok : P36.ok := by
  unfold Piece.ok P36 satA satB satC nr4_0 nr4_1 nr4_2 nr4_3 nr4_4 nr4_5 nr4_6 nr4_7 pmin pstar4 pcritical
  simp only [tf_lit]
  norm_num
theorem T36 (T : ℝ) (h1 : (15494681987 / 25000000 : ℝ) ≤ T) (h2 : T ≤ (15592049203 / 25000000 : ℝ)) : Branch (thetaOf T) :=
  P36.branchT P36_ok (15494681987 / 25000000 : ℝ) (15592049203 / 25000000 : ℝ) (by unfold nr4_9; rw [tf_lit]; norm_num)
    (by unfold P36 thetaOf nr4_8 nr4_9; simp only [tf_lit]; norm_num) (by unfold P36 thetaOf nr4_8 nr4_9; simp only [tf_lit]; norm_num) T h1 h2

noncomputable def P37 : Piece := { a := (311845486233 / 500000000 : ℝ), b := (313793606469 / 500000000 : ℝ), Alo := (392657149 / 1000 : ℝ), Ahi := (402079547 / 1000 : ℝ), Blo := (-482648401 / 200 : ℝ), Bhi := (-2376838231 / 1000 : ℝ), Clo := (399840076 / 125 : ℝ), Chi := (3252643347 / 1000 : ℝ), ACmax := (1307821363515 : ℝ), ACmin := (1256000514384 : ℝ), slo := (25863473 / 40 : ℝ), shi := (894278993 / 1000 : ℝ), βlo := (96710515517 / 50000000000 : ℝ), βhi := (537907056857 / 250000000000 : ℝ), Mg := (-20246459 / 1000 : ℝ), Mh := (505021 / 200 : ℝ) }
theorem P37_ok : P37.ok := by
  unfold Piece.ok P37 satA satB satC nr4_0 nr4_1 nr4_2 nr4_3 nr4_4 nr4_5 nr4_6 nr4_7 pmin pstar4 pcritical
  simp only [tf_lit]
  norm_num
theorem T37 (T : ℝ) (h1 : (15592049203 / 25000000 : ℝ) ≤ T) (h2 : T ≤ (62757665677 / 100000000 : ℝ)) : Branch (thetaOf T) :=
  P37.branchT P37_ok (15592049203 / 25000000 : ℝ) (62757665677 / 100000000 : ℝ) (by unfold nr4_9; rw [tf_lit]; norm_num)
    (by unfold P37 thetaOf nr4_8 nr4_9; simp only [tf_lit]; norm_num) (by unfold P37 thetaOf nr4_8 nr4_9; simp only [tf_lit]; norm_num) T h1 h2

noncomputable def P38 : Piece := { a := (627587212937 / 1000000000 : ℝ), b := (125907110533 / 200000000 : ℝ), Alo := (201039773 / 500 : ℝ), Ahi := (406802663 / 1000 : ℝ), Blo := (-1215820183 / 500 : ℝ), Bhi := (-603310501 / 250 : ℝ), Clo := (1626321673 / 500 : ℝ), Chi := (655955519 / 200 : ℝ), ACmax := (1334222259694 : ℝ), ACmin := (1307821359859 : ℝ), slo := (436090556 / 625 : ℝ), shi := (4127921481 / 5000 : ℝ), βlo := (399437396351 / 200000000000 : ℝ), βhi := (1054256320317 / 500000000000 : ℝ), Mg := (-19981031 / 1000 : ℝ), Mh := (2540883 / 1000 : ℝ) }
theorem P38_ok : P38.ok := by
  unfold Piece.ok P38 satA satB satC nr4_0 nr4_1 nr4_2 nr4_3 nr4_4 nr4_5 nr4_6 nr4_7 pmin pstar4 pcritical
  simp only [tf_lit]
  norm_num
theorem T38 (T : ℝ) (h1 : (62757665677 / 100000000 : ℝ) ≤ T) (h2 : T ≤ (62952400109 / 100000000 : ℝ)) : Branch (thetaOf T) :=
  P38.branchT P38_ok (62757665677 / 100000000 : ℝ) (62952400109 / 100000000 : ℝ) (by unfold nr4_9; rw [tf_lit]; norm_num)
    (by unfold P38 thetaOf nr4_8 nr4_9; simp only [tf_lit]; norm_num) (by unfold P38 thetaOf nr4_8 nr4_9; simp only [tf_lit]; norm_num) T h1 h2

noncomputable def P39 : Piece := { a := (78691944083 / 125000000 : ℝ), b := (63148409967 / 100000000 : ℝ), Alo := (203401331 / 500 : ℝ), Ahi := (3292271 / 8 : ℝ), Blo := (-2450170331 / 1000 : ℝ), Bhi := (-486328073 / 200 : ℝ), Clo := (1639888797 / 500 : ℝ), Chi := (661405597 / 200 : ℝ), ACmax := (1360954041401 : ℝ), ACmin := (1334222256007 : ℝ), slo := (6848786017 / 10000 : ℝ), shi := (8163612111 / 10000 : ℝ), βlo := (62753442599 / 31250000000 : ℝ), βhi := (53056439257 / 25000000000 : ℝ), Mg := (-10126247 / 500 : ℝ), Mh := (2487971 / 1000 : ℝ) }
theorem P39_ok : P39.ok := by
  unfold Piece.ok P39 satA satB satC nr4_0 nr4_1 nr4_2 nr4_3 nr4_4 nr4_5 nr4_6 nr4_7 pmin pstar4 pcritical
  simp only [tf_lit]
  norm_num
theorem T39 (T : ℝ) (h1 : (62952400109 / 100000000 : ℝ) ≤ T) (h2 : T ≤ (1515531229 / 2400000 : ℝ)) : Branch (thetaOf T) :=
  P39.branchT P39_ok (62952400109 / 100000000 : ℝ) (1515531229 / 2400000 : ℝ) (by unfold nr4_9; rw [tf_lit]; norm_num)
    (by unfold P39 thetaOf nr4_8 nr4_9; simp only [tf_lit]; norm_num) (by unfold P39 thetaOf nr4_8 nr4_9; simp only [tf_lit]; norm_num) T h1 h2

noncomputable def P40 : Piece := { a := (631484099669 / 1000000000 : ℝ), b := (126686585241 / 200000000 : ℝ), Alo := (205766937 / 500 : ℝ), Ahi := (416273361 / 1000 : ℝ), Blo := (-493766527 / 200 : ℝ), Bhi := (-245017033 / 100 : ℝ), Clo := (413378498 / 125 : ℝ), Chi := (416799446 / 125 : ℝ), ACmax := (1388020049995 : ℝ), ACmin := (1360954037681 : ℝ), slo := (3358773757 / 5000 : ℝ), shi := (2017607539 / 2500 : ℝ), βlo := (403803848097 / 200000000000 : ℝ), βhi := (2136115045083 / 1000000000000 : ℝ), Mg := (-20526889 / 1000 : ℝ), Mh := (2434307 / 1000 : ℝ) }
theorem P40_ok : P40.ok := by
  unfold Piece.ok P40 satA satB satC nr4_0 nr4_1 nr4_2 nr4_3 nr4_4 nr4_5 nr4_6 nr4_7 pmin pstar4 pcritical
  simp only [tf_lit]
  norm_num
theorem T40 (T : ℝ) (h1 : (1515531229 / 2400000 : ℝ) ≤ T) (h2 : T ≤ (31670934487 / 50000000 : ℝ)) : Branch (thetaOf T) :=
  P40.branchT P40_ok (1515531229 / 2400000 : ℝ) (31670934487 / 50000000 : ℝ) (by unfold nr4_9; rw [tf_lit]; norm_num)
    (by unfold P40 thetaOf nr4_8 nr4_9; simp only [tf_lit]; norm_num) (by unfold P40 thetaOf nr4_8 nr4_9; simp only [tf_lit]; norm_num) T h1 h2

noncomputable def P41 : Piece := { a := (158358231551 / 250000000 : ℝ), b := (635382142543 / 1000000000 : ℝ), Alo := (10406834 / 25 : ℝ), Ahi := (421021393 / 1000 : ℝ), Blo := (-2487628401 / 1000 : ℝ), Bhi := (-1234416317 / 500 : ℝ), Clo := (3334395567 / 1000 : ℝ), Chi := (3361881953 / 1000 : ℝ), ACmax := (1415424222954 : ℝ), ACmin := (1388020046244 : ℝ), slo := (658359843 / 1000 : ℝ), shi := (997038487 / 1250 : ℝ), βlo := (2029913241877 / 1000000000000 : ℝ), βhi := (2150095958421 / 1000000000000 : ℝ), Mg := (-20804351 / 1000 : ℝ), Mh := (475977 / 200 : ℝ) }
theorem P41_ok : P41.ok := by
  unfold Piece.ok P41 satA satB satC nr4_0 nr4_1 nr4_2 nr4_3 nr4_4 nr4_5 nr4_6 nr4_7 pmin pstar4 pcritical
  simp only [tf_lit]
  norm_num
theorem T41 (T : ℝ) (h1 : (31670934487 / 50000000 : ℝ) ≤ T) (h2 : T ≤ (31768301703 / 50000000 : ℝ)) : Branch (thetaOf T) :=
  P41.branchT P41_ok (31670934487 / 50000000 : ℝ) (31768301703 / 50000000 : ℝ) (by unfold nr4_9; rw [tf_lit]; norm_num)
    (by unfold P41 thetaOf nr4_8 nr4_9; simp only [tf_lit]; norm_num) (by unfold P41 thetaOf nr4_8 nr4_9; simp only [tf_lit]; norm_num) T h1 h2

noncomputable def P42 : Piece := { a := (317691071271 / 500000000 : ℝ), b := (637331925739 / 1000000000 : ℝ), Alo := (52627674 / 125 : ℝ), Ahi := (53222301 / 125 : ℝ), Blo := (-313319929 / 125 : ℝ), Bhi := (-12438142 / 5 : ℝ), Clo := (420235244 / 125 : ℝ), Chi := (3389489719 / 1000 : ℝ), ACmax := (1443171536489 : ℝ), ACmin := (1415424219170 : ℝ), slo := (6446773693 / 10000 : ℝ), shi := (7881264553 / 10000 : ℝ), βlo := (81631622971 / 40000000000 : ℝ), βhi := (432842764231 / 200000000000 : ℝ), Mg := (-421701 / 20 : ℝ), Mh := (2324699 / 1000 : ℝ) }
theorem P42_ok : P42.ok := by
  unfold Piece.ok P42 satA satB satC nr4_0 nr4_1 nr4_2 nr4_3 nr4_4 nr4_5 nr4_6 nr4_7 pmin pstar4 pcritical
  simp only [tf_lit]
  norm_num
theorem T42 (T : ℝ) (h1 : (31768301703 / 50000000 : ℝ) ≤ T) (h2 : T ≤ (31865668919 / 50000000 : ℝ)) : Branch (thetaOf T) :=
  P42.branchT P42_ok (31768301703 / 50000000 : ℝ) (31865668919 / 50000000 : ℝ) (by unfold nr4_9; rw [tf_lit]; norm_num)
    (by unfold P42 thetaOf nr4_8 nr4_9; simp only [tf_lit]; norm_num) (by unfold P42 thetaOf nr4_8 nr4_9; simp only [tf_lit]; norm_num) T h1 h2

noncomputable def P43 : Piece := { a := (318665962869 / 500000000 : ℝ), b := (3989419481 / 6250000 : ℝ), Alo := (425778407 / 1000 : ℝ), Ahi := (428160499 / 1000 : ℝ), Blo := (-1258038279 / 500 : ℝ), Bhi := (-2506559431 / 1000 : ℝ), Clo := (1694744859 / 500 : ℝ), Chi := (850835097 / 250 : ℝ), ACmax := (1457175918793 : ℝ), ACmin := (1443171532672 : ℝ), slo := (3369482549 / 5000 : ℝ), shi := (1867409829 / 2500 : ℝ), βlo := (4155007857 / 2000000000 : ℝ), βhi := (2140158801977 / 1000000000000 : ℝ), Mg := (-523049 / 25 : ℝ), Mh := (291491 / 125 : ℝ) }
theorem P43_ok : P43.ok := by
  unfold Piece.ok P43 satA satB satC nr4_0 nr4_1 nr4_2 nr4_3 nr4_4 nr4_5 nr4_6 nr4_7 pmin pstar4 pcritical
  simp only [tf_lit]
  norm_num
theorem T43 (T : ℝ) (h1 : (31865668919 / 50000000 : ℝ) ≤ T) (h2 : T ≤ (31914352527 / 50000000 : ℝ)) : Branch (thetaOf T) :=
  P43.branchT P43_ok (31865668919 / 50000000 : ℝ) (31914352527 / 50000000 : ℝ) (by unfold nr4_9; rw [tf_lit]; norm_num)
    (by unfold P43 thetaOf nr4_8 nr4_9; simp only [tf_lit]; norm_num) (by unfold P43 thetaOf nr4_8 nr4_9; simp only [tf_lit]; norm_num) T h1 h2

theorem cover1 (T : ℝ) (h0 : (92021009 / 200000 : ℝ) ≤ T) (hN : T ≤ (31914352527 / 50000000 : ℝ)) : Branch (thetaOf T) := by
  by_cases c22 : T ≤ (1141641119 / 2400000 : ℝ)
  · exact T22 T h0 c22
  have g22 := le_of_lt (not_le.mp c22)
  by_cases c23 : T ≤ (117903013 / 240000 : ℝ)
  · exact T23 T g22 c23
  have g23 := le_of_lt (not_le.mp c23)
  by_cases c24 : T ≤ (405473047 / 800000 : ℝ)
  · exact T24 T g23 c24
  have g24 := le_of_lt (not_le.mp c24)
  by_cases c25 : T ≤ (156726019 / 300000 : ℝ)
  · exact T25 T g24 c25
  have g25 := le_of_lt (not_le.mp c25)
  by_cases c26 : T ≤ (1291197163 / 2400000 : ℝ)
  · exact T26 T g25 c26
  have g26 := le_of_lt (not_le.mp c26)
  by_cases c27 : T ≤ (221431029 / 400000 : ℝ)
  · exact T27 T g26 c27
  have g27 := le_of_lt (not_le.mp c27)
  by_cases c28 : T ≤ (273195037 / 480000 : ℝ)
  · exact T28 T g27 c28
  have g28 := le_of_lt (not_le.mp c28)
  by_cases c29 : T ≤ (350841049 / 600000 : ℝ)
  · exact T29 T g28 c29
  have g29 := le_of_lt (not_le.mp c29)
  by_cases c30 : T ≤ (7406555737 / 12500000 : ℝ)
  · exact T30 T g29 c30
  have g30 := le_of_lt (not_le.mp c30)
  by_cases c31 : T ≤ (480251069 / 800000 : ℝ)
  · exact T31 T g30 c31
  have g31 := le_of_lt (not_le.mp c31)
  by_cases c32 : T ≤ (30405160677 / 50000000 : ℝ)
  · exact T32 T g31 c32
  have g32 := le_of_lt (not_le.mp c32)
  by_cases c33 : T ≤ (61199790219 / 100000000 : ℝ)
  · exact T33 T g32 c33
  have g33 := le_of_lt (not_le.mp c33)
  by_cases c34 : T ≤ (739071109 / 1200000 : ℝ)
  · exact T34 T g33 c34
  have g34 := le_of_lt (not_le.mp c34)
  by_cases c35 : T ≤ (15494681987 / 25000000 : ℝ)
  · exact T35 T g34 c35
  have g35 := le_of_lt (not_le.mp c35)
  by_cases c36 : T ≤ (15592049203 / 25000000 : ℝ)
  · exact T36 T g35 c36
  have g36 := le_of_lt (not_le.mp c36)
  by_cases c37 : T ≤ (62757665677 / 100000000 : ℝ)
  · exact T37 T g36 c37
  have g37 := le_of_lt (not_le.mp c37)
  by_cases c38 : T ≤ (62952400109 / 100000000 : ℝ)
  · exact T38 T g37 c38
  have g38 := le_of_lt (not_le.mp c38)
  by_cases c39 : T ≤ (1515531229 / 2400000 : ℝ)
  · exact T39 T g38 c39
  have g39 := le_of_lt (not_le.mp c39)
  by_cases c40 : T ≤ (31670934487 / 50000000 : ℝ)
  · exact T40 T g39 c40
  have g40 := le_of_lt (not_le.mp c40)
  by_cases c41 : T ≤ (31768301703 / 50000000 : ℝ)
  · exact T41 T g40 c41
  have g41 := le_of_lt (not_le.mp c41)
  by_cases c42 : T ≤ (31865668919 / 50000000 : ℝ)
  · exact T42 T g41 c42
  have g42 := le_of_lt (not_le.mp c42)
  exact T43 T g42 hN

end Proofs.Iapws.Cover
