/-
  `add_layers` (C17): the generated layer names are distinct, of the convention's length and
  different from the surface layer name; the loop fails only with the naming error, and exactly
  when the name space is exhausted.
-/
import PyTough.Proofs.NamesGen
set_option linter.unusedSimpArgs false
namespace Proofs.Names
open Py Model.Names

section
variable {conv : Nat} {left : Bool} {chars : Str} {spaces : Bool} {surf : Str}
variable {L cap : Nat} {dec : Str → Nat} {okc : Char → Prop}

local notation "g" => fun k => layerNameFromNumber conv k left chars spaces

theorem nextLayerName_sound :
    ∀ (fuel num : Nat) (name : Str) (num' : Nat),
      nextLayerName conv left chars spaces surf fuel num = .ok (name, num') →
      num < num' ∧ num' ≤ num + fuel ∧ layerNameFromNumber conv num' left chars spaces = .ok name ∧ name ≠ surf ∧
      ∀ k, num < k → k < num' → layerNameFromNumber conv k left chars spaces = .ok surf := by
  intro fuel
  induction fuel with
  | zero => intro num name num' h; simp [nextLayerName] at h
  | succ fuel ih =>
    intro num name num' h
    unfold nextLayerName at h
    cases hg : layerNameFromNumber conv (num + 1) left chars spaces with
    | error e => rw [hg] at h; simp at h
    | ok n1 =>
      rw [hg] at h
      by_cases hs : n1 = surf
      · simp only [hs, if_true] at h
        obtain ⟨h1, h2, h3, h4, h5⟩ := ih (num + 1) name num' h
        refine ⟨by omega, by omega, h3, h4, ?_⟩
        intro k hk1 hk2
        by_cases hk : k = num + 1
        · subst hk; rw [hg, hs]
        · exact h5 k (by omega) hk2
      · simp only [hs, if_false] at h
        cases h
        exact ⟨by omega, by omega, hg, hs, fun k hk1 hk2 => by omega⟩

theorem nextLayerName_error (hg : GenSpec (g) L cap dec okc) (num : Nat) (e : Exc)
    (h : nextLayerName conv left chars spaces surf 3 num = .error e) : e = .naming ∧ cap < num + 2 := by
  unfold nextLayerName at h
  rcases hg.ok_or_naming (num + 1) with ⟨n1, h1, _, hc1⟩ | ⟨h1, hc1⟩
  · replace h1 : layerNameFromNumber conv (num + 1) left chars spaces = .ok n1 := h1
    rw [h1] at h
    by_cases hs : n1 = surf
    · simp only [hs, if_true] at h
      unfold nextLayerName at h
      rcases hg.ok_or_naming (num + 1 + 1) with ⟨n2, h2, _, hc2⟩ | ⟨h2, hc2⟩
      · replace h2 : layerNameFromNumber conv (num + 1 + 1) left chars spaces = .ok n2 := h2
        rw [h2] at h
        have hne : n2 ≠ surf := by
          intro e2
          have := hg.inj (k1 := num + 1) (k2 := num + 1 + 1) (name := surf) (by simpa [hs] using h1) (by simpa [e2] using h2)
          omega
        simp [hne] at h
      · replace h2 : layerNameFromNumber conv (num + 1 + 1) left chars spaces = .error .naming := h2
        rw [h2] at h
        simp at h
        exact ⟨h.symm, by omega⟩
    · simp [hs] at h
  · replace h1 : layerNameFromNumber conv (num + 1) left chars spaces = .error .naming := h1
    rw [h1] at h
    simp at h
    exact ⟨h.symm, by omega⟩

theorem nextLayerName_ok1 {num : Nat} {n1 : Str} (fuel : Nat)
    (h1 : layerNameFromNumber conv (num + 1) left chars spaces = .ok n1) (hs : n1 ≠ surf) :
    nextLayerName conv left chars spaces surf (fuel + 1) num = .ok (n1, num + 1) := by
  simp [nextLayerName, h1, hs]

theorem nextLayerName_ok2 {num : Nat} {n2 : Str} (fuel : Nat)
    (h1 : layerNameFromNumber conv (num + 1) left chars spaces = .ok surf)
    (h2 : layerNameFromNumber conv (num + 2) left chars spaces = .ok n2) (hs : n2 ≠ surf) :
    nextLayerName conv left chars spaces surf (fuel + 2) num = .ok (n2, num + 2) := by
  simp [nextLayerName, h1, h2, hs]

/-- what a successful run of the loop returns -/
theorem addLayersLoop_sound (hg : GenSpec (g) L cap dec okc) :
    ∀ (m num : Nat) (names : List Str),
      addLayersLoop conv left chars spaces surf m num = .ok names →
      names.length = m ∧
      (∀ x ∈ names, x.length = L ∧ x ≠ surf ∧ num < dec x ∧ dec x ≤ cap ∧ (∀ c ∈ x, okc c) ∧
        layerNameFromNumber conv (dec x) left chars spaces = .ok x) ∧
      names.Pairwise (fun x y => dec x < dec y) := by
  intro m
  induction m with
  | zero =>
    intro num names h
    simp [addLayersLoop] at h
    subst h; simp
  | succ m ih =>
    intro num names h
    unfold addLayersLoop at h
    cases hn : nextLayerName conv left chars spaces surf 3 num with
    | error e => rw [hn] at h; simp at h
    | ok p =>
      obtain ⟨name, num'⟩ := p
      rw [hn] at h
      simp only [] at h
      cases hr : addLayersLoop conv left chars spaces surf m num' with
      | error e => rw [hr] at h; simp at h
      | ok rest =>
        rw [hr] at h
        simp only [Except.ok.injEq] at h
        subst h
        obtain ⟨h1, _, h3, h4, _⟩ := nextLayerName_sound 3 num name num' hn
        obtain ⟨r1, r2, r3⟩ := ih num' rest hr
        have hdec : dec name = num' := hg.dec num' name h3
        have hcap : num' ≤ cap := by
          rcases hg.ok_or_naming num' with ⟨_, _, _, hc⟩ | ⟨he, _⟩
          · exact hc
          · replace he : layerNameFromNumber conv num' left chars spaces = .error .naming := he
            rw [h3] at he; cases he
        obtain ⟨n', hn1, hn2, hn3⟩ := hg.ok num' hcap
        replace hn1 : layerNameFromNumber conv num' left chars spaces = .ok n' := hn1
        rw [h3] at hn1
        cases hn1
        refine ⟨by simp [r1], ?_, ?_⟩
        · intro x hx
          rcases List.mem_cons.mp hx with hx | hx
          · subst hx
            exact ⟨hn2, h4, by omega, by omega, hn3, by rw [hdec]; exact h3⟩
          · obtain ⟨a, b, c, d, e, f⟩ := r2 x hx
            exact ⟨a, b, by omega, d, e, f⟩
        · refine List.Pairwise.cons ?_ r3
          intro y hy
          have := (r2 y hy).2.2.1
          omega

theorem addLayersLoop_error (hg : GenSpec (g) L cap dec okc) :
    ∀ (m num : Nat) (e : Exc), addLayersLoop conv left chars spaces surf m num = .error e → e = .naming := by
  intro m
  induction m with
  | zero => intro num e h; simp [addLayersLoop] at h
  | succ m ih =>
    intro num e h
    unfold addLayersLoop at h
    cases hn : nextLayerName conv left chars spaces surf 3 num with
    | error e' =>
      rw [hn] at h
      simp only [Except.error.injEq] at h
      subst h
      exact (nextLayerName_error hg num _ hn).1
    | ok p =>
      obtain ⟨name, num'⟩ := p
      rw [hn] at h
      simp only [] at h
      cases hr : addLayersLoop conv left chars spaces surf m num' with
      | error e' =>
        rw [hr] at h
        simp only [Except.error.injEq] at h
        subst h
        exact ih num' _ hr
      | ok rest => rw [hr] at h; simp at h

theorem increasing_count : ∀ (l : List Nat) (num cap : Nat), num ≤ cap → l.Pairwise (· < ·) →
    (∀ x ∈ l, num < x ∧ x ≤ cap) → num + l.length ≤ cap := by
  intro l
  induction l with
  | nil => intro num cap h _ _; simpa using h
  | cons x r ih =>
    intro num cap _ hp hb
    have hx := hb x (List.mem_cons_self)
    have hp' := List.pairwise_cons.mp hp
    have hr := ih x cap hx.2 hp'.2 (fun y hy => ⟨hp'.1 y hy, (hb y (List.mem_cons_of_mem _ hy)).2⟩)
    simp only [List.length_cons]
    omega

/-- more layers than names: the naming error -/
theorem addLayersLoop_exhausted (hg : GenSpec (g) L cap dec okc) (m num : Nat) (hnum : num ≤ cap) (h : cap < num + m) :
    addLayersLoop conv left chars spaces surf m num = .error .naming := by
  cases hr : addLayersLoop conv left chars spaces surf m num with
  | error e => rw [addLayersLoop_error hg m num e hr]
  | ok names =>
    obtain ⟨r1, r2, r3⟩ := addLayersLoop_sound hg m num names hr
    have hp : (names.map dec).Pairwise (· < ·) := List.pairwise_map.mpr r3
    have := increasing_count (names.map dec) num cap hnum hp (by
      intro x hx
      obtain ⟨y, hy, rfl⟩ := List.mem_map.mp hx
      exact ⟨(r2 y hy).2.2.1, (r2 y hy).2.2.2.1⟩)
    simp only [List.length_map] at this
    omega

/-- enough names: the loop succeeds.  One number may be skipped (the one whose name is the
    surface layer name), so room for `m + 1` numbers is always enough. -/
theorem addLayersLoop_room (hg : GenSpec (g) L cap dec okc) :
    ∀ (m num : Nat),
      (num + m + 1 ≤ cap ∨ (num + m ≤ cap ∧ ∀ k, num < k → layerNameFromNumber conv k left chars spaces ≠ .ok surf)) →
      ∃ names, addLayersLoop conv left chars spaces surf m num = .ok names := by
  intro m
  induction m with
  | zero => intro num _; exact ⟨[], by simp [addLayersLoop]⟩
  | succ m ih =>
    intro num hP
    have hc1 : num + 1 ≤ cap := by rcases hP with h | ⟨h, _⟩ <;> omega
    obtain ⟨n1, h1, _, _⟩ := hg.ok (num + 1) hc1
    replace h1 : layerNameFromNumber conv (num + 1) left chars spaces = .ok n1 := h1
    by_cases hs : n1 = surf
    · -- the surface name: skipped, the next number is used
      subst hs
      have hroom : num + (m + 1) + 1 ≤ cap := by
        rcases hP with h | ⟨_, h⟩
        · exact h
        · exact absurd h1 (h (num + 1) (by omega))
      obtain ⟨n2, h2, _, _⟩ := hg.ok (num + 2) (by omega)
      replace h2 : layerNameFromNumber conv (num + 2) left chars spaces = .ok n2 := h2
      have hne : n2 ≠ n1 := by
        intro e2
        have := hg.inj (k1 := num + 1) (k2 := num + 2) (name := n1) h1 (by simpa [e2] using h2)
        omega
      have hnext := nextLayerName_ok2 (surf := n1) 1 h1 h2 hne
      obtain ⟨rest, hrest⟩ := ih (num + 2) (Or.inr ⟨by omega, fun k hk e => by
        have := hg.inj (k1 := num + 1) (k2 := k) (name := n1) h1 e
        omega⟩)
      exact ⟨n2 :: rest, by unfold addLayersLoop; rw [hnext]; simp [hrest]⟩
    · have hnext := nextLayerName_ok1 (surf := surf) 2 h1 hs
      have hP' : num + 1 + m + 1 ≤ cap ∨ (num + 1 + m ≤ cap ∧ ∀ k, num + 1 < k → layerNameFromNumber conv k left chars spaces ≠ .ok surf) := by
        rcases hP with h | ⟨h, h'⟩
        · left; omega
        · right; exact ⟨by omega, fun k hk => h' k (by omega)⟩
      obtain ⟨rest, hrest⟩ := ih (num + 1) hP'
      exact ⟨n1 :: rest, by unfold addLayersLoop; rw [hnext]; simp [hrest]⟩

end

/-! ### `uniqstring` -/

theorem mem_uniqstring (s : Str) (c : Char) : c ∈ uniqstring s ↔ c ∈ s := by
  induction s with
  | nil => simp [uniqstring]
  | cons a r ih =>
    simp only [uniqstring, List.mem_cons, List.mem_filter, ih]
    constructor
    · rintro (h | ⟨h, _⟩)
      · exact Or.inl h
      · exact Or.inr h
    · rintro (h | h)
      · exact Or.inl h
      · by_cases hca : c = a
        · exact Or.inl hca
        · exact Or.inr ⟨h, by simpa using hca⟩

theorem nodup_uniqstring (s : Str) : (uniqstring s).Nodup := by
  induction s with
  | nil => simp [uniqstring]
  | cons a r ih =>
    simp only [uniqstring]
    refine List.nodup_cons.mpr ⟨?_, ?_⟩
    · simp
    · exact List.Pairwise.sublist List.filter_sublist ih

theorem uniqstring_of_nodup {s : Str} (h : s.Nodup) : uniqstring s = s := by
  induction s with
  | nil => rfl
  | cons a r ih =>
    have ⟨h1, h2⟩ := List.nodup_cons.mp h
    simp only [uniqstring, ih h2]
    congr 1
    rw [List.filter_eq_self]
    intro c hc
    have : c ≠ a := fun e => h1 (e ▸ hc)
    simpa using this

/-- `uniqstring` of a string without blanks and digits is an alphabet, provided it has enough characters -/
theorem alphabetOK_uniqstring {chars : Str} {spaces : Bool}
    (hclean : ∀ c ∈ chars, c ≠ ' ' ∧ isDigit c = false)
    (hsize : if spaces = true then 1 ≤ (uniqstring chars).length else 2 ≤ (uniqstring chars).length) :
    AlphabetOK (uniqstring chars) spaces :=
  ⟨nodup_uniqstring chars, fun c hc => hclean c ((mem_uniqstring chars c).mp hc), hsize⟩

/-! ### `add_layers` -/

theorem addLayers_eq (conv m : Nat) (left : Bool) (chars : Str) (spaces : Bool) :
    addLayers conv m left chars spaces =
      match addLayersLoop conv left (uniqstring chars) spaces (surfaceLayerName conv) m 0 with
      | .error e => .error e
      | .ok names => .ok (surfaceLayerName conv :: names) := rfl

theorem addLayers_spec {conv : Nat} (hconv : conv < 4) (m : Nat) (left : Bool) {chars : Str} {spaces : Bool}
    (h : AlphabetOK (uniqstring chars) spaces) :
    ((∃ names, addLayers conv m left chars spaces = .ok (surfaceLayerName conv :: names) ∧
        names.length = m ∧ (surfaceLayerName conv :: names).Nodup ∧
        (∀ x ∈ names, x.length = layernameLength conv ∧ (∀ c ∈ x, NameChar (uniqstring chars) c) ∧
          ∃ k, layerNameFromNumber conv k left (uniqstring chars) spaces = .ok x)) ∨
      addLayers conv m left chars spaces = .error .naming) ∧
    (m + 1 ≤ layerCapacity conv (uniqstring chars).length spaces → ∃ names, addLayers conv m left chars spaces = .ok names) ∧
    (layerCapacity conv (uniqstring chars).length spaces < m → addLayers conv m left chars spaces = .error .naming) := by
  have hg := genSpec_layer h conv (layernameLength_pos hconv) left
  have key : ∀ names, addLayersLoop conv left (uniqstring chars) spaces (surfaceLayerName conv) m 0 = .ok names →
      names.length = m ∧ (surfaceLayerName conv :: names).Nodup ∧
      (∀ x ∈ names, x.length = layernameLength conv ∧ (∀ c ∈ x, NameChar (uniqstring chars) c) ∧
          ∃ k, layerNameFromNumber conv k left (uniqstring chars) spaces = .ok x) := by
    intro names hr
    obtain ⟨r1, r2, r3⟩ := addLayersLoop_sound hg m 0 names hr
    refine ⟨r1, List.nodup_cons.mpr ⟨fun hmem => (r2 _ hmem).2.1 rfl, ?_⟩, fun x hx => ⟨(r2 x hx).1, (r2 x hx).2.2.2.2.1, _, (r2 x hx).2.2.2.2.2⟩⟩
    exact r3.imp (fun {a b} hab e => by subst e; omega)
  refine ⟨?_, ?_, ?_⟩
  · rw [addLayers_eq]
    cases hr : addLayersLoop conv left (uniqstring chars) spaces (surfaceLayerName conv) m 0 with
    | error e =>
      right
      rw [addLayersLoop_error hg m 0 e hr]
    | ok names =>
      left
      exact ⟨names, rfl, key names hr⟩
  · intro hroom
    obtain ⟨names, hr⟩ := addLayersLoop_room (surf := surfaceLayerName conv) hg m 0 (Or.inl (by omega))
    exact ⟨_, by rw [addLayers_eq, hr]⟩
  · intro hex
    have := addLayersLoop_exhausted (surf := surfaceLayerName conv) hg m 0 (by omega) (by omega)
    rw [addLayers_eq, this]

end Proofs.Names
