/-
  Proofs for C04, part 4b: the block the grid holds for each (layer, column) pair with a block.
-/
import PyTough.Proofs.FromGeoNames
import PyTough.Proofs.FromGeoOrigin1
namespace Proofs.FromGeo
open Py Model.FromGeo

theorem namesDmplex_mem (g : Geo) :
    ∀ (ls : List Layer) (h w : List Str), namesDmplex g ls = .ok (h, w) →
      (∀ lay ∈ ls, ∀ c ∈ layerCols g lay, ∃ n ∈ h ++ w, blockName g.convention lay.name c.name = .ok n) ∧
      (∀ n ∈ h ++ w, ∃ lay ∈ ls, ∃ c ∈ layerCols g lay, blockName g.convention lay.name c.name = .ok n) := by
  intro ls
  induction ls with
  | nil => intro h w hh; simp only [namesDmplex] at hh; cases hh; simp
  | cons l ls ih =>
    intro h w hh
    simp only [namesDmplex] at hh
    split at hh
    · cases hh
    · rename_i h1 w1 hl
      split at hh
      · cases hh
      · rename_i h2 w2 hr
        cases hh
        obtain ⟨a1, a2⟩ := namesDmplexLayer_mem g.convention l _ _ _ hl
        obtain ⟨i1, i2⟩ := ih h2 w2 hr
        have mem_iff : ∀ n, n ∈ (h1 ++ h2) ++ (w1 ++ w2) ↔ n ∈ h1 ++ w1 ∨ n ∈ h2 ++ w2 := by
          intro n; simp only [List.mem_append]
          constructor
          · rintro ((q | q) | (q | q))
            · exact Or.inl (Or.inl q)
            · exact Or.inr (Or.inl q)
            · exact Or.inl (Or.inr q)
            · exact Or.inr (Or.inr q)
          · rintro ((q | q) | (q | q))
            · exact Or.inl (Or.inl q)
            · exact Or.inr (Or.inl q)
            · exact Or.inl (Or.inr q)
            · exact Or.inr (Or.inr q)
        constructor
        · intro lay hlay c hc
          rcases List.mem_cons.1 hlay with rfl | hm
          · obtain ⟨n, hn, hb⟩ := a1 c hc
            exact ⟨n, (mem_iff n).2 (Or.inl hn), hb⟩
          · obtain ⟨n, hn, hb⟩ := i1 lay hm c hc
            exact ⟨n, (mem_iff n).2 (Or.inr hn), hb⟩
        · intro n hn
          rcases (mem_iff n).1 hn with hm | hm
          · obtain ⟨c, hc, hb⟩ := a2 n hm
            exact ⟨l, List.mem_cons_self, c, hc, hb⟩
          · obtain ⟨lay, hlay, c, hc, hb⟩ := i2 n hm
            exact ⟨lay, List.mem_cons_of_mem _ hlay, c, hc, hb⟩

/-- a fresh name cache splits into the atmosphere names and the underground names, and the
    underground names are exactly the names of the (layer, column) pairs with a block -/
theorem fresh_structure (g : Geo) (hf : Fresh g) :
    ∃ a u, atmNames g = .ok a ∧ g.blockNames = a ++ u ∧
      (∀ lay ∈ g.layers, ∀ c ∈ layerCols g lay, ∃ n ∈ u, blockName g.convention lay.name c.name = .ok n) ∧
      (∀ n ∈ u, ∃ lay ∈ g.layers, ∃ c ∈ layerCols g lay, blockName g.convention lay.name c.name = .ok n) := by
  unfold Fresh blockNameList at hf
  split at hf
  · cases hf
  · rename_i a ha
    split at hf
    · split at hf
      · rename_i u hu
        obtain ⟨m1, m2⟩ := namesLayerColumn_mem g _ _ hu
        exact ⟨a, u, ha, (Except.ok.inj hf).symm, m1, m2⟩
      · cases hf
    · split at hf
      · split at hf
        · rename_i h w hu
          obtain ⟨m1, m2⟩ := namesDmplex_mem g _ _ _ hu
          exact ⟨a, h ++ w, ha, (Except.ok.inj hf).symm, m1, m2⟩
        · cases hf
      · cases hf

/-- `parseOk` unfolded -/
theorem parseOk_spec (g : Geo) (h : parseOk g = true) (lay : Layer) (hl : lay ∈ g.layers) (col : Column)
    (hc : col ∈ g.columns) :
    ∃ nm, blockName g.convention lay.name col.name = .ok nm ∧
      findLayer g (layerName g.convention nm) = .ok lay ∧ findColumn g (columnName g.convention nm) = .ok col := by
  unfold parseOk at h
  rw [List.all_eq_true] at h
  have h1 := h lay hl
  rw [List.all_eq_true] at h1
  have h2 := h1 col hc
  split at h2
  · rename_i nm hnm
    simp only [Bool.and_eq_true, decide_eq_true_eq] at h2
    exact ⟨nm, hnm, h2.1, h2.2⟩
  · cases h2

theorem layerCols_sub (g : Geo) (lay : Layer) (c : Column) (h : c ∈ layerCols g lay) :
    c ∈ g.columns ∧ lay.bottom < c.surface := by
  unfold layerCols at h
  rw [List.mem_filter] at h
  exact ⟨h.1, by simpa using h.2⟩

theorem inj_of_nodup_map {α β} (f : α → β) : ∀ (l : List α), (l.map f).Nodup → ∀ x ∈ l, ∀ y ∈ l, f x = f y → x = y := by
  intro l
  induction l with
  | nil => intro _ x hx; cases hx
  | cons a l ih =>
    intro hnd x hx y hy hxy
    simp only [List.map_cons, List.nodup_cons, List.mem_map, not_exists, not_and] at hnd
    rcases List.mem_cons.1 hx with rfl | hx' <;> rcases List.mem_cons.1 hy with rfl | hy'
    · rfl
    · exact absurd hxy.symm (hnd.1 y hy')
    · exact absurd hxy (hnd.1 x hx')
    · exact ih hnd.2 x hx' y hy' hxy

/-- the block the grid holds for a (layer, column) pair with a block -/
theorem addBlocks_data (g : Geo) (m : BlockMap) (bs : List Block) (hf : Fresh g)
    (hn : (g.blockNames.map (applyMap m)).Nodup) (hp : parseOk g = true) (h : addBlocks g m = .ok bs)
    (lay : Layer) (hl : lay ∈ g.layers) (col : Column) (hc : col ∈ layerCols g lay) (nm : Str)
    (hnm : blockName g.convention lay.name col.name = .ok nm) :
    findBlock bs (applyMap m nm) = .ok ⟨applyMap m nm, blockVolume g lay col, blockCentre g lay col, false⟩ := by
  obtain ⟨a, u, ha, hau, m1, _⟩ := fresh_structure g hf
  have hnames := addBlocks_names g m bs hf hn h
  obtain ⟨n', hn'u, hn'⟩ := m1 lay hl col hc
  have : n' = nm := by rw [hnm] at hn'; exact (Except.ok.inj hn').symm
  subst this
  have hmem : n' ∈ g.blockNames := by rw [hau]; exact List.mem_append_right _ hn'u
  obtain ⟨b, hb⟩ := findBlock_of_mem_names (bs := bs) (n := applyMap m n')
    (by rw [hnames]; exact List.mem_map.2 ⟨n', hmem, rfl⟩)
  have hbname := findBlock_name hb
  have hbmem := findBlock_mem hb
  rcases addBlocks_origin g m bs h b hbmem with hatm | ⟨nm2, hnm2, hub⟩
  · -- an atmosphere block cannot carry an underground (mapped) name
    exfalso
    unfold addBlocks at h
    split at h
    · cases h
    · rename_i bs0 hb0
      split at h
      · cases h
      · rename_i n hnn
        obtain ⟨h1, h2⟩ := atm_part g m a bs0 n ha hb0 hnn
        rcases addUnderground_mem g m _ _ _ h b hbmem with q | ⟨nm3, _, hu3⟩
        · -- b ∈ bs0: its name is a mapped atmosphere name
          have hq : b.name ∈ bs0.map (·.name) := List.mem_map.2 ⟨b, q, rfl⟩
          rw [hau, List.map_append] at hn
          have hdis := (List.nodup_append.1 hn).2.2
          have hpa : (a.map (applyMap m)).Nodup := (List.nodup_append.1 hn).1
          rw [h1, pushNames_nodup [] _ (by simpa using hpa)] at hq
          exact hdis _ (by simpa using hq) _ (List.mem_map.2 ⟨n', hn'u, rfl⟩) hbname
        · unfold underBlock at hu3
          split at hu3
          · cases hu3
          · split at hu3
            · cases hu3
            · cases hu3; cases hatm
  · -- built for the announced name nm2 with the same mapped name: nm2 = n'
    have hb2 : b.name = applyMap m nm2 := by
      unfold underBlock at hub
      split at hub
      · cases hub
      · split at hub
        · cases hub
        · cases hub; rfl
    have heq : nm2 = n' := by
      exact inj_of_nodup_map (applyMap m) _ hn nm2 hnm2 n' hmem (by rw [← hb2, hbname])
    subst heq
    obtain ⟨nm', hnm', hlay, hcol⟩ := parseOk_spec g hp lay hl col (layerCols_sub g lay col hc).1
    have : nm' = nm2 := by rw [hnm] at hnm'; exact (Except.ok.inj hnm').symm
    subst this
    unfold underBlock at hub
    rw [hlay, hcol] at hub
    rw [hb]; exact congrArg _ (Except.ok.inj hub).symm

end Proofs.FromGeo
