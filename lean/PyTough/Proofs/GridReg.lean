/-
  A generic registry (ordered list + dictionary keyed by a name function) and what `add_*`
  does to it: used for the proofs about grid addition, where three registries are filled by
  loops.
-/
import PyTough.Proofs.GridMinc
namespace Proofs.Grid
open Py Model Model.Grid Model.Grid.World

structure Reg (κ : Type) where
  list : List Nat
  dict : Dict κ Nat

structure RegInv {κ : Type} [DecidableEq κ] (key : Nat → κ) (R : Reg κ) : Prop where
  nodup : R.list.Nodup
  sound : ∀ k x, dget R.dict k = some x → x ∈ R.list ∧ key x = k
  complete : ∀ x ∈ R.list, dget R.dict (key x) = some x

/-- the common shape of `add_rocktype`, `add_block` and the list/dictionary part of `add_connection` -/
def Reg.add {κ : Type} [DecidableEq κ] (key : Nat → κ) (R : Reg κ) (x : Nat) : Option (Reg κ) :=
  match dget R.dict (key x) with
  | some old =>
    match replaceFirst R.list old x with
    | none => none
    | some l => some ⟨l, dset R.dict (key x) x⟩
  | none => some ⟨R.list ++ [x], dset R.dict (key x) x⟩

theorem RegInv.key_inj {κ : Type} [DecidableEq κ] {key : Nat → κ} {R : Reg κ} (h : RegInv key R) {x y : Nat}
    (hx : x ∈ R.list) (hy : y ∈ R.list) (e : key x = key y) : x = y := by
  have h1 := h.complete x hx
  have h2 := h.complete y hy
  rw [e, h2] at h1; exact (Option.some.inj h1).symm

theorem Reg.add_spec {κ : Type} [DecidableEq κ] {key : Nat → κ} {R : Reg κ} (h : RegInv key R) {x : Nat}
    (hx : x ∉ R.list) :
    ∃ R', Reg.add key R x = some R' ∧ RegInv key R' ∧
      (∀ y, y ∈ R'.list ↔ y = x ∨ (y ∈ R.list ∧ key y ≠ key x)) ∧
      (∀ k, dget R'.dict k = if key x = k then some x else dget R.dict k) := by
  unfold Reg.add
  cases hd : dget R.dict (key x) with
  | none =>
    have hfresh : ∀ y ∈ R.list, key y ≠ key x := by
      intro y hy e; have := h.complete y hy; rw [e, hd] at this; cases this
    refine ⟨_, rfl, ⟨?_, ?_, ?_⟩, ?_, fun k => dget_dset _ _ _ _⟩
    · simp [List.nodup_append, h.nodup]; intro a ha e; exact hx (e ▸ ha)
    · intro k y hy
      simp only [dget_dset] at hy
      split at hy
      · rename_i hk; cases hy; exact ⟨by simp, hk⟩
      · have := h.sound k y hy; exact ⟨by simp [this.1], this.2⟩
    · intro y hy
      simp only [List.mem_append, List.mem_singleton] at hy
      simp only [dget_dset]
      rcases hy with hy | hy
      · simp [Ne.symm (hfresh y hy), h.complete y hy]
      · subst hy; simp
    · intro y
      simp only [List.mem_append, List.mem_singleton]
      constructor
      · rintro (hy | hy)
        · exact Or.inr ⟨hy, hfresh y hy⟩
        · exact Or.inl hy
      · rintro (hy | ⟨hy, _⟩)
        · exact Or.inr hy
        · exact Or.inl hy
  | some old =>
    have hold := h.sound _ _ hd
    cases hl : replaceFirst R.list old x with
    | none => exact absurd hold.1 (replaceFirst_none.mp hl)
    | some l =>
      have hmem := mem_replaceFirst h.nodup hl
      have hiff : ∀ y, y ∈ l ↔ y = x ∨ (y ∈ R.list ∧ key y ≠ key x) := by
        intro y; rw [hmem]
        constructor
        · rintro (e | ⟨hy, hne⟩)
          · exact Or.inl e
          · exact Or.inr ⟨hy, fun e => hne (h.key_inj hy hold.1 (e.trans hold.2.symm))⟩
        · rintro (e | ⟨hy, hne⟩)
          · exact Or.inl e
          · exact Or.inr ⟨hy, fun e => hne (e ▸ hold.2)⟩
      refine ⟨⟨l, dset R.dict (key x) x⟩, by simp only [hl], ⟨nodup_replaceFirst h.nodup hx hl, ?_, ?_⟩, hiff, fun k => dget_dset _ _ _ _⟩
      · intro k y hy
        simp only [dget_dset] at hy
        split at hy
        · rename_i hk; cases hy; exact ⟨(hiff _).mpr (Or.inl rfl), hk⟩
        · rename_i hk
          have := h.sound k y hy
          exact ⟨(hiff y).mpr (Or.inr ⟨this.1, fun e => hk (e.symm.trans this.2)⟩), this.2⟩
      · intro y hy
        simp only [dget_dset]
        rcases (hiff y).mp hy with e | ⟨hy', hne⟩
        · subst e; simp
        · simp [Ne.symm hne, h.complete y hy']

/-- adding a whole duplicate-free list of new objects with pairwise different keys -/
def Reg.addAll {κ : Type} [DecidableEq κ] (key : Nat → κ) : Reg κ → List Nat → Option (Reg κ)
  | R, [] => some R
  | R, x :: r =>
    match Reg.add key R x with
    | none => none
    | some R1 => Reg.addAll key R1 r

theorem Reg.addAll_spec {κ : Type} [DecidableEq κ] {key : Nat → κ} (l : List Nat) :
    ∀ {R : Reg κ}, RegInv key R → l.Nodup → (∀ x ∈ l, x ∉ R.list) →
    (∀ x ∈ l, ∀ y ∈ l, key x = key y → x = y) →
    ∃ R', Reg.addAll key R l = some R' ∧ RegInv key R' ∧
      (∀ y, y ∈ R'.list ↔ y ∈ l ∨ (y ∈ R.list ∧ ∀ x ∈ l, key y ≠ key x)) ∧
      (∀ k, (∀ x ∈ l, key x ≠ k) → dget R'.dict k = dget R.dict k) ∧
      (∀ x ∈ l, dget R'.dict (key x) = some x) := by
  induction l with
  | nil =>
    intro R h _ _ _
    exact ⟨R, rfl, h, by simp, fun _ _ => rfl, fun _ hx => by cases hx⟩
  | cons a r ih =>
    intro R h hn hdisj hinj
    have ⟨har, hr⟩ := List.nodup_cons.mp hn
    obtain ⟨R1, e1, hI1, hm1, hd1⟩ := Reg.add_spec h (hdisj a List.mem_cons_self)
    have hdisj1 : ∀ x ∈ r, x ∉ R1.list := by
      intro x hx hx1
      rcases (hm1 x).mp hx1 with e | ⟨h2, _⟩
      · exact har (e ▸ hx)
      · exact hdisj x (List.mem_cons_of_mem _ hx) h2
    obtain ⟨R2, e2, hI2, hm2, hd2, hd2'⟩ := ih hI1 hr hdisj1
      (fun x hx y hy => hinj x (List.mem_cons_of_mem _ hx) y (List.mem_cons_of_mem _ hy))
    refine ⟨R2, by simp only [Reg.addAll, e1, e2], hI2, ?_, ?_, ?_⟩
    · intro y
      rw [hm2, hm1]
      constructor
      · rintro (hy | ⟨hy | ⟨hy, hne⟩, hall⟩)
        · exact Or.inl (List.mem_cons_of_mem _ hy)
        · exact Or.inl (hy ▸ List.mem_cons_self)
        · refine Or.inr ⟨hy, ?_⟩
          intro x hx
          rcases List.mem_cons.mp hx with e | hx
          · rw [e]; exact hne
          · exact hall x hx
      · rintro (hy | ⟨hy, hall⟩)
        · rcases List.mem_cons.mp hy with e | hy
          · by_cases hyr : ∃ x ∈ r, key y = key x
            · obtain ⟨x, hx, e2⟩ := hyr
              have : y = x := hinj y (e ▸ List.mem_cons_self) x (List.mem_cons_of_mem _ hx) e2
              exact absurd (e ▸ this ▸ hx) har
            · exact Or.inr ⟨Or.inl e, fun x hx e2 => hyr ⟨x, hx, e2⟩⟩
          · exact Or.inl hy
        · exact Or.inr ⟨Or.inr ⟨hy, hall a List.mem_cons_self⟩, fun x hx => hall x (List.mem_cons_of_mem _ hx)⟩
    · intro k hk
      rw [hd2 k (fun x hx => hk x (List.mem_cons_of_mem _ hx)), hd1]
      simp [hk a List.mem_cons_self]
    · intro x hx
      rcases List.mem_cons.mp hx with rfl | hx
      · rw [hd2 _ (fun y hy e => har (hinj y (List.mem_cons_of_mem _ hy) x List.mem_cons_self e ▸ hy)), hd1]
        simp
      · exact hd2' x hx

end Proofs.Grid
