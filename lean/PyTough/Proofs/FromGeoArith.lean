/-
  Proofs for C04, part 2: exact geometry (volumes and their telescoping, perpendicular
  distances, shoelace area).  Arithmetic over ℚ with Mathlib's ring/field tactics.
-/
import Mathlib.Tactic.Ring
import Mathlib.Tactic.FieldSimp
import Mathlib.Tactic.Linarith
import Mathlib.Tactic.LinearCombination
import PyTough.Model.FromGeo
namespace Proofs.FromGeo
open Py Model.FromGeo


/-! ### block tops and volumes -/

theorem blockSurface_first (g : Geo) (l1 : Layer) (rest : List Layer) (col : Column)
    (hl : g.layers = l1 :: rest) (hn : l1.name ≠ g.layer0.name) (ht : l1.top = g.layer0.top)
    (hb : l1.bottom < col.surface) : blockSurface g l1 col = some col.surface := by
  unfold blockSurface
  simp only [hn, if_false, hl]
  by_cases h1 : col.surface < l1.top
  · simp [h1, hb]
  · simp only [h1, if_false]
    by_cases h2 : col.surface > g.layer0.top
    · simp [h2]
    · simp only [h2, if_false]
      have : col.surface = l1.top := by
        rw [← ht] at h2
        exact le_antisymm (not_lt.1 h2) (not_lt.1 h1)
      rw [this]

theorem blockSurface_lower (g : Geo) (l1 : Layer) (rest : List Layer) (lay : Layer) (col : Column)
    (hl : g.layers = l1 :: rest) (hn0 : lay.name ≠ g.layer0.name) (hn1 : lay.name ≠ l1.name)
    (hb : lay.bottom < col.surface) : blockSurface g lay col = some (min col.surface lay.top) := by
  unfold blockSurface
  simp only [hn0, if_false, hl, hn1]
  by_cases h1 : col.surface < lay.top
  · simp [h1, hb, min_eq_left (le_of_lt h1)]
  · simp only [h1, if_false]
    have : min col.surface lay.top = lay.top := min_eq_right (not_lt.1 h1)
    rw [this]
    split <;> rfl

theorem sum_mul_right (xs : List Rat) (a : Rat) : (xs.map (fun x => x * a)).sum = xs.sum * a := by
  induction xs with
  | nil => simp
  | cons x xs ih => simp only [List.map_cons, List.sum_cons, ih]; ring

/-- telescoping of block heights down a chain of layers -/
theorem tele (s : Rat) : ∀ (ls : List Layer) (t : Rat), chainOk t ls = true → ls ≠ [] →
    lastBottom t ls < s →
    ((ls.filter (fun l => decide (l.bottom < s))).map (fun l => min s l.top - l.bottom)).sum
      = min s t - lastBottom t ls := by
  intro ls
  induction ls with
  | nil => intro t _ h; exact absurd rfl h
  | cons l ls ih =>
    intro t hc _ hlast
    simp only [chainOk, Bool.and_eq_true, decide_eq_true_eq] at hc
    obtain ⟨⟨htop, hpos⟩, hrest⟩ := hc
    cases ls with
    | nil =>
      simp only [lastBottom] at hlast ⊢
      simp [hlast, htop]
    | cons l' ls' =>
      have ih' := ih l.bottom hrest (by simp)
      simp only [lastBottom] at hlast ih' ⊢
      by_cases hb : l.bottom < s
      · rw [List.filter_cons_of_pos (by simpa using hb)]
        simp only [List.map_cons, List.sum_cons]
        rw [ih' hlast, htop, min_eq_right (le_of_lt hb)]
        ring
      · rw [List.filter_cons_of_neg (by simpa using hb)]
        rw [ih' hlast]
        have hs : s ≤ l.bottom := not_lt.1 hb
        rw [min_eq_left hs, min_eq_left (by rw [← htop]; exact le_of_lt (lt_of_le_of_lt hs hpos))]


theorem blockVolume_lower (g : Geo) (l1 : Layer) (rest : List Layer) (lay : Layer) (col : Column)
    (hl : g.layers = l1 :: rest) (hn0 : lay.name ≠ g.layer0.name) (hn1 : lay.name ≠ l1.name)
    (hb : lay.bottom < col.surface) :
    blockVolume g lay col = some ((min col.surface lay.top - lay.bottom) * col.area) := by
  unfold blockVolume
  simp only [hn0, if_false, blockSurface_lower g l1 rest lay col hl hn0 hn1 hb]

theorem blockVolume_first (g : Geo) (l1 : Layer) (rest : List Layer) (col : Column)
    (hl : g.layers = l1 :: rest) (hn : l1.name ≠ g.layer0.name) (ht : l1.top = g.layer0.top)
    (hb : l1.bottom < col.surface) :
    blockVolume g l1 col = some ((col.surface - l1.bottom) * col.area) := by
  unfold blockVolume
  simp only [hn, if_false, blockSurface_first g l1 rest col hl hn ht hb]

theorem restSum (g : Geo) (l1 : Layer) (rest : List Layer) (col : Column)
    (hl : g.layers = l1 :: rest) (hnd : ((g.layer0 :: l1 :: rest).map (·.name)).Nodup) :
    ((rest.filter (fun l => decide (l.bottom < col.surface))).map (fun l => (blockVolume g l col).getD 0)).sum
      = ((rest.filter (fun l => decide (l.bottom < col.surface))).map (fun l => min col.surface l.top - l.bottom)).sum * col.area := by
  rw [← sum_mul_right, List.map_map]
  congr 1
  apply List.map_congr_left
  intro l hlm
  have hmem := (List.mem_filter.1 hlm)
  have hlb : l.bottom < col.surface := by simpa using hmem.2
  simp only [List.map_cons, List.nodup_cons, List.mem_cons, List.mem_map, not_or, not_exists, not_and] at hnd
  have hn0 : l.name ≠ g.layer0.name := fun h => hnd.1.2 l hmem.1 h
  have hn1 : l.name ≠ l1.name := fun h => hnd.2.1 l hmem.1 h
  simp [blockVolume_lower g l1 rest l col hl hn0 hn1 hlb]

theorem columnVolume_eq (g : Geo) (col : Column) (hwf : LayersWF g) (hne : g.layers ≠ [])
    (hs : lowestBottom g < col.surface) :
    columnVolume g col = col.area * (col.surface - lowestBottom g) := by
  obtain ⟨h0, hchain, hnd⟩ := hwf
  cases hl : g.layers with
  | nil => exact absurd hl hne
  | cons l1 rest =>
    unfold columnVolume colLayers lowestBottom at *
    rw [hl] at hchain hs ⊢
    simp only [Geo.layerlist, hl] at hnd
    simp only [chainOk, Bool.and_eq_true, decide_eq_true_eq] at hchain
    obtain ⟨⟨htop, hpos⟩, hrest⟩ := hchain
    have hn1 : l1.name ≠ g.layer0.name := by
      simp only [List.map_cons, List.nodup_cons, List.mem_cons, not_or] at hnd
      exact fun h => hnd.1.1 h.symm
    have ht : l1.top = g.layer0.top := by rw [htop, h0]
    simp only [lastBottom] at hs ⊢
    by_cases hb1 : l1.bottom < col.surface
    · rw [List.filter_cons_of_pos (by simpa using hb1)]
      simp only [List.map_cons, List.sum_cons]
      rw [blockVolume_first g l1 rest col hl hn1 ht hb1, restSum g l1 rest col hl hnd]
      simp only [Option.getD_some]
      cases hr : rest with
      | nil => simp [lastBottom]; ring
      | cons l' ls' =>
        rw [← hr]
        rw [tele col.surface rest l1.bottom hrest (by simp [hr]) hs, min_eq_right (le_of_lt hb1)]
        ring
    · rw [List.filter_cons_of_neg (by simpa using hb1)]
      rw [restSum g l1 rest col hl hnd]
      have hle : col.surface ≤ l1.bottom := not_lt.1 hb1
      cases hr : rest with
      | nil => rw [hr] at hs; simp only [lastBottom] at hs; exact absurd hs hb1
      | cons l' ls' =>
        rw [← hr]
        rw [tele col.surface rest l1.bottom hrest (by simp [hr]) hs, min_eq_left hle]
        ring



theorem filter_sum {β} (q : β → Bool) (gf : β → Rat) : ∀ (bs : List β),
    ((bs.filter q).map gf).sum = (bs.map (fun b => if q b then gf b else 0)).sum := by
  intro bs
  induction bs with
  | nil => rfl
  | cons b bs ih =>
    by_cases h : q b = true
    · rw [List.filter_cons_of_pos h]; simp [h, ih]
    · rw [List.filter_cons_of_neg h]; simp [h, ih]

theorem sum_add_map {β} (x y : β → Rat) : ∀ (bs : List β),
    (bs.map (fun b => x b + y b)).sum = (bs.map x).sum + (bs.map y).sum := by
  intro bs
  induction bs with
  | nil => simp
  | cons b bs ih => simp only [List.map_cons, List.sum_cons, ih]; ring

theorem sum_swap {α β} (p : α → β → Bool) (f : α → β → Rat) (bs : List β) : ∀ (as : List α),
    (as.map (fun a => ((bs.filter (p a)).map (f a)).sum)).sum =
      (bs.map (fun b => ((as.filter (fun a => p a b)).map (fun a => f a b)).sum)).sum := by
  intro as
  induction as with
  | nil =>
    have : ∀ (l : List β), (l.map (fun _ => (0 : Rat))).sum = 0 := by
      intro l; induction l with
      | nil => rfl
      | cons _ _ ih => simp [ih]
    simp [this]
  | cons a as ih =>
    simp only [List.map_cons, List.sum_cons, ih]
    rw [filter_sum, ← sum_add_map]
    congr 1
    apply List.map_congr_left
    intro b _
    by_cases h : p a b = true
    · rw [List.filter_cons_of_pos (by simpa using h)]; simp [h]
    · rw [List.filter_cons_of_neg (by simpa using h)]; simp [h]

theorem totalVolume_eq_columns (g : Geo) :
    totalVolume g = (g.columns.map (fun c => columnVolume g c)).sum := by
  unfold totalVolume columnVolume colLayers layerCols
  exact sum_swap (fun (l : Layer) (c : Column) => decide (l.bottom < c.surface))
    (fun l c => (blockVolume g l c).getD 0) g.columns g.layers

theorem lastBottom_le : ∀ (ls : List Layer) (t : Rat), chainOk t ls = true →
    (lastBottom t ls ≤ t) ∧ ∀ l ∈ ls, lastBottom t ls ≤ l.bottom := by
  intro ls
  induction ls with
  | nil => intro t _; exact ⟨le_refl _, by simp⟩
  | cons l ls ih =>
    intro t hc
    simp only [chainOk, Bool.and_eq_true, decide_eq_true_eq] at hc
    obtain ⟨⟨htop, hpos⟩, hrest⟩ := hc
    obtain ⟨h1, h2⟩ := ih l.bottom hrest
    simp only [lastBottom]
    refine ⟨by linarith, ?_⟩
    intro l' hl'
    rcases List.mem_cons.1 hl' with rfl | hm
    · exact h1
    · exact h2 l' hm

/-- a column whose surface is not above the bottom of the lowest layer has no block -/
theorem columnVolume_zero (g : Geo) (col : Column) (hwf : LayersWF g)
    (hs : col.surface ≤ lowestBottom g) : colLayers g col = [] ∧ columnVolume g col = 0 := by
  have h := (lastBottom_le g.layers g.layer0.bottom hwf.2.1).2
  have : colLayers g col = [] := by
    unfold colLayers
    rw [List.filter_eq_nil_iff]
    intro l hl
    have := h l hl
    unfold lowestBottom at hs
    simp only [decide_eq_true_eq, not_lt]
    linarith
  exact ⟨this, by simp [columnVolume, this]⟩



theorem P2.ext' {p q : P2} (hx : p.x = q.x) (hy : p.y = q.y) : p = q := by
  cases p; cases q; simp_all

theorem dd_ne_zero (l0 l1 : P2) (h : l0 ≠ l1) : P2.dot (P2.sub l1 l0) (P2.sub l1 l0) ≠ 0 := by
  intro h0
  simp only [P2.dot, P2.sub] at h0
  have := (mul_self_add_mul_self_eq_zero).1 h0
  apply h
  apply P2.ext' <;> linarith [this.1, this.2]

/-- the parameter of the projection along the line -/
def xiOf (a l0 l1 : P2) : Rat := P2.dot (P2.sub a l0) (P2.sub l1 l0) / P2.dot (P2.sub l1 l0) (P2.sub l1 l0)

theorem lineProjection_eq (a l0 l1 : P2) :
    lineProjection a l0 l1 = P2.add l0 (P2.smul (xiOf a l0 l1) (P2.sub l1 l0)) := rfl

theorem xiOf_mul (a l0 l1 : P2) (h : l0 ≠ l1) :
    xiOf a l0 l1 * P2.dot (P2.sub l1 l0) (P2.sub l1 l0) = P2.dot (P2.sub a l0) (P2.sub l1 l0) :=
  div_mul_cancel₀ _ (dd_ne_zero l0 l1 h)

/-- the offset from a point to its projection is perpendicular to the line -/
theorem lineProjection_perp (a l0 l1 : P2) (h : l0 ≠ l1) :
    P2.dot (P2.sub a (lineProjection a l0 l1)) (P2.sub l1 l0) = 0 := by
  have hxi := xiOf_mul a l0 l1 h
  rw [lineProjection_eq]
  generalize xiOf a l0 l1 = xi at *
  simp only [P2.dot, P2.sub, P2.add, P2.smul] at hxi ⊢
  linear_combination (-1 : Rat) * hxi

/-- Pythagoras: any point of the line is at least as far as the projection -/
theorem perp_pythagoras (a l0 l1 : P2) (h : l0 ≠ l1) (t : Rat) :
    P2.normSq (P2.sub a (P2.add l0 (P2.smul t (P2.sub l1 l0)))) =
      P2.normSq (P2.sub a (lineProjection a l0 l1)) +
      P2.normSq (P2.sub (lineProjection a l0 l1) (P2.add l0 (P2.smul t (P2.sub l1 l0)))) := by
  have hxi := xiOf_mul a l0 l1 h
  rw [lineProjection_eq]
  generalize xiOf a l0 l1 = xi at *
  simp only [P2.normSq, P2.dot, P2.sub, P2.add, P2.smul] at hxi ⊢
  linear_combination (2 * (t - xi)) * hxi

theorem normSq_nonneg (p : P2) : 0 ≤ P2.normSq p := by
  simp only [P2.normSq, P2.dot]
  nlinarith [mul_self_nonneg p.x, mul_self_nonneg p.y]

theorem perp_shortest (a l0 l1 : P2) (h : l0 ≠ l1) (t : Rat) :
    P2.normSq (P2.sub (lineProjection a l0 l1) a) ≤
      P2.normSq (P2.sub a (P2.add l0 (P2.smul t (P2.sub l1 l0)))) := by
  rw [perp_pythagoras a l0 l1 h t]
  have h1 : P2.normSq (P2.sub (lineProjection a l0 l1) a) = P2.normSq (P2.sub a (lineProjection a l0 l1)) := by
    simp only [P2.normSq, P2.dot, P2.sub]; ring
  rw [h1]
  linarith [normSq_nonneg (P2.sub (lineProjection a l0 l1) (P2.add l0 (P2.smul t (P2.sub l1 l0))))]

/-- the squared distance is the classical cross-product formula -/
theorem perp_dist_cross (a l0 l1 : P2) (h : l0 ≠ l1) :
    P2.normSq (P2.sub (lineProjection a l0 l1) a) =
      (cross (P2.sub l1 l0) (P2.sub a l0)) ^ 2 / P2.normSq (P2.sub l1 l0) := by
  have hxi := xiOf_mul a l0 l1 h
  have hd := dd_ne_zero l0 l1 h
  rw [lineProjection_eq, eq_div_iff (by simpa [P2.normSq] using hd)]
  generalize xiOf a l0 l1 = xi at *
  simp only [P2.normSq, P2.dot, P2.sub, P2.add, P2.smul, cross] at hxi ⊢
  linear_combination (xi * ((l1.x - l0.x) * (l1.x - l0.x) + (l1.y - l0.y) * (l1.y - l0.y)) - ((a.x - l0.x) * (l1.x - l0.x) + (a.y - l0.y) * (l1.y - l0.y))) * hxi


/-! ### `polygon_area` is the shoelace formula (the shift by the first vertex is immaterial) -/

/-- the unshifted shoelace sum -/
def shoelace (poly : List P2) : Rat :=
  (1 / 2 : Rat) * ((cyclicPairs poly).map (fun pq => cross pq.1 pq.2)).sum

theorem cyclicPairs_map (f : P2 → P2) (poly : List P2) :
    cyclicPairs (poly.map f) = (cyclicPairs poly).map (fun pq => (f pq.1, f pq.2)) := by
  cases poly with
  | nil => rfl
  | cons p0 rest =>
    simp only [cyclicPairs, List.map_cons]
    rw [show List.map f rest ++ [f p0] = List.map f (rest ++ [p0]) by simp]
    rw [← List.map_cons, List.zip_map]
    rfl

theorem zip_sum_sub (f : P2 → Rat) : ∀ (l1 l2 : List P2), l1.length = l2.length →
    ((List.zip l1 l2).map (fun p => f p.1 - f p.2)).sum = (l1.map f).sum - (l2.map f).sum := by
  intro l1
  induction l1 with
  | nil => intro l2 h; cases l2 <;> simp_all
  | cons a l1 ih =>
    intro l2 h
    cases l2 with
    | nil => simp at h
    | cons b l2 =>
      simp only [List.zip_cons_cons, List.map_cons, List.sum_cons]
      rw [ih l2 (by simpa using h)]
      ring

theorem cyclic_sum_zero (f : P2 → Rat) (poly : List P2) :
    ((cyclicPairs poly).map (fun p => f p.1 - f p.2)).sum = 0 := by
  cases poly with
  | nil => rfl
  | cons p0 rest =>
    simp only [cyclicPairs]
    rw [zip_sum_sub f _ _ (by simp)]
    simp only [List.map_cons, List.map_append, List.sum_cons, List.sum_append, List.map_nil, List.sum_nil]
    ring

theorem shifted_sum (c : P2) : ∀ (ps : List (P2 × P2)),
    (ps.map (fun pq => cross (P2.sub pq.1 c) (P2.sub pq.2 c))).sum =
      (ps.map (fun pq => cross pq.1 pq.2)).sum - c.y * (ps.map (fun p => p.1.x - p.2.x)).sum
        + c.x * (ps.map (fun p => p.1.y - p.2.y)).sum := by
  intro ps
  induction ps with
  | nil => simp
  | cons p ps ih =>
    simp only [List.map_cons, List.sum_cons]
    rw [ih]
    simp only [cross, P2.sub]
    ring

theorem polygonArea_eq_shoelace (poly : List P2) : polygonArea poly = shoelace poly := by
  cases poly with
  | nil => simp [polygonArea, shoelace, cyclicPairs]
  | cons p0 rest =>
    simp only [polygonArea, shoelace]
    rw [cyclicPairs_map, List.map_map]
    have := shifted_sum p0 (cyclicPairs (p0 :: rest))
    show _ * (List.map (fun pq => cross (P2.sub pq.1 p0) (P2.sub pq.2 p0)) (cyclicPairs (p0 :: rest))).sum = _
    rw [this, cyclic_sum_zero (fun p => p.x), cyclic_sum_zero (fun p => p.y)]
    ring

/-- a column's area is the absolute value of the shoelace sum of its nodes -/
theorem mkColumn_area (name : Str) (nodes : List P2) (c : P2) (s : Rat) :
    (mkColumn name nodes c s).area = |shoelace nodes| := by
  unfold mkColumn
  rw [polygonArea_eq_shoelace]
  by_cases h : shoelace nodes < 0
  · simp only [h, if_true]; rw [abs_of_neg h]
  · simp only [h, if_false]; rw [abs_of_nonneg (not_lt.1 h)]

end Proofs.FromGeo
