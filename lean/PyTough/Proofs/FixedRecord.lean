import PyTough.Proofs.FixedFmt
namespace Proofs
open Py Model

/-! ### what `'%' % val` produces, per field type -/

theorem fmtVal_e_real {f : FieldSpec} (h : f.typ = 'e') (r : Rat) :
    fmtVal f (.real r) = .ok (pad f.left f.width
      (signChars (decide (r < 0)) ++ fmtEBody (f.prec.getD 6) r.num.natAbs r.den)) := by
  unfold fmtVal signChars
  simp [h]

theorem fmtVal_e_int {f : FieldSpec} (h : f.typ = 'e') (i : Int) :
    fmtVal f (.int i) = .ok (pad f.left f.width
      (signChars (decide (i < 0)) ++ fmtEBody (f.prec.getD 6) i.natAbs 1)) := by
  unfold fmtVal signChars
  simp [h]

theorem fmtVal_f_real {f : FieldSpec} (h : f.typ = 'f') (r : Rat) :
    fmtVal f (.real r) = .ok (pad f.left f.width
      (signChars (decide (r < 0)) ++ fmtFBody (f.prec.getD 6) r.num.natAbs r.den)) := by
  unfold fmtVal signChars
  simp [h]

theorem fmtVal_f_int {f : FieldSpec} (h : f.typ = 'f') (i : Int) :
    fmtVal f (.int i) = .ok (pad f.left f.width
      (signChars (decide (i < 0)) ++ fmtFBody (f.prec.getD 6) i.natAbs 1)) := by
  unfold fmtVal signChars
  simp [h]

theorem fmtVal_d_int {f : FieldSpec} (h : f.typ = 'd') (i : Int) :
    fmtVal f (.int i) = .ok (pad f.left f.width (signChars (decide (i < 0)) ++ natDigits i.natAbs)) := by
  unfold fmtVal signChars
  simp [h]

/-- `'%w.ks'` keeps the first `k` characters; `'%ws'` all of them -/
def strTrunc : Option Nat → Str → Str
  | some k, s => s.take k
  | none, s => s

theorem fmtVal_s_str {f : FieldSpec} (h : f.typ = 's') (s : Str) :
    fmtVal f (.str s) = .ok (pad f.left f.width (strTrunc f.prec s)) := by
  unfold fmtVal
  cases hp : f.prec <;> simp [h, strTrunc]

/-- `%` never truncates: whatever it returns is at least as wide as the field -/
theorem fmtVal_length_ge {f : FieldSpec} {v : Val} {s : Str} (h : fmtVal f v = .ok s) :
    f.width ≤ s.length := by
  unfold fmtVal at h
  simp only at h
  repeat' split at h
  all_goals first
    | (cases h; done)
    | (cases h; rw [pad_length]; omega)


/-! ### `fit_value` and one field of `write_values_to_string` -/

/-- the format `fit_value` tries at precision `q`: `'%{width}.{q}{typ}'` -/
def atPrec (f : FieldSpec) (q : Nat) : FieldSpec := { f with left := false, prec := some q }

theorem fitGo_ok {f : FieldSpec} {v : Val} : ∀ (fuel p : Nat) (s : Str), fitValue.go f v fuel p = .ok s →
    s.length ≤ f.width ∧ ∃ q, q ≤ p ∧ fmtVal (atPrec f q) v = .ok s ∧
      ∀ q', q < q' → q' ≤ p → ∀ t, fmtVal (atPrec f q') v = .ok t → f.width < t.length := by
  intro fuel
  induction fuel with
  | zero => intro p s h; unfold fitValue.go at h; cases h
  | succ fuel ih =>
    intro p s h
    unfold fitValue.go at h
    cases hf : fmtVal { f with left := false, prec := some p } v with
    | error e => rw [hf] at h; cases h
    | ok s0 =>
      rw [hf] at h
      simp only at h
      by_cases hfit : s0.length ≤ f.width
      · rw [if_pos hfit] at h
        cases h
        exact ⟨hfit, p, Nat.le_refl _, hf, fun q' a b => by omega⟩
      · rw [if_neg hfit] at h
        by_cases hp : p = 0
        · rw [if_pos hp] at h; cases h
        · rw [if_neg hp] at h
          obtain ⟨h1, q, hq, h2, h3⟩ := ih (p - 1) s h
          refine ⟨h1, q, by omega, h2, fun q' a b t ht => ?_⟩
          by_cases e : q' = p
          · subst e
            have : fmtVal (atPrec f q') v = .ok s0 := hf
            rw [this] at ht; cases ht; omega
          · exact h3 q' a (by omega) t ht

/-- `fit_value` returns the value at the largest smaller precision that fits, or raises -/
theorem fitValue_ok {f : FieldSpec} {v : Val} {s : Str} (h : fitValue f v = .ok s) :
    (f.typ = 'e' ∨ f.typ = 'f' ∨ f.typ = 'g') ∧
    s.length ≤ f.width ∧ ∃ p q, f.prec = some p ∧ q < p ∧ fmtVal (atPrec f q) v = .ok s ∧
      ∀ q', q < q' → q' < p → ∀ t, fmtVal (atPrec f q') v = .ok t → f.width < t.length := by
  unfold fitValue at h
  split at h
  · rename_i hc
    have htyp : f.typ = 'e' ∨ f.typ = 'f' ∨ f.typ = 'g' := by
      simp only [Bool.and_eq_true, Bool.or_eq_true, decide_eq_true_eq] at hc
      rcases hc.1 with (h1 | h1) | h1
      · exact Or.inl h1
      · exact Or.inr (Or.inl h1)
      · exact Or.inr (Or.inr h1)
    split at h
    · rename_i p hp
      obtain ⟨h1, q, hq, h2, h3⟩ := fitGo_ok _ _ _ h
      exact ⟨htyp, h1, p + 1, q, hp, by omega, h2, fun q' a b => h3 q' a (by omega)⟩
    · cases h
  · cases h

theorem blanks_length (w : Nat) : (List.replicate w ' ').length = w := List.length_replicate ..

/-- the three things `write_values_to_string` can put in a field -/
inductive Written (f : FieldSpec) (v : Val) (s : Str) : Prop where
  | blank (h : v = .none ∨ f.typ = 'x') (hs : s = List.replicate f.width ' ')
  | full (hv : v ≠ .none) (h : fmtVal f v = .ok s)
  | reduced (hv : v ≠ .none) (htyp : f.typ = 'e' ∨ f.typ = 'f' ∨ f.typ = 'g') (p q : Nat) (hp : f.prec = some p) (hq : q < p) (h : fmtVal (atPrec f q) v = .ok s)
      (hfull : ∀ t, fmtVal f v = .ok t → f.width < t.length)
      (hmax : ∀ q', q < q' → q' < p → ∀ t, fmtVal (atPrec f q') v = .ok t → f.width < t.length)

theorem writeField_ok {f : FieldSpec} {v : Val} {s : Str} (h : writeField f v = .ok s) :
    s.length = f.width ∧ Written f v s := by
  unfold writeField at h
  split at h
  · rename_i hc
    cases hf : fmtVal f v with
    | error e => rw [hf] at h; cases h
    | ok s0 =>
      rw [hf] at h
      simp only at h
      have hge := fmtVal_length_ge hf
      by_cases hw : s0.length > f.width
      · rw [if_pos hw] at h
        obtain ⟨htyp, h1, p, q, hp, hq, h2, h3⟩ := fitValue_ok h
        have := fmtVal_length_ge h2
        exact ⟨by simp only [atPrec] at this; omega,
          .reduced hc.1 htyp p q hp hq h2 (fun t ht => by rw [hf] at ht; cases ht; exact hw) h3⟩
      · rw [if_neg hw] at h
        cases h
        exact ⟨by omega, .full hc.1 hf⟩
  · rename_i hc
    cases h
    refine ⟨blanks_length _, .blank ?_ rfl⟩
    by_cases hv : v = .none
    · exact Or.inl hv
    · right
      by_cases ht : f.typ = 'x'
      · exact ht
      · exact absurd ⟨hv, ht⟩ hc


theorem writeField_error {f : FieldSpec} {v : Val} {e : Exc} (h : writeField f v = .error e) :
    fmtVal f v = .error e ∨ ∃ t, fmtVal f v = .ok t ∧ f.width < t.length := by
  unfold writeField at h
  split at h
  · cases hf : fmtVal f v with
    | error e' => rw [hf] at h; simp only at h; cases h; exact Or.inl rfl
    | ok s0 =>
      rw [hf] at h
      simp only at h
      by_cases hw : s0.length > f.width
      · exact Or.inr ⟨s0, rfl, hw⟩
      · rw [if_neg hw] at h; cases h
  · cases h

/-! ### whole records -/

/-- element-wise relation between two lists of the same length -/
inductive All2 {α β : Type} (R : α → β → Prop) : List α → List β → Prop where
  | nil : All2 R [] []
  | cons {a b as bs} (h : R a b) (t : All2 R as bs) : All2 R (a :: as) (b :: bs)

theorem All2.length_eq {α β : Type} {R : α → β → Prop} {l : List α} {m : List β} (h : All2 R l m) :
    l.length = m.length := by
  induction h with
  | nil => rfl
  | cons _ _ ih => simp [ih]

theorem mapM_ok_iff {α β : Type} (f : α → Except Exc β) : ∀ (l : List α) (out : List β),
    l.mapM f = .ok out ↔ All2 (fun a b => f a = .ok b) l out := by
  intro l
  induction l with
  | nil =>
    intro out
    rw [List.mapM_nil]
    constructor
    · intro h; cases h; exact .nil
    · intro h; cases h; rfl
  | cons a as ih =>
    intro out
    rw [List.mapM_cons]
    constructor
    · intro h
      cases ha : f a with
      | error e => rw [ha] at h; cases h
      | ok b =>
        rw [ha] at h
        cases has : as.mapM f with
        | error e => rw [has] at h; cases h
        | ok bs =>
          rw [has] at h
          cases h
          exact .cons ha ((ih bs).mp has)
    · intro h
      cases h with
      | cons ha hrest =>
        rw [ha, (ih _).mpr hrest]; rfl

/-- total width of a list of fields -/
def widthSum (fs : List FieldSpec) : Nat := (fs.map (·.width)).sum

theorem widthSum_append (a b : List FieldSpec) : widthSum (a ++ b) = widthSum a + widthSum b := by
  simp [widthSum]

theorem widthSum_cons (f : FieldSpec) (r : List FieldSpec) : widthSum (f :: r) = f.width + widthSum r := by
  simp [widthSum]

theorem writeValues_ok_iff (fs : List FieldSpec) (vals : List Val) (line : Str) :
    writeValues fs vals = .ok line ↔
      ∃ strs, All2 (fun (vf : Val × FieldSpec) s => writeField vf.2 vf.1 = .ok s) (vals.zip fs) strs ∧
        line = strs.flatten := by
  unfold writeValues
  constructor
  · intro h
    cases hm : (vals.zip fs).mapM (fun (vf : Val × FieldSpec) => writeField vf.2 vf.1) with
    | error e =>
      have : (vals.zip fs).mapM (fun x => match x with | (v, f) => writeField f v) = .error e := hm
      rw [this] at h; cases h
    | ok strs =>
      have : (vals.zip fs).mapM (fun x => match x with | (v, f) => writeField f v) = .ok strs := hm
      rw [this] at h
      cases h
      exact ⟨strs, (mapM_ok_iff _ _ _).mp hm, rfl⟩
  · intro ⟨strs, h, hl⟩
    have hm := (mapM_ok_iff _ _ _).mpr h
    have : (vals.zip fs).mapM (fun x => match x with | (v, f) => writeField f v) = .ok strs := hm
    rw [this, hl]; rfl


theorem All2.append_inv {α β : Type} {R : α → β → Prop} : ∀ {l₁ l₂ : List α} {m : List β},
    All2 R (l₁ ++ l₂) m → ∃ m₁ m₂, m = m₁ ++ m₂ ∧ All2 R l₁ m₁ ∧ All2 R l₂ m₂ := by
  intro l₁
  induction l₁ with
  | nil => intro l₂ m h; exact ⟨[], m, rfl, .nil, h⟩
  | cons a as ih =>
    intro l₂ m h
    cases h with
    | cons hab t =>
      obtain ⟨m₁, m₂, e, h1, h2⟩ := ih t
      exact ⟨_ :: m₁, m₂, by rw [e]; rfl, .cons hab h1, h2⟩

/-- every written field text has exactly the width of its field -/
theorem written_widths : ∀ (vals : List Val) (fs : List FieldSpec) (strs : List Str),
    All2 (fun (vf : Val × FieldSpec) s => writeField vf.2 vf.1 = .ok s) (vals.zip fs) strs →
    All2 (fun (f : FieldSpec) (s : Str) => s.length = f.width) (fs.take vals.length) strs := by
  intro vals
  induction vals with
  | nil => intro fs strs h; simp only [List.zip_nil_left] at h; cases h; simp; exact .nil
  | cons v vs ih =>
    intro fs strs h
    cases fs with
    | nil => simp only [List.zip_nil_right] at h; cases h; simp; exact .nil
    | cons f fr =>
      simp only [List.zip_cons_cons] at h
      cases h with
      | cons h1 t =>
        simp only [List.length_cons, List.take_succ_cons]
        exact .cons (writeField_ok h1).1 (ih fr _ t)

theorem flatten_length_of_widths {fs : List FieldSpec} {strs : List Str}
    (h : All2 (fun (f : FieldSpec) (s : Str) => s.length = f.width) fs strs) :
    strs.flatten.length = widthSum fs := by
  induction h with
  | nil => rfl
  | cons h _ ih => simp [widthSum_cons, h, ih]

theorem slice_mid (a s b : Str) : slice (a ++ s ++ b) a.length (a.length + s.length) = s := by
  unfold slice
  rw [List.append_assoc, List.drop_left, Nat.add_sub_cancel_left, List.take_left]

theorem slice_past_end {l : Str} {i j : Nat} (h : l.length ≤ i) : slice l i j = [] := by
  unfold slice; rw [List.drop_of_length_le h, List.take_nil]

theorem slice_tail (a t : Str) {w : Nat} (h : t.length ≤ w) : slice (a ++ t) a.length (a.length + w) = t := by
  unfold slice
  rw [List.drop_left, Nat.add_sub_cancel_left, List.take_of_length_le h]

/-! ### `line_spec` -/

theorem lineSpec_go_append (fs₁ fs₂ : List FieldSpec) : ∀ pos,
    lineSpec.go pos (fs₁ ++ fs₂) = lineSpec.go pos fs₁ ++ lineSpec.go (pos + widthSum fs₁) fs₂ := by
  induction fs₁ with
  | nil => intro pos; simp [lineSpec.go, widthSum]
  | cons f r ih =>
    intro pos
    simp only [List.cons_append, lineSpec.go, ih, widthSum_cons, Nat.add_assoc]

theorem lineSpec_go_length (fs : List FieldSpec) : ∀ pos, (lineSpec.go pos fs).length = fs.length := by
  induction fs with
  | nil => intro pos; rfl
  | cons f r ih => intro pos; simp [lineSpec.go, ih]

/-- the columns of the field that follows `fs₁` -/
theorem lineSpec_split (fs₁ : List FieldSpec) (f : FieldSpec) (fs₂ : List FieldSpec) :
    lineSpec (fs₁ ++ f :: fs₂) = lineSpec fs₁ ++
      ((widthSum fs₁, widthSum fs₁ + f.width), f.typ) :: lineSpec.go (widthSum fs₁ + f.width) fs₂ := by
  unfold lineSpec
  rw [lineSpec_go_append]
  simp [lineSpec.go]

theorem lineSpec_go_start_ge (fs : List FieldSpec) : ∀ pos, ∀ sp ∈ lineSpec.go pos fs, pos ≤ sp.1.1 := by
  induction fs with
  | nil => intro pos sp h; simp [lineSpec.go] at h
  | cons f r ih =>
    intro pos sp h
    simp only [lineSpec.go, List.mem_cons] at h
    rcases h with rfl | h
    · exact Nat.le_refl _
    · have := ih _ sp h; omega


/-! ### the record theorems -/

/-- the reader applied to one entry of `line_spec` -/
def readAt (rf : ReadFn) (line : Str) (sp : (Nat × Nat) × Char) : Except Exc PVal :=
  readField rf sp.2 (slice line sp.1.1 sp.1.2)

theorem parseString_eq (rf : ReadFn) (fs : List FieldSpec) (line : Str) :
    parseString rf fs line = (lineSpec fs).mapM (readAt rf line) := rfl

theorem line_length {fs : List FieldSpec} {vals : List Val} {line : Str}
    (h : writeValues fs vals = .ok line) : line.length = widthSum (fs.take vals.length) := by
  obtain ⟨strs, h1, rfl⟩ := (writeValues_ok_iff _ _ _).mp h
  exact flatten_length_of_widths (written_widths _ _ _ h1)

theorem written_field_columns {fs₁ : List FieldSpec} {f : FieldSpec} {fs₂ : List FieldSpec}
    {vs₁ : List Val} {v : Val} {vs₂ : List Val} {line : Str}
    (h : writeValues (fs₁ ++ f :: fs₂) (vs₁ ++ v :: vs₂) = .ok line) (hl : vs₁.length = fs₁.length) :
    ∃ s, writeField f v = .ok s ∧ s.length = f.width ∧
      slice line (widthSum fs₁) (widthSum fs₁ + f.width) = s := by
  obtain ⟨strs, h1, rfl⟩ := (writeValues_ok_iff _ _ _).mp h
  rw [List.zip_append hl] at h1
  obtain ⟨m₁, m₂, rfl, ha, hb⟩ := h1.append_inv
  simp only [List.zip_cons_cons] at hb
  cases hb with
  | cons hs t =>
    rename_i s ss
    have hw := written_widths _ _ _ ha
    rw [hl, List.take_length] at hw
    have hlen := flatten_length_of_widths hw
    have hsl := (writeField_ok hs).1
    refine ⟨s, hs, hsl, ?_⟩
    rw [List.flatten_append, List.flatten_cons, ← List.append_assoc, ← hlen, ← hsl]
    exact slice_mid _ _ _

theorem parse_field_at {rf : ReadFn} {fs₁ : List FieldSpec} {f : FieldSpec} {fs₂ : List FieldSpec}
    {line : Str} {out : List PVal} (h : parseString rf (fs₁ ++ f :: fs₂) line = .ok out) :
    ∃ x, out[fs₁.length]? = some x ∧
      readField rf f.typ (slice line (widthSum fs₁) (widthSum fs₁ + f.width)) = .ok x := by
  rw [parseString_eq, lineSpec_split] at h
  obtain ⟨o₁, o₂, rfl, ha, hb⟩ := ((mapM_ok_iff _ _ _).mp h).append_inv
  cases hb with
  | cons hx t =>
    rename_i x os
    refine ⟨x, ?_, hx⟩
    have : o₁.length = fs₁.length := by
      rw [← ha.length_eq]; exact lineSpec_go_length _ _
    rw [← this]
    simp


theorem parse_go (rf : ReadFn) {fs : List FieldSpec} {strs : List Str}
    (hw : All2 (fun (f : FieldSpec) (s : Str) => s.length = f.width) fs strs) : ∀ (pre tail : Str),
    (lineSpec.go pre.length fs).mapM (readAt rf (pre ++ strs.flatten ++ tail)) =
      (fs.zip strs).mapM (fun (p : FieldSpec × Str) => readField rf p.1.typ p.2) := by
  induction hw with
  | nil => intro pre tail; rfl
  | cons h t ih =>
    rename_i f s fr ss
    intro pre tail
    have e1 : pre ++ (s :: ss).flatten ++ tail = (pre ++ s) ++ ss.flatten ++ tail := by simp
    have e2 : pre.length + f.width = (pre ++ s).length := by simp [h]
    have e3 : slice (pre ++ (s :: ss).flatten ++ tail) pre.length (pre.length + f.width) = s := by
      have : pre ++ (s :: ss).flatten ++ tail = pre ++ s ++ (ss.flatten ++ tail) := by simp
      rw [this, ← h]; exact slice_mid _ _ _
    simp only [lineSpec.go, List.zip_cons_cons, List.mapM_cons]
    have : readAt rf (pre ++ (s :: ss).flatten ++ tail) ((pre.length, pre.length + f.width), f.typ)
        = readField rf f.typ s := by
      unfold readAt; simp only; rw [e3]
    rw [this, e2, e1, ih (pre ++ s) tail]

theorem parse_beyond (rf : ReadFn) (line : Str) (fs : List FieldSpec) : ∀ pos, line.length ≤ pos →
    (lineSpec.go pos fs).mapM (readAt rf line) = fs.mapM (fun g => readField rf g.typ []) := by
  induction fs with
  | nil => intro pos _; rfl
  | cons f r ih =>
    intro pos hpos
    simp only [lineSpec.go, List.mapM_cons]
    have : readAt rf line ((pos, pos + f.width), f.typ) = readField rf f.typ [] := by
      unfold readAt; simp only; rw [slice_past_end hpos]
    rw [this, ih _ (by omega)]

/-- parsing a record text made of complete fields, then a possibly incomplete one, then nothing -/
theorem parse_short {rf : ReadFn} {fs₁ : List FieldSpec} {strs : List Str}
    (hw : All2 (fun (f : FieldSpec) (s : Str) => s.length = f.width) fs₁ strs)
    (f : FieldSpec) (fs₂ : List FieldSpec) (part : Str) (hp : part.length ≤ f.width) :
    parseString rf (fs₁ ++ f :: fs₂) (strs.flatten ++ part) = (do
      let a ← (fs₁.zip strs).mapM (fun (p : FieldSpec × Str) => readField rf p.1.typ p.2)
      let x ← readField rf f.typ part
      let b ← fs₂.mapM (fun g => readField rf g.typ [])
      pure (a ++ x :: b)) := by
  have hlen := flatten_length_of_widths hw
  rw [parseString_eq, lineSpec_split, List.mapM_append, List.mapM_cons]
  have ha := parse_go rf hw [] part
  simp only [List.nil_append, List.length_nil] at ha
  have hx : readAt rf (strs.flatten ++ part) ((widthSum fs₁, widthSum fs₁ + f.width), f.typ)
      = readField rf f.typ part := by
    unfold readAt; simp only; rw [← hlen, slice_tail _ _ hp]
  have hb := parse_beyond rf (strs.flatten ++ part) fs₂ (widthSum fs₁ + f.width)
    (by rw [List.length_append, hlen]; omega)
  unfold lineSpec
  rw [ha, hx, hb]
  simp

/-- a complete written record parses field by field from each field's own text -/
theorem parse_complete {rf : ReadFn} {fs : List FieldSpec} {strs : List Str}
    (hw : All2 (fun (f : FieldSpec) (s : Str) => s.length = f.width) fs strs) (tail : Str) :
    parseString rf fs (strs.flatten ++ tail) =
      (fs.zip strs).mapM (fun (p : FieldSpec × Str) => readField rf p.1.typ p.2) := by
  have ha := parse_go rf hw [] tail
  simp only [List.nil_append, List.length_nil] at ha
  rw [parseString_eq]; exact ha


/-! ### one field: what was written is what is read -/

/-- a real in a `%e` field reads back as the printed digits: the value rounded to `q+1` significant
    digits, `q` being the field's precision or (when that does not fit) a smaller one -/
theorem roundtrip_e_real (rf : ReadFn) {f : FieldSpec} (ht : f.typ = 'e') (r : Rat) {s : Str}
    (h : writeField f (.real r) = .ok s) :
    ∃ q, q ≤ f.prec.getD 6 ∧ readField rf 'e' s =
      .ok (.flt (.fin (decide (r < 0)) (fmtEParts q r.num.natAbs r.den).1
        ((fmtEParts q r.num.natAbs r.den).2 - q))) := by
  have hd : 0 < r.den := r.den_pos
  rcases (writeField_ok h).2 with ⟨hv, _⟩ | ⟨_, hf⟩ | ⟨_, _, p, q, hp, hq, hf, _, _⟩
  · rcases hv with hv | hv
    · cases hv
    · rw [ht] at hv; exact absurd hv (by decide)
  · rw [fmtVal_e_real ht] at hf
    cases hf
    exact ⟨_, Nat.le_refl _, read_eText rf _ _ _ _ _ _ hd⟩
  · rw [fmtVal_e_real (f := atPrec f q) ht] at hf
    cases hf
    refine ⟨q, by rw [hp]; simp; omega, ?_⟩
    exact read_eText rf _ _ _ _ _ _ hd

/-- the same for a Python `int` handed to a `%e` field -/
theorem roundtrip_e_int (rf : ReadFn) {f : FieldSpec} (ht : f.typ = 'e') (i : Int) {s : Str}
    (h : writeField f (.int i) = .ok s) :
    ∃ q, q ≤ f.prec.getD 6 ∧ readField rf 'e' s =
      .ok (.flt (.fin (decide (i < 0)) (fmtEParts q i.natAbs 1).1 ((fmtEParts q i.natAbs 1).2 - q))) := by
  rcases (writeField_ok h).2 with ⟨hv, _⟩ | ⟨_, hf⟩ | ⟨_, _, p, q, hp, hq, hf, _, _⟩
  · rcases hv with hv | hv
    · cases hv
    · rw [ht] at hv; exact absurd hv (by decide)
  · rw [fmtVal_e_int ht] at hf
    cases hf
    exact ⟨_, Nat.le_refl _, read_eText rf _ _ _ _ _ _ (by decide)⟩
  · rw [fmtVal_e_int (f := atPrec f q) ht] at hf
    cases hf
    refine ⟨q, by rw [hp]; simp; omega, ?_⟩
    exact read_eText rf _ _ _ _ _ _ (by decide)

/-- a real in a `%f` field reads back as the printed decimal: the value rounded to `q` decimals -/
theorem roundtrip_f_real (rf : ReadFn) {f : FieldSpec} (ht : f.typ = 'f') (r : Rat) {s : Str}
    (h : writeField f (.real r) = .ok s) :
    ∃ q, q ≤ f.prec.getD 6 ∧ readField rf 'f' s =
      .ok (.flt (.fin (decide (r < 0)) (fM q r.num.natAbs r.den) (-(q : Int)))) := by
  rcases (writeField_ok h).2 with ⟨hv, _⟩ | ⟨_, hf⟩ | ⟨_, _, p, q, hp, hq, hf, _, _⟩
  · rcases hv with hv | hv
    · cases hv
    · rw [ht] at hv; exact absurd hv (by decide)
  · rw [fmtVal_f_real ht] at hf
    cases hf
    exact ⟨_, Nat.le_refl _, read_fText rf _ _ _ _ _ _⟩
  · rw [fmtVal_f_real (f := atPrec f q) ht] at hf
    cases hf
    refine ⟨q, by rw [hp]; simp; omega, ?_⟩
    exact read_fText rf _ _ _ _ _ _

/-- an integer that is written at all reads back exactly -/
theorem roundtrip_d_int (rf : ReadFn) {f : FieldSpec} (ht : f.typ = 'd') (i : Int) {s : Str}
    (h : writeField f (.int i) = .ok s) : readField rf 'd' s = .ok (.int i) := by
  have key : ∀ (left : Bool) (w : Nat), readField rf 'd' (pad left w (signChars (decide (i < 0)) ++ natDigits i.natAbs))
      = .ok (.int i) := by
    intro left w
    rw [read_dText]
    congr 2
    by_cases hi : i < 0 <;> simp [hi] <;> omega
  rcases (writeField_ok h).2 with ⟨hv, _⟩ | ⟨_, hf⟩ | ⟨_, htyp, _⟩
  · rcases hv with hv | hv
    · cases hv
    · rw [ht] at hv; exact absurd hv (by decide)
  · rw [fmtVal_d_int ht] at hf
    cases hf
    exact key _ _
  · rw [ht] at htyp; exact absurd htyp (by decide)

/-- a name that is written at all comes back as the written (padded) text -/
theorem roundtrip_s_str (rf : ReadFn) {f : FieldSpec} (ht : f.typ = 's') (nm : Str) {s : Str}
    (h : writeField f (.str nm) = .ok s) :
    s = pad f.left f.width (strTrunc f.prec nm) ∧ (strTrunc f.prec nm).length ≤ f.width ∧
      readField rf 's' s = .ok (.str (rstripNewline s)) := by
  obtain ⟨hlen, hw⟩ := writeField_ok h
  rcases hw with ⟨hv, _⟩ | ⟨_, hf⟩ | ⟨_, htyp, _⟩
  · rcases hv with hv | hv
    · cases hv
    · rw [ht] at hv; exact absurd hv (by decide)
  · rw [fmtVal_s_str ht] at hf
    cases hf
    rw [pad_length] at hlen
    exact ⟨rfl, by omega, read_name rf _⟩
  · rw [ht] at htyp; exact absurd htyp (by decide)

/-- an absent value (or an `x` field) is written as blanks and reads back as nothing -/
theorem roundtrip_absent (rf : ReadFn) {f : FieldSpec} {v : Val} (hv : v = .none ∨ f.typ = 'x') :
    writeField f v = .ok (List.replicate f.width ' ') ∧
      (f.typ = 'd' ∨ f.typ = 'e' ∨ f.typ = 'f' ∨ f.typ = 'g' ∨ f.typ = 'x' →
        readField rf f.typ (List.replicate f.width ' ') = .ok .none) := by
  constructor
  · unfold writeField
    rw [if_neg]
    intro ⟨h1, h2⟩
    rcases hv with hv | hv
    · exact h1 hv
    · exact h2 hv
  · intro ht; exact read_blank rf f.typ ht f.width

end Proofs
