/-
  Sub-columns of a refined TRIANGLE: each is a fixed positive fraction of the parent, for all coordinates
  (barycentric bookkeeping: every vertex of a sub-column is an affine combination of the three corners).
-/
import PyTough.Proofs.Refine
namespace Proofs.Refine
open Model.Geo Model.Refine Gen.RefineTables

abbrev B3 := Rat × Rat × Rat

def cornerBary : Nat → Option B3
  | 0 => some (1, 0, 0)
  | 1 => some (0, 1, 0)
  | 2 => some (0, 0, 1)
  | _ => none

/-- barycentric coordinates of a vertex of a sub-column of a triangle (`none`: not such a vertex) -/
def bary : Vert → Option B3
  | .corner i => cornerBary i
  | .mid i j =>
    match cornerBary i, cornerBary j with
    | some a, some b => some ((a.1 + b.1) / 2, (a.2.1 + b.2.1) / 2, (a.2.2 + b.2.2) / 2)
    | _, _ => none
  | .centre => none

def comb (ρ : Val) (b : B3) : Pt :=
  (b.1 * (ρ.corner 0).1 + b.2.1 * (ρ.corner 1).1 + b.2.2 * (ρ.corner 2).1,
   b.1 * (ρ.corner 0).2 + b.2.1 * (ρ.corner 1).2 + b.2.2 * (ρ.corner 2).2)

theorem corner_bary (ρ : Val) (i : Nat) (b : B3) (h : cornerBary i = some b) : ρ.corner i = comb ρ b := by
  match i, h with
  | 0, h => simp only [cornerBary, Option.some.injEq] at h; subst h; simp only [comb]; ext <;> simp <;> grind
  | 1, h => simp only [cornerBary, Option.some.injEq] at h; subst h; simp only [comb]; ext <;> simp <;> grind
  | 2, h => simp only [cornerBary, Option.some.injEq] at h; subst h; simp only [comb]; ext <;> simp <;> grind
  | n + 3, h => simp [cornerBary] at h

theorem at_bary (ρ : Val) (v : Vert) (b : B3) (h : bary v = some b) : ρ.at v = comb ρ b := by
  cases v with
  | corner i => exact corner_bary ρ i b h
  | centre => simp [bary] at h
  | mid i j =>
    simp only [bary] at h
    cases hi : cornerBary i with
    | none => rw [hi] at h; simp at h
    | some a =>
      cases hj : cornerBary j with
      | none => rw [hi, hj] at h; simp at h
      | some c =>
        rw [hi, hj] at h
        simp only [Option.some.injEq] at h
        subst h
        simp only [Val.at, Pt.mid, Pt.add, Pt.smul, corner_bary ρ i a hi, corner_bary ρ j c hj, comb]
        ext <;> simp <;> grind

end Proofs.Refine

namespace Proofs.Refine
open Model.Geo Model.Refine Gen.RefineTables

/-- the three coefficients of `cross (comb a) (comb b)` on `X01, X12, X20` -/
def k01 (a b : B3) : Rat := a.1 * b.2.1 - b.1 * a.2.1
def k12 (a b : B3) : Rat := a.2.1 * b.2.2 - b.2.1 * a.2.2
def k20 (a b : B3) : Rat := a.2.2 * b.1 - b.2.2 * a.1

theorem cross_comb (ρ : Val) (a b : B3) :
    Pt.cross (comb ρ a) (comb ρ b) =
      k01 a b * Pt.cross (ρ.corner 0) (ρ.corner 1) + k12 a b * Pt.cross (ρ.corner 1) (ρ.corner 2) +
        k20 a b * Pt.cross (ρ.corner 2) (ρ.corner 0) := by
  simp only [Pt.cross, comb, k01, k12, k20]; grind

/-- barycentric coordinates of all vertices of a polygon -/
def baryPoly (p : Poly) : Option (List B3) := p.mapM bary

/-- coefficient sums over the cyclic edges -/
def K (k : B3 → B3 → Rat) (bs : List B3) : Rat := sumRat ((cyc bs).map fun e => k e.1 e.2)

theorem mapM_some_map {α β γ} (f : α → Option β) (g : β → γ) (h : α → γ) (hh : ∀ a b, f a = some b → h a = g b) :
    ∀ (l : List α) (r : List β), l.mapM f = some r → l.map h = r.map g
  | [], r, hr => by simp at hr; subst hr; rfl
  | a :: t, r, hr => by
    simp only [List.mapM_cons, bind, Option.bind] at hr
    cases ha : f a with
    | none => rw [ha] at hr; simp at hr
    | some b =>
      rw [ha] at hr
      simp only at hr
      cases ht : t.mapM f with
      | none => rw [ht] at hr; simp at hr
      | some rt =>
        rw [ht] at hr
        simp only [pure, Option.some.injEq] at hr
        subst hr
        have ih := mapM_some_map f g h hh t rt ht
        simp only [List.map_cons, hh a b ha, ih]

theorem area2_bary (ρ : Val) (p : Poly) (bs : List B3) (h : baryPoly p = some bs) :
    area2 ρ p = K k01 bs * Pt.cross (ρ.corner 0) (ρ.corner 1) + K k12 bs * Pt.cross (ρ.corner 1) (ρ.corner 2) +
      K k20 bs * Pt.cross (ρ.corner 2) (ρ.corner 0) := by
  have hm := mapM_some_map bary (comb ρ) ρ.at (fun v b hb => at_bary ρ v b hb) p bs h
  simp only [area2, hm, shoelace2, cyc_map, List.map_map, K]
  generalize cyc bs = es
  induction es with
  | nil => simp [sumRat]; grind
  | cons e t ih =>
    simp only [List.map_cons, sumRat_cons, Function.comp, cross_comb] at ih ⊢
    rw [ih]; grind

/-- decidable certificate: all vertices are barycentric and the three coefficient sums coincide and are positive -/
def triFraction (p : Poly) : Option Rat :=
  match baryPoly p with
  | none => none
  | some bs => if K k01 bs = K k12 bs ∧ K k12 bs = K k20 bs ∧ 0 < K k01 bs then some (K k01 bs) else none

theorem parent3_area2 (ρ : Val) : area2 ρ (parentPoly 3) =
    Pt.cross (ρ.corner 0) (ρ.corner 1) + Pt.cross (ρ.corner 1) (ρ.corner 2) + Pt.cross (ρ.corner 2) (ρ.corner 0) := by
  simp [area2, parentPoly, shoelace2, cyc, cycGo, sumRat, Val.at, List.range, List.range.loop]
  grind

theorem area2_of_triFraction (ρ : Val) (p : Poly) (c : Rat) (h : triFraction p = some c) :
    0 < c ∧ area2 ρ p = c * area2 ρ (parentPoly 3) := by
  unfold triFraction at h
  cases hb : baryPoly p with
  | none => rw [hb] at h; cases h
  | some bs =>
    rw [hb] at h
    simp only at h
    split at h
    · rename_i hc
      simp only [Option.some.injEq] at h
      subst h
      refine ⟨hc.2.2, ?_⟩
      rw [area2_bary ρ p bs hb, parent3_area2, ← hc.1, ← hc.2.1] at *
      rw [← hc.1]; grind
    · cases h

end Proofs.Refine

namespace Proofs.Refine
open Model.Geo Model.Refine Gen.RefineTables

theorem triangle_table_fractions :
    ∀ s ∈ sublists (List.range 3), s ≠ [] →
      (match subdivision 3 s with
       | some subs => subs.all fun p => (triFraction p).isSome
       | none => false) = true := by decide +kernel

theorem triangle_subcolumns_fraction (sides : List Nat) (hs : sides.Sublist (List.range 3)) (hne : sides ≠ [])
    (subs : List Poly) (h : subdivision 3 sides = some subs) (p : Poly) (hp : p ∈ subs) :
    ∃ c : Rat, 0 < c ∧ ∀ ρ : Val, area2 ρ p = c * area2 ρ (parentPoly 3) := by
  have := triangle_table_fractions sides (mem_sublists.mpr hs) hne
  rw [h] at this
  simp only [List.all_eq_true] at this
  have hp' := this p hp
  cases hf : triFraction p with
  | none => rw [hf] at hp'; cases hp'
  | some c => exact ⟨c, (area2_of_triFraction ⟨fun _ => (0, 0), (0, 0)⟩ p c hf).1, fun ρ => (area2_of_triFraction ρ p c hf).2⟩

end Proofs.Refine
