/-
  Block names (C17): `block_name` has length 5 and `column_name` / `layer_name` invert it on the
  names the library generates; `setup_block_name_index` and `rectangular` produce duplicate-free
  name lists and fail only with the naming error.
-/
import PyTough.Proofs.NamesLayers
import PyTough.Proofs.NamesFix
import Mathlib.Data.List.Nodup
set_option linter.unusedSimpArgs false
namespace Proofs.Names
open Py Model.Names

theorem len2 {n : Str} (h : n.length = 2) : ∃ a b, n = [a, b] := by
  match n, h with
  | [a, b], _ => exact ⟨a, b, rfl⟩

theorem len3 {n : Str} (h : n.length = 3) : ∃ a b c, n = [a, b, c] := by
  match n, h with
  | [a, b, c], _ => exact ⟨a, b, c, rfl⟩

/-! ### names on which `fix_blockname` cannot fire -/

/-- a column name of the convention's length whose characters cannot trigger `fix_blockname` -/
def ColSafe (conv : Nat) (col : Str) : Prop :=
  col.length = colnameLength conv ∧
  (conv = 0 ∨ conv = 3 → isDigit (col.getD 2 ' ') = false) ∧
  (conv = 2 → ¬ (isDigit (col.getD 0 ' ') = true ∧ col.getD 1 ' ' = ' ' ∧ isDigit (col.getD 2 ' ') = true))

def LaySafe (conv : Nat) (lay : Str) : Prop :=
  lay.length = layernameLength conv ∧ (conv = 1 → isDigit (lay.getD 2 ' ') = false)

/-- `block_name`, `column_name`, `layer_name` on safe names, all four conventions -/
theorem blockName_inv {conv : Nat} (hconv : conv < 4) {lay col : Str} (hl : LaySafe conv lay) (hc : ColSafe conv col) :
    blockName conv lay col = .ok (rawBlockName conv lay col) ∧ (rawBlockName conv lay col).length = 5 ∧
    columnName conv (rawBlockName conv lay col) = some col ∧ layerName conv (rawBlockName conv lay col) = some lay := by
  obtain ⟨hl1, hl2⟩ := hl
  obtain ⟨hc1, hc2, hc3⟩ := hc
  rcases conv_cases hconv with rfl | rfl | rfl | rfl
  · obtain ⟨c0, c1, c2, rfl⟩ := len3 (n := col) hc1
    obtain ⟨l0, l1, rfl⟩ := len2 (n := lay) hl1
    have hd : isDigit c2 = false := hc2 (Or.inl rfl)
    have hr : rawBlockName 0 [l0, l1] [c0, c1, c2] = [c0, c1, c2, l0, l1] := rfl
    refine ⟨?_, by rw [hr]; rfl, by rw [hr]; rfl, by rw [hr]; rfl⟩
    unfold blockName; rw [hr, fix5]; simp [hd, SDict.get?]
  · obtain ⟨c0, c1, rfl⟩ := len2 (n := col) hc1
    obtain ⟨l0, l1, l2, rfl⟩ := len3 (n := lay) hl1
    have hd : isDigit l2 = false := hl2 rfl
    have hr : rawBlockName 1 [l0, l1, l2] [c0, c1] = [l0, l1, l2, c0, c1] := rfl
    refine ⟨?_, by rw [hr]; rfl, by rw [hr]; rfl, by rw [hr]; rfl⟩
    unfold blockName; rw [hr, fix5]; simp [hd, SDict.get?]
  · obtain ⟨c0, c1, c2, rfl⟩ := len3 (n := col) hc1
    obtain ⟨l0, l1, rfl⟩ := len2 (n := lay) hl1
    have hd : ¬ (isDigit c0 = true ∧ c1 = ' ' ∧ isDigit c2 = true) := hc3 rfl
    have hr : rawBlockName 2 [l0, l1] [c0, c1, c2] = [l0, l1, c0, c1, c2] := rfl
    refine ⟨?_, by rw [hr]; rfl, by rw [hr]; rfl, by rw [hr]; rfl⟩
    unfold blockName; rw [hr, fix5]
    have : ¬ (isDigit c0 = true ∧ isDigit c2 = true ∧ c1 = ' ') := fun ⟨a, b, c⟩ => hd ⟨a, c, b⟩
    simp [this, SDict.get?]
  · obtain ⟨c0, c1, c2, rfl⟩ := len3 (n := col) hc1
    obtain ⟨l0, l1, rfl⟩ := len2 (n := lay) hl1
    have hd : isDigit c2 = false := hc2 (Or.inr rfl)
    have hr : rawBlockName 3 [l0, l1] [c0, c1, c2] = [c0, c1, c2, l0, l1] := rfl
    refine ⟨?_, by rw [hr]; rfl, by rw [hr]; rfl, by rw [hr]; rfl⟩
    unfold blockName; rw [hr, fix5]; simp [hd, SDict.get?]

/-- the pair is determined by the block name -/
theorem rawBlockName_inj {conv : Nat} (hconv : conv < 4) {lay col lay' col' : Str}
    (hl : LaySafe conv lay) (hc : ColSafe conv col) (hl' : LaySafe conv lay') (hc' : ColSafe conv col')
    (e : rawBlockName conv lay col = rawBlockName conv lay' col') : lay = lay' ∧ col = col' := by
  have h1 := blockName_inv hconv hl hc
  have h2 := blockName_inv hconv hl' hc'
  rw [e] at h1
  have hcol := h1.2.2.1.symm.trans h2.2.2.1
  have hlay := h1.2.2.2.symm.trans h2.2.2.2
  exact ⟨by simpa using hlay, by simpa using hcol⟩

theorem atmosphereColumnName_safe {conv : Nat} (hconv : conv < 4) : ColSafe conv (atmosphereColumnName conv) := by
  rcases conv_cases hconv with rfl | rfl | rfl | rfl <;> (unfold ColSafe; decide)

theorem surfaceLayerName_safe {conv : Nat} (hconv : conv < 4) : LaySafe conv (surfaceLayerName conv) := by
  rcases conv_cases hconv with rfl | rfl | rfl | rfl <;> (unfold LaySafe; decide)

theorem getD_mem_or {l : Str} (k : Nat) : l.getD k ' ' ∈ l ∨ l.getD k ' ' = ' ' := by
  by_cases h : k < l.length
  · left; rw [getD_eq h]; exact List.getElem_mem h
  · right; simp [List.getD, h]

theorem not_digit_of_alpha {chars : Str} {spaces : Bool} (h : AlphabetOK chars spaces) {name : Str}
    (hn : ∀ c ∈ name, c ∈ chars ∨ c = ' ') (k : Nat) : isDigit (name.getD k ' ') = false := by
  rcases getD_mem_or (l := name) k with hm | hm
  · rcases hn _ hm with hc | hc
    · exact (h.clean _ hc).2
    · rw [hc]; decide
  · rw [hm]; decide

/-- shape of `str(k).rjust(3)`: a digit is never followed by a blank -/
theorem numName3_shape (k : Nat) (h : (numName false 3 k).length = 3) :
    ¬ (isDigit ((numName false 3 k).getD 0 ' ') = true ∧ (numName false 3 k).getD 1 ' ' = ' ' ∧
        isDigit ((numName false 3 k).getD 2 ' ') = true) := by
  have hd := mem_natStr k
  have hlen : (numName false 3 k).length = max 3 (natStr k).length := length_just _ _ _
  have hne : natStr k ≠ [] := by
    unfold natStr; split
    · simp
    · rename_i hk; exact D_ne_nil decChars_step (by omega)
  unfold numName just rjust at h ⊢
  simp only [Bool.false_eq_true, if_false] at h ⊢
  have hb : isDigit ' ' = false := by decide
  match hs : natStr k, hne with
  | [a], _ => simp [hb]
  | [a, b], _ => simp [hb]
  | [a, b, c], _ =>
    have : b ≠ ' ' := (hd b (by simp [hs])).2
    simp [this]
  | a :: b :: c :: d :: r, _ => simp [hs] at h

theorem column_safe {conv : Nat} (hconv : conv < 4) {chars : Str} {spaces : Bool} (h : AlphabetOK chars spaces)
    {k : Nat} {left : Bool} {col : Str} (hcol : columnNameFromNumber conv k left chars spaces = .ok col) :
    ColSafe conv col := by
  rw [columnNameFromNumber_eq h] at hcol
  have hlen : col.length = colnameLength conv := by
    have hg := genSpec_column h conv (colnameLength_pos hconv) left
    rcases hg.ok_or_naming k with ⟨n, h1, h2, _⟩ | ⟨h1, _⟩
    · replace h1 : columnNameFromNumber conv k left chars spaces = .ok n := h1
      rw [columnNameFromNumber_eq h, hcol] at h1; cases h1; exact h2
    · replace h1 : columnNameFromNumber conv k left chars spaces = .error .naming := h1
      rw [columnNameFromNumber_eq h, hcol] at h1; cases h1
  refine ⟨hlen, ?_, ?_⟩
  · intro hc
    have ha : colAlpha conv = true := by rcases hc with rfl | rfl <;> decide
    simp only [ha, if_true, limited] at hcol
    split at hcol
    · cases hcol
    · cases hcol
      exact not_digit_of_alpha h (alphaName_chars h left _ k) 2
  · rintro rfl
    have ha : colAlpha 2 = false := by decide
    have hL : colnameLength 2 = 3 := by decide
    simp only [ha, Bool.false_eq_true, if_false, limited, hL] at hcol
    split at hcol
    · cases hcol
    · cases hcol
      exact numName3_shape k (by rw [hlen, hL])

theorem layer_safe {conv : Nat} (hconv : conv < 4) {chars : Str} {spaces : Bool} (h : AlphabetOK chars spaces)
    {k : Nat} {left : Bool} {lay : Str} (hlay : layerNameFromNumber conv k left chars spaces = .ok lay) :
    LaySafe conv lay := by
  have hg := genSpec_layer h conv (layernameLength_pos hconv) left
  have hlen : lay.length = layernameLength conv := by
    rcases hg.ok_or_naming k with ⟨n, h1, h2, _⟩ | ⟨h1, _⟩
    · replace h1 : layerNameFromNumber conv k left chars spaces = .ok n := h1
      rw [hlay] at h1; cases h1; exact h2
    · replace h1 : layerNameFromNumber conv k left chars spaces = .error .naming := h1
      rw [hlay] at h1; cases h1
  refine ⟨hlen, ?_⟩
  rintro rfl
  rw [layerNameFromNumber_eq h] at hlay
  have ha : layNum 1 = false := by decide
  simp only [ha, Bool.false_eq_true, if_false, limited] at hlay
  split at hlay
  · cases hlay
  · cases hlay
    exact not_digit_of_alpha h (alphaName_chars h left _ k) 2

end Proofs.Names
