/-
  setup_table_AUTOUGH2 (Model/ListingFile.lean) on the lines of one printed table: the layout it records is one for
  which read_table_AUTOUGH2 reads the same region completely.  Core Lean only.
-/
import PyTough.Proofs.ListingWholeAut
namespace Proofs.Whole
open Py Model Model.Listing Proofs.Listing

/-! ### 1. the column header line, pure -/

/-- the column names behind `INDEX`: a word starting with a lower-case character is glued to the previous name -/
def headerGoA : List Str → List Str → Except Exc (List Str)
  | [], acc => .ok acc.reverse
  | s :: r, acc =>
    match s with
    | [] => .error .indexError
    | c :: _ =>
      if c = upperChar c then headerGoA r (s :: acc)
      else match acc with
        | [] => .error .indexError
        | last :: more => headerGoA r ((last ++ [' '] ++ s) :: more)

/-- `parse_table_header_AUTOUGH2` on the header line: the number of keys and the column names -/
def headerColsA (hdr : Str) : Except Exc (Nat × List Str) :=
  match (splitWs (strip hdr)).idxOf? (S "INDEX") with
  | some k =>
    match headerGoA ((splitWs (strip hdr)).drop (k + 1)) [] with
    | .ok cols => .ok (k, cols)
    | .error e => .error e
  | none => .error .valueError

theorem headerGo_eq (ws acc : List Str) :
    parseTableHeaderAUTOUGH2.go ws acc = liftE (headerGoA ws acc) := by
  induction ws generalizing acc with
  | nil => rfl
  | cons w r ih =>
    cases w with
    | nil => rfl
    | cons c cs =>
      unfold parseTableHeaderAUTOUGH2.go headerGoA
      simp only
      split
      · exact ih _
      · cases acc with
        | nil => rfl
        | cons last more => exact ih _

theorem parseTableHeaderAUTOUGH2_run (s : Rd) (hdr : Str) (r : List Str) (nkeys : Nat) (cols : List Str)
    (hrest : s.pos.rest = hdr :: r) (hh : headerColsA hdr = .ok (nkeys, cols)) :
    parseTableHeaderAUTOUGH2 s = .ok ((nkeys, cols), { s with pos := ⟨s.pos.no + 1, r⟩ }) := by
  unfold parseTableHeaderAUTOUGH2
  rw [bind_ok _ _ _ _ _ (readline_cons s hdr r hrest)]
  unfold headerColsA at hh
  split at hh
  · rename_i k hk
    split at hh
    · rename_i cols' hc
      injection hh with hh
      injection hh with h1 h2
      subst h1; subst h2
      simp only [hk]
      rw [bind_ok _ _ _ _ _ (rfl : (pure k : M Nat) _ = .ok (k, _))]
      rw [headerGo_eq, hc]
      rfl
    · cases hh
  · cases hh

/-! ### 2. the key loop -/

/-- **the key loop of setup_table_AUTOUGH2**: from the first data line in hand to the terminator line, one key per
    printed data line, in order -/
theorem setupLoopA_run (kw : Str) (keypos : List Int) (D : List Str) (term : Str) (tail : List Str)
    (fuel : Nat) (acc ks : List Key) (s : Rd)
    (hfuel : D.length < fuel)
    (hD : ∀ d ∈ D, slice d 1 6 ≠ kw) (hterm : slice term 1 6 = kw)
    (hrest : s.pos.rest = (D ++ [term]).tail ++ tail)
    (hks : D.map (fun d => keyFromLine d keypos) = ks.map .ok) :
    setupTableAUTOUGH2.loop kw keypos fuel ((D ++ [term]).headD []) acc s
      = .ok (acc.reverse ++ ks, { s with pos := ⟨s.pos.no + D.length, tail⟩ }) := by
  induction D generalizing fuel acc ks s with
  | nil =>
    cases fuel with
    | zero => cases hfuel
    | succ f =>
      cases ks with
      | cons _ _ => simp at hks
      | nil =>
        simp only [List.nil_append, List.headD_cons, List.tail_cons] at hrest ⊢
        unfold setupTableAUTOUGH2.loop
        have hc : (slice term 1 6 != kw) = false := by simp [hterm]
        simp only [hc]
        have hs : s = { s with pos := ⟨s.pos.no + 0, tail⟩ } := by
          cases s with | mk _ _ pos => cases pos; simp_all
        simp only [List.length_nil, List.append_nil]
        rw [← hs]
        rfl
  | cons d D' ih =>
    cases fuel with
    | zero => cases hfuel
    | succ f =>
      cases ks with
      | nil => simp at hks
      | cons k kr =>
        simp only [List.map_cons, List.cons.injEq] at hks
        obtain ⟨hk, hkr⟩ := hks
        simp only [List.cons_append, List.headD_cons, List.tail_cons] at hrest ⊢
        unfold setupTableAUTOUGH2.loop
        have hc : (slice d 1 6 != kw) = true := by simpa using hD d List.mem_cons_self
        simp only [hc, if_true]
        unfold keyOfLine
        rw [hk, bind_ok _ _ _ _ _ (liftE_ok k s)]
        rw [bind_ok _ _ _ _ _ (readline_headD s (D' ++ [term]) tail (by simp) hrest)]
        rw [ih f (k :: acc) kr { s with pos := ⟨s.pos.no + 1, (D' ++ [term]).tail ++ tail⟩ }
          (by simp only [List.length_cons] at hfuel; omega)
          (fun x hx => hD x (List.mem_cons_of_mem _ hx)) rfl hkr]
        simp only [List.reverse_cons, List.append_assoc, List.singleton_append, List.length_cons]
        have e : s.pos.no + 1 + D'.length = s.pos.no + (D'.length + 1) := by omega
        rw [e]

/-! ### 3. the whole set-up -/

/-- `self._table[name] = t` on the list of tables: an existing name keeps its place, a new one goes to the end -/
def putTg (tn : String) (t : Table) (tables : List (String × Table)) : List (String × Table) :=
  if (tables.lookup tn).isSome then putT tn t tables else tables ++ [(tn, t)]

theorem putTable_run (tn : String) (t : Table) (s : Rd) :
    putTable tn t s = .ok ((), { s with tables := putTg tn t s.tables }) := by
  unfold putTable putTg
  by_cases h : (s.tables.lookup tn).isSome = true
  · simp only [modify, modifyGet, MonadStateOf.modifyGet, StateT.modifyGet, pure, Except.pure, h, if_true, putT]
  · simp only [modify, modifyGet, MonadStateOf.modifyGet, StateT.modifyGet, pure, Except.pure, h]
    rfl

theorem lookup_append_single (tn m : String) (t : Table) (tables : List (String × Table)) :
    (tables ++ [(tn, t)]).lookup m = match tables.lookup m with
      | some x => some x
      | none => if m = tn then some t else none := by
  induction tables with
  | nil =>
    simp only [List.nil_append, List.lookup]
    by_cases h : m = tn
    · simp [h]
    · have : (m == tn) = false := by simp [h]
      simp [this, h]
  | cons x r ih =>
    obtain ⟨n, y⟩ := x
    simp only [List.cons_append, List.lookup]
    cases m == n
    · exact ih
    · rfl

theorem putTg_lookup_self (tn : String) (t : Table) (tables : List (String × Table)) :
    (putTg tn t tables).lookup tn = some t := by
  unfold putTg
  split
  · rename_i h; exact putT_lookup_self tn t tables h
  · rename_i h
    rw [lookup_append_single]
    cases hl : tables.lookup tn with
    | some x => simp [hl] at h
    | none => simp

theorem putTg_lookup_other (tn m : String) (t : Table) (tables : List (String × Table)) (hm : m ≠ tn) :
    (putTg tn t tables).lookup m = tables.lookup m := by
  unfold putTg
  split
  · exact putT_lookup_other tn m t tables hm
  · rw [lookup_append_single]
    cases tables.lookup m with
    | some x => rfl
    | none => simp [hm]

/-- the table `setup_table_AUTOUGH2` records -/
def setupTableA (tn : String) (nkeys : Nat) (cols : List Str) (start : Option Int) (keypos : List Int) (ks : List Key) : Table :=
  { mkTable cols ks.toArray nkeys (tn = "connection") with keyPos := keypos, numpos := [start] }

/-- **setup_table_AUTOUGH2 on the lines of a printed table**, from its first line: three lines, the column header
    `hdr`, one line `u`, the data lines `d0 :: D'`, the terminator `term`, then `tail` -/
theorem setupTableAUTOUGH2_run (tn : String) (s : Rd) (a1 a2 a3 hdr u d0 : Str) (D' : List Str) (term : Str) (tail : List Str)
    (nkeys : Nat) (cols : List Str) (start : Option Int) (keypos : List Int) (ks : List Key)
    (hrest : s.pos.rest = a1 :: a2 :: a3 :: hdr :: u :: (((d0 :: D') ++ [term]) ++ tail))
    (hh : headerColsA hdr = .ok (nkeys, cols))
    (hst : startOfValues d0 cols = .ok start)
    (hnv : (splitWs (strip (sliceO d0 start none))).length = cols.length)
    (hkp : keyPositions (sliceO d0 none start) nkeys = .ok (some keypos))
    (hne : keypos ≠ [])
    (hD : ∀ d ∈ d0 :: D', slice d 1 6 ≠ keyword5 tn) (hterm : slice term 1 6 = keyword5 tn)
    (hks : (d0 :: D').map (fun d => keyFromLine d keypos) = ks.map .ok) :
    setupTableAUTOUGH2 tn s = .ok ((),
      { s with pos := ⟨s.pos.no + 5 + (d0 :: D').length + 1 + min 1 tail.length, tail.drop 1⟩,
               tables := putTg tn (setupTableA tn nkeys cols start keypos ks) s.tables,
               tablenames := s.tablenames ++ [tn] }) := by
  unfold setupTableAUTOUGH2
  simp only
  rw [bind_ok _ _ _ _ _ (skiplines_run 3 s)]
  rw [bind_ok _ _ _ _ _ (parseTableHeaderAUTOUGH2_run _ hdr (u :: (((d0 :: D') ++ [term]) ++ tail)) nkeys cols (by simp [hrest]) hh)]
  simp only
  rw [bind_ok _ _ _ _ _ (readline_cons _ u _ rfl)]
  rw [bind_ok _ _ _ _ _ (readline_cons _ d0 ((D' ++ [term]) ++ tail) (by simp))]
  rw [hst, bind_ok _ _ _ _ _ (liftE_ok start _)]
  rw [if_pos hnv.symm]
  rw [hkp, bind_ok _ _ _ _ _ (liftE_ok (some keypos) _)]
  cases keypos with
  | nil => exact absurd rfl hne
  | cons k0 kr =>
    simp only [bind, StateT.bind, get, getThe, MonadStateOf.get, StateT.get, Except.bind, pure, Except.pure]
    have hl := setupLoopA_run (keyword5 tn) (k0 :: kr) (d0 :: D') term tail
    simp only [List.cons_append, List.headD_cons, List.tail_cons] at hl
    rw [hl _ [] ks _ (by simp; omega) hD hterm rfl hks]
    simp only
    rw [putTable_run]
    simp only [modify, modifyGet, MonadStateOf.modifyGet, StateT.modifyGet, pure, Except.pure]
    rw [readline_any]
    simp only [StateT.pure, pure, Except.pure, List.reverse_nil, List.nil_append, setupTableA]
    congr 4
    simp only [hrest, List.length_cons]
    omega

/-! ### 4. what the recorded table looks like, and that the same region is one read_table_AUTOUGH2 reads -/

theorem setupTableA_cols (tn : String) (nkeys : Nat) (cols : List Str) (start : Option Int) (keypos : List Int) (ks : List Key) :
    (setupTableA tn nkeys cols start keypos ks).cols = cols := rfl
theorem setupTableA_rows (tn : String) (nkeys : Nat) (cols : List Str) (start : Option Int) (keypos : List Int) (ks : List Key) :
    (setupTableA tn nkeys cols start keypos ks).rows = ks.toArray := rfl
theorem setupTableA_numpos (tn : String) (nkeys : Nat) (cols : List Str) (start : Option Int) (keypos : List Int) (ks : List Key) :
    (setupTableA tn nkeys cols start keypos ks).numpos = [start] := rfl
theorem setupTableA_keyPos (tn : String) (nkeys : Nat) (cols : List Str) (start : Option Int) (keypos : List Int) (ks : List Key) :
    (setupTableA tn nkeys cols start keypos ks).keyPos = keypos := rfl
theorem setupTableA_numKeys (tn : String) (nkeys : Nat) (cols : List Str) (start : Option Int) (keypos : List Int) (ks : List Key) :
    (setupTableA tn nkeys cols start keypos ks).numKeys = nkeys := rfl
theorem setupTableA_data_size (tn : String) (nkeys : Nat) (cols : List Str) (start : Option Int) (keypos : List Int) (ks : List Key) :
    (setupTableA tn nkeys cols start keypos ks).data.size = (setupTableA tn nkeys cols start keypos ks).rows.size := by
  simp [setupTableA, mkTable]
/-- every row of the new table is a row of zeros, one per column -/
theorem setupTableA_data (tn : String) (nkeys : Nat) (cols : List Str) (start : Option Int) (keypos : List Int) (ks : List Key) :
    (setupTableA tn nkeys cols start keypos ks).data = Array.replicate ks.length (Array.replicate cols.length zero) := by
  simp [setupTableA, mkTable]

/-- the conditions of the set-up on the lines of a region (header line, first data line, further data lines,
    terminator), for the layout `nkeys cols start keypos` and the keys `ks`: decidable on concrete lines -/
def SetupRegionA (tn : String) (hdr d0 : Str) (D' : List Str) (term : Str)
    (nkeys : Nat) (cols : List Str) (start : Option Int) (keypos : List Int) (ks : List Key) : Prop :=
  headerColsA hdr = .ok (nkeys, cols) ∧
  startOfValues d0 cols = .ok start ∧
  (splitWs (strip (sliceO d0 start none))).length = cols.length ∧
  keyPositions (sliceO d0 none start) nkeys = .ok (some keypos) ∧
  keypos ≠ [] ∧
  (∀ d ∈ d0 :: D', slice d 1 6 ≠ keyword5 tn) ∧ slice term 1 6 = keyword5 tn ∧
  (d0 :: D').map (fun d => keyFromLine d keypos) = ks.map .ok

instance (tn : String) (hdr d0 : Str) (D' : List Str) (term : Str)
    (nkeys : Nat) (cols : List Str) (start : Option Int) (keypos : List Int) (ks : List Key) :
    Decidable (SetupRegionA tn hdr d0 D' term nkeys cols start keypos ks) := by
  unfold SetupRegionA; infer_instance

theorem SetupRegionA.rows_length {tn : String} {hdr d0 : Str} {D' : List Str} {term : Str}
    {nkeys : Nat} {cols : List Str} {start : Option Int} {keypos : List Int} {ks : List Key}
    (h : SetupRegionA tn hdr d0 D' term nkeys cols start keypos ks) : ks.length = (d0 :: D').length := by
  have := congrArg List.length h.2.2.2.2.2.2.2
  simpa using this.symm

/-- **setup_table_AUTOUGH2 at the first line of a printed table region.**  It returns normally; the file is left one
    line behind the terminator; the table recorded under `tn` has the parsed columns, one row per printed data line
    (the keys of the lines, in order), the start of the values of the first data line as its layout, a zero matrix of
    that shape; no other table changes; the name is appended to `tablenames`; nothing else in the reader changes. -/
theorem setup_table_AUTOUGH2_whole (tn : String) (s : Rd) (a1 a2 a3 hdr u d0 : Str) (D' : List Str) (term : Str) (tail : List Str)
    (nkeys : Nat) (cols : List Str) (start : Option Int) (keypos : List Int) (ks : List Key)
    (hrest : s.pos.rest = a1 :: a2 :: a3 :: hdr :: u :: (((d0 :: D') ++ [term]) ++ tail))
    (hreg : SetupRegionA tn hdr d0 D' term nkeys cols start keypos ks) :
    ∃ s' t, setupTableAUTOUGH2 tn s = .ok ((), s') ∧
      s'.pos.no = s.pos.no + 5 + (d0 :: D').length + 1 + min 1 tail.length ∧ s'.pos.rest = tail.drop 1 ∧
      s'.tables.lookup tn = some t ∧
      t = setupTableA tn nkeys cols start keypos ks ∧
      t.cols = cols ∧ t.rows = ks.toArray ∧ t.rows.size = (d0 :: D').length ∧ t.numKeys = nkeys ∧
      t.keyPos = keypos ∧ t.numpos = [start] ∧ t.data.size = t.rows.size ∧
      (∀ m, m ≠ tn → s'.tables.lookup m = s.tables.lookup m) ∧
      s'.tablenames = s.tablenames ++ [tn] ∧
      s' = { s with pos := s'.pos, tables := s'.tables, tablenames := s'.tablenames } := by
  obtain ⟨hh, hst, hnv, hkp, hne, hD, hterm, hks⟩ := hreg
  have hlen : ks.length = (d0 :: D').length := by
    have := congrArg List.length hks
    simpa using this.symm
  refine ⟨_, _, setupTableAUTOUGH2_run tn s a1 a2 a3 hdr u d0 D' term tail nkeys cols start keypos ks hrest hh hst hnv hkp hne hD hterm hks,
    rfl, rfl, putTg_lookup_self _ _ _, rfl, rfl, rfl, ?_, rfl, rfl, rfl, setupTableA_data_size _ _ _ _ _ _,
    fun m hm => putTg_lookup_other _ _ _ _ hm, rfl, rfl⟩
  simpa [setupTableA, mkTable] using hlen

/-- **the link between set-up and reading**: the table recorded by the set-up on a region satisfies the
    table-dependent clauses of `TableRegionA` for the data lines of the same region, as soon as every data line
    splits into one value per column behind the recorded start (a condition on the printed lines alone) -/
theorem setupTableA_reads (tn : String) (hdr d0 : Str) (D' : List Str) (term : Str)
    (nkeys : Nat) (cols : List Str) (start : Option Int) (keypos : List Int) (ks : List Key)
    (hreg : SetupRegionA tn hdr d0 D' term nkeys cols start keypos ks)
    (hok : ∀ d ∈ d0 :: D', (rowOfLineA cols.length start d).isSome = true) :
    let t := setupTableA tn nkeys cols start keypos ks
    (∀ d ∈ d0 :: D', (rowOfLineA t.cols.length (t.numpos.headD none) d).isSome = true) ∧
    (d0 :: D').length ≤ t.rows.size ∧ t.data.size = t.rows.size := by
  refine ⟨hok, ?_, setupTableA_data_size _ _ _ _ _ _⟩
  have := hreg.rows_length
  simp only [setupTableA, mkTable, List.size_toArray]
  omega

/-- set-up, then reading, on the same lines: after `setup_table_AUTOUGH2` at the first line of the region, the table
    found under `tn` is one for which the data lines of the region are read completely by `read_table_AUTOUGH2` -/
theorem setup_then_read_AUTOUGH2 (tn : String) (s : Rd) (a1 a2 a3 hdr u d0 : Str) (D' : List Str) (term : Str) (tail : List Str)
    (nkeys : Nat) (cols : List Str) (start : Option Int) (keypos : List Int) (ks : List Key)
    (hrest : s.pos.rest = a1 :: a2 :: a3 :: hdr :: u :: (((d0 :: D') ++ [term]) ++ tail))
    (hreg : SetupRegionA tn hdr d0 D' term nkeys cols start keypos ks)
    (hok : ∀ d ∈ d0 :: D', (rowOfLineA cols.length start d).isSome = true) :
    ∃ s' t, setupTableAUTOUGH2 tn s = .ok ((), s') ∧ s'.tables.lookup tn = some t ∧
      (∀ d ∈ d0 :: D', (rowOfLineA t.cols.length (t.numpos.headD none) d).isSome = true) ∧
      (d0 :: D').length ≤ t.rows.size ∧ t.data.size = t.rows.size ∧
      (∀ d ∈ d0 :: D', slice d 1 6 ≠ keyword5 tn) ∧ slice term 1 6 = keyword5 tn := by
  obtain ⟨s', t, hrun, _, _, hl, ht, _⟩ := setup_table_AUTOUGH2_whole tn s a1 a2 a3 hdr u d0 D' term tail nkeys cols start keypos ks hrest hreg
  have h := setupTableA_reads tn hdr d0 D' term nkeys cols start keypos ks hreg hok
  subst ht
  exact ⟨s', _, hrun, hl, h.1, h.2.1, h.2.2, hreg.2.2.2.2.2.1, hreg.2.2.2.2.2.2.1⟩

/-! ### 5. a concrete region -/

example : SetupRegionA "element" " ELEMENT INDEX P T X\n".toList
    "    AA  1         1      0.29971E+08      0.39992E+03 -0.10000E+01\r\n".toList
    ["    AA  2         2      0.29000E+08      0.10000E+03  0.00000E+00\r\n".toList] " EEEEEEEEEEEEEEE\n".toList
    1 [['P'], ['T'], ['X']] (some 24) [4] [["AA  1".toList], ["AA  2".toList]] := by decide

example : ∀ d ∈ ["    AA  1         1      0.29971E+08      0.39992E+03 -0.10000E+01\r\n".toList,
    "    AA  2         2      0.29000E+08      0.10000E+03  0.00000E+00\r\n".toList],
    (rowOfLineA 3 (some 24) d).isSome = true := by decide

end Proofs.Whole
