/-
  C01 proofs, layer 5h: the two section kinds whose keyword line is not the bare five-letter keyword, in the
  uniform shape `StepRT` of the keyword-loop composition: MESHM (written as `MESHMAKER`) and SHORT (header line
  `SHORT` + the frequency in columns 6-7, which the reader gets — raw, or padded when PARAM read it ahead).
-/
import PyTough.Proofs.T2WholeKinds3
namespace Proofs.T2
open Py Model Model.T2 Proofs Proofs.Incon
open Gen.Sections (Rec)

/-! ### MESHM -/

theorem writeMeshEntry_length {T : Tabs} {m : MeshMaker} {ls : List Str} (h : writeMeshEntry T m = .ok ls) :
    1 ≤ ls.length := by
  cases m with
  | rz2d subs =>
    unfold writeMeshEntry writeRZ2D at h
    simp only [bind, Except.bind, pure, Except.pure] at h
    split at h
    · cases h
    · cases h; simp
  | xyz deg subs =>
    unfold writeMeshEntry writeXYZ at h
    simp only [bind, Except.bind, pure, Except.pure] at h
    repeat (split at h; · cases h)
    cases h; simp
  | minc mc =>
    unfold writeMeshEntry writeMinc at h
    simp only [bind, Except.bind, pure, Except.pure] at h
    repeat (split at h; · cases h)
    cases h; simp

theorem hdr_MESHM : HdrOf c!"MESHM" (nl c!"MESHMAKER") :=
  ⟨by decide, by decide +kernel, by decide +kernel, by decide +kernel, by decide +kernel⟩

/-- the mesh-maker entries read back from the main table -/
def canonMeshMaker (mm : List MeshMaker) : List MeshMaker :=
  mm.map (canonMesh (recOf mainTabs c!"equid") (recOf mainTabs c!"logar") (fieldAt mainTabs c!"radii2" 0)
    (fieldAt mainTabs c!"layer2" 0) (fieldAt mainTabs c!"xyz1" 0) (fieldAt mainTabs c!"xyz2" 3) (fieldAt mainTabs c!"xyz3" 0)
    (fieldAt mainTabs c!"part1" 0) (fieldAt mainTabs c!"part1" 3) (fieldAt mainTabs c!"part2" 0))

abbrev GoodMeshEntry (m : MeshMaker) : Prop :=
  GoodMesh (recOf mainTabs c!"equid") (recOf mainTabs c!"logar") (fieldAt mainTabs c!"radii2" 0) (fieldAt mainTabs c!"xyz2" 0)
    (fieldAt mainTabs c!"xyz2" 2) (fieldAt mainTabs c!"xyz2" 3) (fieldAt mainTabs c!"part1" 1) (fieldAt mainTabs c!"part1" 2) m

theorem stepRT_MESHM (d d0 : T2Data) (hxp : XpFree d0) (hne : d.meshmaker ≠ [])
    (hg : ∀ m ∈ d.meshmaker, GoodMeshEntry m)
    (hw : ∃ lss, d.meshmaker.mapM (writeMeshEntry mainTabs) = .ok lss) :
    StepRT d c!"MESHM" d0 { d0 with meshmaker := d0.meshmaker ++ canonMeshMaker d.meshmaker } := by
  obtain ⟨lss, hw⟩ := hw
  have hemp : d.meshmaker.isEmpty = false := by
    cases hd : d.meshmaker with | nil => exact absurd hd hne | cons _ _ => rfl
  have hwrite : writeSection mainTabs d c!"MESHM" = .ok (nl c!"MESHMAKER" :: (lss.flatten ++ [nl []])) := by
    show writeMeshMaker mainTabs d.meshmaker = _
    unfold writeMeshMaker
    simp only [hemp, Bool.false_eq_true, if_false, hw, bind, Except.bind, pure, Except.pure, List.cons_append,
      List.nil_append]
  refine ⟨⟨nl c!"MESHMAKER", lss.flatten ++ [nl []], hwrite, hdr_MESHM, ?_⟩, hxp⟩
  intro line _ tail _
  refine ⟨none, tail, ?_, Or.inl ⟨rfl, rfl⟩⟩
  have hlen : d.meshmaker.length < (lss.flatten ++ [nl []] ++ tail).length + 2 := by
    obtain ⟨hmap, hall⟩ := mapM_ok_map (writeMeshEntry mainTabs) [] d.meshmaker lss hw
    have h1 : lss.length = d.meshmaker.length := by rw [hmap]; simp
    have h2 : ∀ ls ∈ lss, 1 ≤ ls.length := by
      intro ls hls
      rw [hmap] at hls
      obtain ⟨s, hsm, rfl⟩ := List.mem_map.mp hls
      obtain ⟨x, hx⟩ := hall s hsm
      rw [hx]; exact writeMeshEntry_length hx
    have := flatten_length_ge h2
    simp only [List.length_append]; omega
  have h := section_roundtrip_MESHM mesh_shapes d.meshmaker lss hw hg _ hlen d0.meshmaker tail
  have h1 : xpReadable c!"MESHM" = false := by decide
  have e : lss.flatten ++ [nl []] ++ tail = lss.flatten ++ nl [] :: tail := by simp
  unfold readSection
  simp only [h1, Bool.false_and, Bool.false_eq_true, if_false]
  simp (config := { decide := true }) only [if_true, if_false, bind, Except.bind, pure, Except.pure]
  rw [e] at h ⊢
  rw [h]
  rfl

/-! ### SIMUL (the AUTOUGH2 flavour) -/

/-- the simulator string the reader gets from the line after SIMUL -/
def canonSimulator (d : T2Data) : Str := rstripNewline (slice (nl (strip d.simulator)) 0 80)

/-- SIMUL: the object has a simulator string (so the section is written) and what is read back from its line is
    not empty (so the reader's object is of the AUTOUGH2 flavour too); with no companion file, reading the
    extra-precision data does nothing -/
theorem stepRT_SIMUL (d d0 : T2Data) (hxp : XpFree d0) (hs : d.simulator ≠ []) (hc : canonSimulator d ≠ []) :
    StepRT d c!"SIMUL" d0 { d0 with simulator := canonSimulator d } := by
  have hemp : d.simulator.isEmpty = false := by
    cases hd : d.simulator with | nil => exact absurd hd hs | cons _ _ => rfl
  refine stepRT_plain [nl (strip d.simulator)] ?_ ?_ hxp
  · show (Except.ok (if d.simulator.isEmpty then [] else [nl c!"SIMUL", nl (strip d.simulator)]) : Except Exc (List Str)) = _
    rw [hemp]; rfl
  · intro line tail
    have h1 : xpReadable c!"SIMUL" = false := by decide
    have hca : (!(canonSimulator d).isEmpty) = true := by
      cases hd : canonSimulator d with | nil => exact absurd hd hc | cons _ _ => rfl
    have hrv : readValueLine .default ⟨[c!"simulator"], [{ raw := ['8', '0'], width := 80, left := false, prec := none, typ := 's' }]⟩
        [(c!"simulator", .str d0.simulator)] (nl (strip d.simulator)) = .ok [(c!"simulator", .str (canonSimulator d))] := rfl
    unfold readSection
    simp only [h1, Bool.false_and, Bool.false_eq_true, if_false]
    simp (config := { decide := true }) only [if_true, List.cons_append, List.nil_append, readline, hrv]
    have hg : (Dict.get [(c!"simulator", Val.str (canonSimulator d))] c!"simulator").getD Val.none = Val.str (canonSimulator d) := rfl
    rw [hg]
    simp only [T2Data.autough2, hca, if_true, readExtraPrecision]

/-! ### SHORT -/

/-- `read_short_output` looks at its header line only through the `short` record -/
theorem readShort_header (T : Tabs) (r : Rec) (hT : T.get c!"short" = .ok r) (blocks : List Block) (conns : List Conn)
    (gens : List Gener) (s0 : Short) (h1 h2 : Str) (ls : List Str)
    (h : readValues .default r h1 = readValues .default r h2) :
    readShort .default T blocks conns gens s0 h1 ls = readShort .default T blocks conns gens s0 h2 ls := by
  unfold readShort
  simp only [hT, bind, Except.bind, h]

theorem short_header_pad (t : Str) (ht : t = [] ∨ t.length = 2) :
    readValues .default (recOf mainTabs c!"short") (padstring (nl (c!"SHORT" ++ t))) =
      readValues .default (recOf mainTabs c!"short") (nl (c!"SHORT" ++ t)) := by
  rcases ht with rfl | h2
  · decide +kernel
  · match t, h2 with
    | [a, b], _ =>
      have hfs : (recOf mainTabs c!"short").fs = [fieldAt mainTabs c!"short" 0, fieldAt mainTabs c!"short" 1] := short_shape.fs
      unfold readValues parseString lineSpec
      rw [hfs]
      simp only [lineSpec.go, short_shape.wx, short_shape.wd]
      rfl

theorem hdr_SHORT (t : Str) (ht : t = [] ∨ t.length = 2) : HdrOf c!"SHORT" (nl (c!"SHORT" ++ t)) := by
  rcases ht with rfl | h2
  · exact ⟨by decide, by decide +kernel, by decide +kernel, by decide +kernel, by decide +kernel⟩
  · match t, h2 with
    | [a, b], _ =>
      have hS : isBlank c!"SHORT" = false := by decide +kernel
      refine ⟨by unfold nl; simp, rfl, rfl, ?_, ?_⟩
      · apply not_blank_padstring
        have : nl (c!"SHORT" ++ [a, b]) = c!"SHORT" ++ ([a, b] ++ ['\n']) := rfl
        rw [this]
        exact not_blank_append hS
      · have hmem : c!"SHORT" ∈ paramStops := by decide +kernel
        refine List.any_eq_true.mpr ⟨c!"SHORT", hmem, ?_⟩
        rfl

theorem stepRT_SHORT (d d0 : T2Data) (hxp : XpFree d0) (hg : GoodShort d0.blocks d0.conns d0.gens d.short) :
    StepRT d c!"SHORT" d0
      { d0 with short := (gsOf d.short).foldl ShortGrp.apply { d0.short with frequency := some (canonFreq d.short) } } := by
  obtain ⟨t, ht, htl⟩ := hg.freq
  have hwr := writeShort_eq d.short hg.nonempty t ht
  have key := fun rest => section_roundtrip_SHORT short_shape d0.blocks d0.conns d0.gens d.short d0.short hg rest
  refine ⟨⟨nl (c!"SHORT" ++ t), ((gsOf d.short).map ShortGrp.lines).flatten ++ [nl []], hwr, hdr_SHORT t htl, ?_⟩, hxp⟩
  intro line hline tail _
  refine ⟨none, tail, ?_, Or.inl ⟨rfl, rfl⟩⟩
  obtain ⟨header, body, hw2, hrd⟩ := key tail
  have hw3 : writeShort d.short = .ok (nl (c!"SHORT" ++ t) :: (((gsOf d.short).map ShortGrp.lines).flatten ++ [nl []])) := hwr
  rw [hw3] at hw2
  cases hw2
  have hrd' : readShort .default mainTabs d0.blocks d0.conns d0.gens d0.short line
      (((gsOf d.short).map ShortGrp.lines).flatten ++ [nl []] ++ tail) =
      .ok ((gsOf d.short).foldl ShortGrp.apply { d0.short with frequency := some (canonFreq d.short) }, tail) := by
    rcases hline with rfl | rfl
    · exact hrd
    · rw [readShort_header mainTabs _ short_shape.t _ _ _ _ _ (nl (c!"SHORT" ++ t)) _ (short_header_pad t htl)]
      exact hrd
  have h1 : xpReadable c!"SHORT" = false := by decide
  unfold readSection
  simp only [h1, Bool.false_and, Bool.false_eq_true, if_false]
  simp (config := { decide := true }) only [if_true, if_false, bind, Except.bind, pure, Except.pure]
  rw [hrd']

end Proofs.T2
